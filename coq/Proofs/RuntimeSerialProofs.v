(* Proofs about the executor machine, part C (C09): for mutations the log is a
   sequence of blocks, one per top-level field in document order. *)
From Coq Require Import List NArith ZArith Bool Arith Lia Permutation Sorted.
Import ListNotations.
From PyGql Require Import Exec.RuntimeMachine Spec.SchedSpec
  Proofs.RuntimeMachineProofs Proofs.RuntimeMachineWf.

Definition top_is (k : N) (e : entry) : Prop := entry_top e = Some k.
Definition under_p (k : N) (p : path) : Prop := hd_error p = Some k.

Lemma under_p_app k p q : under_p k p -> under_p k (p ++ q).
Proof. unfold under_p. destruct p; simpl; [discriminate|auto]. Qed.

Inductive under_k (k : N) : K -> Prop :=
| uk_complete f p : under_p k p -> under_k k (KComplete f p)
| uk_collect keys : under_k k (KCollect keys)
| uk_nonnull p : under_p k p -> under_k k (KNonNull p).

Inductive under (k : N) : D -> Prop :=
| u_val v : under k (Val v)
| u_exn x : under k (Exn x)
| u_task t m : under_p k (fst t) -> under k (Task t m)
| u_bind d kk : under k d -> under_k k kk -> under k (Bind d kk)
| u_gather ds : Forall (under k) ds -> under k (Gather ds).

(* effect of a piece of execution that belongs to top-level field k *)
Definition su (k : N) (st st' : mstate) (ok : bool) : Prop :=
  exists new newo,
    log st' = log st ++ new /\ orphans st' = orphans st ++ newo /\
    Forall (top_is k) new /\ Forall (under k) newo /\ (ok = true -> newo = []).

Lemma su_refl k st ok : su k st st ok.
Proof. exists [], []. rewrite !app_nil_r. repeat split; constructor. Qed.

Lemma su_trans k st st1 st2 ok1 ok2 :
  su k st st1 ok1 -> su k st1 st2 ok2 -> su k st st2 (ok1 && ok2).
Proof.
  intros (n1 & o1 & Hl1 & Ho1 & Hn1 & Hu1 & He1) (n2 & o2 & Hl2 & Ho2 & Hn2 & Hu2 & He2).
  exists (n1 ++ n2), (o1 ++ o2). rewrite Hl2, Hl1, Ho2, Ho1, !app_assoc. repeat split.
  - apply Forall_app. split; assumption.
  - apply Forall_app. split; assumption.
  - intros H. apply andb_prop in H. destruct H as [H1 H2]. rewrite (He1 H1), (He2 H2). reflexivity.
Qed.

Lemma su_weaken k st st' ok : su k st st' ok -> su k st st' false.
Proof.
  intros (n & o & A & B & C & D0 & _). exists n, o. repeat split; try assumption. discriminate.
Qed.

Lemma su_emit k st e : top_is k e -> su k st (emit e st) true.
Proof.
  intros H. exists [e], []. cbn. rewrite app_nil_r. repeat split; constructor; [exact H|constructor].
Qed.

Lemma su_orphan k st d : under k d -> su k st (add_orphan d st) false.
Proof.
  intros H. unfold add_orphan. destruct (is_done d); [apply su_refl|].
  exists [], [d]. cbn. rewrite app_nil_r. repeat split; try constructor; try assumption; try constructor.
  discriminate.
Qed.

Definition is_ok (r : sres) : bool := match r with SOk d => negb (is_exn d) | SRaise _ => false end.
Definition is_fok (r : fres) : bool :=
  match r with FOk ds => negb (existsb is_exn ds) | FRaise _ => false end.

Definition s_under (k : N) (r : sres * mstate) (st : mstate) : Prop :=
  su k st (snd r) (is_ok (fst r)) /\ (forall d, fst r = SOk d -> under k d).
Definition f_under (k : N) (r : fres * mstate) (st : mstate) : Prop :=
  su k st (snd r) (is_fok (fst r)) /\ (forall ds, fst r = FOk ds -> Forall (under k) ds).

Lemma add_orphans_under k ds : forall st, Forall (under k) ds -> su k st (add_orphans ds st) false.
Proof.
  unfold add_orphans. induction ds as [|d ds IH]; intros st H; simpl; [apply su_refl|].
  inversion H; subst.
  exact (su_trans _ _ _ _ _ _ (su_orphan k st d H2) (IH (add_orphan d st) H3)).
Qed.

Lemma first_exn_none ds : first_exn ds = None -> existsb is_exn ds = false.
Proof.
  induction ds as [|d ds IH]; simpl; [reflexivity|]. destruct d; simpl; auto. discriminate.
Qed.

Definition d_under (k : N) (r : D * mstate) (st : mstate) : Prop :=
  under k (fst r) /\ su k st (snd r) (negb (is_exn (fst r))).

Lemma gather_norm_under k ds st : Forall (under k) ds -> d_under k (gather_norm ds st) st.
Proof.
  intros H. unfold gather_norm. destruct (first_exn ds) as [x|].
  - split; [constructor|]. apply add_orphans_under. exact H.
  - destruct (all_vals ds); (split; [constructor; try exact H|apply su_refl]).
Qed.

Lemma gather_norm_not_exn ds st :
  is_exn (fst (gather_norm ds st)) = false -> first_exn ds = None.
Proof.
  unfold gather_norm. destruct (first_exn ds); [discriminate|reflexivity].
Qed.

Lemma items_to_s_under k r st :
  f_under k r st ->
  s_under k (match r with
             | (FOk ds, st1) => let '(d, st2) := gather_sync ds st1 in (SOk d, st2)
             | (FRaise x, st1) => (SRaise x, st1)
             end) st.
Proof.
  destruct r as [[ds|x] st1]; unfold f_under, s_under; cbn [fst snd is_ok is_fok]; intros [A B].
  - assert (Hu : Forall (under k) ds) by (apply B; reflexivity).
    unfold gather_sync. pose proof (gather_norm_under k ds st1 Hu) as [U S].
    pose proof (gather_norm_not_exn ds st1) as Hne.
    destruct (gather_norm ds st1) as [d st2]. cbn [fst snd is_ok] in *.
    split; [|intros d0 H0; inversion H0; subst; exact U].
    destruct (is_exn d) eqn:Ee; cbn [negb] in *.
    + exact (su_weaken _ _ _ _ (su_trans _ _ _ _ _ _ A S)).
    + rewrite (first_exn_none ds (Hne eq_refl)) in A. exact (su_trans _ _ _ _ _ _ A S).
  - split; [exact A|]. intros d Hd. discriminate.
Qed.

Lemma fields_to_s_under k keys r st :
  f_under k r st ->
  s_under k (match r with
             | (FOk ds, st1) => let '(d, st2) := collect_sync keys ds st1 in (SOk d, st2)
             | (FRaise x, st1) => (SRaise x, st1)
             end) st.
Proof.
  intros H. pose proof (items_to_s_under k r st H) as G.
  destruct r as [[ds|x] st1]; [|exact G]. unfold collect_sync. unfold gather_sync in G.
  destruct (gather_norm ds st1) as [g st2]. unfold s_under in *. cbn [fst snd is_ok] in *.
  destruct G as [S U]. assert (Ug : under k g) by (apply U; reflexivity).
  assert (Hdef : is_done g = false -> su k st st2 (negb (is_exn (Bind g (KCollect keys)))) /\
                 (forall d, SOk (Bind g (KCollect keys)) = SOk d -> under k d)).
  { intros Hd. split.
    - destruct g; try discriminate; exact S.
    - intros d Hd0. inversion Hd0; subst. constructor; [exact Ug|constructor]. }
  destruct g as [v|x| | |]; try (apply Hdef; reflexivity).
  - split; [exact S|]. intros d Hd. inversion Hd; subst. constructor.
  - split; [exact S|]. intros d Hd. inversion Hd; subst. constructor.
Qed.

Lemma nonnull_wrap_under k nn p r st :
  under_p k p -> s_under k r st -> s_under k (nonnull_wrap nn p r) st.
Proof.
  intros Hp. unfold nonnull_wrap. destruct nn; [|auto]. destruct r as [[d|x] st']; [|auto].
  unfold s_under. cbn [fst snd is_ok]. intros [A B].
  assert (Hd : under k d) by (apply B; reflexivity).
  assert (Hdef : is_done d = false -> s_under k (SOk (Bind d (KNonNull p)), st') st).
  { intros Hnd. split; cbn [fst snd is_ok is_exn negb].
    - destruct d; try discriminate; exact A.
    - intros d0 H0. inversion H0; subst. constructor; [exact Hd|constructor; exact Hp]. }
  destruct d as [v|x| | |]; try (apply Hdef; reflexivity).
  - cbn [fst snd is_ok is_exn negb] in *. split.
    + destruct (is_null v); [|exact A].
      exact (su_trans k st st' (emit (LErr p ENonNull) st') true true A
                      (su_emit k st' (LErr p ENonNull) Hp)).
    + intros d0 H0. inversion H0; subst. constructor.
  - split; [exact A|]. intros d0 H0. inversion H0; subst. constructor.
Qed.

Lemma f_under_cons k r1 st1 st (rest : mstate -> fres * mstate) :
  s_under k (r1, st1) st -> (forall s, f_under k (rest s) s) ->
  f_under k (match r1 with
             | SRaise x => (FRaise x, st1)
             | SOk d => match rest st1 with
                        | (FOk ds, st2) => (FOk (d :: ds), st2)
                        | (FRaise x, st2) => (FRaise x, add_orphan d st2)
                        end
             end) st.
Proof.
  unfold s_under. cbn [fst snd]. intros [A B] Hrest. destruct r1 as [d|x]; cbn [is_ok] in A.
  - assert (Hd : under k d) by (apply B; reflexivity). specialize (Hrest st1).
    destruct (rest st1) as [[ds|x] st2]; unfold f_under in *; cbn [fst snd is_fok] in *; destruct Hrest as [A2 B2].
    + split; [|intros ds0 H0; inversion H0; subst; constructor; [exact Hd|apply B2; reflexivity]].
      cbn [existsb]. rewrite negb_orb. exact (su_trans _ _ _ _ _ _ A A2).
    + split; [|intros ds0 H0; discriminate].
      exact (su_weaken _ _ _ _ (su_trans _ _ _ _ _ _ (su_trans _ _ _ _ _ _ A A2) (su_orphan k st2 d Hd))).
  - unfold f_under. cbn [fst snd is_fok]. split; [exact A|]. intros ds0 H0. discriminate.
Qed.

Lemma run_eager_under k : forall e t more st, under_p k (fst t) ->
  su k st (snd (run_eager t more e st)) true /\
  (forall t' m, fst (run_eager t more e st) = Some (t', m) -> under_p k (fst t')).
Proof.
  induction e as [|e IH]; intros t more st Ht; cbn [run_eager].
  - cbn [fst snd]. split.
    + exists [LInvoke t], []. cbn. rewrite app_nil_r.
      split; [reflexivity|]. split; [reflexivity|]. split; [constructor; [exact Ht|constructor]|].
      split; [constructor|reflexivity].
    + intros t' m H. inversion H; subst. exact Ht.
  - assert (S2 : su k st (emit (LFinish t) (emit (LInvoke t) st)) true).
    { exact (su_trans _ _ _ _ _ _ (su_emit k st (LInvoke t) Ht) (su_emit k _ (LFinish t) Ht)). }
    destruct more as [|m].
    + split; [exact S2|]. intros t' m H. discriminate.
    + destruct (IH (next_tid t) m (emit (LFinish t) (emit (LInvoke t) st)) Ht) as [S3 U3].
      split; [exact (su_trans _ _ _ _ _ _ S2 S3)|exact U3].
Qed.

Lemma capture_under k r st : s_under k r st -> s_under k (capture r) st.
Proof.
  destruct r as [[d|x] st']; [auto|]. unfold s_under. cbn [fst snd capture is_ok is_exn negb].
  intros [A _]. split; [exact A|]. intros d Hd. inversion Hd; subst. constructor.
Qed.

Section SyncUnder.
  Variable k : N.

  Lemma sync_under_all :
    (forall f p st, under_p k (p ++ [key_of f]) -> s_under k (resolve_field p f st) st) /\
    (forall b nn p st, under_p k p -> s_under k (complete_field nn b p st) st) /\
    (forall fs p st, under_p k p -> f_under k (start_fields p fs st) st) /\
    (forall its inn p i st, under_p k p -> f_under k (start_items inn p i its st) st) /\
    (forall it inn p st, under_p k p -> s_under k (complete_item inn it p st) st).
  Proof.
    apply prog_mutind.
    - intros kk dfr nn b IH p st Hp. cbn [key_of] in Hp. cbn [resolve_field]. destruct dfr as [[n e]|].
      + destruct (run_eager_under k e (p ++ [kk], O) n st Hp) as [S1 U1].
        destruct (run_eager (p ++ [kk], O) n e st) as [[[t m]|] st1]; cbn [fst snd] in *.
        * split; cbn [fst snd is_ok is_exn negb]; [exact S1|].
          intros d Hd. inversion Hd; subst.
          constructor; [constructor; apply (U1 t m eq_refl)|constructor; exact Hp].
        * apply capture_under. destruct (IH nn (p ++ [kk]) st1 Hp) as [A B]. split; [|exact B].
          exact (su_trans _ _ _ _ _ _ S1 A).
      + specialize (IH nn (p ++ [kk]) (emit (LFinish (p ++ [kk], O)) (emit (LInvoke (p ++ [kk], O)) st)) Hp).
        destruct IH as [A B]. split; [|exact B].
        pose proof (su_trans _ _ _ _ _ _
                      (su_trans _ _ _ _ _ _ (su_emit k st (LInvoke (p ++ [kk], O)) Hp)
                                (su_emit k _ (LFinish (p ++ [kk], O)) Hp)) A) as H.
        exact H.
    - intros z nn p st Hp. split; [apply su_refl|]. intros d Hd. inversion Hd. constructor.
    - intros nn p st Hp. cbn [complete_field]. split; cbn [fst snd is_ok].
      + destruct nn; [apply su_emit; exact Hp|apply su_refl].
      + intros d Hd. inversion Hd. constructor.
    - intros nn p st Hp. split; cbn [fst snd is_ok complete_field].
      + apply su_emit. exact Hp.
      + intros d Hd. inversion Hd. constructor.
    - intros x nn p st Hp. split; cbn [fst snd is_ok complete_field].
      + exists [], []. cbn. rewrite !app_nil_r. repeat split; try constructor.
      + intros d Hd. discriminate.
    - intros fs IH nn p st Hp. cbn [complete_field]. apply nonnull_wrap_under; [exact Hp|].
      apply fields_to_s_under. apply IH. exact Hp.
    - intros inn its IH nn p st Hp. cbn [complete_field]. apply nonnull_wrap_under; [exact Hp|].
      apply items_to_s_under. apply IH. exact Hp.
    - intros p st Hp. split; [apply su_refl|]. intros ds Hd. inversion Hd. constructor.
    - intros f IHf fs IHfs p st Hp. cbn [start_fields].
      pose proof (IHf p st (under_p_app k p [key_of f] Hp)) as H1.
      destruct (resolve_field p f st) as [r1 st1].
      apply (f_under_cons k r1 st1 st (start_fields p fs) H1). intros s. apply IHfs. exact Hp.
    - intros inn p i st Hp. split; [apply su_refl|]. intros ds Hd. inversion Hd. constructor.
    - intros it IHit its IHits inn p i st Hp. cbn [start_items].
      pose proof (IHit inn (p ++ [i]) st (under_p_app k p [i] Hp)) as H1.
      destruct (complete_item inn it (p ++ [i]) st) as [r1 st1].
      apply (f_under_cons k r1 st1 st (start_items inn p (N.succ i) its) H1). intros s. apply IHits. exact Hp.
    - intros inn p st Hp. cbn [complete_item]. split; cbn [fst snd is_ok].
      + destruct inn; [apply su_emit; exact Hp|apply su_refl].
      + intros d Hd. inversion Hd. constructor.
    - intros z inn p st Hp. split; [apply su_refl|]. intros d Hd. inversion Hd. constructor.
    - intros fs IH inn p st Hp. cbn [complete_item]. apply nonnull_wrap_under; [exact Hp|].
      apply fields_to_s_under. apply IH. exact Hp.
  Qed.
End SyncUnder.

Definition sync_under_field k := proj1 (sync_under_all k).
Definition sync_under_complete k := proj1 (proj2 (sync_under_all k)).

Lemma lift_under k r st : s_under k r st -> d_under k (lift r) st.
Proof.
  destruct r as [[d|x] st']; unfold s_under, d_under; cbn [fst snd lift is_ok]; intros [A B].
  - split; [apply B; reflexivity|exact A].
  - split; [constructor|exact A].
Qed.

Lemma apply_k_under k kk v st : under_k k kk -> d_under k (apply_k kk v st) st.
Proof.
  intros H. inversion H as [f p Hp|keys|p Hp]; subst; cbn [apply_k].
  - destruct f as [k0 dfr nn b]. apply lift_under. apply sync_under_complete. exact Hp.
  - split; [constructor|apply su_refl].
  - split; [constructor|]. cbn [fst snd is_exn negb].
    destruct (is_null v); [apply su_emit; exact Hp|apply su_refl].
Qed.

Lemma fire_under k t : forall d st, under k d -> d_under k (fire t d st) st.
Proof.
  induction d as [v|x|t' more|d1 kk IH|ds IH] using D_ind2; intros st Hu.
  - split; [constructor|apply su_refl].
  - split; [constructor|apply su_refl].
  - inversion Hu; subst. cbn [fire]. destruct (tid_eqb t t') eqn:Et.
    + apply tid_eqb_eq in Et. subst t'. destruct more as [|n].
      * split; [constructor|]. exists [LFinish t], []. cbn. rewrite app_nil_r.
        split; [reflexivity|]. split; [reflexivity|]. split; [constructor; [exact H0|constructor]|].
        split; [constructor|reflexivity].
      * split; [constructor; exact H0|]. exists [LFinish t; LInvoke (next_tid t)], []. cbn. rewrite app_nil_r.
        split; [reflexivity|]. split; [reflexivity|].
        split; [constructor; [exact H0|constructor; [exact H0|constructor]]|].
        split; [constructor|reflexivity].
    + split; [exact Hu|apply su_refl].
  - inversion Hu as [| | |d0 k0 Hd Hk|]; subst. cbn [fire]. specialize (IH st Hd).
    destruct (fire t d1 st) as [d1' st1]. destruct IH as [U1 S1]. cbn [fst snd] in *.
    assert (Hdef : is_done d1' = false -> d_under k (Bind d1' kk, st1) st).
    { intros Hnd. split; [constructor; assumption|]. cbn [fst snd is_exn negb].
      destruct d1'; try discriminate; exact S1. }
    destruct d1' as [v|x| | |]; try (apply Hdef; reflexivity).
    + pose proof (apply_k_under k kk v st1 Hk) as [U2 S2]. split; [exact U2|].
      exact (su_trans _ _ _ _ _ _ S1 S2).
    + split; [constructor|exact S1].
  - inversion Hu as [| | | |ds0 Hall]; subst. rewrite fire_gather.
    assert (Hl : forall st, let r := fire_list t ds st in
                 Forall (under k) (fst r) /\ su k st (snd r) (negb (existsb is_exn (fst r)))).
    { clear st Hu. induction ds as [|d ds IHds]; intros st.
      - split; [constructor|apply su_refl].
      - inversion IH as [|? ? Hd Hds]; subst. inversion Hall as [|? ? Hud Huds]; subst.
        cbn [fire_list]. specialize (Hd st Hud). destruct (fire t d st) as [d' s1].
        specialize (IHds Hds Huds s1). destruct (fire_list t ds s1) as [r' s2].
        destruct Hd as [U1 S1]. destruct IHds as [U2 S2]. cbn [fst snd] in *.
        split; [constructor; assumption|]. cbn [existsb]. rewrite negb_orb.
        exact (su_trans _ _ _ _ _ _ S1 S2). }
    specialize (Hl st). destruct (fire_list t ds st) as [ds' st1]. destruct Hl as [U1 S1]. cbn [fst snd] in *.
    pose proof (gather_norm_under k ds' st1 U1) as [U2 S2].
    split; [exact U2|].
    destruct (is_exn (fst (gather_norm ds' st1))) eqn:Ee.
    + exact (su_weaken _ _ _ _ (su_trans _ _ _ _ _ _ S1 S2)).
    + rewrite (first_exn_none ds' (gather_norm_not_exn ds' st1 Ee)) in S1.
      exact (su_trans _ _ _ _ _ _ S1 S2).
Qed.

Lemma fire_list_under k t : forall ds st, Forall (under k) ds ->
  Forall (under k) (fst (fire_list t ds st)) /\ su k st (snd (fire_list t ds st)) false.
Proof.
  induction ds as [|d ds IH]; intros st H.
  - split; [constructor|apply su_refl].
  - inversion H; subst. cbn [fire_list].
    pose proof (fire_under k t d st H2) as [U1 S1]. destruct (fire t d st) as [d' s1].
    specialize (IH s1 H3). destruct (fire_list t ds s1) as [r' s2]. destruct IH as [U2 S2].
    cbn [fst snd] in *. split; [constructor; assumption|].
    exact (su_trans _ _ _ _ _ _ (su_weaken _ _ _ _ S1) S2).
Qed.

(* ---------------------------------------------------------------- *)
(* blocks: the log as consecutive segments, one per top-level key    *)
Inductive blocks : list N -> list entry -> Prop :=
| blocks_nil ks : blocks ks []
| blocks_cons k ks l1 l2 : Forall (top_is k) l1 -> blocks ks l2 -> blocks (k :: ks) (l1 ++ l2).

Lemma blocks_skip pre : forall ks l, blocks ks l -> blocks (pre ++ ks) l.
Proof.
  induction pre as [|k pre IH]; intros ks l H; [exact H|].
  simpl. apply (blocks_cons k (pre ++ ks) [] l); [constructor|apply IH; exact H].
Qed.

Lemma blocks_app a : forall l b l', blocks a l -> blocks b l' -> blocks (a ++ b) (l ++ l').
Proof.
  intros l b l' H. revert b l'. induction H as [ks|k ks l1 l2 Hl1 H IH]; intros b l' Hb.
  - simpl. apply blocks_skip. exact Hb.
  - simpl. rewrite <- app_assoc. constructor; [exact Hl1|apply IH; exact Hb].
Qed.

Lemma blocks_empty_keys l : blocks [] l -> l = [].
Proof. intros H. inversion H. reflexivity. Qed.

Lemma blocks_extend_last pre cur : forall l new,
  blocks (pre ++ [cur]) l -> Forall (top_is cur) new -> blocks (pre ++ [cur]) (l ++ new).
Proof.
  induction pre as [|k pre IH]; intros l new H Hn; simpl in *.
  - inversion H as [|k0 ks0 l1 l2 Hl1 H2]; subst.
    + simpl. rewrite <- (app_nil_r new). constructor; [exact Hn|constructor].
    + apply blocks_empty_keys in H2. subst l2. rewrite app_nil_r.
      rewrite <- (app_nil_r (l1 ++ new)). constructor; [|constructor].
      apply Forall_app. split; assumption.
  - inversion H as [|k0 ks0 l1 l2 Hl1 H2]; subst.
    + simpl. apply (blocks_cons k (pre ++ [cur]) [] new); [constructor|].
      apply (IH [] new); [constructor|exact Hn].
    + rewrite <- app_assoc. constructor; [exact Hl1|]. apply IH; assumption.
Qed.

Lemma index_of_app_notin k pre ks : ~ In k pre -> index_of k (pre ++ k :: ks) = Some (length pre).
Proof.
  induction pre as [|x pre IH]; intros H; simpl.
  - rewrite N.eqb_refl. reflexivity.
  - destruct (N.eqb_spec k x) as [->|Hne]; [exfalso; apply H; left; reflexivity|].
    rewrite IH; [reflexivity|]. intros Hc. apply H. right. exact Hc.
Qed.

Lemma sorted_app a b :
  StronglySorted le a -> StronglySorted le b -> (forall x y, In x a -> In y b -> x <= y) ->
  StronglySorted le (a ++ b).
Proof.
  induction a as [|x a IH]; intros Ha Hb H; [exact Hb|]. simpl.
  inversion Ha; subst. constructor.
  - apply IH; [assumption|assumption|]. intros u w Hu Hw. apply H; [right; exact Hu|exact Hw].
  - apply Forall_app. split; [assumption|]. apply Forall_forall. intros y Hy. apply H; [left; reflexivity|exact Hy].
Qed.

Lemma blocks_sorted : forall ks l, blocks ks l -> forall pre, NoDup (pre ++ ks) ->
  exists idxs, map (key_index (pre ++ ks)) l = map Some idxs /\ StronglySorted le idxs /\
               Forall (fun i => length pre <= i) idxs.
Proof.
  intros ks l H. induction H as [ks|k ks l1 l2 Hl1 H IH]; intros pre Hnd.
  - exists []. repeat split; constructor.
  - assert (Hnd' : NoDup ((pre ++ [k]) ++ ks)) by (rewrite <- app_assoc; exact Hnd).
    destruct (IH (pre ++ [k]) Hnd') as (idxs2 & Hm2 & Hs2 & Hge2).
    assert (Hk : ~ In k pre).
    { apply NoDup_remove_2 in Hnd. intros Hc. apply Hnd. apply in_or_app. left. exact Hc. }
    exists (repeat (length pre) (length l1) ++ idxs2). split; [|split].
    + rewrite !map_app. f_equal.
      * clear - Hl1 Hk. induction l1 as [|e l1 IHl]; [reflexivity|]. inversion Hl1; subst. simpl.
        f_equal; [|apply IHl; assumption]. unfold key_index. rewrite H1. apply index_of_app_notin. exact Hk.
      * rewrite <- Hm2. rewrite <- app_assoc. reflexivity.
    + apply sorted_app; [| exact Hs2 |].
      * clear. induction (length l1) as [|n IHn]; simpl; [constructor|].
        constructor; [exact IHn|]. apply Forall_forall. intros y Hy. apply repeat_spec in Hy. lia.
      * intros x y Hx Hy. apply repeat_spec in Hx. subst x.
        pose proof (proj1 (Forall_forall _ _) Hge2 y Hy) as Hy'. rewrite app_length in Hy'. simpl in Hy'. lia.
    + apply Forall_app. split.
      * apply Forall_forall. intros y Hy. apply repeat_spec in Hy. lia.
      * apply Forall_forall. intros y Hy.
        pose proof (proj1 (Forall_forall _ _) Hge2 y Hy) as Hy'. rewrite app_length in Hy'. simpl in Hy'. lia.
Qed.

Lemma blocks_serial ks l : NoDup ks -> blocks ks l -> serial_trace ks l.
Proof.
  intros Hnd H. destruct (blocks_sorted ks l H [] Hnd) as (idxs & Hm & Hs & _).
  exists idxs. split; assumption.
Qed.

(* ---------------------------------------------------------------- *)
(* execute_fields_serially                                           *)
Inductive serial_res (ks : list N) (st st' : mstate) : sres -> Prop :=
| sr_done v new :
    log st' = log st ++ new -> blocks ks new -> orphans st' = orphans st ->
    serial_res ks st st' (SOk (Val v))
| sr_wait pre cur post d acc rest new :
    ks = (pre ++ [cur]) ++ post -> log st' = log st ++ new -> blocks (pre ++ [cur]) new ->
    orphans st' = orphans st -> under cur d -> keys_of rest = post ->
    serial_res ks st st' (SOk (Bind d (KSerial cur acc rest)))
| sr_raise x pre cur post new newo :
    ks = (pre ++ [cur]) ++ post -> log st' = log st ++ new -> blocks (pre ++ [cur]) new ->
    orphans st' = orphans st ++ newo -> Forall (under cur) newo ->
    serial_res ks st st' (SRaise x)
| sr_fail x pre cur post new newo :          (* a field's future had already failed *)
    ks = (pre ++ [cur]) ++ post -> log st' = log st ++ new -> blocks (pre ++ [cur]) new ->
    orphans st' = orphans st ++ newo -> Forall (under cur) newo ->
    serial_res ks st st' (SOk (Exn x)).

Lemma under_p_single k : under_p k ([] ++ [k]).
Proof. reflexivity. Qed.

Lemma serial_next_shape : forall rest acc st,
  serial_res (keys_of rest) st (snd (serial_next acc rest st)) (fst (serial_next acc rest st)).
Proof.
  induction rest as [|f rest IH]; intros acc st; cbn [serial_next keys_of].
  - cbn [fst snd]. apply (sr_done _ _ _ _ []); [rewrite app_nil_r; reflexivity|constructor|reflexivity].
  - set (k := key_of f).
    pose proof (sync_under_field k f [] st (under_p_single k)) as H1.
    destruct (resolve_field [] f st) as [r1 st1]. destruct H1 as [S1 U1]. cbn [fst snd] in *.
    destruct S1 as (new1 & newo1 & Hl1 & Ho1 & Hn1 & Hu1 & He1).
    destruct r1 as [d|x]; cbn [is_ok] in He1.
    + assert (Hud : under k d) by (apply U1; reflexivity).
      assert (Hb1 : blocks [k] new1).
      { rewrite <- (app_nil_r new1). constructor; [exact Hn1|constructor]. }
      assert (Hdef : is_done d = false ->
                serial_res (k :: keys_of rest) st st1 (SOk (Bind d (KSerial k acc rest)))).
      { intros Hnd. assert (Hne : newo1 = []) by (apply He1; destruct d; try discriminate; reflexivity).
        rewrite Hne, app_nil_r in Ho1.
        apply (sr_wait _ _ _ [] k (keys_of rest) d acc rest new1); try reflexivity; assumption. }
      destruct d as [v|x0| | |]; try (apply Hdef; reflexivity).
      * (* plain value: next field *)
        rewrite (He1 eq_refl), app_nil_r in Ho1.
        specialize (IH (acc ++ [(k, v)]) st1).
        destruct (serial_next (acc ++ [(k, v)]) rest st1) as [r2 st2]. cbn [fst snd] in *.
        inversion IH as [v' new Hl Hb Ho|pre cur post d acc' rest' new Hk Hl Hb Ho Hu Hr
                         |x pre cur post new newo Hk Hl Hb Ho Hu
                         |x pre cur post new newo Hk Hl Hb Ho Hu]; subst.
        -- apply (sr_done _ _ _ _ (new1 ++ new)).
           ++ rewrite Hl, Hl1, app_assoc. reflexivity.
           ++ constructor; assumption.
           ++ congruence.
        -- apply (sr_wait _ _ _ (k :: pre) cur (keys_of rest') d acc' rest' (new1 ++ new)); try assumption.
           ++ simpl. rewrite Hk. reflexivity.
           ++ rewrite Hl, Hl1, app_assoc. reflexivity.
           ++ simpl. constructor; assumption.
           ++ congruence.
           ++ reflexivity.
        -- apply (sr_raise _ _ _ _ (k :: pre) cur post (new1 ++ new) newo); try assumption.
           ++ simpl. rewrite Hk. reflexivity.
           ++ rewrite Hl, Hl1, app_assoc. reflexivity.
           ++ simpl. constructor; assumption.
           ++ congruence.
        -- apply (sr_fail _ _ _ _ (k :: pre) cur post (new1 ++ new) newo); try assumption.
           ++ simpl. rewrite Hk. reflexivity.
           ++ rewrite Hl, Hl1, app_assoc. reflexivity.
           ++ simpl. constructor; assumption.
           ++ congruence.
      * apply (sr_fail _ _ _ _ [] k (keys_of rest) new1 newo1); try assumption; reflexivity.
    + apply (sr_raise _ _ _ _ [] k (keys_of rest) new1 newo1); try assumption; try reflexivity.
      simpl. rewrite <- (app_nil_r new1). constructor; [exact Hn1|constructor].
Qed.

(* state invariant of a mutation whose top-level keys are ks *)
Inductive serial_inv (ks : list N) (s : state) : Prop :=
| si_run pre cur post d acc rest :
    ks = (pre ++ [cur]) ++ post -> blocks (pre ++ [cur]) (log (ms s)) -> orphans (ms s) = [] ->
    term s = Bind (Bind d (KSerial cur acc rest)) KFinish -> under cur d -> keys_of rest = post ->
    serial_inv ks s
| si_done started post :
    ks = started ++ post -> blocks started (log (ms s)) ->
    (orphans (ms s) = [] \/ exists pre cur, started = pre ++ [cur] /\ Forall (under cur) (orphans (ms s))) ->
    is_done (term s) = true ->
    serial_inv ks s.

Lemma serial_inv_blocks ks s : serial_inv ks s -> blocks ks (log (ms s)).
Proof.
  intros [pre cur post d acc rest Hk Hb _ _ _ _|started post Hk Hb _ _]; subst ks.
  - rewrite <- (app_nil_r (log (ms s))). apply blocks_app; [exact Hb|constructor].
  - rewrite <- (app_nil_r (log (ms s))). apply blocks_app; [exact Hb|constructor].
Qed.

Lemma serial_inv_start fs : serial_inv (keys_of fs) (start (Prog true fs)).
Proof.
  unfold start. pose proof (serial_next_shape fs [] st0) as H.
  destruct (serial_next [] fs st0) as [r st]. cbn [fst snd] in H.
  inversion H as [v new Hl Hb Ho|pre cur post d acc rest new Hk Hl Hb Ho Hu Hr
                  |x pre cur post new newo Hk Hl Hb Ho Hu
                  |x pre cur post new newo Hk Hl Hb Ho Hu]; subst; cbn in Hl, Ho.
  - apply (si_done _ _ (keys_of fs) []); cbn [term ms]; [rewrite app_nil_r; reflexivity| | |reflexivity].
    + rewrite Hl. exact Hb.
    + left. exact Ho.
  - apply (si_run _ _ pre cur (keys_of rest) d acc rest); cbn [term ms]; try assumption; try reflexivity.
    rewrite Hl. exact Hb.
  - apply (si_done _ _ (pre ++ [cur]) post); cbn [term ms]; [exact Hk| | |reflexivity].
    + rewrite Hl. exact Hb.
    + right. exists pre, cur. split; [reflexivity|]. rewrite Ho. exact Hu.
  - apply (si_done _ _ (pre ++ [cur]) post); cbn [term ms]; [exact Hk| | |reflexivity].
    + rewrite Hl. exact Hb.
    + right. exists pre, cur. split; [reflexivity|]. rewrite Ho. exact Hu.
Qed.

Lemma fire_done t d st : is_done d = true -> fire t d st = (d, st).
Proof. destruct d; intros H; try discriminate; reflexivity. Qed.

Lemma Forall_filter {A} (P : A -> Prop) f l : Forall P l -> Forall P (filter f l).
Proof.
  intros H. apply Forall_forall. intros x Hx. apply filter_In in Hx.
  apply (proj1 (Forall_forall P l) H x (proj1 Hx)).
Qed.

Lemma serial_inv_step ks s t s' : serial_inv ks s -> step s t = Some s' -> serial_inv ks s'.
Proof.
  intros I Hs. unfold step in Hs. destruct (mem_tid t (pending (ms s))); [|discriminate].
  set (st := MkSt (pending (ms s)) (log (ms s)) [] (raised (ms s))) in *.
  destruct I as [pre cur post d acc rest Hk Hb Ho Ht Hu Hr|started post Hk Hb Ho Hd].
  - (* a field is running *)
    rewrite Ho in Hs. rewrite Ht in Hs. cbn [fire] in Hs.
    pose proof (fire_under cur t d st Hu) as [U1 S1].
    destruct (fire t d st) as [d' sta]. cbn [fst snd] in U1, S1.
    destruct S1 as (new1 & newo1 & Hl1 & Ho1 & Hn1 & Hu1 & He1).
    unfold st in Hl1, Ho1. cbn [log orphans app] in Hl1, Ho1.
    assert (Hb1 : blocks (pre ++ [cur]) (log sta)) by (rewrite Hl1; apply blocks_extend_last; assumption).
    assert (Hdef : is_done d' = false ->
              serial_inv ks (MkState (Bind (Bind d' (KSerial cur acc rest)) KFinish)
                                   (MkSt (pending sta) (log sta) (orphans sta) (raised sta)))).
    { intros Hnd.
      apply (si_run _ _ pre cur post d' acc rest); cbn [term ms log orphans]; try assumption; try reflexivity.
      rewrite Ho1. apply He1. destruct d'; try discriminate; reflexivity. }
    destruct d' as [v|x| | |].
    + (* the field is complete: the chain continues *)
      cbn [apply_k] in Hs. rewrite (He1 eq_refl) in Ho1.
      pose proof (serial_next_shape rest (acc ++ [(cur, v)]) sta) as H2.
      destruct (serial_next (acc ++ [(cur, v)]) rest sta) as [r2 stb]. cbn [fst snd lift] in *.
      inversion H2 as [v' new Hl Hb2 Ho2|pre2 cur2 post2 d2 acc2 rest2 new Hk2 Hl Hb2 Ho2 Hu2 Hr2
                       |x pre2 cur2 post2 new newo Hk2 Hl Hb2 Ho2 Hu2
                       |x pre2 cur2 post2 new newo Hk2 Hl Hb2 Ho2 Hu2]; subst r2; cbn [lift apply_k fire_list filter app] in Hs;
        inversion Hs; subst s'; clear Hs.
      * apply (si_done _ _ ((pre ++ [cur]) ++ keys_of rest) []); cbn [term ms log orphans].
        -- rewrite app_nil_r. rewrite Hk, Hr. reflexivity.
        -- rewrite Hl. apply blocks_app; assumption.
        -- left. rewrite Ho2. exact Ho1.
        -- reflexivity.
      * apply (si_run _ _ ((pre ++ [cur]) ++ pre2) cur2 post2 d2 acc2 rest2); cbn [term ms log orphans]; try assumption; try reflexivity.
        -- rewrite Hk, <- Hr, Hk2, !app_assoc. reflexivity.
        -- rewrite Hl. rewrite <- app_assoc. apply blocks_app; assumption.
        -- rewrite Ho2. exact Ho1.
      * apply (si_done _ _ (((pre ++ [cur]) ++ pre2) ++ [cur2]) post2); cbn [term ms log orphans].
        -- rewrite Hk, <- Hr, Hk2, !app_assoc. reflexivity.
        -- rewrite Hl. rewrite <- app_assoc. apply blocks_app; assumption.
        -- right. exists ((pre ++ [cur]) ++ pre2), cur2. split; [reflexivity|].
           rewrite Ho2, Ho1. exact Hu2.
        -- reflexivity.
      * apply (si_done _ _ (((pre ++ [cur]) ++ pre2) ++ [cur2]) post2); cbn [term ms log orphans].
        -- rewrite Hk, <- Hr, Hk2, !app_assoc. reflexivity.
        -- rewrite Hl. rewrite <- app_assoc. apply blocks_app; assumption.
        -- right. exists ((pre ++ [cur]) ++ pre2), cur2. split; [reflexivity|].
           rewrite Ho2, Ho1. exact Hu2.
        -- reflexivity.
    + (* the field failed with an unexpected exception: the chain ends *)
      cbn [fire_list filter app] in Hs. inversion Hs; subst s'; clear Hs.
      apply (si_done _ _ (pre ++ [cur]) post); cbn [term ms log orphans]; try assumption; try reflexivity.
      right. exists pre, cur. split; [reflexivity|]. rewrite Ho1. exact Hu1.
    + cbn [fire_list filter app] in Hs. inversion Hs; subst s'; clear Hs. apply Hdef. reflexivity.
    + cbn [fire_list filter app] in Hs. inversion Hs; subst s'; clear Hs. apply Hdef. reflexivity.
    + cbn [fire_list filter app] in Hs. inversion Hs; subst s'; clear Hs. apply Hdef. reflexivity.
  - (* the result is there; abandoned computations of the last field may go on *)
    rewrite (fire_done t (term s) st Hd) in Hs.
    destruct Ho as [Ho|(pre & cur & -> & Hu)].
    + rewrite Ho in Hs. cbn [fire_list filter app] in Hs. inversion Hs; subst s'; clear Hs.
      apply (si_done _ _ started post); cbn [term ms log orphans]; try assumption. left. reflexivity.
    + pose proof (fire_list_under cur t (orphans (ms s)) st Hu) as [U2 S2].
      destruct (fire_list t (orphans (ms s)) st) as [os' st2]. cbn [fst snd] in *.
      destruct S2 as (new & newo & Hl & Ho2 & Hn & Hu2 & _). unfold st in Hl, Ho2. cbn [log orphans app] in Hl, Ho2.
      inversion Hs; subst s'; clear Hs.
      apply (si_done _ _ (pre ++ [cur]) post); cbn [term ms log orphans]; try assumption.
      * rewrite Hl. apply blocks_extend_last; assumption.
      * right. exists pre, cur. split; [reflexivity|]. apply Forall_app. split.
        -- apply Forall_filter. exact U2.
        -- rewrite Ho2. exact Hu2.
Qed.

Lemma serial_inv_run ks : forall sigma s s', serial_inv ks s -> run_from s sigma = Some s' -> serial_inv ks s'.
Proof.
  induction sigma as [|t sigma IH]; intros s s' I H; simpl in H.
  - inversion H; subst. exact I.
  - destruct (step s t) as [s1|] eqn:Es; [|discriminate].
    apply (IH s1 s'); [|exact H]. apply (serial_inv_step ks s t s1 I Es).
Qed.

(* at every point of every admissible schedule of a mutation *)
Theorem mutation_serial sigma fs s :
  NoDup (keys_of fs) -> run sigma (Prog true fs) = Some s -> serial_trace (keys_of fs) (log (ms s)).
Proof.
  intros Hnd H. apply blocks_serial; [exact Hnd|]. apply serial_inv_blocks.
  apply (serial_inv_run (keys_of fs) sigma (start (Prog true fs)) s (serial_inv_start fs) H).
Qed.

(* ---------------------------------------------------------------- *)
(* every top-level field is invoked; a failed one yields null; key order *)
Fixpoint flds_list (fs : flds) : list fld :=
  match fs with FNil => [] | FCons f r => f :: flds_list r end.

Lemma bs_field_invoke p f : In (LInvoke (p ++ [key_of f], O)) (snd (bs_field p f)).
Proof.
  destruct f as [k dfr nn b]. cbn [bs_field key_of]. destruct (bs_complete nn b (p ++ [k])) as [r es].
  cbn [snd]. apply in_or_app. left. destruct dfr as [[n e]|]; left; reflexivity.
Qed.

Lemma bs_fields_each : forall fs p kvs es f,
  bs_fields p fs = (Some kvs, es) -> In f (flds_list fs) ->
  In (LInvoke (p ++ [key_of f], O)) es /\
  exists v, fst (bs_field p f) = Some v /\ In (key_of f, v) kvs.
Proof.
  induction fs as [|g fs IH]; intros p kvs es f H Hin; [contradiction|].
  cbn [bs_fields] in H. pose proof (bs_field_invoke p g) as Hg.
  destruct (bs_field p g) as [r eg] eqn:Eg. destruct r as [v|]; [|discriminate].
  destruct (bs_fields p fs) as [r' es'] eqn:Ef. destruct r' as [kvs'|]; [|discriminate].
  cbn in H. inversion H; subst. cbn [snd] in Hg. destruct Hin as [<-|Hin].
  - split; [apply in_or_app; left; exact Hg|]. exists v. rewrite Eg. split; [reflexivity|left; reflexivity].
  - destruct (IH p kvs' es' f Ef Hin) as [A (w & B & C)].
    split; [apply in_or_app; right; exact A|]. exists w. split; [exact B|right; exact C].
Qed.

Theorem all_fields_invoked sigma mut fs s v es f :
  run sigma (Prog mut fs) = Some s -> pending (ms s) = [] -> bs_prog (Prog mut fs) = (Some v, es) ->
  In f (flds_list fs) ->
  In (LInvoke ([key_of f], O)) (log (ms s)) /\
  exists kvs w, term s = Val (VObj kvs) /\ map fst kvs = keys_of fs /\
                fst (bs_field [] f) = Some w /\ In (key_of f, w) kvs.
Proof.
  intros H Hp Hb Hin. destruct (run_confluent sigma (Prog mut fs) s v es H Hp Hb) as (Ht & _ & Pm).
  unfold bs_prog in Hb. destruct (bs_fields [] fs) as [r es0] eqn:Ef.
  destruct r as [kvs|]; [|discriminate]. cbn in Hb. inversion Hb; subst v es0.
  destruct (bs_fields_each fs [] kvs es f Ef Hin) as [A (w & B & C)].
  split; [apply (Permutation_in _ (Permutation_sym Pm)); exact A|].
  exists kvs, w. split; [exact Ht|]. split; [|split; assumption].
  apply (bs_fields_keys fs []). rewrite Ef. reflexivity.
Qed.

Lemma bs_field_err p k dfr nn : fst (bs_field p (Fld k dfr nn BErr)) = Some VNull.
Proof. reflexivity. Qed.
