(* C07 -- the input-type fragment of a CoerceModel schema seen as a schema of
   the validation model (Valid/ValidSchema.v, read-only), and decidable,
   proved-sound checks that two such descriptions of one real schema agree.
   Depends on Valid/ValidSchema.v only (the correspondence run loads it). *)
From PyGql Require Import Spec.CoerceSpec.
From PyGql Require Valid.ValidSchema.

Module V := PyGql.Valid.ValidSchema.

Lemma tref_eqb_eq a : forall b, V.tref_eqb a b = true -> a = b.
Proof.
  induction a; intros [ | | ] H; simpl in H; try discriminate.
  - apply str_eqb_eq in H. congruence.
  - f_equal; auto.
  - f_equal; auto.
Qed.


(* ---- the input-type fragment of a CoerceModel schema as a ValidSchema ---- *)
Definition sk_of (k : scalar_kind) : V.scalar_kind :=
  match k with
  | KInt => V.SkInt | KFloat => V.SkFloat | KString => V.SkString
  | KID => V.SkID | KBoolean => V.SkBoolean | KAny | KTag | KOdd => V.SkCustom
  end.

Fixpoint tref_of (t : ity) : V.tref :=
  match t with
  | INamed nn n => if nn then V.RNonNull (V.RNamed n) else V.RNamed n
  | IList nn t' => if nn then V.RNonNull (V.RList (tref_of t')) else V.RList (tref_of t')
  end.

Definition sarg_of (f : ifield) : V.sarg :=
  V.SArg (f_name f) (tref_of (f_ty f)) (match f_default f with Some _ => true | None => false end).

Definition tdef_of (d : tdef) : V.tdef :=
  match d with
  | TDScalar k => V.TScalar (sk_of k)
  | TDEnum vals => V.TEnum (map fst vals)
  | TDInput fs => V.TInput (map sarg_of fs)
  | TDOutput => V.TObject [] []
  end.

(* total translation; [outs] / roots / directives are whatever the request's
   schema has besides the input types (object types, Query, ...) *)
Definition valid_schema_of (s : schema) (outs : list (str * V.tdef))
           (q m sb : option str) (dirs : list (str * V.sdir)) : V.schema :=
  V.Schema (map (fun p => (fst p, tdef_of (snd p))) s ++ outs) q m sb dirs.

(* the two schema models describe the same input types *)
Definition schema_agree (s : schema) (s' : V.schema) : Prop :=
  forall n d, alookup n s = Some d -> d <> TDOutput -> V.lookup_type s' n = Some (tdef_of d).


Fixpoint list_eqb {A} (e : A -> A -> bool) (a b : list A) : bool :=
  match a, b with
  | [], [] => true
  | x :: a', y :: b' => e x y && list_eqb e a' b'
  | _, _ => false
  end.

Lemma list_eqb_eq {A} (e : A -> A -> bool) :
  (forall x y, e x y = true -> x = y) -> forall a b, list_eqb e a b = true -> a = b.
Proof.
  intros He. induction a as [|x a IH]; intros [|y b] H; simpl in H; try discriminate; auto.
  apply andb_true_iff in H as (H1 & H2). f_equal; auto.
Qed.

Definition sarg_eqb (a b : V.sarg) : bool :=
  str_eqb (V.sa_name a) (V.sa_name b) && V.tref_eqb (V.sa_type a) (V.sa_type b)
  && Bool.eqb (V.sa_default a) (V.sa_default b).

Lemma sarg_eqb_eq a b : sarg_eqb a b = true -> a = b.
Proof.
  destruct a, b. unfold sarg_eqb. simpl. intros H.
  apply andb_true_iff in H as (H & H3). apply andb_true_iff in H as (H1 & H2).
  apply str_eqb_eq in H1. apply tref_eqb_eq in H2. apply Bool.eqb_prop in H3. congruence.
Qed.

Definition sk_eqb (a b : V.scalar_kind) : bool :=
  match a, b with
  | V.SkInt, V.SkInt | V.SkFloat, V.SkFloat | V.SkString, V.SkString
  | V.SkBoolean, V.SkBoolean | V.SkID, V.SkID | V.SkCustom, V.SkCustom => true
  | _, _ => false
  end.

(* equality on the input kinds of ValidSchema type definitions *)
Definition input_tdef_eqb (a b : V.tdef) : bool :=
  match a, b with
  | V.TScalar k, V.TScalar k' => sk_eqb k k'
  | V.TEnum vs, V.TEnum vs' => list_eqb str_eqb vs vs'
  | V.TInput fs, V.TInput fs' => list_eqb sarg_eqb fs fs'
  | _, _ => false
  end.

Lemma input_tdef_eqb_eq a b : input_tdef_eqb a b = true -> a = b.
Proof.
  destruct a, b; simpl; intros H; try discriminate.
  - destruct k, k0; simpl in H; try discriminate; reflexivity.
  - f_equal. apply (list_eqb_eq str_eqb); [intros x y E; apply str_eqb_eq; exact E|exact H].
  - f_equal. apply (list_eqb_eq sarg_eqb); [exact sarg_eqb_eq|exact H].
Qed.

(* every input type of s is described identically by s' *)
Definition schema_agreeb (s : schema) (s' : V.schema) : bool :=
  forallb (fun p => match snd p with
                    | TDOutput => true
                    | d => match V.lookup_type s' (fst p) with
                           | Some d' => input_tdef_eqb d' (tdef_of d)
                           | None => false
                           end
                    end) s.

Theorem schema_agreeb_sound s s' : schema_agreeb s s' = true -> schema_agree s s'.
Proof.
  unfold schema_agreeb. rewrite forallb_forall. intros H n d Hl Hd.
  apply alookup_In in Hl. specialize (H (n, d) Hl). simpl in H.
  destruct (V.lookup_type s' n) as [d'|] eqn:E.
  - destruct d; try (apply input_tdef_eqb_eq in H; simpl; congruence). congruence.
  - destruct d; try discriminate. congruence.
Qed.

(* the field the validation model finds for (parent type, field name) takes
   exactly the translated argument definitions *)
Definition field_args_agreeb (s' : V.schema) (p n : str) (defs : list ifield) : bool :=
  match V.get_field_def s' p n with
  | Some f => list_eqb sarg_eqb (V.sf_args f) (map sarg_of defs)
  | None => false
  end.

Lemma field_args_agreeb_sound s' p n defs :
  field_args_agreeb s' p n defs = true ->
  exists f, V.get_field_def s' p n = Some f /\ V.sf_args f = map sarg_of defs.
Proof.
  unfold field_args_agreeb. destruct (V.get_field_def s' p n) as [f|]; [|discriminate].
  intros H. exists f. split; [reflexivity|]. apply (list_eqb_eq sarg_eqb); [exact sarg_eqb_eq|exact H].
Qed.

