(* C12, text level, the sub-language of type references: the text the schema
   printer writes for a type reference (names with list / non-null wrappers)
   is parsed back to that reference by the parser model of C01
   (Lang/Parser.v), through the round trip the C03 builder proved for the AST
   printer (Proofs/PrinterRoundtrip.v). *)
From PyGql Require Import Lang.PrinterModel Spec.PrinterSpec Lang.Parser Spec.GrammarSpec
                          Proofs.PrinterRoundtrip.
From PyGql Require Import Schema.SdlSchema Schema.SdlBuild Schema.SdlPrint Spec.SdlRoundtripSpec.

(* names are GraphQL names, and no "T!!" *)
Fixpoint wf_tref (t : tref) : Prop :=
  match t with
  | RNamed n => PrinterRoundtrip.valid_name n
  | RList t' => wf_tref t'
  | RNonNull t' => wf_tref t' /\ (match t' with RNonNull _ => False | _ => True end)
  end.

Lemma print_tref_pr_type t : print_tref t = pr_type (ty_of_tref t).
Proof. induction t; simpl; rewrite ?IHt; reflexivity. Qed.

Lemma strip_ty_of_tref t : strip_ty (ty_of_tref t) = ty_of_tref t.
Proof. induction t; simpl; rewrite ?IHt; reflexivity. Qed.

Lemma wf_ty_of_tref t : wf_tref t -> wf_ty (ty_of_tref t).
Proof.
  induction t; simpl; auto.
  intros [H1 H2]. split; [auto|]. destruct t; simpl in *; auto.
Qed.

Theorem type_reference_text_roundtrip fl t :
  no_location fl = true -> wf_tref t ->
  parse_type_str fl (print_tref t) = Ok (ty_of_tref t)
  /\ tref_of (ty_of_tref t) = t.
Proof.
  intros Hnl Hwf. split.
  - pose proof (type_roundtrip fl (ty_of_tref t) Hnl (wf_ty_of_tref t Hwf)) as H.
    rewrite strip_ty_of_tref in H. rewrite print_tref_pr_type. exact H.
  - clear. induction t; simpl; rewrite ?IHt; reflexivity.
Qed.
