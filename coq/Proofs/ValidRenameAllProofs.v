(* Consistent renaming of fragments, variables and aliases keeps the verdict
   of all 23 rules with a document-level specification form. *)
From PyGql Require Import Valid.ValidOverlap Spec.ValidSpec Spec.ValidLocalSpec Proofs.ValidCloseProofs
     Proofs.ValidGraphProofs Proofs.ValidVarProofs Proofs.ValidPermProofs Proofs.ValidStaticProofs
     Proofs.ValidUniqueProofs Proofs.ValidUnusedProofs Proofs.ValidLocalProofs Proofs.ValidVerdictProofs
     Proofs.ValidSelPermProofs Proofs.ValidPermAllProofs Proofs.ValidSelPermAllProofs Proofs.ValidRenameProofs.
From Coq Require Import Lia.

(* ---- what the local rules look at in a node, a directive, a definition ---- *)
Definition sub_len (df : definition) : option nat :=
  match df with DOperation OpSubscription _ _ _ _ sels _ => Some (length sels) | _ => None end.
Definition frag_tc (df : definition) : option ty :=
  match df with DFragment _ _ tc _ _ _ _ => Some tc | _ => None end.

Section Transfer.
  Variables (s : schema) (d1 d2 : document) (ft1 ft2 : str -> option tref).

  Definition nsim (z1 z2 : selection) : Prop :=
    match z1, z2 with
    | SField _ n args dirs sl _ _, SField _ n' args' dirs' sl' _ _ =>
        n_val n = n_val n' /\ arg_names args = arg_names args' /\ dir_names dirs = dir_names dirs'
        /\ (sl = None <-> sl' = None)
    | SSpread n dirs _, SSpread n' dirs' _ => ft1 (n_val n) = ft2 (n_val n') /\ dir_names dirs = dir_names dirs'
    | SInline tc dirs _ _ _, SInline tc' dirs' _ _ _ => tc = tc' /\ dir_names dirs = dir_names dirs'
    | _, _ => False
    end.
  Definition dsim (a b : directive) : Prop :=
    n_val (d_name a) = n_val (d_name b) /\ arg_names (d_args a) = arg_names (d_args b).
  Definition fsim (a b : definition) : Prop :=
    (is_operation a <-> is_operation b) /\ ((exists f, fragment_named a f) <-> (exists f, fragment_named b f))
    /\ sub_len a = sub_len b /\ frag_tc a = frag_tc b
    /\ map vd_type (op_vars a) = map vd_type (op_vars b)
    /\ (NoDup (map (fun vd => n_val (vd_var vd)) (op_vars a)) -> NoDup (map (fun vd => n_val (vd_var vd)) (op_vars b)))
    /\ def_location a = def_location b /\ dir_names (def_dirs a) = dir_names (def_dirs b).

  Hypothesis PR : forall q z2, reaches s d2 q z2 -> exists z1, reaches s d1 q z1 /\ nsim z1 z2.
  Hypothesis PD : forall w dr2, directive_at s d2 w dr2 -> exists dr1, directive_at s d1 w dr1 /\ dsim dr1 dr2.
  Hypothesis PF : forall df2, In df2 (doc_defs d2) -> exists df1, In df1 (doc_defs d1) /\ fsim df1 df2.
  Hypothesis PV : forall v2, value_in_doc s d2 v2 -> exists v1, value_in_doc s d1 v1 /\ (objects_unique v1 -> objects_unique v2).

  Lemma t_executable : spec_executable_definitions d1 -> spec_executable_definitions d2.
  Proof. intros H df Hdf. destruct (PF df Hdf) as [df1 [H1 (Ho & Hf & _)]]. destruct (H df1 H1); [left|right]; tauto. Qed.

  Lemma t_subscriptions : spec_single_field_subscriptions d1 -> spec_single_field_subscriptions d2.
  Proof.
    intros H n vds dirs ssl sels l Hin. destruct (PF _ Hin) as [df1 [H1 (_ & _ & Hs & _)]]. simpl in Hs.
    destruct df1; simpl in Hs; try discriminate. destruct k; try discriminate. injection Hs as E. rewrite <- E. eapply H. exact H1.
  Qed.

  Lemma vd_type_in {A} (f : var_def -> A) l1 l2 vd :
    map f l1 = map f l2 -> In vd l2 -> exists vd1, In vd1 l1 /\ f vd1 = f vd.
  Proof.
    revert l1. induction l2 as [|b l2 IH]; intros [|a l1] E Hin; simpl in *; try discriminate; [destruct Hin|].
    inversion E. destruct Hin as [<-|Hin]; [exists a; tauto|]. destruct (IH l1 H1 Hin) as [x [Hx Ex]]. exists x. tauto.
  Qed.

  Lemma t_known_types : spec_known_type_names s d1 -> spec_known_type_names s d2.
  Proof.
    intros H df vd Hdf Hvd. destruct (PF df Hdf) as [df1 [H1 (_ & _ & _ & _ & Ht & _)]].
    destruct (vd_type_in vd_type _ _ vd Ht Hvd) as [vd1 [Hv1 E]]. rewrite <- E. eapply H; eassumption.
  Qed.
  Lemma t_input_types : spec_variables_are_input_types s d1 -> spec_variables_are_input_types s d2.
  Proof.
    intros H df vd Hdf Hvd. destruct (PF df Hdf) as [df1 [H1 (_ & _ & _ & _ & Ht & _)]].
    destruct (vd_type_in vd_type _ _ vd Ht Hvd) as [vd1 [Hv1 E]]. rewrite <- E. eapply H; eassumption.
  Qed.
  Lemma t_unique_vars : spec_unique_variable_names d1 -> spec_unique_variable_names d2.
  Proof. intros H df Hdf. destruct (PF df Hdf) as [df1 [H1 (_ & _ & _ & _ & _ & Hn & _)]]. apply Hn. apply H. exact H1. Qed.

  Lemma t_composite : spec_fragments_on_composite s d1 -> spec_fragments_on_composite s d2.
  Proof.
    intros [Ha Hb]. split.
    - intros n vds tc dirs ssl sels l Hin. destruct (PF _ Hin) as [df1 [H1 (_ & _ & _ & Ht & _)]]. simpl in Ht.
      destruct df1; simpl in Ht; try discriminate. inversion Ht; subst. eapply Ha. exact H1.
    - intros q t dirs ssl sub l Hr. destruct (PR _ _ Hr) as [z1 [H1 Hs]].
      destruct z1; simpl in Hs; try contradiction. destruct Hs as [-> _]. eapply Hb. exact H1.
  Qed.

  Lemma t_fields : spec_fields_on_correct_type s d1 -> spec_fields_on_correct_type s d2.
  Proof.
    intros H p a n args dirs sl sub l Hr. destruct (PR _ _ Hr) as [z1 [H1 Hs]].
    destruct z1; simpl in Hs; try contradiction. destruct Hs as (En & _). rewrite <- En. eapply H. exact H1.
  Qed.

  Lemma t_leafs : spec_scalar_leafs s d1 -> spec_scalar_leafs s d2.
  Proof.
    intros H (p & a & n & args & dirs & sl & sub & l & f & Hr & Hdef & Hbad). apply H.
    destruct (PR _ _ Hr) as [z1 [H1 Hs]]. destruct z1 as [a1 n1 args1 dirs1 sl1 sub1 l1| |]; simpl in Hs; try contradiction.
    destruct Hs as (En & _ & _ & Hsl). exists p, a1, n1, args1, dirs1, sl1, sub1, l1, f.
    split; [exact H1|]. split; [rewrite En; exact Hdef|].
    destruct Hbad as [[Hl Hne]|[Hc He]]; [left|right]; (split; [assumption|]); tauto.
  Qed.

  Lemma t_spreads : spec_possible_spreads s d1 ft1 -> spec_possible_spreads s d2 ft2.
  Proof.
    intros [Ha Hb]. split.
    - intros p n dirs l ft Hr Hft Hc. destruct (PR _ _ Hr) as [z1 [H1 Hs]].
      destruct z1; simpl in Hs; try contradiction. destruct Hs as [Et _]. eapply Ha; [exact H1| |exact Hc]. congruence.
    - intros p t dirs ssl sub l ft Hr. destruct (PR _ _ Hr) as [z1 [H1 Hs]].
      destruct z1; simpl in Hs; try contradiction. destruct Hs as [-> _]. eapply Hb. exact H1.
  Qed.

  Lemma t_known_directives : spec_known_directives s d1 -> spec_known_directives s d2.
  Proof. intros H w dr Hat. destruct (PD w dr Hat) as [dr1 [H1 [En _]]]. rewrite <- En. apply H. exact H1. Qed.

  Lemma t_unique_directives : spec_unique_directives s d1 -> spec_unique_directives s d2.
  Proof.
    intros [Ha Hb]. split.
    - intros q z Hr. destruct (PR _ _ Hr) as [z1 [H1 Hs]]. specialize (Ha _ _ H1).
      destruct z1, z; simpl in Hs; try contradiction; simpl in *.
      + destruct Hs as (_ & _ & E & _). rewrite <- E. exact Ha.
      + destruct Hs as (_ & E). rewrite <- E. exact Ha.
      + destruct Hs as (_ & E). rewrite <- E. exact Ha.
    - intros df Hdf Hloc. destruct (PF df Hdf) as [df1 [H1 (_ & _ & _ & _ & _ & _ & El & Ed)]].
      rewrite <- Ed. apply Hb; [exact H1|]. rewrite El. exact Hloc.
  Qed.

  Lemma t_known_args : spec_known_argument_names s d1 -> spec_known_argument_names s d2.
  Proof.
    intros [Ha Hb]. split.
    - intros p a n args dirs sl sub l f Hr E. destruct (PR _ _ Hr) as [z1 [H1 Hs]].
      destruct z1; simpl in Hs; try contradiction. destruct Hs as (En & Ea & _). rewrite <- Ea. eapply Ha; [exact H1|]. rewrite En. exact E.
    - intros w dr dd Hat E. destruct (PD w dr Hat) as [dr1 [H1 [En Ea]]]. rewrite <- Ea. eapply Hb; [exact H1|]. rewrite En. exact E.
  Qed.

  Lemma t_unique_args : spec_unique_argument_names s d1 -> spec_unique_argument_names s d2.
  Proof.
    intros [Ha Hb]. split.
    - intros q a n args dirs sl sub l Hr. destruct (PR _ _ Hr) as [z1 [H1 Hs]].
      destruct z1; simpl in Hs; try contradiction. destruct Hs as (_ & Ea & _). rewrite <- Ea. eapply Ha. exact H1.
    - intros w dr Hat. destruct (PD w dr Hat) as [dr1 [H1 [_ Ea]]]. rewrite <- Ea. apply (Hb w). exact H1.
  Qed.

  Lemma t_required : spec_provided_required_arguments s d1 -> spec_provided_required_arguments s d2.
  Proof.
    intros [Ha Hb]. split.
    - intros p a n args dirs sl sub l f Hr E. destruct (PR _ _ Hr) as [z1 [H1 Hs]].
      destruct z1; simpl in Hs; try contradiction. destruct Hs as (En & Ea & _). unfold required_provided. rewrite <- Ea.
      eapply Ha; [exact H1|]. rewrite En. exact E.
    - intros w dr dd Hat E. destruct (PD w dr Hat) as [dr1 [H1 [En Ea]]]. unfold required_provided. rewrite <- Ea.
      eapply Hb; [exact H1|]. rewrite En. exact E.
  Qed.

  Lemma t_input_fields : spec_unique_input_field_names s d1 -> spec_unique_input_field_names s d2.
  Proof. intros H v Hv. destruct (PV v Hv) as [v1 [H1 Hu]]. apply Hu. apply H. exact H1. Qed.
End Transfer.

(* ---- the renaming relation gives the pull-backs, in both directions ---- *)
Section Ren.
  Variables rho sigma : str -> str.
  Hypothesis rho_inj : forall a b, rho a = rho b -> a = b.
  Hypothesis sigma_inj : forall a b, sigma a = sigma b -> a = b.
  Notation rsel := (ren_sel rho sigma).
  Notation rdef := (ren_def rho sigma).
  Notation rdoc := (ren_doc rho sigma).

  Lemma ren_args_names a a' : ren_args sigma a a' -> arg_names a = arg_names a'.
  Proof. unfold arg_names. induction 1 as [|x y l m [E _] HF IH]; simpl; [reflexivity|]. rewrite E, IH. reflexivity. Qed.
  Lemma ren_dirs_names a a' : ren_dirs sigma a a' -> dir_names a = dir_names a'.
  Proof. unfold dir_names. induction 1 as [|x y l m [E _] HF IH]; simpl; [reflexivity|]. rewrite E, IH. reflexivity. Qed.

  Lemma ren_value_unique : forall v v', ren_value sigma v v' -> (objects_unique v <-> objects_unique v').
  Proof.
    induction v as [n l|x l|x l|x b l|b l|l|x l|vs l IH|fs l IH] using value_ind'; intros v' Hr; inversion Hr; subst;
      try (split; intros _; constructor; fail).
    - rewrite Forall_forall in IH.
      match goal with HF : Forall2 _ vs ?vs' |- _ => rename HF into HF2 end.
      split; intros H; inversion H; subst; constructor; apply Forall_forall; intros x Hx.
      + destruct (Forall2_In_r _ _ _ _ HF2 Hx) as [x0 [Hx0 Hr0]]. apply (IH x0 Hx0 x Hr0).
        match goal with F : Forall objects_unique vs |- _ => rewrite Forall_forall in F; apply F; exact Hx0 end.
      + destruct (Forall2_In_l _ _ _ _ HF2 Hx) as [x1 [Hx1 Hr1]]. apply (IH x Hx x1 Hr1).
        match goal with F : Forall objects_unique _ |- _ => rewrite Forall_forall in F; apply F; exact Hx1 end.
    - rewrite Forall_forall in IH.
      match goal with HF : Forall2 _ fs ?fs' |- _ => rename HF into HF2 end.
      assert (Hnames : map (fun f => n_val (fst (fst f))) fs = map (fun f => n_val (fst (fst f))) fs').
      { clear IH Hr. induction HF2 as [|a b l1 l2 [E _] HF IHF]; simpl; [reflexivity|]. rewrite E, IHF. reflexivity. }
      split; intros H; inversion H as [| | | | | | | |fs0 l0 N F]; subst; constructor.
      + rewrite <- Hnames. exact N.
      + apply Forall_forall. intros f Hf. destruct (Forall2_In_r _ _ _ _ HF2 Hf) as [f0 [Hf0 [_ Hr0]]].
        apply (IH f0 Hf0 _ Hr0). rewrite Forall_forall in F. apply F. exact Hf0.
      + rewrite Hnames. exact N.
      + apply Forall_forall. intros f Hf. destruct (Forall2_In_l _ _ _ _ HF2 Hf) as [f1 [Hf1 [_ Hr1]]].
        apply (IH f Hf _ Hr1). rewrite Forall_forall in F. apply F. exact Hf1.
  Qed.

  Lemma descends_ren_fwd s p x q z :
    descends s p x q z -> forall x', rsel x x' -> exists z', descends s p x' q z' /\ rsel z z'.
  Proof.
    induction 1 as [p x|p a n args dirs l0 sub l y q z Hy Hd IH|p t dirs ssl sub l y q z Hy Hd IH
                    |p dirs ssl sub l y q z Hy Hd IH]; intros x' Hp.
    - exists x'. split; [constructor|exact Hp].
    - inversion Hp; subst. match goal with HF : Forall2 (ren_sel _ _) sub _ |- _ =>
        destruct (Forall2_In_l _ _ _ _ HF Hy) as [y' [Hy' Hr]] end.
      destruct (IH y' Hr) as [z' [Hd' Hz]]. exists z'. split; [eapply desc_field; eassumption|exact Hz].
    - inversion Hp; subst. match goal with HF : Forall2 (ren_sel _ _) sub _ |- _ =>
        destruct (Forall2_In_l _ _ _ _ HF Hy) as [y' [Hy' Hr]] end.
      destruct (IH y' Hr) as [z' [Hd' Hz]]. exists z'. split; [eapply desc_inline_on; eassumption|exact Hz].
    - inversion Hp; subst. match goal with HF : Forall2 (ren_sel _ _) sub _ |- _ =>
        destruct (Forall2_In_l _ _ _ _ HF Hy) as [y' [Hy' Hr]] end.
      destruct (IH y' Hr) as [z' [Hd' Hz]]. exists z'. split; [eapply desc_inline; eassumption|exact Hz].
  Qed.

  Lemma descends_ren_bwd s p x' q z' :
    descends s p x' q z' -> forall x, rsel x x' -> exists z, descends s p x q z /\ rsel z z'.
  Proof.
    induction 1 as [p x'|p a n args dirs l0 sub l y q z Hy Hd IH|p t dirs ssl sub l y q z Hy Hd IH
                    |p dirs ssl sub l y q z Hy Hd IH]; intros x Hp.
    - exists x. split; [constructor|exact Hp].
    - inversion Hp; subst. match goal with HF : Forall2 (ren_sel _ _) _ sub |- _ =>
        destruct (Forall2_In_r _ _ _ _ HF Hy) as [y0 [Hy0 Hr]] end.
      destruct (IH y0 Hr) as [z0 [Hd0 Hz]]. exists z0. split; [eapply desc_field; eassumption|exact Hz].
    - inversion Hp; subst. match goal with HF : Forall2 (ren_sel _ _) _ sub |- _ =>
        destruct (Forall2_In_r _ _ _ _ HF Hy) as [y0 [Hy0 Hr]] end.
      destruct (IH y0 Hr) as [z0 [Hd0 Hz]]. exists z0. split; [eapply desc_inline_on; eassumption|exact Hz].
    - inversion Hp; subst. match goal with HF : Forall2 (ren_sel _ _) _ sub |- _ =>
        destruct (Forall2_In_r _ _ _ _ HF Hy) as [y0 [Hy0 Hr]] end.
      destruct (IH y0 Hr) as [z0 [Hd0 Hz]]. exists z0. split; [eapply desc_inline; eassumption|exact Hz].
  Qed.

  Lemma ren_def_parent s df df' : rdef df df' -> def_parent s df = def_parent s df'.
  Proof. intros H. destruct H; reflexivity. Qed.

  Lemma rho_eqb a b : str_eqb (rho a) (rho b) = str_eqb a b.
  Proof.
    destruct (str_eqb_spec a b) as [->|Hne]; [apply str_eqb_refl|].
    destruct (str_eqb_spec (rho a) (rho b)) as [E|]; [exfalso; apply Hne; apply rho_inj; exact E|reflexivity].
  Qed.

  Lemma frag_exists_ren l m f : Forall2 rdef l m ->
    existsb (fun y => match frag_name y with Some f' => str_eqb (rho f) f' | None => false end) m
    = existsb (fun y => match frag_name y with Some f' => str_eqb f f' | None => false end) l.
  Proof.
    induction 1 as [|x y l m Hxy HF IHF]; [reflexivity|]. simpl. rewrite IHF.
    destruct (ren_def_facts rho sigma _ _ Hxy) as (_ & _ & Hn & _). rewrite Hn.
    destruct (frag_name x); simpl; [rewrite rho_eqb|]; reflexivity.
  Qed.

  Lemma frag_type_of_ren_list s l m f : Forall2 rdef l m -> frag_type_of s m (rho f) = frag_type_of s l f.
  Proof.
    induction 1 as [|a b l m Hab HF IH]; [reflexivity|]. simpl. rewrite IH, (frag_exists_ren l m f HF).
    destruct Hab as [| n n' vds tc dirs dirs' ssl sels sels' l0 HN HD HS]; [reflexivity|].
    rewrite HN, rho_eqb. reflexivity.
  Qed.

  Lemma op_count_ren l m : Forall2 rdef l m ->
    length (filter (fun x => match x with DOperation _ _ _ _ _ _ _ => true | _ => false end) l)
    = length (filter (fun x => match x with DOperation _ _ _ _ _ _ _ => true | _ => false end) m).
  Proof. induction 1 as [|a b l m Hab HF IH]; [reflexivity|]. simpl. destruct Hab; simpl; lia. Qed.

  Section Docs.
    Variables (s : schema) (d d' : document).
    Hypothesis Hdp : rdoc d d'.

    Lemma reaches_ren_fwd q z : reaches s d q z -> exists z', reaches s d' q z' /\ rsel z z'.
    Proof.
      intros (df & x & Hdf & Hx & Hd). destruct (Forall2_In_l _ _ _ _ Hdp Hdf) as [df' [Hdf' Hr]].
      destruct (Forall2_In_l _ _ _ _ (def_sels_ren rho sigma _ _ Hr) Hx) as [x' [Hx' Hxr]].
      destruct (descends_ren_fwd _ _ _ _ _ Hd x' Hxr) as [z' [Hd' Hz]].
      exists z'. split; [|exact Hz]. exists df', x'. rewrite <- (ren_def_parent s df df' Hr). tauto.
    Qed.
    Lemma reaches_ren_bwd q z' : reaches s d' q z' -> exists z, reaches s d q z /\ rsel z z'.
    Proof.
      intros (df' & x' & Hdf' & Hx' & Hd). destruct (Forall2_In_r _ _ _ _ Hdp Hdf') as [df [Hdf Hr]].
      destruct (Forall2_In_r _ _ _ _ (def_sels_ren rho sigma _ _ Hr) Hx') as [x [Hx Hxr]].
      rewrite <- (ren_def_parent s df df' Hr) in Hd.
      destruct (descends_ren_bwd _ _ _ _ _ Hd x Hxr) as [z [Hd0 Hz]].
      exists z. split; [|exact Hz]. exists df, x. tauto.
    Qed.

    Lemma rsel_node z z' : rsel z z' -> ren_dirs sigma (node_dirs z) (node_dirs z') /\ node_location z = node_location z'.
    Proof. intros H. destruct H; simpl; tauto. Qed.
    Lemma rdef_dirs df df' : rdef df df' -> ren_dirs sigma (def_dirs df) (def_dirs df') /\ def_location df = def_location df'.
    Proof. intros H. destruct H; simpl; tauto. Qed.

    Lemma directive_at_ren_fwd w dr : directive_at s d w dr ->
      exists dr', directive_at s d' w dr' /\ n_val (d_name dr') = n_val (d_name dr) /\ ren_args sigma (d_args dr) (d_args dr').
    Proof.
      intros [(q & z & Hr & Hdr & ->)|(df & Hdf & Hdr & Hw)].
      - destruct (reaches_ren_fwd q z Hr) as [z' [Hr' Hz]]. destruct (rsel_node z z' Hz) as [HF Hloc].
        destruct (Forall2_In_l _ _ _ _ HF Hdr) as [dr' [Hdr' Hp]]. exists dr'. split; [|exact Hp].
        left. exists q, z'. rewrite Hloc. tauto.
      - destruct (Forall2_In_l _ _ _ _ Hdp Hdf) as [df' [Hdf' Hr]]. destruct (rdef_dirs df df' Hr) as [HF Hloc].
        destruct (Forall2_In_l _ _ _ _ HF Hdr) as [dr' [Hdr' Hp]]. exists dr'. split; [|exact Hp].
        right. exists df'. rewrite <- Hloc. tauto.
    Qed.
    Lemma directive_at_ren_bwd w dr' : directive_at s d' w dr' ->
      exists dr, directive_at s d w dr /\ n_val (d_name dr') = n_val (d_name dr) /\ ren_args sigma (d_args dr) (d_args dr').
    Proof.
      intros [(q & z' & Hr & Hdr & ->)|(df' & Hdf' & Hdr & Hw)].
      - destruct (reaches_ren_bwd q z' Hr) as [z [Hr0 Hz]]. destruct (rsel_node z z' Hz) as [HF Hloc].
        destruct (Forall2_In_r _ _ _ _ HF Hdr) as [dr [Hdr0 Hp]]. exists dr. split; [|exact Hp].
        left. exists q, z. rewrite <- Hloc. tauto.
      - destruct (Forall2_In_r _ _ _ _ Hdp Hdf') as [df [Hdf Hr]]. destruct (rdef_dirs df df' Hr) as [HF Hloc].
        destruct (Forall2_In_r _ _ _ _ HF Hdr) as [dr [Hdr0 Hp]]. exists dr. split; [|exact Hp].
        right. exists df. rewrite Hloc. tauto.
    Qed.

    Lemma frag_type_of_ren f : frag_type_of s (doc_defs d') (rho f) = frag_type_of s (doc_defs d) f.
    Proof. apply frag_type_of_ren_list. exact Hdp. Qed.

    Lemma node_sim_fwd z z' : rsel z z' ->
      nsim (frag_type_of s (doc_defs d)) (frag_type_of s (doc_defs d')) z z'.
    Proof.
      intros H. destruct H as [a a' n args args' dirs dirs' sl sub sub' l HA HD HS|n n' dirs dirs' l HN HD|tc dirs dirs' ssl sub sub' l HD HS]; simpl.
      - split; [reflexivity|]. split; [apply ren_args_names; exact HA|]. split; [apply ren_dirs_names; exact HD|tauto].
      - split; [rewrite HN, frag_type_of_ren; reflexivity|apply ren_dirs_names; exact HD].
      - split; [reflexivity|apply ren_dirs_names; exact HD].
    Qed.
    Lemma node_sim_bwd z z' : rsel z z' ->
      nsim (frag_type_of s (doc_defs d')) (frag_type_of s (doc_defs d)) z' z.
    Proof.
      intros H. destruct H as [a a' n args args' dirs dirs' sl sub sub' l HA HD HS|n n' dirs dirs' l HN HD|tc dirs dirs' ssl sub sub' l HD HS]; simpl.
      - split; [reflexivity|]. split; [symmetry; apply ren_args_names; exact HA|]. split; [symmetry; apply ren_dirs_names; exact HD|tauto].
      - split; [rewrite HN, frag_type_of_ren; reflexivity|symmetry; apply ren_dirs_names; exact HD].
      - split; [reflexivity|symmetry; apply ren_dirs_names; exact HD].
    Qed.

    Lemma NoDup_map_sigma l : NoDup l -> NoDup (map sigma l).
    Proof.
      induction 1 as [|x l Hx Hl IH]; simpl; constructor; [|exact IH].
      intros Hin. apply in_map_iff in Hin. destruct Hin as [y [E Hy]]. apply sigma_inj in E. subst. contradiction.
    Qed.

    Lemma vds_facts vds vds' :
      Forall2 (fun vd vd' => n_val (vd_var vd') = sigma (n_val (vd_var vd)) /\ vd_type vd' = vd_type vd
                             /\ ren_default sigma (vd_default vd) (vd_default vd')) vds vds' ->
      map vd_type vds = map vd_type vds' /\
      map (fun vd => n_val (vd_var vd)) vds' = map sigma (map (fun vd => n_val (vd_var vd)) vds).
    Proof. induction 1 as [|a b l m (En & Et & _) HF [IH1 IH2]]; simpl; [tauto|]. rewrite Et, IH1, En, IH2. tauto. Qed.

    Lemma def_sim_fwd df df' : rdef df df' -> fsim df df'.
    Proof.
      intros H. destruct H as [k n vds vds' dirs dirs' ssl sels sels' l HV HD HS|n n' vds tc dirs dirs' ssl sels sels' l HN HD HS];
        unfold fsim; simpl.
      - destruct (vds_facts _ _ HV) as [Ht Hn]. pose proof (Forall2_len _ _ _ HS) as Hlen.
        split; [tauto|]. split; [split; intros [f []]|]. split; [destruct k; try reflexivity; rewrite Hlen; reflexivity|].
        split; [reflexivity|]. split; [exact Ht|]. split; [intros N; rewrite Hn; apply NoDup_map_sigma; exact N|].
        split; [reflexivity|apply ren_dirs_names; exact HD].
      - split; [tauto|]. split; [split; intros _; eexists; reflexivity|]. split; [reflexivity|]. split; [reflexivity|].
        split; [reflexivity|]. split; [intros _; constructor|]. split; [reflexivity|apply ren_dirs_names; exact HD].
    Qed.
    Lemma def_sim_bwd df df' : rdef df df' -> fsim df' df.
    Proof.
      intros H. destruct H as [k n vds vds' dirs dirs' ssl sels sels' l HV HD HS|n n' vds tc dirs dirs' ssl sels sels' l HN HD HS];
        unfold fsim; simpl.
      - destruct (vds_facts _ _ HV) as [Ht Hn]. pose proof (Forall2_len _ _ _ HS) as Hlen.
        split; [tauto|]. split; [split; intros [f []]|]. split; [destruct k; try reflexivity; rewrite Hlen; reflexivity|].
        split; [reflexivity|]. split; [symmetry; exact Ht|].
        split; [intros N; rewrite Hn in N; apply NoDup_map_inv in N; exact N|].
        split; [reflexivity|symmetry; apply ren_dirs_names; exact HD].
      - split; [tauto|]. split; [split; intros _; eexists; reflexivity|]. split; [reflexivity|]. split; [reflexivity|].
        split; [reflexivity|]. split; [intros _; constructor|]. split; [reflexivity|symmetry; apply ren_dirs_names; exact HD].
    Qed.

    Lemma args_value a a' x : ren_args sigma a a' -> In x a -> exists x', In x' a' /\ ren_value sigma (a_val x) (a_val x').
    Proof. intros HF Hx. destruct (Forall2_In_l _ _ _ _ HF Hx) as [x' [Hx' [_ Hr]]]. eauto. Qed.
    Lemma args_value_r a a' x' : ren_args sigma a a' -> In x' a' -> exists x, In x a /\ ren_value sigma (a_val x) (a_val x').
    Proof. intros HF Hx. destruct (Forall2_In_r _ _ _ _ HF Hx) as [x [Hx0 [_ Hr]]]. eauto. Qed.

    Lemma value_in_doc_bwd v' : value_in_doc s d' v' -> exists v, value_in_doc s d v /\ ren_value sigma v v'.
    Proof.
      intros [(q & a & n & args' & dirs & sl & sub & l & x' & Hr & Hx & <-)|[(w & dr' & x' & Hat & Hx & <-)|(df' & vd' & Hdf' & Hvd & Hv)]].
      - destruct (reaches_ren_bwd _ _ Hr) as [z [Hr0 Hz]]. inversion Hz; subst.
        match goal with HA : ren_args _ ?args0 args' |- _ => destruct (args_value_r _ _ _ HA Hx) as [x [Hx0 Hv]] end.
        exists (a_val x). split; [|exact Hv]. left. do 9 eexists. split; [exact Hr0|]. split; [exact Hx0|reflexivity].
      - destruct (directive_at_ren_bwd _ _ Hat) as [dr [Hat0 [_ HA]]]. destruct (args_value_r _ _ _ HA Hx) as [x [Hx0 Hv]].
        exists (a_val x). split; [|exact Hv]. right. left. exists w, dr, x. tauto.
      - destruct (Forall2_In_r _ _ _ _ Hdp Hdf') as [df [Hdf Hr]].
        destruct Hr as [k n vds vds' dirs dirs' ssl sels sels' l HV HD HS|]; simpl in Hvd; [|destruct Hvd].
        destruct (Forall2_In_r _ _ _ _ HV Hvd) as [vd [Hvd0 (_ & _ & Hdflt)]]. rewrite Hv in Hdflt. unfold ren_default in Hdflt.
        destruct (vd_default vd) as [v|] eqn:Ev; [|destruct Hdflt]. exists v. split; [|exact Hdflt].
        right. right. eexists; exists vd. split; [exact Hdf|]. split; [exact Hvd0|exact Ev].
    Qed.
    Lemma value_in_doc_fwd v : value_in_doc s d v -> exists v', value_in_doc s d' v' /\ ren_value sigma v v'.
    Proof.
      intros [(q & a & n & args & dirs & sl & sub & l & x & Hr & Hx & <-)|[(w & dr & x & Hat & Hx & <-)|(df & vd & Hdf & Hvd & Hv)]].
      - destruct (reaches_ren_fwd _ _ Hr) as [z' [Hr' Hz]]. inversion Hz; subst.
        match goal with HA : ren_args _ args ?args' |- _ => destruct (args_value _ _ _ HA Hx) as [x' [Hx' Hv]] end.
        exists (a_val x'). split; [|exact Hv]. left. do 9 eexists. split; [exact Hr'|]. split; [exact Hx'|reflexivity].
      - destruct (directive_at_ren_fwd _ _ Hat) as [dr' [Hat' [_ HA]]]. destruct (args_value _ _ _ HA Hx) as [x' [Hx' Hv]].
        exists (a_val x'). split; [|exact Hv]. right. left. exists w, dr', x'. tauto.
      - destruct (Forall2_In_l _ _ _ _ Hdp Hdf) as [df' [Hdf' Hr]].
        destruct Hr as [k n vds vds' dirs dirs' ssl sels sels' l HV HD HS|]; simpl in Hvd; [|destruct Hvd].
        destruct (Forall2_In_l _ _ _ _ HV Hvd) as [vd' [Hvd' (_ & _ & Hdflt)]]. rewrite Hv in Hdflt. unfold ren_default in Hdflt.
        destruct (vd_default vd') as [v'|] eqn:Ev; [|destruct Hdflt]. exists v'. split; [|exact Hdflt].
        right. right. eexists; exists vd'. split; [exact Hdf'|]. split; [exact Hvd'|exact Ev].
    Qed.

    Lemma lone_anon_ren : spec_lone_anonymous d <-> spec_lone_anonymous d'.
    Proof.
      unfold spec_lone_anonymous.
      pose proof (op_count_ren _ _ Hdp) as Hlen.
      rewrite Hlen. split; intros H [a [Ha Han]]; apply H.
      - destruct (Forall2_In_r _ _ _ _ Hdp Ha) as [a0 [Ha0 Hr]]. exists a0. split; [exact Ha0|]. destruct Hr; simpl in *; tauto.
      - destruct (Forall2_In_l _ _ _ _ Hdp Ha) as [a1 [Ha1 Hr]]. exists a1. split; [exact Ha1|]. destruct Hr; simpl in *; tauto.
    Qed.
  End Docs.

  Theorem valid_spec_rename s d d' : rdoc d d' -> (valid_spec s d <-> valid_spec s d').
  Proof.
    intros Hdp. destruct (ren_doc_names rho sigma _ _ Hdp) as [Hfn Hkl].
    split.
    - intros (H1 & H2 & H3 & H4 & H5 & H6 & H7 & H8 & H9 & H10 & H11 & H12 & H13 & H14 & H15 & H16 & H17 &
              H18 & H19 & H20 & H21 & H23 & H26).
      assert (PR : forall q z2, reaches s d' q z2 -> exists z1, reaches s d q z1 /\
                     nsim (frag_type_of s (doc_defs d)) (frag_type_of s (doc_defs d')) z1 z2).
      { intros q z2 Hr. destruct (reaches_ren_bwd s d d' Hdp q z2 Hr) as [z [Hr0 Hz]]. exists z. split; [exact Hr0|].
        apply node_sim_fwd; assumption. }
      assert (PD : forall w dr2, directive_at s d' w dr2 -> exists dr1, directive_at s d w dr1 /\ dsim dr1 dr2).
      { intros w dr2 Hat. destruct (directive_at_ren_bwd s d d' Hdp w dr2 Hat) as [dr [Hat0 [En HA]]].
        exists dr. split; [exact Hat0|]. split; [symmetry; exact En|apply ren_args_names; exact HA]. }
      assert (PF : forall df2, In df2 (doc_defs d') -> exists df1, In df1 (doc_defs d) /\ fsim df1 df2).
      { intros df2 H. destruct (Forall2_In_r _ _ _ _ Hdp H) as [df1 [H1' Hr]]. exists df1. split; [exact H1'|apply def_sim_fwd; exact Hr]. }
      assert (PV : forall v2, value_in_doc s d' v2 -> exists v1, value_in_doc s d v1 /\ (objects_unique v1 -> objects_unique v2)).
      { intros v2 Hv. destruct (value_in_doc_bwd s d d' Hdp v2 Hv) as [v [Hv0 Hr]]. exists v. split; [exact Hv0|].
        apply (ren_value_unique v v2 Hr). }
      unfold valid_spec.
      refine (conj (t_executable d d' PF H1) (conj _ (conj (proj1 (lone_anon_ren d d' Hdp) H3)
        (conj (t_subscriptions d d' PF H4) (conj (t_known_types s d d' PF H5) (conj (t_composite s d d' _ _ PR PF H6)
        (conj (t_input_types s d d' PF H7) (conj (t_leafs s d d' _ _ PR H8) (conj (t_fields s d d' _ _ PR H9)
        (conj _ (conj (proj1 (spec_known_ren rho sigma rho_inj d d' Hdp) H11)
        (conj (proj1 (spec_unused_fragments_ren rho sigma rho_inj d d' Hdp) H12)
        (conj (t_spreads s d d' _ _ PR H13) (conj _ (conj (t_unique_vars d d' PF H15)
        (conj (proj1 (spec_undefined_ren rho sigma rho_inj sigma_inj d d' Hdp) H16)
        (conj (proj1 (spec_unused_ren rho sigma rho_inj sigma_inj d d' Hdp) H17)
        (conj (t_known_directives s d d' PD H18) (conj (t_unique_directives s d d' _ _ PR PF H19)
        (conj (t_known_args s d d' _ _ PR PD H20) (conj (t_unique_args s d d' _ _ PR PD H21)
        (conj (t_required s d d' _ _ PR PD H23) (t_input_fields s d d' PV H26))))))))))))))))))))))).
      + rewrite Hkl. exact H2.
      + rewrite Hfn. apply (NoDup_map_inj rho rho_inj). exact H10.
      + intros Hc. apply H14. apply (has_cycle_ren rho sigma rho_inj d d' Hdp). exact Hc.
    - intros (H1 & H2 & H3 & H4 & H5 & H6 & H7 & H8 & H9 & H10 & H11 & H12 & H13 & H14 & H15 & H16 & H17 &
              H18 & H19 & H20 & H21 & H23 & H26).
      assert (PR : forall q z2, reaches s d q z2 -> exists z1, reaches s d' q z1 /\
                     nsim (frag_type_of s (doc_defs d')) (frag_type_of s (doc_defs d)) z1 z2).
      { intros q z2 Hr. destruct (reaches_ren_fwd s d d' Hdp q z2 Hr) as [z' [Hr' Hz]]. exists z'. split; [exact Hr'|].
        apply node_sim_bwd; assumption. }
      assert (PD : forall w dr2, directive_at s d w dr2 -> exists dr1, directive_at s d' w dr1 /\ dsim dr1 dr2).
      { intros w dr2 Hat. destruct (directive_at_ren_fwd s d d' Hdp w dr2 Hat) as [dr' [Hat' [En HA]]].
        exists dr'. split; [exact Hat'|]. split; [exact En|symmetry; apply ren_args_names; exact HA]. }
      assert (PF : forall df2, In df2 (doc_defs d) -> exists df1, In df1 (doc_defs d') /\ fsim df1 df2).
      { intros df2 H. destruct (Forall2_In_l _ _ _ _ Hdp H) as [df1 [H1' Hr]]. exists df1. split; [exact H1'|apply def_sim_bwd; exact Hr]. }
      assert (PV : forall v2, value_in_doc s d v2 -> exists v1, value_in_doc s d' v1 /\ (objects_unique v1 -> objects_unique v2)).
      { intros v2 Hv. destruct (value_in_doc_fwd s d d' Hdp v2 Hv) as [v' [Hv' Hr]]. exists v'. split; [exact Hv'|].
        apply (ren_value_unique v2 v' Hr). }
      unfold valid_spec.
      refine (conj (t_executable d' d PF H1) (conj _ (conj (proj2 (lone_anon_ren d d' Hdp) H3)
        (conj (t_subscriptions d' d PF H4) (conj (t_known_types s d' d PF H5) (conj (t_composite s d' d _ _ PR PF H6)
        (conj (t_input_types s d' d PF H7) (conj (t_leafs s d' d _ _ PR H8) (conj (t_fields s d' d _ _ PR H9)
        (conj _ (conj (proj2 (spec_known_ren rho sigma rho_inj d d' Hdp) H11)
        (conj (proj2 (spec_unused_fragments_ren rho sigma rho_inj d d' Hdp) H12)
        (conj (t_spreads s d' d _ _ PR H13) (conj _ (conj (t_unique_vars d' d PF H15)
        (conj (proj2 (spec_undefined_ren rho sigma rho_inj sigma_inj d d' Hdp) H16)
        (conj (proj2 (spec_unused_ren rho sigma rho_inj sigma_inj d d' Hdp) H17)
        (conj (t_known_directives s d' d PD H18) (conj (t_unique_directives s d' d _ _ PR PF H19)
        (conj (t_known_args s d' d _ _ PR PD H20) (conj (t_unique_args s d' d _ _ PR PD H21)
        (conj (t_required s d' d _ _ PR PD H23) (t_input_fields s d' d PV H26))))))))))))))))))))))).
      + rewrite <- Hkl. exact H2.
      + rewrite Hfn in H10. apply NoDup_map_inv in H10. exact H10.
      + intros Hc. apply H14. apply (has_cycle_ren rho sigma rho_inj d d' Hdp). exact Hc.
  Qed.

  Theorem rename_all fuel s d d' :
    rdoc d d' ->
    (validate_rules fuel s d rules_with_spec = Ok [] <-> validate_rules fuel s d' rules_with_spec = Ok []).
  Proof. intros Hdp. rewrite !verdict. apply valid_spec_rename. exact Hdp. Qed.
End Ren.
