(* The conjunction: the rules with a proved specification form are silent
   exactly when the document satisfies the conjunction of their declarative
   forms. *)
From PyGql Require Import Valid.ValidOverlap Spec.ValidSpec Spec.ValidLocalSpec Proofs.ValidCloseProofs
     Proofs.ValidGraphProofs Proofs.ValidVarProofs Proofs.ValidPermProofs Proofs.ValidStaticProofs
     Proofs.ValidUniqueProofs Proofs.ValidUnusedProofs Proofs.ValidLocalProofs.
From Coq Require Import Lia.

(* ---- UniqueOperationName, jointly with LoneAnonymousOperation ---- *)
Definition r02_keys (d : document) : list (str * loc) :=
  flat_map (fun x => match x with
     | DOperation k (Some n) _ _ _ _ l => [(n_val n, l)]
     | DOperation k None _ _ _ _ l => [(op_kind_str k, l)]
     | _ => [] end) (doc_defs d).

Lemma keys_no_anon ds :
  existsb (fun x => match x with DOperation _ None _ _ _ _ _ => true | _ => false end) (filter is_op ds) = false ->
  map fst (flat_map (fun x => match x with
     | DOperation k (Some n) _ _ _ _ l => [(n_val n, l)]
     | DOperation k None _ _ _ _ l => [(op_kind_str k, l)]
     | _ => [] end) ds) = flat_map key_of ds.
Proof.
  induction ds as [|a ds IH]; simpl; [reflexivity|].
  destruct a; simpl; try exact IH.
  destruct n as [nm|]; simpl; [intros H; rewrite (IH H); reflexivity|discriminate].
Qed.

Lemma keys_length ds :
  length (flat_map key_of ds) = length (filter is_op ds) /\
  length (flat_map (fun x => match x with
     | DOperation k (Some n) _ _ _ _ l => [(n_val n, l)]
     | DOperation k None _ _ _ _ l => [(op_kind_str k, l)]
     | _ => [] end) ds) = length (filter is_op ds).
Proof.
  induction ds as [|a ds [IH1 IH2]]; simpl; [split; reflexivity|].
  destruct a; simpl; try (split; assumption). destruct n; simpl; split; lia.
Qed.

Lemma short_nodup {A} (l : list A) : length l <= 1 -> NoDup l.
Proof. destruct l as [|a [|b l]]; simpl; intros H; [constructor|constructor; [intros []|constructor]|lia]. Qed.

Theorem r02_joint d :
  r03_lone_anonymous d = [] -> (r02_unique_op_names d = [] <-> NoDup (op_key_list d)).
Proof.
  unfold r03_lone_anonymous, r02_unique_op_names, op_key_list. intros H3.
  rewrite dups_nil.
  destruct (existsb (fun x => match x with DOperation _ None _ _ _ _ _ => true | _ => false end)
                    (filter is_op (doc_defs d))) eqn:Hanon.
  - simpl in H3. destruct (Nat.ltb 1 (length (filter is_op (doc_defs d)))) eqn:Hlen; [discriminate|].
    apply Nat.ltb_ge in Hlen. destruct (keys_length (doc_defs d)) as [L1 L2].
    split; intros _; apply short_nodup; [lia|rewrite map_length; lia].
  - rewrite (keys_no_anon _ Hanon). tauto.
Qed.

(* ---- sequencing ---- *)
Lemma ocat_all_nil {A B} (f : A -> outcome (list B)) l :
  ocat f l = Ok [] <-> Forall (fun x => f x = Ok []) l.
Proof.
  split.
  - intros H. apply Forall_forall. intros x Hx. destruct (ocat_inv _ _ _ H) as [H1 _].
    destruct (H1 x Hx) as [rx [Hfx Hincl]]. rewrite Hfx. f_equal.
    destruct rx as [|y rx]; [reflexivity|destruct (Hincl y (or_introl eq_refl))].
  - induction 1 as [|x l Hx Hl IH]; simpl; [reflexivity|]. rewrite Hx. simpl. rewrite IH. reflexivity.
Qed.

Lemma ok_nil {A} (x : list A) : Ok x = Ok [] <-> x = [].
Proof. split; [intros H; inversion H; reflexivity|intros ->; reflexivity]. Qed.

(* all rules but ValuesOfCorrectType (22: proved per position),
   VariablesInAllowedPosition (24) and OverlappingFieldsCanBeMerged (25) *)
Definition rules_with_spec : list N :=
  [1; 2; 3; 4; 5; 6; 7; 8; 9; 10; 11; 12; 13; 14; 15; 16; 17; 18; 19; 20; 21; 23; 26]%N.

Definition valid_spec (s : schema) (d : document) : Prop :=
  spec_executable_definitions d /\ NoDup (op_key_list d) /\ spec_lone_anonymous d /\
  spec_single_field_subscriptions d /\ spec_known_type_names s d /\ spec_fragments_on_composite s d /\
  spec_variables_are_input_types s d /\ spec_scalar_leafs s d /\ spec_fields_on_correct_type s d /\
  NoDup (frag_names d) /\ spec_known_fragment_names d /\ spec_no_unused_fragments d /\
  spec_possible_spreads s d (frag_type_of s (doc_defs d)) /\ ~ has_cycle d /\
  spec_unique_variable_names d /\ spec_no_undefined_variables d /\ spec_no_unused_variables d /\
  spec_known_directives s d /\ spec_unique_directives s d /\ spec_known_argument_names s d /\
  spec_unique_argument_names s d /\ spec_provided_required_arguments s d /\
  spec_unique_input_field_names s d.

Theorem verdict fuel s d :
  validate_rules fuel s d rules_with_spec = Ok [] <-> valid_spec s d.
Proof.
  unfold validate_rules, rules_with_spec. rewrite ocat_all_nil.
  repeat rewrite Forall_cons_iff. rewrite Forall_nil_iff.
  cbn [rule_model]. repeat rewrite ok_nil.
  unfold valid_spec.
  rewrite r01_equiv, r04_equiv, r05_equiv, r06_equiv, r07_equiv, r08_equiv, r09_equiv, r10_equiv,
          r11_equiv, r13_equiv, r15_equiv, r18_equiv, r19_equiv, r20_equiv, r21_equiv, r23_equiv, r26_equiv,
          r03_equiv.
  split.
  - intros (H1 & H2 & H3 & H4 & H5 & H6 & H7 & H8 & H9 & H10 & H11 & H12 & H13 & H14 & H15 & H16 & H17 &
            H18 & H19 & H20 & H21 & H23 & H26 & _).
    pose proof (proj2 (r03_equiv d) H3) as Hr3.
    pose proof (proj1 (r02_joint d Hr3) H2) as Hk.
    pose proof (proj1 (r14_equiv s d H10) H14) as Hc.
    pose proof (proj1 (r12_joint s d H10 H14) H12) as Hu.
    pose proof (proj1 (r16_equiv s d Hk) H16) as Hv1.
    pose proof (proj1 (r17_equiv s d Hk) H17) as Hv2.
    exact (conj H1 (conj Hk (conj H3 (conj H4 (conj H5 (conj H6 (conj H7 (conj H8 (conj H9 (conj H10
          (conj H11 (conj Hu (conj H13 (conj Hc (conj H15 (conj Hv1 (conj Hv2 (conj H18 (conj H19
          (conj H20 (conj H21 (conj H23 H26)))))))))))))))))))))).
  - intros (H1 & H2 & H3 & H4 & H5 & H6 & H7 & H8 & H9 & H10 & H11 & H12 & H13 & H14 & H15 & H16 & H17 &
            H18 & H19 & H20 & H21 & H23 & H26).
    pose proof (proj2 (r03_equiv d) H3) as Hr3.
    pose proof (proj2 (r02_joint d Hr3) H2) as Hr2.
    pose proof (proj2 (r14_equiv s d H10) H14) as Hc.
    pose proof (proj2 (r12_joint s d H10 Hc) H12) as Hu.
    pose proof (proj2 (r16_equiv s d H2) H16) as Hv1.
    pose proof (proj2 (r17_equiv s d H2) H17) as Hv2.
    exact (conj H1 (conj Hr2 (conj H3 (conj H4 (conj H5 (conj H6 (conj H7 (conj H8 (conj H9 (conj H10
          (conj H11 (conj Hu (conj H13 (conj Hc (conj H15 (conj Hv1 (conj Hv2 (conj H18 (conj H19
          (conj H20 (conj H21 (conj H23 (conj H26 I))))))))))))))))))))))).
Qed.
