(* C16 -- the homomorphisms of Exec/TraceLift.v preserve the specification. *)
From Coq Require Import List NArith Arith Bool Lia.
Import ListNotations.
From PyGql Require Import Spec.TraceSpec Exec.TraceModel Proofs.TraceProofs Exec.TraceLift.

(* ================================================================ generic *)
Lemma filter_flat_map_hom : forall (A B : Type) (f : B -> bool) (g : A -> bool) (h : A -> list B) t,
  (forall x, g x = true -> filter f (h x) = h x) ->
  (forall x, g x = false -> filter f (h x) = []) ->
  filter f (flat_map h t) = flat_map h (filter g t).
Proof.
  intros A B f g h t H1 H2; induction t as [|x t IH]; cbn; auto. rewrite filter_app, IH.
  destruct (g x) eqn:E; cbn; [rewrite H1|rewrite H2]; auto.
Qed.

Lemma node_at_unique : forall ns nd, NoDup (map nd_path ns) -> In nd ns -> node_at ns (nd_path nd) = Some nd.
Proof.
  induction ns as [|a ns IH]; intros nd Hnd Hin; [destruct Hin|].
  cbn [map] in Hnd. apply NoDup_cons_iff in Hnd as [Hnotin Hnd]. unfold node_at. cbn [find].
  destruct (path_eq_dec (nd_path a) (nd_path nd)) as [Heq|Hne].
  - destruct Hin as [->|Hin]; [reflexivity|]. exfalso. apply Hnotin. rewrite Heq. apply in_map. exact Hin.
  - destruct Hin as [->|Hin]; [congruence|]. apply IH; auto.
Qed.

(* ================================================================ lift *)
Section LiftProofs.
  Variables (k n : nat) (aw : bool) (ns : list node) (text : bool) (oc : oclass).
  Hypothesis Hk : 1 <= k.
  Hypothesis Hnd : NoDup (map nd_path ns).

  Let c1 := mkConfig 1 0 text oc aw ns.
  Let ck := mkConfig k n text oc aw ns.
  Let L := lift k n aw ns.

  Lemma lift_paths : forall x y, In y (L x) -> ev_path y = ev_path x.
  Proof.
    intros x y H. unfold L, lift, starts, ends, enters, exits in H.
    destruct x; cbn in *;
      repeat (match goal with
              | H : In _ (_ ++ _) |- _ => apply in_app_or in H as [H|H]
              | H : In _ (map _ _) |- _ => apply in_map_iff in H as (? & <- & _)
              | H : In _ (mws ?o _) |- _ => destruct o; cbn in H
              | H : In _ (if ?b then _ else _) |- _ => destruct b
              | H : In _ (_ :: _) |- _ => destruct H as [<-|H]
              | H : _ = _ \/ _ |- _ => destruct H as [<-|H]
              | H : In _ [] |- _ => destruct H
              | H : False |- _ => destruct H
              end); try reflexivity.
  Qed.

  Lemma lift_stage : forall x, is_stage x = true -> Forall (fun y => is_stage y = true) (L x).
  Proof.
    intros x Hx. apply Forall_forall. intros y Hy. apply lift_paths in Hy.
    unfold is_stage in *. rewrite Hy. exact Hx.
  Qed.
  Lemma lift_field : forall x, is_stage x = false -> Forall (fun y => is_stage y = false) (L x).
  Proof.
    intros x Hx. apply Forall_forall. intros y Hy. apply lift_paths in Hy.
    unfold is_stage in *. rewrite Hy. exact Hx.
  Qed.
  Lemma lift_about : forall p x b, about p x = b -> Forall (fun y => about p y = b) (L x).
  Proof.
    intros p x b Hx. apply Forall_forall. intros y Hy. apply lift_paths in Hy.
    unfold about in *. rewrite Hy. exact Hx.
  Qed.

  Lemma filter_stage_lift : forall t, filter is_stage (flat_map L t) = flat_map L (filter is_stage t).
  Proof.
    intros t. apply filter_flat_map_hom; intros x Hx.
    - apply filter_all. apply lift_stage; auto.
    - apply filter_none. apply lift_field; auto.
  Qed.
  Lemma filter_about_lift : forall p t, filter (about p) (flat_map L t) = flat_map L (filter (about p) t).
  Proof.
    intros p t. apply filter_flat_map_hom; intros x Hx.
    - apply filter_all. apply lift_about; auto.
    - apply filter_none. apply lift_about; auto.
  Qed.

  Lemma lift_expand : forall w, flat_map L (expand 1 w) = expand k w.
  Proof.
    induction w as [|l w IH]; cbn [expand flat_map]; auto.
    unfold expand in IH. rewrite flat_map_app, IH. f_equal.
    destruct l; cbn; rewrite app_nil_r; reflexivity.
  Qed.

  Lemma lift_stage_word : flat_map L (stage_word c1) = stage_word ck.
  Proof. unfold stage_word, c1, ck; cbn [c_k c_text c_class]. apply lift_expand. Qed.

  (* ---- nesting in the execution stage *)
  Lemma lift_stage_start : forall s j, L (StageStart s j) = expand1 k (Lp s).
  Proof. reflexivity. Qed.
  Lemma lift_stage_end : forall s j, L (StageEnd s j) = expand1 k (Lm s).
  Proof. reflexivity. Qed.

  Lemma nest_fields_prefix : forall l r, Forall (fun y => is_stage y = false) l ->
    nest_scan k k 0 (l ++ r) = nest_scan k k 0 r.
  Proof.
    intros l r H; induction H as [|x l Hx _ IH]; cbn [app nest_scan]; auto.
    assert (Hf : is_field x = true) by (unfold is_field; rewrite Hx; reflexivity).
    destruct (field_not_e _ Hf) as [-> ->]. rewrite Hf, Nat.eqb_refl. cbn. exact IH.
  Qed.

  Lemma nest_lift : forall t s e, nest_scan 1 s e t = true ->
    nest_scan k (k * s) (k * e) (flat_map L t) = true.
  Proof.
    induction t as [|x t IH]; intros s e H; cbn [flat_map]; [reflexivity|].
    cbn [nest_scan] in H.
    destruct (is_stage x) eqn:Est.
    - (* a stage hook *)
      rewrite nest_scan_prefix by (apply lift_stage; exact Est).
      destruct x as [st j|st j| | | | | | | ]; try discriminate.
      + rewrite lift_stage_start, count_estart_expand1, count_eend_expand1.
        destruct st; cbn [is_estart is_eend is_field is_stage ev_path negb] in H;
          try (rewrite !Nat.add_0_r; apply IH; exact H).
        rewrite Nat.add_0_r. replace (k * s + k) with (k * S s) by lia. apply IH. exact H.
      + rewrite lift_stage_end, count_estart_expand1, count_eend_expand1.
        destruct st; cbn [is_estart is_eend is_field is_stage ev_path negb] in H;
          try (rewrite !Nat.add_0_r; apply IH; exact H).
        rewrite Nat.add_0_r. replace (k * e + k) with (k * S e) by lia. apply IH. exact H.
    - (* a field-level event *)
      assert (Hf : is_field x = true) by (unfold is_field; rewrite Est; reflexivity).
      destruct (field_not_e _ Hf) as [E1 E2]. rewrite E1, E2, Hf in H.
      apply andb_prop in H as [H Hr]. apply andb_prop in H as [H1 H2].
      apply Nat.eqb_eq in H1, H2. subst s e. rewrite Nat.mul_1_r, Nat.mul_0_r.
      rewrite nest_fields_prefix by (apply lift_field; exact Est).
      specialize (IH 1 0 Hr). rewrite Nat.mul_1_r, Nat.mul_0_r in IH. exact IH.
  Qed.

  (* ---- parent order *)
  Lemma guard_skip' : forall g p a r, Forall (fun x => about p x = false) a ->
    guard_scan g p r = true -> guard_scan g p (a ++ r) = true.
  Proof.
    intros g p a r H Hr; induction H as [|x a Hx _ IH]; cbn [app guard_scan]; auto.
    rewrite Hx. destruct (event_eq_dec x g); auto.
  Qed.

  Lemma guard_lift : forall q p t, guard_scan (Return q) p t = true ->
    guard_scan (Return q) p (flat_map L t) = true.
  Proof.
    intros q p t; induction t as [|x t IH]; intros H; cbn [flat_map]; [reflexivity|].
    cbn [guard_scan] in H. destruct (about p x) eqn:Ea; [discriminate|].
    destruct (event_eq_dec x (Return q)) as [->|Hne].
    - cbn [L lift app guard_scan]. unfold L. cbn [lift app guard_scan]. rewrite Ea.
      destruct (event_eq_dec (Return q) (Return q)); congruence.
    - apply guard_skip'; [apply lift_about; exact Ea|]. apply IH. exact H.
  Qed.

  (* ---- the per-field words *)
  Lemma mws_nil : forall o, mws o (@nil event) = [].
  Proof. intros []; reflexivity. Qed.

  Lemma filter_map_all : forall (A : Type) (f : event -> bool) (g : A -> event) l,
    (forall a, f (g a) = true) -> filter f (map g l) = map g l.
  Proof. intros A f g l H; induction l; cbn; auto. rewrite H, IHl; reflexivity. Qed.
  Lemma filter_map_none : forall (A : Type) (f : event -> bool) (g : A -> event) l,
    (forall a, f (g a) = false) -> filter f (map g l) = [].
  Proof. intros A f g l H; induction l; cbn; auto. rewrite H, IHl; reflexivity. Qed.

  Lemma c1_word : forall nd w, word_spec c1 nd w -> w = inline_word 1 0 nd.
  Proof.
    intros nd w H. unfold word_spec in H. cbn [c1 c_k c_n] in H. destruct (submit_mode c1 nd); auto.
    destruct H as [H1 H2].
    assert (Hno : inline_word 1 0 nd = noexit_word 1 0 nd).
    { unfold inline_word, noexit_word. cbn [enters exits seq rev map app]. rewrite !mws_nil. reflexivity. }
    rewrite Hno, <- H2. symmetry. apply filter_all. apply Forall_forall. intros x Hx.
    destruct (is_exit x) eqn:Ex; auto. exfalso.
    assert (Hin : In x (filter (fun e => negb (is_call e)) w)).
    { apply filter_In. split; auto. destruct x; try discriminate; reflexivity. }
    rewrite H1 in Hin. unfold nocall_word in Hin. cbn [enters exits seq rev map app] in Hin.
    rewrite !mws_nil in Hin. cbn in Hin. destruct Hin as [<-|[<-|[]]]; discriminate.
  Qed.

  Definition Wk (nd : node) : list event :=
    let p := nd_path nd in let o := nd_out nd in
    if nd_def nd && negb aw
    then starts k p ++ mws o (enters n p ++ exits n p) ++ call_word o p ++ ends k p
    else inline_word k n nd.

  Lemma lift_word : forall nd, In nd ns -> flat_map L (inline_word 1 0 nd) = Wk nd.
  Proof.
    intros nd Hin. pose proof (node_at_unique ns nd Hnd Hin) as Hat.
    unfold Wk, inline_word, L. unfold starts at 1, ends at 1. cbn [enters exits seq rev map app]. rewrite !mws_nil.
    destruct (nd_out nd) eqn:Eo; cbn [call_word app]; rewrite ?flat_map_app; cbn [flat_map lift];
      unfold submit_at, out_at; rewrite ?Hat, ?Eo;
      destruct (nd_def nd && negb aw); cbn [mws app starts ends seq rev map];
      rewrite ?app_nil_r, <- ?app_assoc; cbn [app]; rewrite ?app_nil_r; reflexivity.
  Qed.
End LiftProofs.

Lemma mws_app : forall o (a b : list event), mws o (a ++ b) = mws o a ++ mws o b.
Proof. intros [] a b; reflexivity. Qed.

Lemma fl_starts : forall f k p b, (forall i, f (FieldStart i p) = b) ->
  filter f (starts k p) = if b then starts k p else [].
Proof. intros f k p [|] H; unfold starts; [apply filter_map_all|apply filter_map_none]; auto. Qed.
Lemma fl_ends : forall f k p b, (forall i, f (FieldEnd i p) = b) ->
  filter f (ends k p) = if b then ends k p else [].
Proof. intros f k p [|] H; unfold ends; [apply filter_map_all|apply filter_map_none]; auto. Qed.
Lemma fl_enters : forall f n p b, (forall i, f (MwEnter i p) = b) ->
  filter f (enters n p) = if b then enters n p else [].
Proof. intros f n p [|] H; unfold enters; [apply filter_map_all|apply filter_map_none]; auto. Qed.
Lemma fl_exits : forall f n p b, (forall i, f (MwExit i p) = b) ->
  filter f (exits n p) = if b then exits n p else [].
Proof. intros f n p [|] H; unfold exits; [apply filter_map_all|apply filter_map_none]; auto. Qed.

Lemma Wk_spec : forall k n aw ns text oc nd,
  word_spec (mkConfig k n text oc aw ns) nd (Wk k n aw nd).
Proof.
  intros k n aw ns text oc nd. unfold word_spec, submit_mode, Wk. cbn [c_k c_n c_mw_awaits].
  destruct (nd_def nd && negb aw); [|reflexivity].
  unfold nocall_word, noexit_word.
  split; destruct (nd_out nd); cbn [mws call_word app]; rewrite !filter_app; cbn [filter is_call is_exit negb].
  all: try rewrite (fl_starts _ k (nd_path nd) true) by reflexivity.
  all: try rewrite (fl_ends _ k (nd_path nd) true) by reflexivity.
  all: try rewrite (fl_enters _ n (nd_path nd) true) by reflexivity.
  all: try rewrite (fl_exits (fun e => negb (is_call e)) n (nd_path nd) true) by reflexivity.
  all: try rewrite (fl_exits (fun e => negb (is_exit e)) n (nd_path nd) false) by reflexivity.
  all: cbn [filter is_call is_exit negb app]; rewrite ?app_nil_r, <- ?app_assoc; reflexivity.
Qed.

Lemma nodes_of_in : forall c nd, In nd (nodes_of c) -> In nd (c_nodes c).
Proof. intros c nd; unfold nodes_of. destruct (is_exec (c_class c)); auto. intros []. Qed.

(* k stacked instrumentations and n middlewares see the image of what one
   instrumentation and no middleware see *)
Theorem lift_preserves : forall k n aw ns text oc t, 1 <= k -> NoDup (map nd_path ns) ->
  trace_spec (mkConfig 1 0 text oc aw ns) t ->
  trace_spec (mkConfig k n text oc aw ns) (flat_map (lift k n aw ns) t).
Proof.
  intros k n aw ns text oc t Hk Hnd Hs. apply trace_ok_decides in Hs. apply trace_ok_decides.
  unfold trace_ok in *. rewrite !andb_true_iff in *. destruct Hs as ((((H1 & H2) & H3) & H4) & H5).
  assert (Hnodes : nodes_of (mkConfig k n text oc aw ns) = nodes_of (mkConfig 1 0 text oc aw ns)) by reflexivity.
  rewrite Hnodes. split; [split; [split; [split|]|]|].
  - apply dec_true in H1. apply dec_true. rewrite filter_stage_lift, H1. apply lift_stage_word.
  - cbn [c_k] in *. apply (nest_lift k n aw ns Hk t 0 0) in H2. rewrite Nat.mul_0_r in H2. exact H2.
  - apply forallb_forall. intros y Hy. apply in_flat_map in Hy as (x & Hx & Hy).
    rewrite forallb_forall in H3. specialize (H3 x Hx). apply lift_paths in Hy.
    unfold is_field, is_stage in *. rewrite Hy. apply orb_true_iff in H3 as [H3|H3]; [rewrite H3; reflexivity|].
    apply orb_true_iff; right. apply existsb_exists in H3 as (nd & Hin & Ha). apply existsb_exists.
    exists nd. split; auto. unfold about in *. rewrite Hy. exact Ha.
  - apply forallb_forall. intros nd Hin. rewrite forallb_forall in H4. specialize (H4 nd Hin).
    apply word_decides in H4. apply word_decides. rewrite filter_about_lift.
    rewrite (c1_word aw ns text oc nd _ H4).
    rewrite (lift_word k n aw ns Hnd nd) by (apply nodes_of_in in Hin; exact Hin).
    apply Wk_spec.
  - apply forallb_forall. intros nd Hin. rewrite forallb_forall in H5. specialize (H5 nd Hin).
    unfold parent_okb in *. destruct (nd_parent nd) as [q|]; auto. apply guard_lift. exact H5.
Qed.

(* ================================================================ erase *)
Lemma filter_comm : forall (A : Type) (f g : A -> bool) l, filter f (filter g l) = filter g (filter f l).
Proof.
  intros A f g l; induction l as [|x l IH]; cbn; auto.
  destruct (f x) eqn:Ef, (g x) eqn:Eg; cbn; rewrite ?Ef, ?Eg, IH; reflexivity.
Qed.
Lemma filter_imp_id : forall (A : Type) (f g : A -> bool) l,
  (forall x, f x = true -> g x = true) -> filter f (filter g l) = filter f l.
Proof.
  intros A f g l H; induction l as [|x l IH]; cbn; auto.
  destruct (g x) eqn:Eg; cbn; rewrite IH; auto.
  destruct (f x) eqn:Ef; auto. rewrite (H x Ef) in Eg. discriminate.
Qed.

Definition remark_config (marked : path -> bool) (c : config) : config :=
  mkConfig (c_k c) (c_n c) (c_text c) (c_class c) (c_mw_awaits c) (map (remark marked) (c_nodes c)).

Lemma remark_path : forall m nd, nd_path (remark m nd) = nd_path nd.
Proof. intros m nd; unfold remark. destruct (m (nd_path nd)); reflexivity. Qed.
Lemma remark_parent : forall m nd, nd_parent (remark m nd) = nd_parent nd.
Proof. intros m nd; unfold remark. destruct (m (nd_path nd)); reflexivity. Qed.
Lemma remark_def : forall m nd, nd_def (remark m nd) = nd_def nd.
Proof. intros m nd; unfold remark. destruct (m (nd_path nd)); reflexivity. Qed.

Lemma nodes_of_remark : forall m c, nodes_of (remark_config m c) = map (remark m) (nodes_of c).
Proof. intros m c; unfold nodes_of, remark_config; cbn. destruct (is_exec (c_class c)); reflexivity. Qed.

Lemma keep_stage : forall m x, is_stage x = true -> keep m x = true.
Proof. intros m [] H; cbn in *; try discriminate; reflexivity. Qed.

Lemma nest_erase : forall m k t s e, nest_scan k s e t = true -> nest_scan k s e (erase m t) = true.
Proof.
  intros m k t; induction t as [|x t IH]; intros s e H; cbn [erase filter]; auto.
  cbn [nest_scan] in H. destruct (keep m x) eqn:Ek.
  - cbn [nest_scan]. destruct (is_estart x); [apply IH; exact H|].
    destruct (is_eend x); [apply IH; exact H|]. destruct (is_field x); [|apply IH; exact H].
    apply andb_prop in H as [H Hr]. rewrite H. cbn. apply IH. exact Hr.
  - assert (Hst : is_stage x = false) by (destruct (is_stage x) eqn:E; auto; rewrite (keep_stage m x E) in Ek; discriminate).
    assert (Hf : is_field x = true) by (unfold is_field; rewrite Hst; reflexivity).
    destruct (field_not_e _ Hf) as [E1 E2]. rewrite E1, E2, Hf in H.
    apply andb_prop in H as [_ Hr]. apply IH. exact Hr.
Qed.

Lemma guard_erase : forall m q p t, guard_scan (Return q) p t = true ->
  guard_scan (Return q) p (erase m t) = true.
Proof.
  intros m q p t; induction t as [|x t IH]; intros H; cbn [erase filter]; auto.
  cbn [guard_scan] in H. destruct (about p x) eqn:Ea; [discriminate|].
  destruct (event_eq_dec x (Return q)) as [->|Hne].
  - cbn [keep guard_scan]. rewrite Ea. destruct (event_eq_dec (Return q) (Return q)); congruence.
  - destruct (keep m x); [|apply IH; exact H].
    cbn [guard_scan]. rewrite Ea. destruct (event_eq_dec x (Return q)); [congruence|]. apply IH. exact H.
Qed.

Lemma keep_unmarked : forall m p x, m p = false -> about p x = true -> keep m x = true.
Proof.
  intros m p x Hm Ha. unfold about in Ha. destruct x; cbn in *; auto;
    destruct (path_eq_dec p0 p); try discriminate; subst; rewrite Hm; reflexivity.
Qed.

Lemma erase_word : forall m c nd w,
  Forall (fun x => about (nd_path nd) x = true) w ->
  (m (nd_path nd) = true -> nd_out nd = OErr) ->
  word_spec c nd w -> word_spec (remark_config m c) (remark m nd) (erase m w).
Proof.
  intros m c nd w Hab Hm Hw.
  assert (Hsm : submit_mode (remark_config m c) (remark m nd) = submit_mode c nd)
    by (unfold submit_mode, remark_config; cbn; rewrite remark_def; reflexivity).
  unfold word_spec in *. rewrite Hsm. cbn [remark_config c_k c_n].
  destruct (m (nd_path nd)) eqn:Em.
  - (* an argument-coercion failure *)
    specialize (Hm eq_refl).
    assert (Hr : remark m nd = mkNode (nd_path nd) OArgErr (nd_def nd) (nd_parent nd))
      by (unfold remark; rewrite Em; reflexivity).
    rewrite Hr.
    assert (Hk : forall k n, erase m (starts k (nd_path nd) ++ enters n (nd_path nd) ++ exits n (nd_path nd)
                                       ++ ends k (nd_path nd)) = starts k (nd_path nd) ++ ends k (nd_path nd)).
    { intros k n. unfold erase. rewrite !filter_app.
      rewrite (fl_starts _ k (nd_path nd) true), (fl_ends _ k (nd_path nd) true) by reflexivity.
      rewrite (fl_enters _ n (nd_path nd) false), (fl_exits _ n (nd_path nd) false)
        by (intros; cbn; rewrite Em; reflexivity). reflexivity. }
    destruct (submit_mode c nd).
    + destruct Hw as [H1 H2]. unfold erase in *. split.
      * rewrite filter_comm, H1. unfold nocall_word. rewrite Hm. cbn [mws nd_path nd_out].
        apply (Hk (c_k c) (c_n c)).
      * rewrite filter_comm, H2. unfold noexit_word. rewrite Hm. cbn [mws nd_path nd_out call_word].
        rewrite !filter_app.
        rewrite (fl_starts _ (c_k c) (nd_path nd) true), (fl_ends _ (c_k c) (nd_path nd) true) by reflexivity.
        rewrite (fl_enters _ (c_n c) (nd_path nd) false) by (intros; cbn; rewrite Em; reflexivity).
        cbn [filter keep]. rewrite Em. reflexivity.
    + subst w. unfold inline_word. rewrite Hm. cbn [mws nd_path nd_out call_word].
      unfold erase. rewrite !filter_app.
      rewrite (fl_starts _ (c_k c) (nd_path nd) true), (fl_ends _ (c_k c) (nd_path nd) true) by reflexivity.
      rewrite (fl_enters _ (c_n c) (nd_path nd) false), (fl_exits _ (c_n c) (nd_path nd) false)
        by (intros; cbn; rewrite Em; reflexivity).
      cbn [filter keep]. rewrite Em. reflexivity.
  - (* nothing of this field is erased *)
    assert (Hr : remark m nd = nd) by (unfold remark; rewrite Em; reflexivity). rewrite Hr.
    assert (He : erase m w = w).
    { unfold erase. apply filter_all. eapply Forall_impl; [|exact Hab]. intros x Hx. eapply keep_unmarked; eauto. }
    rewrite He. exact Hw.
Qed.

(* a resolver failure whose resolver / middleware events are erased is an
   argument-coercion failure *)
Theorem erase_preserves : forall m c t,
  (forall nd, In nd (nodes_of c) -> m (nd_path nd) = true -> nd_out nd = OErr) ->
  trace_spec c t -> trace_spec (remark_config m c) (erase m t).
Proof.
  intros m c t Hm Hs. apply trace_ok_decides in Hs. apply trace_ok_decides.
  unfold trace_ok in *. rewrite !andb_true_iff in *. destruct Hs as ((((H1 & H2) & H3) & H4) & H5).
  rewrite nodes_of_remark. split; [split; [split; [split|]|]|].
  - apply dec_true in H1. apply dec_true. unfold erase.
    rewrite filter_imp_id by (intros x Hx; apply keep_stage; exact Hx). exact H1.
  - apply nest_erase. exact H2.
  - apply forallb_forall. intros y Hy. unfold erase in Hy. apply filter_In in Hy as [Hy _].
    rewrite forallb_forall in H3. specialize (H3 y Hy). apply orb_true_iff in H3 as [H3|H3];
      [rewrite H3; reflexivity|]. apply orb_true_iff; right.
    apply existsb_exists in H3 as (nd & Hin & Ha). apply existsb_exists. exists (remark m nd).
    split; [apply in_map; exact Hin|]. rewrite remark_path. exact Ha.
  - apply forallb_forall. intros nd' Hin. apply in_map_iff in Hin as (nd & <- & Hin).
    rewrite forallb_forall in H4. specialize (H4 nd Hin). apply word_decides in H4. apply word_decides.
    rewrite remark_path. unfold erase. rewrite filter_comm. apply erase_word; auto.
    apply Forall_forall. intros x Hx. apply filter_In in Hx. tauto.
  - apply forallb_forall. intros nd' Hin. apply in_map_iff in Hin as (nd & <- & Hin).
    rewrite forallb_forall in H5. specialize (H5 nd Hin). unfold parent_okb in *.
    rewrite remark_parent, remark_path. destruct (nd_parent nd) as [q|]; auto. apply guard_erase. exact H5.
Qed.

(* the per-field words of a lifted trace are exactly the bracket words [Wk]:
   no freedom is left between middleware exits and resolver body *)
Lemma lift_words_exact : forall k n aw ns text oc t, NoDup (map nd_path ns) ->
  trace_spec (mkConfig 1 0 text oc aw ns) t ->
  forall nd, In nd (nodes_of (mkConfig 1 0 text oc aw ns)) ->
  filter (about (nd_path nd)) (flat_map (lift k n aw ns) t) = Wk k n aw nd.
Proof.
  intros k n aw ns text oc t Hnd [_ _ _ H4 _] nd Hin.
  rewrite filter_about_lift. rewrite (c1_word aw ns text oc nd _ (H4 nd Hin)).
  apply lift_word; auto. apply nodes_of_in in Hin. exact Hin.
Qed.
