(* C14 -- proofs about the model of extend_schema, part 2: what the extension
   document does not mention is preserved (C14_extend_preserved). *)
From PyGql Require Import Spec.StoreExtSpec Proofs.StoreProofs Proofs.StoreHeal Proofs.StoreLoop
     Proofs.StoreExtendP.
Local Open Scope N_scope.

Section Pres.
Variables lo hi : oid.            (* the reserved type objects live in [lo, hi) *)
Hypothesis Hlohi : lo <= hi.

Definition newc (n o : oid) : Prop := hi <= o /\ o < n.
Definition okc (n o : oid) : Prop := o < lo \/ newc n o.    (* a cell no later step writes *)
Definition Wok (W : list oid) : Prop := forall w, In w W -> lo <= w /\ w < hi.

Lemma Wok_nil : Wok [].
Proof. intros w []. Qed.

Lemma okc_unchanged n W m m' o :
  hi <= n -> Wok W -> fr0 n W m m' -> okc n o -> mget m' o = mget m o.
Proof.
  intros Hn Hw [F _] Ho. apply F.
  - destruct Ho as [Ho|[_ Ho]]; lia.
  - intros Hin. destruct (Hw o Hin). destruct Ho as [Ho|[Ho _]]; lia.
Qed.

Lemma okc_mono n n' o : n <= n' -> okc n o -> okc n' o.
Proof. intros Hn [H|[H1 H2]]; [left; assumption|right; split; lia]. Qed.

Definition leafP (n : oid) (m : mem) (x x' : oid) : Prop :=
  leaf_copy m x x' /\ x < lo /\ newc n x' /\ oargs m x = [] /\ oargs m x' = [].
Definition membP (n : oid) (m : mem) (x x' : oid) : Prop :=
  leaf_copy m x x' /\ x < lo /\ newc n x' /\ Forall2 (leafP n m) (oargs m x) (oargs m x').

Lemma leafP_stable n n' W m m' x x' :
  hi <= n -> n <= n' -> Wok W -> fr0 n W m m' -> leafP n m x x' -> leafP n' m' x x'.
Proof.
  intros Hn Hn' Hw F ((v & v' & Hx & Hx' & Ha) & Hlo & Hnew & Ho1 & Ho2).
  pose proof (okc_unchanged n W m m' x Hn Hw F (or_introl Hlo)) as E1.
  pose proof (okc_unchanged n W m m' x' Hn Hw F (or_intror Hnew)) as E2.
  split; [exists v, v'; rewrite E1, E2; auto|].
  split; [assumption|]. split; [destruct Hnew; split; lia|].
  unfold oargs in *. rewrite E1, E2. split; assumption.
Qed.

Lemma Forall2_impl {A B} (P Q : A -> B -> Prop) l l' :
  (forall a b, P a b -> Q a b) -> Forall2 P l l' -> Forall2 Q l l'.
Proof. intros H. induction 1; constructor; auto. Qed.

Lemma membP_stable n n' W m m' x x' :
  hi <= n -> n <= n' -> Wok W -> fr0 n W m m' -> membP n m x x' -> membP n' m' x x'.
Proof.
  intros Hn Hn' Hw F (Hl & Hlo & Hnew & Hargs).
  assert (Hl' : leaf_copy m' x x').
  { destruct Hl as (v & v' & Hx & Hx' & Ha). exists v, v'.
    rewrite (okc_unchanged n W m m' x Hn Hw F (or_introl Hlo)), (okc_unchanged n W m m' x' Hn Hw F (or_intror Hnew)). auto. }
  assert (Hnew' : newc n' x') by (destruct Hnew; split; lia).
  split; [assumption|]. split; [assumption|]. split; [assumption|].
  unfold oargs. rewrite (okc_unchanged n W m m' x Hn Hw F (or_introl Hlo)).
  rewrite (okc_unchanged n W m m' x' Hn Hw F (or_intror Hnew)).
  eapply Forall2_impl; [|exact Hargs]. intros a b. eapply leafP_stable; eauto.
Qed.

(* ----------------------------------------------------- copying members *)
Lemma extend_input_P c m a m' o :
  hi <= m_next m -> a < lo -> extend_input c m a = XOk (m', o) ->
  leafP (m_next m') m' a o /\ m_next m <= m_next m'.
Proof.
  intros Hn Ha H. unfold extend_input in H.
  destruct (mget m a) as [[| |ia n py ty df d ds| |]|] eqn:Hg; try discriminate.
  destruct (extend_tref c m ty) as [r|]; [|discriminate]. unfold alloc in H. inversion H; subst m' o; clear H.
  simpl. split; [|lia].
  assert (E1 : mget (MkMem ((m_next m, OInput ia n py r df d ds) :: m_heap m) (N.succ (m_next m))) a
               = Some (OInput ia n py ty df d ds)).
  { unfold mget; simpl. destruct (N.eqb_spec a (m_next m)); [lia|exact Hg]. }
  assert (E2 : mget (MkMem ((m_next m, OInput ia n py r df d ds) :: m_heap m) (N.succ (m_next m))) (m_next m)
               = Some (OInput ia n py r df d ds)).
  { unfold mget; simpl. rewrite N.eqb_refl. reflexivity. }
  split; [exists (OInput ia n py ty df d ds), (OInput ia n py r df d ds); simpl; repeat split; auto|].
  split; [assumption|]. split; [split; simpl; lia|]. unfold oargs. rewrite E1, E2. split; reflexivity.
Qed.

Lemma extend_inputs_P c : forall l m m' os,
  hi <= m_next m -> Forall (fun a => a < lo) l -> extend_inputs c m l = XOk (m', os) ->
  Forall2 (leafP (m_next m') m') l os /\ m_next m <= m_next m'.
Proof.
  induction l as [|a l IH]; intros m m' os Hn Hl H; simpl in H.
  - inversion H; subst. split; [constructor|lia].
  - inversion Hl as [|? ? Ha Hl']; subst.
    destruct (extend_input c m a) as [[m1 o1]| |] eqn:E1; simpl in H; try discriminate.
    destruct (extend_inputs c m1 l) as [[m2 os']| |] eqn:E2; simpl in H; try discriminate.
    inversion H; subst m' os; clear H.
    destruct (extend_input_P _ _ _ _ _ Hn Ha E1) as (P1 & N1).
    assert (Hn1 : hi <= m_next m1) by lia.
    destruct (IH _ _ _ Hn1 Hl' E2) as (P2 & N2).
    split; [|lia]. constructor; [|assumption].
    eapply (leafP_stable (m_next m1) (m_next m2) []); eauto using Wok_nil.
    eapply (extend_inputs_fr (m_next m1) []); [apply N.le_refl|exact E2].
Qed.

Lemma extend_field_P c m f m' o :
  hi <= m_next m -> f < lo -> Forall (fun a => a < lo) (oargs m f) ->
  extend_field c m f = XOk (m', o) -> membP (m_next m') m' f o /\ m_next m <= m_next m'.
Proof.
  intros Hn Hf Hargs H. unfold extend_field in H. unfold oargs in Hargs.
  destruct (mget m f) as [[|n py ty args d dp r s ds| | |]|] eqn:Hg; try discriminate.
  destruct (extend_inputs c m args) as [[m1 os]| |] eqn:E1; simpl in H; try discriminate.
  destruct (extend_inputs_P _ _ _ _ _ Hn Hargs E1) as (P1 & N1).
  pose proof (extend_inputs_fr (m_next m) [] c args m m1 os (N.le_refl _) E1) as F1.
  destruct (extend_tref c m ty) as [ty'|]; [|discriminate]. unfold alloc in H. inversion H; subst m' o; clear H.
  simpl. split; [|lia].
  assert (Hgf : mget m1 f = Some (OField n py ty args d dp r s ds)).
  { rewrite <- Hg. apply (okc_unchanged (m_next m) [] m m1 f Hn Wok_nil F1). left; assumption. }
  set (m2 := MkMem ((m_next m1, OField n py ty' os d dp r s ds) :: m_heap m1) (N.succ (m_next m1))).
  assert (Hf2 : mget m2 f = Some (OField n py ty args d dp r s ds)).
  { unfold mget, m2; simpl. destruct (N.eqb_spec f (m_next m1)); [lia|exact Hgf]. }
  assert (Ho2 : mget m2 (m_next m1) = Some (OField n py ty' os d dp r s ds)).
  { unfold mget, m2; simpl. rewrite N.eqb_refl. reflexivity. }
  split; [exists (OField n py ty args d dp r s ds), (OField n py ty' os d dp r s ds); repeat split; auto|].
  split; [assumption|]. split; [split; simpl; lia|].
  unfold oargs. rewrite Hf2, Ho2.
  eapply Forall2_impl; [|exact P1]. intros a b.
  apply (leafP_stable (m_next m1) (N.succ (m_next m1)) [] m1 m2); auto using Wok_nil; try lia.
  apply (fr0_alloc (m_next m1) [] m1 (OField n py ty' os d dp r s ds)). lia.
Qed.

Lemma extend_fields_P c : forall l m m' os,
  hi <= m_next m -> Forall (fun a => a < lo) l -> (forall x, In x l -> Forall (fun a => a < lo) (oargs m x)) ->
  extend_fields c m l = XOk (m', os) ->
  Forall2 (membP (m_next m') m') l os /\ m_next m <= m_next m'.
Proof.
  induction l as [|a l IH]; intros m m' os Hn Hl Hargs H; simpl in H.
  - inversion H; subst. split; [constructor|lia].
  - inversion Hl as [|? ? Ha Hl']; subst.
    destruct (extend_field c m a) as [[m1 o1]| |] eqn:E1; simpl in H; try discriminate.
    destruct (extend_fields c m1 l) as [[m2 os']| |] eqn:E2; simpl in H; try discriminate.
    inversion H; subst m' os; clear H.
    destruct (extend_field_P _ _ _ _ _ Hn Ha (Hargs a (or_introl eq_refl)) E1) as (P1 & N1).
    assert (Hn1 : hi <= m_next m1) by lia.
    pose proof (extend_field_fr (m_next m) [] c a m m1 o1 (N.le_refl _) E1) as F1.
    assert (Hargs1 : forall x, In x l -> Forall (fun a0 => a0 < lo) (oargs m1 x)).
    { intros x Hx. unfold oargs. rewrite (okc_unchanged (m_next m) [] m m1 x Hn Wok_nil F1).
      - apply Hargs. right; assumption.
      - left. rewrite Forall_forall in Hl'. auto. }
    destruct (IH _ _ _ Hn1 Hl' Hargs1 E2) as (P2 & N2).
    split; [|lia]. constructor; [|assumption].
    eapply (membP_stable (m_next m1) (m_next m2) []); eauto using Wok_nil.
    eapply (extend_fields_fr (m_next m1) []); [apply N.le_refl|exact E2].
Qed.


(* ---------------------------------------- what extensions add comes after *)
Lemma add_fields_prefix c : forall l m seen acc m' seen' acc',
  add_fields c m seen acc l = XOk (m', seen', acc') -> exists added, acc' = acc ++ added.
Proof.
  induction l as [|f l IH]; intros m seen acc m' seen' acc' H; simpl in H.
  - inversion H; subst. exists []. rewrite app_nil_r; reflexivity.
  - destruct (mem_str (nf_name f) seen); [discriminate|].
    destruct (build_field c m f) as [[m1 o1]| |]; simpl in H; try discriminate.
    destruct (IH _ _ _ _ _ _ H) as (added & ->). exists (o1 :: added). rewrite <- app_assoc. reflexivity.
Qed.
Lemma add_inputs_prefix c : forall l m seen acc m' seen' acc',
  add_inputs c m seen acc l = XOk (m', seen', acc') -> exists added, acc' = acc ++ added.
Proof.
  induction l as [|f l IH]; intros m seen acc m' seen' acc' H; simpl in H.
  - inversion H; subst. exists []. rewrite app_nil_r; reflexivity.
  - destruct (mem_str (na_name f) seen); [discriminate|].
    destruct (build_input c false m f) as [[m1 o1]| |]; simpl in H; try discriminate.
    destruct (IH _ _ _ _ _ _ H) as (added & ->). exists (o1 :: added). rewrite <- app_assoc. reflexivity.
Qed.
Lemma add_values_prefix : forall l m seen acc m' seen' acc',
  add_values m seen acc l = XOk (m', seen', acc') -> exists added, acc' = acc ++ added.
Proof.
  induction l as [|[n d dp ds] l IH]; intros m seen acc m' seen' acc' H; simpl in H.
  - inversion H; subst. exists []. rewrite app_nil_r; reflexivity.
  - destruct (mem_str n seen); [discriminate|].
    destruct (IH _ _ _ _ _ _ H) as (added & ->). exists (m_next m :: added). rewrite <- app_assoc. reflexivity.
Qed.

Lemma add_body_prefix c k b m a bb cc d m' a' b' c' d' :
  add_body c k (XOk (m, a, bb, cc, d)) b = XOk (m', a', b', c', d') -> exists added, b' = bb ++ added.
Proof.
  intros H. unfold add_body in H. simpl in H. destruct b as [fs ifs|fs|vs|members|].
  - destruct (add_fields c m a bb fs) as [[[m1 s1] a1]| |] eqn:E; simpl in H; try discriminate.
    destruct (add_names c cc d _) as [[q1 q2]| |]; simpl in H; try discriminate.
    inversion H; subst. eapply add_fields_prefix; eauto.
  - destruct (add_inputs c m a bb fs) as [[[m1 s1] a1]| |] eqn:E; simpl in H; try discriminate.
    inversion H; subst. eapply add_inputs_prefix; eauto.
  - destruct (add_values m a bb vs) as [[[m1 s1] a1]| |] eqn:E; simpl in H; try discriminate.
    inversion H; subst. eapply add_values_prefix; eauto.
  - destruct (add_names c cc d members) as [[q1 q2]| |]; simpl in H; try discriminate.
    inversion H; subst. exists []. rewrite app_nil_r; reflexivity.
  - inversion H; subst. exists []. rewrite app_nil_r; reflexivity.
Qed.

Lemma fold_add_body_prefix c k : forall bs m a b cc d m' a' b' c' d',
  fold_left (add_body c k) bs (XOk (m, a, b, cc, d)) = XOk (m', a', b', c', d') ->
  exists added, b' = b ++ added /\ (bs = [] -> added = []).
Proof.
  induction bs as [|bd bs IH]; intros m a b cc d m' a' b' c' d' H; cbn [fold_left] in H.
  - inversion H; subst. exists []. split; [rewrite app_nil_r; reflexivity|auto].
  - destruct (add_body c k (XOk (m, a, b, cc, d)) bd) as [[[[[m1 a1] b1] c1] d1]| |] eqn:E.
    + destruct (add_body_prefix _ _ _ _ _ _ _ _ _ _ _ _ _ E) as (ad1 & ->).
      destruct (IH _ _ _ _ _ _ _ _ _ _ H) as (ad2 & -> & _).
      exists (ad1 ++ ad2). split; [rewrite app_assoc; reflexivity|discriminate].
    + exfalso. clear - H. induction bs; cbn [fold_left] in H; [discriminate|auto].
    + exfalso. clear - H. induction bs; cbn [fold_left] in H; [discriminate|auto].
Qed.

(* ------------------------------------------------- one type, when rebuilt *)
Definition tpP (doc : extdoc) (nn : oid) (m' : mem) (n : str) (t self : oid) : Prop :=
  t < lo /\ lo <= self /\ self < hi /\
  exists k d ms ifs r ds ms' ifs',
    mget m' t = Some (OType n k d ms ifs r ds) /\
    mget m' self = Some (OType n k d ms' ifs' r (ds ++ flat_map ext_dirs (exts_for doc n))) /\
    exists copies added,
      ms' = copies ++ added /\
      (exts_for doc n = [] -> added = []) /\
      match k with
      | Kobject | Kinterface | Kinput => Forall2 (membP nn m') ms copies
      | _ => copies = ms
      end.

Lemma leafP_membP n m x x' : leafP n m x x' -> membP n m x x'.
Proof.
  intros (Hl & Hlo & Hnew & H1 & H2). split; [assumption|]. split; [assumption|]. split; [assumption|].
  rewrite H1, H2. constructor.
Qed.

Lemma tpP_stable doc n n' W m m' nm t self :
  hi <= n -> n <= n' -> Wok W -> ~ In self W -> fr0 n W m m' -> tpP doc n m nm t self -> tpP doc n' m' nm t self.
Proof.
  intros Hn Hn' Hw Hs F (Ht & Hs1 & Hs2 & k & d & ms & ifs & r & ds & ms' & ifs' & Hgt & Hgs & copies & added & Hms & Hadd & Hc).
  split; [assumption|]. split; [assumption|]. split; [assumption|].
  exists k, d, ms, ifs, r, ds, ms', ifs'.
  split; [rewrite (okc_unchanged n W m m' t Hn Hw F (or_introl Ht)); assumption|].
  split; [rewrite (proj1 F self); [assumption|lia|assumption]|].
  exists copies, added. split; [assumption|]. split; [assumption|].
  destruct k; auto; (eapply Forall2_impl; [|exact Hc]; intros a b; eapply membP_stable; eauto).
Qed.

Lemma extend_existing_P c doc m t self m' n k d ms ifs r ds :
  hi <= m_next m -> lo <= self -> self < hi -> t < lo ->
  mget m t = Some (OType n k d ms ifs r ds) ->
  Forall (fun a => a < lo) ms -> (forall x, In x ms -> Forall (fun a => a < lo) (oargs m x)) ->
  extend_existing c doc m t self = XOk m' ->
  tpP doc (m_next m') m' n t self /\ m_next m <= m_next m'.
Proof.
  intros Hn Hs1 Hs2 Ht Hg Hms Hargs H.
  pose proof (extend_existing_fr (m_next m) [self] c doc m t self m' (N.le_refl _) (or_intror (or_introl eq_refl)) H) as F.
  unfold extend_existing in H. rewrite Hg in H.
  destruct (negb (forallb _ _)); [discriminate|].
  match type of H with xbind ?b _ = _ => destruct b as [[mb copies]| |] eqn:Eb; simpl in H; try discriminate end.
  destruct (negb (N.eqb _ _)); [discriminate|].
  match type of H with xbind ?b _ = _ => destruct b as [[[[[m1 a1] ms1] c1] rs1]| |] eqn:Ef; simpl in H; try discriminate end.
  inversion H; subst m'; clear H. simpl.
  destruct (fold_add_body_prefix _ _ _ _ _ _ _ _ _ _ _ _ _ Ef) as (added & -> & Hadd).
  assert (Hbase : m_next m <= m_next mb /\
            match k with
            | Kobject | Kinterface | Kinput => Forall2 (membP (m_next mb) mb) ms copies
            | _ => copies = ms
            end).
  { destruct k; simpl in Eb; try (inversion Eb; subst; split; [lia|reflexivity]).
    - destruct (extend_fields c m ms) as [[mx x1]| |] eqn:E1; simpl in Eb; try discriminate.
      inversion Eb; subst. destruct (extend_fields_P _ _ _ _ _ Hn Hms Hargs E1); split; [lia|assumption].
    - destruct (extend_fields c m ms) as [[mx x1]| |] eqn:E1; simpl in Eb; try discriminate.
      inversion Eb; subst. destruct (extend_fields_P _ _ _ _ _ Hn Hms Hargs E1); split; [lia|assumption].
    - destruct (extend_inputs c m ms) as [[mx x1]| |] eqn:E1; simpl in Eb; try discriminate.
      inversion Eb; subst. destruct (extend_inputs_P _ _ _ _ _ Hn Hms E1) as (P1 & N1). split; [lia|].
      eapply Forall2_impl; [|exact P1]. intros a b. apply leafP_membP. }
  destruct Hbase as (Nb & Hcopies).
  pose proof (fold_add_body_fr (m_next mb) [] c k _ _ _ _ _ _ _ _ _ _ _ (N.le_refl _) Ef) as Ff.
  assert (N1 : m_next mb <= m_next m1) by (destruct Ff; assumption).
  split; [|lia]. split; [assumption|]. split; [assumption|]. split; [assumption|].
  exists k, d, ms, ifs, r, ds, (copies ++ added), rs1.
  split.
  { rewrite mget_write. destruct (N.eqb_spec t self); [lia|].
    rewrite <- Hg. destruct F as [F _]. rewrite <- (F t); [|lia|intros [He|[]]; lia].
    rewrite mget_write. destruct (N.eqb_spec t self); [lia|reflexivity]. }
  split; [rewrite mget_write, N.eqb_refl; reflexivity|].
  exists copies, added. split; [reflexivity|]. split.
  { intros He. apply Hadd. rewrite He. reflexivity. }
  assert (Hst : forall a b, membP (m_next mb) mb a b ->
                  membP (m_next m1) (write m1 self (OType n k d (copies ++ added) rs1 r (ds ++ flat_map ext_dirs (exts_for doc n)))) a b).
  { intros a b Hab.
    apply (membP_stable (m_next m1) (m_next m1) [self] m1); try lia.
    - intros w [<-|[]]; split; assumption.
    - apply fr0_write. right; left; reflexivity.
    - apply (membP_stable (m_next mb) (m_next m1) [] mb m1); auto using Wok_nil; lia. }
  destruct k; auto; (eapply Forall2_impl; [|exact Hcopies]; exact Hst).
Qed.

(* -------------------------------------------------- all types, to the end *)
Definition src_ok (m : mem) (n : str) (t : oid) : Prop :=
  t < lo /\ exists k d ms ifs r ds,
    mget m t = Some (OType n k d ms ifs r ds) /\
    Forall (fun a => a < lo) ms /\ (forall x, In x ms -> Forall (fun a => a < lo) (oargs m x)).

Lemma src_ok_stable n W m m' nm t :
  hi <= n -> Wok W -> fr0 n W m m' -> src_ok m nm t -> src_ok m' nm t.
Proof.
  intros Hn Hw F (Ht & k & d & ms & ifs & r & ds & Hg & Hms & Hargs).
  split; [assumption|]. exists k, d, ms, ifs, r, ds.
  split; [rewrite (okc_unchanged n W m m' t Hn Hw F (or_introl Ht)); assumption|]. split; [assumption|].
  intros x Hx. unfold oargs. rewrite (okc_unchanged n W m m' x Hn Hw F); [apply Hargs; assumption|].
  left. rewrite Forall_forall in Hms. auto.
Qed.

Definition self_of (plan : list (str * oid)) (e : str * oid) : list oid := otolist (alookup (fst e) plan).
Definition estep (c : bctx) (doc : extdoc) (plan : list (str * oid)) : mem -> str * oid -> xres mem :=
  fun mm e => match alookup (fst e) plan with
              | Some self => extend_existing c doc mm (snd e) self
              | None => XUnsupported
              end.

Lemma fr0_weaken n0 W W' m m' : (forall o, In o W -> In o W') -> fr0 n0 W m m' -> fr0 n0 W' m m'.
Proof. intros Hs [F N]. split; [|assumption]. intros o Ho Hw. apply F; [assumption|]. intros Hin. apply Hw. auto. Qed.

Lemma xfold_estep_fr c doc plan n0 : forall l m m',
  n0 <= m_next m -> xfold (estep c doc plan) m l = XOk m' -> fr0 n0 (flat_map (self_of plan) l) m m'.
Proof.
  induction l as [|e2 l2 IH2]; intros m1 m' Hle H; simpl in H.
  - inversion H; subst. apply fr0_refl.
  - destruct (estep c doc plan m1 e2) as [mx| |] eqn:Ex; simpl in H; try discriminate.
    unfold estep in Ex.
    match type of Ex with match ?a with _ => _ end = _ => destruct a as [s2|] eqn:Hl2 end; [|discriminate Ex].
    assert (Hin : In s2 (flat_map (self_of plan) (e2 :: l2))).
    { simpl. apply in_or_app. left. unfold self_of. rewrite Hl2. left; reflexivity. }
    assert (Fx : fr0 n0 (flat_map (self_of plan) (e2 :: l2)) m1 mx).
    { eapply extend_existing_fr; [exact Hle|right; exact Hin|exact Ex]. }
    eapply fr0_trans; [exact Fx|].
    eapply fr0_weaken; [|apply IH2; [destruct Fx; lia|exact H]].
    intros o Ho. simpl. apply in_or_app. right; assumption.
Qed.

Lemma xfold_existing_P c doc plan : forall l m m',
  hi <= m_next m ->
  (forall e, In e l -> src_ok m (fst e) (snd e)) ->
  (forall e self, In e l -> alookup (fst e) plan = Some self -> lo <= self /\ self < hi) ->
  NoDup (flat_map (self_of plan) l) ->
  xfold (estep c doc plan) m l = XOk m' ->
  m_next m <= m_next m' /\
  forall e, In e l -> exists self, alookup (fst e) plan = Some self /\
                                 tpP doc (m_next m') m' (fst e) (snd e) self.
Proof.
  induction l as [|e l IH]; intros m m' Hn Hsrc Hpl Hnd H; simpl in H.
  - inversion H; subst. split; [lia|intros e []].
  - destruct (estep c doc plan m e) as [m1| |] eqn:E1; simpl in H; try discriminate.
    unfold estep in E1.
    match type of E1 with match ?a with _ => _ end = _ => destruct a as [self|] eqn:Hl end; [|discriminate E1].
    destruct (Hpl e self (or_introl eq_refl) Hl) as (Hs1 & Hs2).
    destruct (Hsrc e (or_introl eq_refl)) as (Ht & k & d & ms & ifs & r & ds & Hg & Hms & Hargs).
    destruct (extend_existing_P c doc m (snd e) self m1 (fst e) k d ms ifs r ds Hn Hs1 Hs2 Ht Hg Hms Hargs E1)
      as (P1 & N1).
    pose proof (extend_existing_fr (m_next m) [self] c doc m (snd e) self m1 (N.le_refl _)
                  (or_intror (or_introl eq_refl)) E1) as F1.
    assert (Hw1 : Wok [self]) by (intros w [<-|[]]; split; assumption).
    assert (Hn1 : hi <= m_next m1) by lia.
    simpl in Hnd. unfold self_of at 1 in Hnd. rewrite Hl in Hnd. simpl in Hnd.
    inversion Hnd as [|? ? Hnotin Hnd']; subst.
    destruct (IH m1 m' Hn1) as (N2 & P2); auto.
    { intros e' He'. eapply src_ok_stable; [exact Hn|exact Hw1|exact F1|]. apply Hsrc. right; assumption. }
    { intros e' s' He'. apply Hpl. right; assumption. }
    split; [lia|]. intros e' [<-|He'].
    + exists self. split; [assumption|].
      (* the remaining steps only fill the reserved objects of the remaining entries *)
      pose proof (xfold_estep_fr c doc plan (m_next m1) l m1 m' (N.le_refl _) H) as Ft.
      eapply tpP_stable; [exact Hn1|exact N2| |exact Hnotin|exact Ft|exact P1].
      intros w Hw. apply in_flat_map in Hw. destruct Hw as (e2 & He2 & Hw). unfold self_of in Hw.
      match type of Hw with In _ (otolist ?a) => destruct a as [s2|] eqn:Hl2 end; [|destruct Hw]. destruct Hw as [<-|[]].
      apply (Hpl e2 s2); [right; assumption|assumption].
    + apply P2. assumption.
Qed.

End Pres.

(* ------------------------------------------------------------- assembly *)
Lemma reserve_spec : forall l m m' plan,
  reserve m l = (m', plan) ->
  map fst plan = map fst l /\ NoDup (map snd plan) /\
  (forall n o, In (n, o) plan -> m_next m <= o /\ o < m_next m') /\ m_next m <= m_next m'.
Proof.
  induction l as [|[n k] l IH]; intros m m' plan H; simpl in H.
  - inversion H; subst. split; [reflexivity|]. split; [constructor|]. split; [intros ? ? []|lia].
  - unfold alloc in H. simpl in H.
    match type of H with (let (m2, r) := reserve ?m1 l in _) = _ => destruct (reserve m1 l) as [m2 r] eqn:E end.
    inversion H; subst. destruct (IH _ _ _ E) as (Hk & Hnd & Hb & Hn). simpl in *.
    split; [f_equal; assumption|]. split.
    + constructor; [|assumption]. intros Hin. apply in_map_iff in Hin. destruct Hin as ([n1 o1] & Ho & Hin).
      simpl in Ho; subst o1. destruct (Hb _ _ Hin). lia.
    + split; [|lia]. intros n1 o1 [Heq|Hin]; [inversion Heq; subst; lia|destruct (Hb _ _ Hin); lia].
Qed.

Lemma alookup_exists {A} k (l : list (str * A)) : In k (map fst l) -> exists v, alookup k l = Some v.
Proof.
  induction l as [|[k' v'] l IH]; simpl; [intros []|].
  destruct (str_eqb_spec k k') as [->|Hne]; [eexists; reflexivity|].
  intros [H|H]; [congruence|auto].
Qed.

Lemma nodup_snd_inj {A} (p : list (A * oid)) a b x :
  NoDup (map snd p) -> In (a, x) p -> In (b, x) p -> a = b.
Proof.
  induction p as [|[a0 x0] p IH]; simpl; [intros _ []|]. intros Hnd Ha Hb. inversion Hnd; subst.
  destruct Ha as [Ha|Ha], Hb as [Hb|Hb].
  - congruence.
  - inversion Ha; subst. exfalso. apply H1. apply in_map_iff. exists (b, x); auto.
  - inversion Hb; subst. exfalso. apply H1. apply in_map_iff. exists (a, x); auto.
  - auto.
Qed.

Lemma nodup_selfs plan : forall l : list (str * oid),
  NoDup (map fst l) -> NoDup (map snd plan) -> NoDup (flat_map (self_of plan) l).
Proof.
  induction l as [|e l IH]; simpl; intros Hk Hp; [constructor|]. inversion Hk; subst.
  unfold self_of at 1. destruct (alookup (fst e) plan) as [self|] eqn:Hl; simpl; [|auto].
  constructor; [|auto]. intros Hin. apply in_flat_map in Hin. destruct Hin as (e2 & He2 & Hs).
  unfold self_of in Hs. destruct (alookup (fst e2) plan) as [s2|] eqn:Hl2; [|destruct Hs].
  destruct Hs as [->|[]]. apply alookup_In in Hl. apply alookup_In in Hl2.
  pose proof (nodup_snd_inj _ _ _ _ Hp Hl Hl2) as Heq. apply H1. rewrite Heq. apply in_map. assumption.
Qed.

Lemma build_registers fuel m q mu su dirs types s :
  builtins_ok m -> build fuel m q mu su dirs types = Ok s -> forall c, In c types -> reg m (s_types s) c.
Proof.
  intros Hb H c Hc. unfold build in H.
  destruct (build_dirs m dirs []) as [dm| | |]; simpl in H; try discriminate.
  match type of H with obind (build_map ?f ?mm ?st ?t0) _ = _ =>
    destruct (build_map f mm st t0) as [tm| | |] eqn:Hm; simpl in H; try discriminate;
    pose proof (build_map_closed m f st t0 tm (builtin_names_ok m Hb)) as Hcl end.
  inversion H; subst s; clear H. simpl.
  destruct Hcl as (_ & Hstack & _); [|assumption|].
  { intros n o Hin c0 Hc0. rewrite (builtin_children m Hb n o Hin) in Hc0. destruct Hc0. }
  apply Hstack. apply in_or_app. left; assumption.
Qed.

Lemma membP_copy lo hi n m x x' : membP lo hi n m x x' -> member_copy m x x'.
Proof.
  intros (Hl & _ & _ & Hargs). split; [assumption|].
  eapply Forall2_impl; [|exact Hargs]. intros a b (H & _). exact H.
Qed.

Lemma tpP_preserved lo hi doc nn m n t self : tpP lo hi doc nn m n t self -> type_preserved doc m n t self.
Proof.
  intros (_ & _ & _ & k & d & ms & ifs & r & ds & ms' & ifs' & Hgt & Hgs & copies & added & Hms & Hadd & Hc).
  exists k, d, ms, ifs, r, ds, ms', ifs'. split; [assumption|]. split; [assumption|].
  exists copies, added. split; [assumption|]. split; [assumption|].
  destruct k; auto; (eapply Forall2_impl; [|exact Hc]; intros a b; apply membP_copy).
Qed.

Lemma typed_src lo m n t :
  fresh_ok m -> lo = m_next m -> tname m t = Some n -> type_typed m t -> src_ok lo m n t.
Proof.
  intros Hf -> Hn Ht. unfold type_typed in Ht. unfold tname in Hn.
  destruct (mget m t) as [[n0 k d ms ifs r ds| | | |]|] eqn:Hg; try contradiction. inversion Hn; subst n0.
  assert (Hex : forall x v, mget m x = Some v -> x < m_next m).
  { intros x v Hx. destruct (N.lt_ge_cases x (m_next m)) as [H|H]; [assumption|]. rewrite (Hf x H) in Hx. discriminate. }
  split; [eapply Hex; eauto|]. exists k, d, ms, ifs, r, ds. split; [exact Hg|].
  assert (Hleaf : forall l, Forall (leaf m) l -> Forall (fun a => a < m_next m) l /\ forall x, In x l -> oargs m x = []).
  { intros l Hl. split.
    - eapply Forall_impl; [|exact Hl]. intros a Ha. unfold leaf in Ha. destruct (mget m a) eqn:Ea; [eapply Hex; eauto|contradiction].
    - intros x Hx. rewrite Forall_forall in Hl. specialize (Hl x Hx). unfold leaf in Hl. unfold oargs.
      destruct (mget m x) as [[| | | |]|]; try contradiction; reflexivity. }
  destruct k.
  - subst ms. split; [constructor|intros x []].
  - split.
    + eapply Forall_impl; [|exact Ht]. intros a Ha. unfold field_typed in Ha. destruct (mget m a) eqn:Ea; [eapply Hex; eauto|contradiction].
    + intros x Hx. rewrite Forall_forall in Ht. specialize (Ht x Hx). unfold field_typed in Ht. unfold oargs.
      destruct (mget m x) as [[| | | |]|]; try contradiction. exact (proj1 (Hleaf _ Ht)).
  - split.
    + eapply Forall_impl; [|exact Ht]. intros a Ha. unfold field_typed in Ha. destruct (mget m a) eqn:Ea; [eapply Hex; eauto|contradiction].
    + intros x Hx. rewrite Forall_forall in Ht. specialize (Ht x Hx). unfold field_typed in Ht. unfold oargs.
      destruct (mget m x) as [[| | | |]|]; try contradiction. exact (proj1 (Hleaf _ Ht)).
  - subst ms. split; [constructor|intros x []].
  - destruct (Hleaf _ Ht) as (H1 & H2). split; [assumption|]. intros x Hx. rewrite (H2 x Hx). constructor.
  - destruct (Hleaf _ Ht) as (H1 & H2). split; [assumption|]. intros x Hx. rewrite (H2 x Hx). constructor.
Qed.

Theorem extend_preserved fuel m s doc m' s' :
  fresh_ok m -> builtins_ok m -> wf_schema m s ->
  extend fuel m s doc = Ok (m', s') ->
  forall n t, In (n, t) (s_types s) -> is_builtin t = false ->
    exists self, alookup n (s_types s') = Some self /\ type_preserved doc m' n t self.
Proof.
  intros Hf Hb Hwf H n t Hin Hnb.
  pose proof (extend_frame _ _ _ _ _ _ H) as Hfr.
  assert (Hb' : builtins_ok m').
  { intros nb b Hnb'. rewrite Hfr; [apply Hb; exact Hnb'|].
    destruct (N.lt_ge_cases b (m_next m)) as [Hlt|Hle]; [assumption|].
    pose proof (Hb nb b Hnb') as Hg. rewrite (Hf b Hle) in Hg. discriminate. }
  unfold extend in H. destruct (extend_x fuel m s doc) as [res0| |] eqn:Hx; try discriminate.
  unfold extend_x in Hx. destruct (negb (collect_ok m s doc)); [discriminate|].
  set (lo := m_next m) in *.
  set (olds := old_entries m s) in *.
  destruct (reserve m _) as [m1 plan_old] eqn:R1. destruct (reserve m1 _) as [m2 plan_new] eqn:R2.
  destruct (reserve_spec _ _ _ _ R1) as (K1 & ND1 & B1 & N1).
  destruct (reserve_spec _ _ _ _ R2) as (K2 & ND2 & B2 & N2).
  destruct (reserve_fr lo [] _ _ _ _ (N.le_refl _) R1) as (F1 & _).
  destruct (reserve_fr lo [] _ _ _ _ (ltac:(unfold lo; lia) : lo <= m_next m1) R2) as (F2 & _).
  set (hi := m_next m2) in *.
  assert (Hlohi : lo <= hi) by (unfold lo, hi; lia).
  match type of Hx with xbind ?b _ = _ => destruct b as [[md dso]| |] eqn:Ed; simpl in Hx; try discriminate end.
  pose proof (xmap_fr lo [] _ (extend_dir_fr lo [] _) _ _ _ _ Hlohi Ed) as F3.
  match type of Hx with xbind ?b _ = _ => destruct b as [[mn dsn]| |] eqn:En; simpl in Hx; try discriminate end.
  assert (N3 : hi <= m_next md) by (destruct F3; assumption).
  pose proof (xmap_fr lo [] _ (build_dir_fr lo [] _) _ _ _ _ (ltac:(lia) : lo <= m_next md) En) as F4.
  assert (N4 : hi <= m_next mn) by (destruct F4; lia).
  match type of Hx with xbind ?b _ = _ => destruct b as [m3| |] eqn:E3; simpl in Hx; try discriminate end.
  match type of Hx with xbind ?b _ = _ => destruct b as [m4| |] eqn:E4; simpl in Hx; try discriminate end.
  destruct (ext_root _ m (s_query s)) as [q| |]; simpl in Hx; try discriminate.
  destruct (ext_root _ m (s_mut s)) as [mu| |]; simpl in Hx; try discriminate.
  destruct (ext_root _ m (s_sub s)) as [su| |]; simpl in Hx; try discriminate.
  destruct (apply_ops _ _ _) as [[[q' mu'] su']| |]; simpl in Hx; try discriminate.
  inversion Hx as [Hr]; clear Hx; rewrite <- Hr in H; clear Hr.
  match type of H with obind (build ?f ?mm ?a ?b ?c ?d ?e) _ = _ =>
    destruct (build f mm a b c d e) as [sc| | |] eqn:Hbd; simpl in H; try discriminate end.
  inversion H; subst m' s'; clear H.
  (* cells below lo are the source's, unchanged up to mn *)
  assert (Fpre : forall o, o < lo -> mget mn o = mget m o).
  { intros o Ho. pose proof (fr0_trans lo [] _ _ _ F1 (fr0_trans lo [] _ _ _ F2 (fr0_trans lo [] _ _ _ F3 F4))) as F.
    apply (proj1 F o Ho). intros []. }
  assert (Holds : forall e, In e olds -> In e (s_types s) /\ is_builtin (snd e) = false).
  { intros e He. unfold olds, old_entries in He. apply filter_In in He. destruct He as [He Hbn].
    split; [assumption|]. apply negb_true_iff in Hbn. assumption. }
  assert (Hsrc : forall e, In e olds -> src_ok lo mn (fst e) (snd e)).
  { intros [n1 t1] He. destruct (Holds _ He) as (Hi1 & Hb1). simpl in *.
    pose proof (typed_src lo m n1 t1 Hf eq_refl (wf_names _ _ Hwf _ _ Hi1) (wf_typed _ _ Hwf _ _ Hi1 Hb1)) as (Ht & k & d & ms & ifs & r & ds & Hg & Hms & Hargs).
    split; [assumption|]. exists k, d, ms, ifs, r, ds. split; [rewrite Fpre; assumption|]. split; [assumption|].
    intros x Hx0. unfold oargs. rewrite Fpre; [apply Hargs; assumption|]. rewrite Forall_forall in Hms. auto. }
  assert (Hkeys : map fst plan_old = map fst olds) by (rewrite K1, map_map; reflexivity).
  assert (Hpl : forall e self, In e olds -> alookup (fst e) plan_old = Some self -> lo <= self /\ self < hi).
  { intros e self _ Hl. apply alookup_In in Hl. destruct (B1 _ _ Hl). unfold lo, hi. split; lia. }
  assert (Hndk : NoDup (map fst olds)).
  { unfold olds, old_entries. clear - Hwf. pose proof (wf_keys _ _ Hwf) as Hnd.
    induction (s_types s) as [|e l IH]; simpl in *; [constructor|]. inversion Hnd; subst.
    destruct (negb (is_builtin (snd e))); simpl; [constructor; auto|auto].
    intros Hi. apply H1. apply in_map_iff in Hi. destruct Hi as (x & Hx & Hxi). apply filter_In in Hxi.
    apply in_map_iff. exists x. split; [assumption|exact (proj1 Hxi)]. }
  destruct (xfold_existing_P lo hi Hlohi _ doc plan_old olds mn m3 N4 Hsrc Hpl
              (nodup_selfs plan_old olds Hndk ND1) E3) as (N5 & Pall).
  assert (He : In (n, t) olds).
  { unfold olds, old_entries. apply filter_In. split; [assumption|]. simpl. rewrite Hnb. reflexivity. }
  destruct (Pall _ He) as (self & Hl & Ptp). simpl in Hl, Ptp.
  (* the new definitions are built into their own reserved objects *)
  assert (F6 : fr0 (m_next m3) (map snd plan_new) m3 m4).
  { eapply (xfold_fr (m_next m3) (map snd plan_new)); [|apply N.le_refl|exact E4]. intros d0 mm mm' Hn0 He0.
    cbv beta in He0.
    match type of He0 with match ?a with _ => _ end = _ => destruct a as [sf|] eqn:Hl0 end; [|discriminate He0].
    eapply build_new_fr; [exact Hn0| |exact He0]. right. apply in_map_iff. exists (td_name d0, sf).
    split; [reflexivity|apply alookup_In; assumption]. }
  assert (Ptp4 : tpP lo hi doc (m_next m4) m4 n t self).
  { eapply (tpP_stable lo hi Hlohi doc (m_next m3) (m_next m4) (map snd plan_new)); [| | | |exact F6|exact Ptp].
    - lia.
    - destruct F6; assumption.
    - intros w Hw. apply in_map_iff in Hw. destruct Hw as ([n1 o1] & <- & Hw). destruct (B2 _ _ Hw). simpl.
      unfold lo, hi. split; lia.
    - intros Hw. apply in_map_iff in Hw. destruct Hw as ([n1 o1] & Ho & Hw). simpl in Ho; subst o1.
      destruct (B2 _ _ Hw). apply alookup_In in Hl. destruct (B1 _ _ Hl). lia. }
  exists self. split; [|eapply tpP_preserved; exact Ptp4].
  assert (Hreg : reg m4 (s_types sc) self).
  { eapply build_registers; [exact Hb'|exact Hbd|]. apply in_or_app. left.
    apply in_map_iff. exists (n, t). simpl. rewrite Hnb. split; [|assumption].
    match goal with |- match ?a with _ => _ end = _ => replace a with (Some self) by (symmetry; exact Hl) end.
    reflexivity. }
  destruct Hreg as (n' & Hn' & Hl').
  destruct Ptp4 as (_ & _ & _ & k & d & ms & ifs & r & ds & ms' & ifs' & _ & Hgs & _).
  unfold tname in Hn'. rewrite Hgs in Hn'. inversion Hn'; subst n'. exact Hl'.
Qed.
