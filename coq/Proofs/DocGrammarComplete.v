(* C01 at document level, completeness: every derivation of an executable
   document (Spec/DocGrammarSpec.v) is accepted by the parser model, which
   returns the tree of the derivation. *)
From PyGql Require Import Lang.Parser Spec.GrammarSpec Spec.DocGrammarSpec Proofs.GrammarProofs
  Proofs.DocGrammarSound.

(* the next thing in the stream is a token whose class is not in [bad] *)
Definition fol (bad : list tkind) (rest : list lx) : Prop :=
  exists t r, rest = LT t :: r /\ ~ In (tk t) bad.

Lemma fol_weaken bad bad' rest : incl bad' bad -> fol bad rest -> fol bad' rest.
Proof. intros Hi (t & r & -> & Hn). exists t, r. split; [reflexivity|]. intros H; apply Hn, Hi, H. Qed.

Lemma fol_cons bad t r : ~ In (tk t) bad -> fol bad (LT t :: r).
Proof. intros H. exists t, r. auto. Qed.

(* a token sequence is empty or starts with a token of class k *)
Definition starts (ks : list tkind) (ts : list ptok) : Prop :=
  ts = [] \/ exists t r, ts = t :: r /\ In (tk t) ks.

Lemma fol_app bad ks ts rest :
  starts ks ts -> (forall k, In k ks -> ~ In k bad) -> fol bad rest -> fol bad (map LT ts ++ rest).
Proof.
  intros [->|(t & r & -> & Hk)] Hd Hf; [exact Hf|]. simpl. apply fol_cons. apply Hd, Hk.
Qed.

Definition pcomplete {A} (p : parser A) (R : list ptok -> A -> Prop) (F : list lx -> Prop) (bound : nat) : Prop :=
  forall ts x, R ts x -> length ts < bound -> forall rest e, F rest ->
    p (PSt (map LT ts ++ rest) e) = Ok (x, PSt rest (lend ts e)).

(* ---- loops ---- *)
Lemma while_kind_complete {A} (p : parser A) (R : list ptok -> A -> Prop) k (Fi : list lx -> Prop) bound :
  (forall ts x, R ts x -> exists t r, ts = t :: r /\ tk t = k) ->
  (forall t r, tk t = k -> Fi (LT t :: r)) ->
  pcomplete p R Fi bound ->
  forall ts xs, D_list R ts xs -> forall m rest e, length ts < m -> length ts < bound ->
    Fi rest -> fol [k] rest ->
    while_kind m k p (PSt (map LT ts ++ rest) e) = Ok (xs, PSt rest (lend ts e)).
Proof.
  intros Hfirst Hfi Hp ts xs Hl. induction Hl as [|ts x ts' xs Hx Hxs IH]; intros m rest e Hm Hb HF Hfol.
  - destruct m as [|m]; [lia|]. destruct Hfol as (t & r & -> & Hn). cbn [while_kind map app].
    pstep ltac:(apply peek_eval). unfold is_kind.
    destruct (tkind_eqb (tk t) k) eqn:E; [apply tkind_eqb_eq in E; exfalso; apply Hn; left; auto|reflexivity].
  - destruct (Hfirst _ _ Hx) as (t & r & -> & Kt). rewrite app_length in Hm, Hb.
    destruct m as [|m]; [lia|]. cbn [while_kind]. rewrite map_app, <- app_assoc.
    pstep ltac:(simpl; apply peek_eval). unfold is_kind. rewrite Kt, tkind_eqb_refl.
    assert (HFn : Fi (map LT ts' ++ rest)).
    { destruct Hxs as [|ts2 x2 ts3 xs2 Hx2 _]; [exact HF|].
      destruct (Hfirst _ _ Hx2) as (t2 & r2 & -> & K2). simpl. apply Hfi. exact K2. }
    pstep ltac:(apply (Hp _ _ Hx); [lia|exact HFn]).
    pstep ltac:(apply IH; [simpl in *; lia|lia|exact HF|exact Hfol]).
    rewrite lend_app. reflexivity.
Qed.

Lemma many_loop_complete {A} (p : parser A) (R : list ptok -> A -> Prop) close (P : tkind -> Prop) (Fi : list lx -> Prop) bound :
  (forall ts x, R ts x -> exists t r, ts = t :: r /\ P (tk t)) ->
  (forall k, P k -> k <> close) ->
  (forall t r, P (tk t) \/ tk t = close -> Fi (LT t :: r)) ->
  pcomplete p R Fi bound ->
  forall ts xs, D_list R ts xs -> xs <> [] -> forall m cl rest e, length ts < m -> length ts < bound ->
    tk cl = close ->
    many_loop m p close (PSt (map LT ts ++ LT cl :: rest) e) = Ok (xs, PSt rest (tend cl)).
Proof.
  intros Hfirst HP Hfi Hp ts xs Hl. induction Hl as [|ts x ts' xs Hx Hxs IH]; intros Hne m cl rest e Hm Hb Kc;
    [congruence|].
  destruct (Hfirst _ _ Hx) as (t & r & -> & Pt). rewrite app_length in Hm, Hb.
  destruct m as [|m]; [lia|]. cbn [many_loop]. rewrite map_app, <- app_assoc.
  assert (HFn : Fi (map LT ts' ++ LT cl :: rest)).
  { destruct Hxs as [|ts2 x2 ts3 xs2 Hx2 _]; [simpl; apply Hfi; right; exact Kc|].
    destruct (Hfirst _ _ Hx2) as (t2 & r2 & -> & P2). simpl. apply Hfi. left; exact P2. }
  pstep ltac:(apply (Hp _ _ Hx); [lia|exact HFn]).
  destruct Hxs as [|ts2 x2 ts3 xs2 Hx2 Hxs2].
  - simpl. pstep ltac:(apply skip_eval_yes; exact Kc). reflexivity.
  - destruct (Hfirst _ _ Hx2) as (t2 & r2 & E2 & P2).
    assert (Hskip : skip close (PSt (map LT (ts2 ++ ts3) ++ LT cl :: rest) (lend (t :: r) e))
                    = Ok (false, PSt (map LT (ts2 ++ ts3) ++ LT cl :: rest) (lend (t :: r) e))).
    { rewrite E2. simpl. apply skip_eval_no. apply HP. exact P2. }
    pstep ltac:(exact Hskip).
    pstep ltac:(apply IH; [discriminate|simpl in *; lia|lia|exact Kc]).
    reflexivity.
Qed.

Lemma many_complete {A} (p : parser A) (R : list ptok -> A -> Prop) open close (P : tkind -> Prop) (Fi : list lx -> Prop) bound m :
  (forall ts x, R ts x -> exists t r, ts = t :: r /\ P (tk t)) ->
  (forall k, P k -> k <> close) ->
  (forall t r, P (tk t) \/ tk t = close -> Fi (LT t :: r)) ->
  pcomplete p R Fi bound ->
  forall o body cl xs rest e, tk o = open -> tk cl = close -> D_list R body xs -> xs <> [] ->
    length body < m -> length body < bound ->
    many m open p close (PSt (map LT (o :: body ++ [cl]) ++ rest) e) = Ok (xs, PSt rest (tend cl)).
Proof.
  intros Hfirst HP Hfi Hp o body cl xs rest e Ko Kc Hl Hne Hm Hb.
  unfold many. simpl. rewrite map_app, <- app_assoc. simpl.
  pstep ltac:(apply expect_eval; exact Ko).
  eapply many_loop_complete; eauto.
Qed.

(* ---- normalising end offsets ---- *)
Lemma lend_cons' t r e : lend (t :: r) e = lend r (tend t).
Proof.
  destruct r as [|a r']; [reflexivity|]. simpl. f_equal.
  destruct r' as [|b r'']; [reflexivity|]. apply last_default. discriminate.
Qed.

Lemma mkloc_lend (nl : bool) t r e :
  mkloc nl (t :: r) = if nl then None else Some (tstart t, lend (t :: r) e).
Proof. reflexivity. Qed.

Lemma peek_eval_map t r rest e :
  peek (PSt (map LT (t :: r) ++ rest) e) = Ok (t, PSt (map LT (t :: r) ++ rest) e).
Proof. reflexivity. Qed.

Ltac lnorm := repeat (rewrite lend_cons' || rewrite lend_app); cbn [lend].

Section Complete.
Variable fl : flags.
Variable n : nat.
Notation nl := (no_location fl).
Definition Ftrue : list lx -> Prop := fun _ => True.

Lemma value_complete c : pcomplete (parse_value_literal fl n c) (D_value nl c) Ftrue n.
Proof.
  intros ts v Hd Hn rest e _. destruct (parse_value_complete_all fl) as [H _]. apply (H c ts v Hd); exact Hn.
Qed.

(* ---- arguments and directives ---- *)
Lemma parse_argument_complete c : pcomplete (parse_argument fl n c) (D_argument nl c) Ftrue n.
Proof.
  intros ts a Hd Hn rest e _. destruct Hd as [t colon vts v Kt Kc Dv]. simpl in Hn.
  unfold parse_argument. cbn [map app].
  pstep ltac:(apply peek_eval). pstep ltac:(apply parse_name_eval; exact Kt).
  pstep ltac:(apply expect_eval; exact Kc).
  pstep ltac:(apply (value_complete c _ _ Dv); [lia|exact I]).
  pstep ltac:(apply get_loc_eval). unfold pret. cbn [last_end].
  rewrite (mkloc_lend nl t (colon :: vts) e). lnorm. reflexivity.
Qed.

Lemma D_argument_first c ts a : D_argument nl c ts a -> exists t r, ts = t :: r /\ tk t = KName.
Proof. intros [t colon vts v Kt _ _]. eauto. Qed.

Lemma parse_arguments_complete c :
  pcomplete (parse_arguments fl n c) (D_arguments nl c) (fol [KParenO]) n.
Proof.
  intros ts args Hd Hn rest e HF. unfold parse_arguments. destruct Hd as [|o body cl args Ko Kc Hl Hne].
  - destruct HF as (t & r & -> & Hnot). cbn [map app]. pstep ltac:(apply peek_eval).
    unfold is_kind. destruct (tkind_eqb (tk t) KParenO) eqn:E;
      [apply tkind_eqb_eq in E; exfalso; apply Hnot; left; auto|reflexivity].
  - assert (Hb : length body < n) by (simpl in Hn; rewrite app_length in Hn; simpl in Hn; lia).
    pose proof (many_complete (parse_argument fl n c) (D_argument nl c) KParenO KParenC
                  (fun k => k = KName) Ftrue n n (D_argument_first c)
                  ltac:(intros k ->; discriminate) ltac:(intros; exact I) (parse_argument_complete c)
                  o body cl args rest e Ko Kc Hl Hne Hb Hb) as Hm.
    replace (lend (o :: body ++ [cl]) e) with (tend cl) by (rewrite lend_cons', lend_app; reflexivity).
    pstep ltac:(apply peek_eval_map). unfold is_kind. rewrite Ko, tkind_eqb_refl. exact Hm.
Qed.

Lemma D_arguments_starts c ts a : D_arguments nl c ts a -> starts [KParenO] ts.
Proof. intros [|o body cl args Ko _ _ _]; [left; reflexivity|right]. exists o, (body ++ [cl]). simpl; auto. Qed.

Lemma parse_directive_complete c :
  pcomplete (parse_directive fl n c) (D_directive nl c) (fol [KParenO]) n.
Proof.
  intros ts d Hd Hn rest e HF. destruct Hd as [a t ats args Ka Kt Da]. simpl in Hn.
  unfold parse_directive. cbn [map app].
  pstep ltac:(apply expect_eval; exact Ka). pstep ltac:(apply parse_name_eval; exact Kt).
  pstep ltac:(apply (parse_arguments_complete c _ _ Da); [lia|exact HF]).
  pstep ltac:(apply get_loc_eval). unfold pret. cbn [last_end].
  rewrite (mkloc_lend nl a (t :: ats) e). lnorm. reflexivity.
Qed.

Lemma D_directive_first c ts d : D_directive nl c ts d -> exists t r, ts = t :: r /\ tk t = KAt.
Proof. intros [a t ats args Ka _ _]. eauto. Qed.

Lemma parse_directives_complete c :
  pcomplete (parse_directives fl n c) (D_directives nl c) (fol [KParenO; KAt]) n.
Proof.
  intros ts ds Hd Hn rest e HF. unfold parse_directives.
  apply (while_kind_complete (parse_directive fl n c) (D_directive nl c) KAt (fol [KParenO]) n); auto.
  - apply D_directive_first.
  - intros t r Kt. apply fol_cons. rewrite Kt. simpl. intros [H|[]]; discriminate.
  - apply parse_directive_complete.
  - eapply fol_weaken; [|exact HF]. intros k [<-|[]]; simpl; auto.
  - eapply fol_weaken; [|exact HF]. intros k [<-|[]]; simpl; auto.
Qed.

Lemma D_directives_starts c ts ds : D_directives nl c ts ds -> starts [KAt] ts.
Proof.
  intros [|ts1 x ts2 xs Hx _]; [left; reflexivity|right].
  destruct (D_directive_first _ _ _ Hx) as (t & r & -> & Kt). exists t, (r ++ ts2). simpl. rewrite Kt. auto.
Qed.

(* ---- selections ---- *)
Lemma D_opt_selset_starts ts sl sub : D_opt_selection_set nl ts sl sub -> starts [KCurlyO] ts.
Proof. intros [|o body cl s Ko _ _ _]; [left; reflexivity|right]. exists o, (body ++ [cl]). simpl; auto. Qed.

Lemma D_selection_first ts s : D_selection nl ts s ->
  exists t r, ts = t :: r /\ (tk t = KName \/ tk t = KEllip).
Proof.
  intros [ats al nt argts args dts dirs ssts sl sub Da Kn _ _ _|e nt dts dirs Ke _ _ _|e tcts tc dts dirs o body cl sub Ke _ _ _ _ _ _].
  - destruct Da as [|a colon Ka Kc]; simpl; eauto.
  - eauto.
  - eauto.
Qed.

Lemma not_in_kinds (k : tkind) (l : list tkind) : forallb (fun x => negb (tkind_eqb k x)) l = true -> ~ In k l.
Proof.
  induction l as [|x l IH]; simpl; [tauto|]. rewrite andb_true_iff, negb_true_iff.
  intros [E H] [<-|Hin]; [rewrite tkind_eqb_refl in E; discriminate|exact (IH H Hin)].
Qed.

Ltac kinds := let k := fresh in let H := fresh in
  intros k H; simpl in H;
  repeat (destruct H as [<-|H]; [apply not_in_kinds; reflexivity|]); contradiction.

(* the part of parse_field after the alias / name *)
Definition field_tail (sub : parser (list selection * loc)) (start : ptok) (al : option name) (nm : name)
  : parser selection :=
  pdo args <- parse_arguments fl n false;
  pdo dirs <- parse_directives fl n false;
  pdo t <- peek;
  pdo ss <- (if is_kind KCurlyO t then (pdo x <- sub; pret (Some (snd x), fst x))
             else pret (None, []));
  pdo l <- get_loc fl start;
  pret (SField al nm args dirs (fst ss) (snd ss) l).

Definition Fsel : list lx -> Prop := fol [KColon; KParenO; KAt; KCurlyO].

Lemma is_kind_no k t : tk t <> k -> is_kind k t = false.
Proof. intros H. unfold is_kind. destruct (tkind_eqb (tk t) k) eqn:E; [apply tkind_eqb_eq in E; contradiction|reflexivity]. Qed.

Lemma is_kind_yes k t : tk t = k -> is_kind k t = true.
Proof. intros <-. apply tkind_eqb_refl. Qed.

Lemma fol_is_kind_no bad k rest : fol bad rest -> In k bad ->
  exists t r, rest = LT t :: r /\ is_kind k t = false.
Proof. intros (t & r & -> & Hn) Hin. exists t, r. split; [reflexivity|]. apply is_kind_no. intros <-. auto. Qed.

Lemma field_tail_complete k start al nm argts args dts dirs ssts sl sub rest e :
  D_arguments nl false argts args -> D_directives nl false dts dirs ->
  D_opt_selection_set nl ssts sl sub ->
  (ssts <> [] -> forall rest e,
      parse_selection_set fl n k (PSt (map LT ssts ++ rest) e)
      = Ok ((sub, match sl with Some l => l | None => None end), PSt rest (lend ssts e))) ->
  length argts < n -> length dts < n -> Fsel rest ->
  field_tail (parse_selection_set fl n k) start al nm
    (PSt (map LT argts ++ map LT dts ++ map LT ssts ++ rest) e)
  = Ok (SField al nm args dirs sl sub
          (if nl then None else Some (tstart start, lend ssts (lend dts (lend argts e)))),
        PSt rest (lend ssts (lend dts (lend argts e)))).
Proof.
  intros Da Dd Dss Hsub Hna Hnd HF. unfold field_tail.
  pose proof (D_directives_starts _ _ _ Dd) as Sd. pose proof (D_opt_selset_starts _ _ _ Dss) as Ss.
  assert (HF1 : fol [KParenO] (map LT dts ++ map LT ssts ++ rest)).
  { apply (fol_app _ [KAt]); [exact Sd|kinds|]. apply (fol_app _ [KCurlyO]); [exact Ss|kinds|].
    eapply fol_weaken; [|exact HF]. intros x [<-|[]]; simpl; auto. }
  assert (HF2 : fol [KParenO; KAt] (map LT ssts ++ rest)).
  { apply (fol_app _ [KCurlyO]); [exact Ss|kinds|].
    eapply fol_weaken; [|exact HF]. intros x [<-|[<-|[]]]; simpl; auto. }
  pstep ltac:(apply (parse_arguments_complete false _ _ Da); [exact Hna|exact HF1]).
  pstep ltac:(apply (parse_directives_complete false _ _ Dd); [exact Hnd|exact HF2]).
  destruct Dss as [|o body cl sub Ko Kc Dsub Hne].
  - destruct (fol_is_kind_no _ KCurlyO _ HF ltac:(simpl; auto)) as (t & r & -> & Ek). cbn [map app].
    pstep ltac:(apply peek_eval). rewrite Ek. cbv iota.
    pstep ltac:(reflexivity). pstep ltac:(apply get_loc_eval). reflexivity.
  - specialize (Hsub ltac:(discriminate) rest (lend dts (lend argts e))).
    pstep ltac:(apply peek_eval_map). rewrite (is_kind_yes _ _ Ko). cbv iota.
    pstep ltac:(erewrite pbind_eval by exact Hsub; reflexivity).
    pstep ltac:(apply get_loc_eval). reflexivity.
Qed.

Lemma D_alias_length ats al : D_alias nl ats al -> length ats <= 2.
Proof. intros [|]; simpl; lia. Qed.

Theorem selection_complete_all :
  (forall ts s, D_selection nl ts s ->
     forall k rest e, length ts < k -> length ts < n -> Fsel rest ->
       parse_selection fl n (parse_selection_set fl n k) (PSt (map LT ts ++ rest) e)
       = Ok (s, PSt rest (lend ts e)))
  /\ (forall ts sl sub, D_opt_selection_set nl ts sl sub ->
     ts <> [] -> forall k rest e, length ts < k -> length ts < n ->
       parse_selection_set fl n k (PSt (map LT ts ++ rest) e)
       = Ok ((sub, match sl with Some l => l | None => None end), PSt rest (lend ts e)))
  /\ (forall ts ss, D_selections nl ts ss ->
     ss <> [] -> forall k m cl rest e, length ts < k -> length ts < m -> length ts < n ->
       tk cl = KCurlyC ->
       many_loop m (parse_selection fl n (parse_selection_set fl n k)) KCurlyC
                 (PSt (map LT ts ++ LT cl :: rest) e)
       = Ok (ss, PSt rest (tend cl))).
Proof.
  apply (D_selection_mutind nl
    (fun ts s => forall k rest e, length ts < k -> length ts < n -> Fsel rest ->
       parse_selection fl n (parse_selection_set fl n k) (PSt (map LT ts ++ rest) e)
       = Ok (s, PSt rest (lend ts e)))
    (fun ts sl sub => ts <> [] -> forall k rest e, length ts < k -> length ts < n ->
       parse_selection_set fl n k (PSt (map LT ts ++ rest) e)
       = Ok ((sub, match sl with Some l => l | None => None end), PSt rest (lend ts e)))
    (fun ts ss => ss <> [] -> forall k m cl rest e, length ts < k -> length ts < m -> length ts < n ->
       tk cl = KCurlyC ->
       many_loop m (parse_selection fl n (parse_selection_set fl n k)) KCurlyC
                 (PSt (map LT ts ++ LT cl :: rest) e)
       = Ok (ss, PSt rest (tend cl)))).
  - (* field *)
    intros ats al nt argts args dts dirs ssts sl sub Dal Kn Da Dd Dss IHss k rest e Hk Hn HF.
    rewrite !app_length in Hk, Hn. simpl in Hk, Hn. rewrite !app_length in Hk, Hn.
    assert (Hsub : ssts <> [] -> forall rest e,
              parse_selection_set fl n k (PSt (map LT ssts ++ rest) e)
              = Ok ((sub, match sl with Some l => l | None => None end), PSt rest (lend ssts e))).
    { intros Hne r0 e0. apply IHss; [exact Hne|lia|lia]. }
    pose proof (D_arguments_starts _ _ _ Da) as Sa. pose proof (D_directives_starts _ _ _ Dd) as Sd.
    pose proof (D_opt_selset_starts _ _ _ Dss) as Ss.
    assert (Hstream : map LT (ats ++ nt :: argts ++ dts ++ ssts) ++ rest
                      = map LT ats ++ LT nt :: map LT argts ++ map LT dts ++ map LT ssts ++ rest).
    { rewrite !map_app. simpl. rewrite !map_app, <- !app_assoc. simpl. rewrite <- !app_assoc. reflexivity. }
    rewrite Hstream. unfold parse_selection.
    assert (Hnocolon : fol [KColon] (map LT argts ++ map LT dts ++ map LT ssts ++ rest)).
    { apply (fol_app _ [KParenO]); [exact Sa|kinds|]. apply (fol_app _ [KAt]); [exact Sd|kinds|].
      apply (fol_app _ [KCurlyO]); [exact Ss|kinds|].
      eapply fol_weaken; [|exact HF]. intros x [<-|[]]; simpl; auto. }
    destruct Dal as [|a colon Ka Kc].
    + cbn [map app]. pstep ltac:(apply peek_eval).
      rewrite (is_kind_no KEllip nt) by (rewrite Kn; discriminate).
      change (parse_field fl n (parse_selection_set fl n k)) with
        (pdo start <- peek; pdo na <- parse_name fl; pdo b <- skip KColon;
         pdo an <- (if b then (pdo nm <- parse_name fl; pret (Some na, nm)) else pret (None, na));
         field_tail (parse_selection_set fl n k) start (fst an) (snd an)).
      pstep ltac:(apply peek_eval). pstep ltac:(apply parse_name_eval; exact Kn).
      destruct Hnocolon as (t & r & Er & Hnc). rewrite Er.
      pstep ltac:(apply skip_eval_no; intros E; apply Hnc; left; auto).
      pstep ltac:(reflexivity). rewrite <- Er. cbn [fst snd].
      rewrite (field_tail_complete k nt None (name_node nl nt) argts args dts dirs ssts sl sub rest (tend nt)
                 Da Dd Dss Hsub ltac:(lia) ltac:(lia) HF).
      rewrite (mkloc_lend nl nt (argts ++ dts ++ ssts) e). lnorm. reflexivity.
    + cbn [map app]. pstep ltac:(apply peek_eval).
      rewrite (is_kind_no KEllip a) by (rewrite Ka; discriminate).
      change (parse_field fl n (parse_selection_set fl n k)) with
        (pdo start <- peek; pdo na <- parse_name fl; pdo b <- skip KColon;
         pdo an <- (if b then (pdo nm <- parse_name fl; pret (Some na, nm)) else pret (None, na));
         field_tail (parse_selection_set fl n k) start (fst an) (snd an)).
      pstep ltac:(apply peek_eval). pstep ltac:(apply parse_name_eval; exact Ka).
      pstep ltac:(apply skip_eval_yes; exact Kc).
      pstep ltac:(erewrite pbind_eval by (apply parse_name_eval; exact Kn); reflexivity). cbn [fst snd].
      rewrite (field_tail_complete k a (Some (name_node nl a)) (name_node nl nt) argts args dts dirs ssts sl sub
                 rest (tend nt) Da Dd Dss Hsub ltac:(simpl in *; lia) ltac:(simpl in *; lia) HF).
      rewrite (mkloc_lend nl a (colon :: nt :: argts ++ dts ++ ssts) e). lnorm. reflexivity.
  - (* spread *)
    intros e0 nt dts dirs Ke Kn Hon Dd k rest e Hk Hn HF. simpl in Hk, Hn.
    unfold parse_selection. cbn [map app]. pstep ltac:(apply peek_eval).
    rewrite (is_kind_yes KEllip e0 Ke). unfold parse_fragment.
    pstep ltac:(apply peek_eval). pstep ltac:(apply expect_eval; exact Ke).
    pstep ltac:(apply peek_eval).
    rewrite (is_kind_yes KName nt Kn). rewrite (is_kw_false "on" _ Hon). cbn [negb andb]. cbv iota.
    unfold parse_fragment_name.
    pstep ltac:(erewrite pbind_eval by apply peek_eval; cbv beta; rewrite (is_kw_false "on" _ Hon);
                apply parse_name_eval; exact Kn).
    assert (HF2 : fol [KParenO; KAt] rest).
    { eapply fol_weaken; [|exact HF]. intros x [<-|[<-|[]]]; simpl; auto. }
    pstep ltac:(apply (parse_directives_complete false _ _ Dd); [lia|exact HF2]).
    pstep ltac:(apply get_loc_eval). unfold pret. cbn [last_end].
    rewrite (mkloc_lend nl e0 (nt :: dts) e). lnorm. reflexivity.
  - (* inline fragment *)
    intros e0 tcts tc dts dirs o body cl sub Ke Dtc Dd Ko Kc Dsub IHsub Hne k rest e Hk Hn HF.
    simpl in Hk, Hn. rewrite !app_length in Hk, Hn. simpl in Hk, Hn. rewrite !app_length in Hk, Hn. simpl in Hk, Hn.
    assert (Hstream : map LT (e0 :: tcts ++ dts ++ o :: body ++ [cl]) ++ rest
                      = LT e0 :: map LT tcts ++ map LT dts ++ (map LT (o :: body ++ [cl]) ++ rest)).
    { simpl. rewrite !map_app. simpl. rewrite !map_app, <- !app_assoc. simpl. rewrite <- !app_assoc. reflexivity. }
    rewrite Hstream. unfold parse_selection. pstep ltac:(apply peek_eval).
    rewrite (is_kind_yes KEllip e0 Ke). unfold parse_fragment.
    pstep ltac:(apply peek_eval). pstep ltac:(apply expect_eval; exact Ke).
    pose proof (D_directives_starts _ _ _ Dd) as Sd.
    assert (Hss : forall e1, parse_selection_set fl n k (PSt (map LT (o :: body ++ [cl]) ++ rest) e1)
                  = Ok ((sub, mkloc nl (o :: body ++ [cl])), PSt rest (tend cl))).
    { intros e1. destruct k as [|k]; [lia|]. cbn [parse_selection_set].
      pstep ltac:(apply peek_eval_map).
      pstep ltac:(unfold many; cbn [map app]; rewrite map_app, <- app_assoc;
                  erewrite pbind_eval by (apply expect_eval; exact Ko);
                  apply IHsub; [exact Hne|lia|lia|lia|exact Kc]).
      pstep ltac:(apply get_loc_eval). unfold pret. cbn [last_end].
      rewrite (mkloc_lend nl o (body ++ [cl]) e1). lnorm. reflexivity. }
    assert (HF2 : fol [KParenO; KAt] (map LT (o :: body ++ [cl]) ++ rest)).
    { simpl. apply fol_cons. rewrite Ko. apply not_in_kinds. reflexivity. }
    destruct Dtc as [|on tn [Kon Von] Ktn].
    + (* no type condition: the next token is @ or { *)
      change (map LT (@nil ptok) ++ map LT dts ++ map LT (o :: body ++ [cl]) ++ rest)
        with (map LT dts ++ map LT (o :: body ++ [cl]) ++ rest).
      assert (Hlead : exists t r, map LT dts ++ map LT (o :: body ++ [cl]) ++ rest = LT t :: r
                                  /\ tk t <> KName).
      { destruct Sd as [->|(t & r & -> & Hin)]; simpl.
        - exists o. eexists. split; [reflexivity|rewrite Ko; discriminate].
        - exists t. eexists. split; [reflexivity|]. destruct Hin as [<-|[]]. discriminate. }
      destruct Hlead as (t & r & Er & Kt). rewrite Er.
      pstep ltac:(apply peek_eval). rewrite (is_kind_no KName t Kt). cbn [andb]. cbv iota.
      pstep ltac:(reflexivity). rewrite <- Er.
      pstep ltac:(apply (parse_directives_complete false _ _ Dd); [lia|exact HF2]).
      pstep ltac:(apply Hss).
      pstep ltac:(apply get_loc_eval). unfold pret. cbn [last_end fst snd].
      cbn [app]. rewrite (mkloc_lend nl e0 (dts ++ o :: body ++ [cl]) e). lnorm. reflexivity.
    + cbn [map app]. pstep ltac:(apply peek_eval).
      rewrite (is_kind_yes KName on Kon). rewrite !(is_kw_true "on" _ Von). cbn [negb andb]. cbv iota.
      pstep ltac:(erewrite pbind_eval by apply advance_eval; cbv beta;
                  erewrite pbind_eval by (apply parse_named_type_eval; exact Ktn); reflexivity).
      pstep ltac:(apply (parse_directives_complete false _ _ Dd); [simpl in *; lia|exact HF2]).
      pstep ltac:(apply Hss).
      pstep ltac:(apply get_loc_eval). unfold pret. cbn [last_end fst snd].
      cbn [app]. rewrite (mkloc_lend nl e0 (on :: tn :: dts ++ o :: body ++ [cl]) e). lnorm. reflexivity.
  - (* no selection set *) intros Hne; congruence.
  - (* selection set *)
    intros o body cl sub Ko Kc Dsub IHsub Hne _ k rest e Hk Hn.
    simpl in Hk, Hn. rewrite app_length in Hk, Hn. simpl in Hk, Hn.
    destruct k as [|k]; [lia|]. cbn [parse_selection_set].
    pstep ltac:(apply peek_eval_map).
    pstep ltac:(unfold many; cbn [map app]; rewrite map_app, <- app_assoc;
                erewrite pbind_eval by (apply expect_eval; exact Ko);
                apply IHsub; [exact Hne|lia|lia|lia|exact Kc]).
    pstep ltac:(apply get_loc_eval). unfold pret. cbn [last_end].
    rewrite (mkloc_lend nl o (body ++ [cl]) e). lnorm. reflexivity.
  - (* no more selections *) intros Hne; congruence.
  - (* one more selection *)
    intros ts s ts' ss Ds IHs Dss IHss _ k m cl rest e Hk Hm Hn Kc.
    rewrite app_length in Hk, Hm, Hn.
    destruct (D_selection_first _ _ Ds) as (t0 & r0 & E0 & K0).
    destruct m as [|m]; [lia|]. cbn [many_loop]. rewrite map_app, <- app_assoc.
    assert (HF : Fsel (map LT ts' ++ LT cl :: rest)).
    { destruct Dss as [|ts2 s2 ts3 ss2 Ds2 _].
      - simpl. apply fol_cons. rewrite Kc. apply not_in_kinds. reflexivity.
      - destruct (D_selection_first _ _ Ds2) as (t2 & r2 & -> & K2). simpl. apply fol_cons.
        destruct K2 as [-> | ->]; apply not_in_kinds; reflexivity. }
    pstep ltac:(apply IHs; [lia|lia|exact HF]).
    destruct Dss as [|ts2 s2 ts3 ss2 Ds2 Dss2].
    + simpl. pstep ltac:(apply skip_eval_yes; exact Kc). reflexivity.
    + destruct (D_selection_first _ _ Ds2) as (t2 & r2 & E2 & K2).
      assert (Hskip : skip KCurlyC (PSt (map LT (ts2 ++ ts3) ++ LT cl :: rest) (lend ts e))
                      = Ok (false, PSt (map LT (ts2 ++ ts3) ++ LT cl :: rest) (lend ts e))).
      { rewrite E2. simpl. apply skip_eval_no. destruct K2 as [-> | ->]; discriminate. }
      pstep ltac:(exact Hskip).
      pstep ltac:(apply IHss; [discriminate|subst ts; simpl in *; lia|subst ts; simpl in *; lia|lia|exact Kc]).
      reflexivity.
Qed.

(* ---- variable definitions ---- *)
Lemma type_complete : pcomplete (parse_type_reference fl n) (D_type nl) (fol [KBang]) n.
Proof.
  intros ts t Hd Hn rest e (x & r & -> & Hx).
  destruct (parse_type_complete fl ts t Hd n x r e Hn) as [_ H]. apply H. intros E. apply Hx. left; auto.
Qed.

Lemma D_default_starts ts dv : D_default nl ts dv -> starts [KEquals] ts.
Proof. intros [|eq vts v Ke _]; [left; reflexivity|right]. exists eq, vts. simpl; auto. Qed.

Definition Fvd : list lx -> Prop := fol [KBang; KEquals; KParenO; KAt].

Lemma parse_variable_definition_complete :
  pcomplete (parse_variable_definition fl n) (D_variable_definition nl) Fvd n.
Proof.
  intros ts vd Hd Hn rest e HF.
  destruct Hd as [d nm colon tyts t defts dv dts dirs Kd Kn Kc Dt Ddef Dd].
  simpl in Hn. rewrite !app_length in Hn.
  pose proof (D_default_starts _ _ Ddef) as Sdef. pose proof (D_directives_starts _ _ _ Dd) as Sd.
  assert (Hstream : map LT (d :: nm :: colon :: tyts ++ defts ++ dts) ++ rest
                    = LT d :: LT nm :: LT colon :: map LT tyts ++ map LT defts ++ map LT dts ++ rest).
  { simpl. rewrite !map_app, <- !app_assoc. reflexivity. }
  rewrite Hstream. unfold parse_variable_definition.
  assert (HF1 : fol [KBang] (map LT defts ++ map LT dts ++ rest)).
  { apply (fol_app _ [KEquals]); [exact Sdef|kinds|]. apply (fol_app _ [KAt]); [exact Sd|kinds|].
    eapply fol_weaken; [|exact HF]. intros x [<-|[]]; simpl; auto. }
  assert (HF2 : fol [KParenO; KAt] rest).
  { eapply fol_weaken; [|exact HF]. intros x [<-|[<-|[]]]; simpl; auto. }
  pstep ltac:(apply peek_eval). pstep ltac:(apply parse_variable_eval; assumption).
  pstep ltac:(apply expect_eval; exact Kc).
  pstep ltac:(apply (type_complete _ _ Dt); [lia|exact HF1]).
  destruct Ddef as [|eq vts v Ke Dv].
  - assert (HF3 : fol [KEquals] (map LT dts ++ rest)).
    { apply (fol_app _ [KAt]); [exact Sd|kinds|]. eapply fol_weaken; [|exact HF]. intros x [<-|[]]; simpl; auto. }
    cbn [map app]. destruct HF3 as (t0 & r0 & Er & Hne). rewrite Er.
    pstep ltac:(apply skip_eval_no; intros E; apply Hne; left; auto). pstep ltac:(reflexivity). rewrite <- Er.
    pstep ltac:(apply (parse_directives_complete true _ _ Dd); [lia|exact HF2]).
    pstep ltac:(apply get_loc_eval). unfold pret. cbn [last_end fst snd app].
    rewrite (mkloc_lend nl d (nm :: colon :: tyts ++ dts) e). lnorm. reflexivity.
  - cbn [map app]. pstep ltac:(apply skip_eval_yes; exact Ke).
    pstep ltac:(erewrite pbind_eval by (apply (value_complete true _ _ Dv); [simpl in *; lia|exact I]); reflexivity).
    pstep ltac:(apply (parse_directives_complete true _ _ Dd); [lia|exact HF2]).
    pstep ltac:(apply get_loc_eval). unfold pret. cbn [last_end fst snd].
    rewrite (mkloc_lend nl d (nm :: colon :: tyts ++ eq :: vts ++ dts) e). lnorm. reflexivity.
Qed.

Lemma D_variable_definition_first ts vd : D_variable_definition nl ts vd ->
  exists t r, ts = t :: r /\ tk t = KDollar.
Proof. intros [d nm colon tyts t defts dv dts dirs Kd _ _ _ _ _]. eauto. Qed.

Lemma parse_variable_definitions_complete :
  pcomplete (parse_variable_definitions fl n) (D_variable_definitions nl) (fol [KParenO]) n.
Proof.
  intros ts vds Hd Hn rest e HF. unfold parse_variable_definitions.
  destruct Hd as [|o body cl vds Ko Kc Hl Hne].
  - destruct HF as (t & r & -> & Hnot). cbn [map app]. pstep ltac:(apply peek_eval).
    rewrite is_kind_no; [reflexivity|]. intros E; apply Hnot; left; auto.
  - assert (Hb : length body < n) by (simpl in Hn; rewrite app_length in Hn; simpl in Hn; lia).
    pose proof (many_complete (parse_variable_definition fl n) (D_variable_definition nl) KParenO KParenC
                  (fun k => k = KDollar) Fvd n n D_variable_definition_first
                  ltac:(intros k ->; discriminate)
                  ltac:(intros t r H; apply fol_cons; destruct H as [H|H]; rewrite H; apply not_in_kinds; reflexivity)
                  parse_variable_definition_complete
                  o body cl vds rest e Ko Kc Hl Hne Hb Hb) as Hm.
    replace (lend (o :: body ++ [cl]) e) with (tend cl) by (rewrite lend_cons', lend_app; reflexivity).
    pstep ltac:(apply peek_eval_map). rewrite (is_kind_yes _ _ Ko). exact Hm.
Qed.

Lemma D_variable_definitions_starts ts vds : D_variable_definitions nl ts vds -> starts [KParenO] ts.
Proof. intros [|o body cl v Ko _ _ _]; [left; reflexivity|right]. exists o, (body ++ [cl]). simpl; auto. Qed.

(* ---- operations, fragments ---- *)
Lemma selection_set_complete ts sels l : D_selection_set nl ts sels l ->
  length ts < n -> forall rest e,
  parse_selection_set fl n n (PSt (map LT ts ++ rest) e) = Ok ((sels, l), PSt rest (lend ts e)).
Proof.
  intros [o body cl sub Ko Kc Ds Hne] Hn rest e.
  destruct selection_complete_all as (_ & H & _).
  apply (H _ (Some (mkloc nl (o :: body ++ [cl]))) sub); [constructor; assumption|discriminate|exact Hn|exact Hn].
Qed.

Lemma D_selection_set_first ts sels l : D_selection_set nl ts sels l ->
  exists t r, ts = t :: r /\ tk t = KCurlyO.
Proof. intros [o body cl sub Ko _ _ _]. eauto. Qed.

Lemma expect_keyword_eval w t r e : is_word w t ->
  expect_keyword w (PSt (LT t :: r) e) = Ok (t, PSt r (tend t)).
Proof.
  intros [Kt Vt]. unfold expect_keyword, pbind, peek, advance. simpl.
  rewrite (is_kind_yes _ _ Kt), (is_kw_true w _ Vt). reflexivity.
Qed.

Lemma op_kind_of_complete t k : D_operation_type t k -> tk t = KName /\ op_kind_of (tval t) = Some k.
Proof. intros [t0 [K V]|t0 [K V]|t0 [K V]]; (split; [exact K|]); rewrite V; reflexivity. Qed.

Lemma parse_operation_definition_complete :
  pcomplete (parse_operation_definition fl n) (D_operation nl) Ftrue n.
Proof.
  intros ts d Hd Hn rest e _. unfold parse_operation_definition.
  destruct Hd as [ts sels l Dss|k kind nts nm vdts vds dts dirs ssts sels ssl Dk Dn Dv Dd Dss].
  - destruct (D_selection_set_first _ _ _ Dss) as (o & r & -> & Ko).
    pstep ltac:(apply peek_eval_map). rewrite (is_kind_yes _ _ Ko).
    pstep ltac:(apply (selection_set_complete _ _ _ Dss Hn)).
    pstep ltac:(apply get_loc_eval). unfold pret. cbn [last_end fst snd].
    assert (El : l = mkloc nl (o :: r)) by (inversion Dss; reflexivity).
    rewrite El. rewrite (mkloc_lend nl o r e). reflexivity.
  - destruct (op_kind_of_complete _ _ Dk) as [Kk Ek].
    simpl in Hn. rewrite !app_length in Hn.
    pose proof (D_variable_definitions_starts _ _ Dv) as Sv. pose proof (D_directives_starts _ _ _ Dd) as Sd.
    destruct (D_selection_set_first _ _ _ Dss) as (o & rs & Ess & Ko).
    assert (Hstream : map LT (k :: nts ++ vdts ++ dts ++ ssts) ++ rest
                      = LT k :: map LT nts ++ map LT vdts ++ map LT dts ++ map LT ssts ++ rest).
    { simpl. rewrite !map_app, <- !app_assoc. reflexivity. }
    rewrite Hstream. pstep ltac:(apply peek_eval).
    rewrite (is_kind_no KCurlyO k) by (rewrite Kk; discriminate).
    pstep ltac:(unfold parse_operation_type; erewrite pbind_eval by (apply expect_eval; exact Kk);
                cbv beta; rewrite Ek; reflexivity).
    assert (HF1 : fol [KParenO] (map LT dts ++ map LT ssts ++ rest)).
    { apply (fol_app _ [KAt]); [exact Sd|kinds|]. rewrite Ess. simpl. apply fol_cons. rewrite Ko.
      apply not_in_kinds; reflexivity. }
    assert (HF2 : fol [KParenO; KAt] (map LT ssts ++ rest)).
    { rewrite Ess. simpl. apply fol_cons. rewrite Ko. apply not_in_kinds; reflexivity. }
    assert (Htail : forall e1,
      (pdo vds0 <- parse_variable_definitions fl n; pdo dirs0 <- parse_directives fl n false;
       pdo x <- parse_selection_set fl n n; pdo l <- get_loc fl k;
       pret (DOperation kind nm vds0 dirs0 (snd x) (fst x) l))
        (PSt (map LT vdts ++ map LT dts ++ map LT ssts ++ rest) e1)
      = Ok (DOperation kind nm vds dirs ssl sels
              (if nl then None else Some (tstart k, lend ssts (lend dts (lend vdts e1)))),
            PSt rest (lend ssts (lend dts (lend vdts e1))))).
    { intros e1.
      pstep ltac:(apply (parse_variable_definitions_complete _ _ Dv); [lia|exact HF1]).
      pstep ltac:(apply (parse_directives_complete false _ _ Dd); [lia|exact HF2]).
      pstep ltac:(apply (selection_set_complete _ _ _ Dss); lia).
      pstep ltac:(apply get_loc_eval). reflexivity. }
    destruct Dn as [|n1 Kn1].
    + assert (Hnoname : exists t r, map LT vdts ++ map LT dts ++ map LT ssts ++ rest = LT t :: r /\ tk t <> KName).
      { destruct Sv as [->|(t & r & -> & Hin)]; simpl.
        - destruct Sd as [->|(t & r & -> & Hin)]; simpl.
          + rewrite Ess. simpl. exists o. eexists. split; [reflexivity|rewrite Ko; discriminate].
          + exists t. eexists. split; [reflexivity|]. destruct Hin as [<-|[]]. discriminate.
        - exists t. eexists. split; [reflexivity|]. destruct Hin as [<-|[]]. discriminate. }
      destruct Hnoname as (t & r & Er & Kt). cbn [map app]. rewrite Er.
      pstep ltac:(apply peek_eval). rewrite (is_kind_no KName t Kt). pstep ltac:(reflexivity). rewrite <- Er.
      rewrite Htail. cbn [app]. rewrite (mkloc_lend nl k (vdts ++ dts ++ ssts) e). lnorm. reflexivity.
    + cbn [map app]. pstep ltac:(apply peek_eval). rewrite (is_kind_yes KName n1 Kn1).
      pstep ltac:(erewrite pbind_eval by (apply parse_name_eval; exact Kn1); reflexivity).
      rewrite Htail. rewrite (mkloc_lend nl k (n1 :: vdts ++ dts ++ ssts) e). lnorm. reflexivity.
Qed.

Lemma parse_fragment_definition_complete :
  pcomplete (parse_fragment_definition fl n) (D_fragment nl (fragment_variables fl)) Ftrue n.
Proof.
  intros ts d Hd Hn rest e _. unfold parse_fragment_definition.
  destruct Hd as [f nm vdts vds o tcn dts dirs ssts sels ssl Wf Kn Hon Dv Wo Ktc Dd Dss].
  simpl in Hn. rewrite !app_length in Hn. simpl in Hn. rewrite !app_length in Hn.
  destruct (D_selection_set_first _ _ _ Dss) as (oc & rs & Ess & Ko).
  assert (Hstream : map LT (f :: nm :: vdts ++ o :: tcn :: dts ++ ssts) ++ rest
                    = LT f :: LT nm :: map LT vdts ++ LT o :: LT tcn :: map LT dts ++ map LT ssts ++ rest).
  { repeat first [rewrite map_app | rewrite <- app_assoc | progress cbn [map app]]. reflexivity. }
  rewrite Hstream.
  pstep ltac:(apply peek_eval). pstep ltac:(apply expect_keyword_eval; exact Wf).
  pstep ltac:(unfold parse_fragment_name; erewrite pbind_eval by apply peek_eval; cbv beta;
              rewrite (is_kw_false "on" _ Hon); apply parse_name_eval; exact Kn).
  assert (HF2 : fol [KParenO; KAt] (map LT ssts ++ rest)).
  { rewrite Ess. simpl. apply fol_cons. rewrite Ko. apply not_in_kinds; reflexivity. }
  assert (Hvd : (if fragment_variables fl then parse_variable_definitions fl n else pret [])
                  (PSt (map LT vdts ++ LT o :: LT tcn :: map LT dts ++ map LT ssts ++ rest) (tend nm))
                = Ok (vds, PSt (LT o :: LT tcn :: map LT dts ++ map LT ssts ++ rest) (lend vdts (tend nm)))).
  { destruct (fragment_variables fl).
    - apply (parse_variable_definitions_complete _ _ Dv); [lia|].
      apply fol_cons. destruct Wo as [-> _]. apply not_in_kinds; reflexivity.
    - destruct Dv as [-> ->]. reflexivity. }
  pstep ltac:(exact Hvd).
  pstep ltac:(apply expect_keyword_eval; exact Wo).
  pstep ltac:(apply parse_named_type_eval; exact Ktc).
  pstep ltac:(apply (parse_directives_complete false _ _ Dd); [lia|exact HF2]).
  pstep ltac:(apply (selection_set_complete _ _ _ Dss); lia).
  pstep ltac:(apply get_loc_eval). unfold pret. cbn [last_end fst snd].
  rewrite (mkloc_lend nl f (nm :: vdts ++ o :: tcn :: dts ++ ssts) e). lnorm. reflexivity.
Qed.

Lemma D_executable_definition_first fv ts d : D_executable_definition nl fv ts d ->
  exists t r, ts = t :: r /\ (tk t = KName \/ tk t = KCurlyO).
Proof.
  intros [ts0 d0 [ts1 sels l Dss|k kind nts nm vdts vds dts dirs ssts sels ssl Dk _ _ _ _]|ts0 d0 Df].
  - destruct (D_selection_set_first _ _ _ Dss) as (o & r & -> & Ko). eauto.
  - destruct (op_kind_of_complete _ _ Dk) as [Kk _]. eauto.
  - destruct Df as [f nm vdts vds o tcn dts dirs ssts sels ssl [Kf _] _ _ _ _ _ _ _]. eauto.
Qed.

Lemma parse_definition_complete :
  pcomplete (parse_definition fl n) (D_executable_definition nl (fragment_variables fl)) Ftrue n.
Proof.
  intros ts d Hd Hn rest e _. unfold parse_definition, parse_executable_definition.
  destruct Hd as [ts d [ts1 sels l Dss|k kind nts nm vdts vds dts dirs ssts sels ssl Dk Dn Dv Dd Dss]|ts d Df].
  - destruct (D_selection_set_first _ _ _ Dss) as (o & r & -> & Ko).
    pstep ltac:(apply peek_eval_map).
    rewrite (is_kind_no KName o) by (rewrite Ko; discriminate). rewrite (is_kind_yes _ _ Ko).
    pstep ltac:(apply peek_eval_map).
    rewrite (is_kind_no KName o) by (rewrite Ko; discriminate). rewrite (is_kind_yes _ _ Ko).
    apply parse_operation_definition_complete; [constructor; exact Dss|exact Hn|exact I].
  - destruct (op_kind_of_complete _ _ Dk) as [Kk Ek].
    assert (Hmem : mem_str (tval k) (map kw executable_keywords) = true).
    { destruct Dk as [t0 [_ V]|t0 [_ V]|t0 [_ V]]; rewrite V; reflexivity. }
    pstep ltac:(apply peek_eval_map). rewrite (is_kind_yes _ _ Kk), Hmem.
    pstep ltac:(apply peek_eval_map). rewrite (is_kind_yes _ _ Kk), Ek.
    apply parse_operation_definition_complete; [econstructor 2; eassumption|exact Hn|exact I].
  - pose proof Df as Df'.
    destruct Df as [f nm vdts vds o tcn dts dirs ssts sels ssl [Kf Vf] _ _ _ _ _ _ _].
    assert (Hmem : mem_str (tval f) (map kw executable_keywords) = true) by (rewrite Vf; reflexivity).
    assert (Eo : op_kind_of (tval f) = None) by (rewrite Vf; reflexivity).
    pstep ltac:(apply peek_eval_map). rewrite (is_kind_yes _ _ Kf), Hmem.
    pstep ltac:(apply peek_eval_map). rewrite (is_kind_yes _ _ Kf), Eo, (is_kw_true "fragment" _ Vf).
    apply parse_fragment_definition_complete; [exact Df'|exact Hn|exact I].
Qed.

Lemma definitions_loop_many : forall m st,
  definitions_loop fl n m st = many_loop m (parse_definition fl n) KEOF st.
Proof.
  induction m as [|m IH]; intros st; [reflexivity|]. simpl. unfold pbind.
  destruct (parse_definition fl n st) as [[d s1]| | |]; auto.
  destruct (skip KEOF s1) as [[b s2]| | |]; auto. destruct b; auto. rewrite IH. reflexivity.
Qed.

Theorem parse_document_p_complete ts d rest e :
  D_document_exec nl (fragment_variables fl) ts d -> length ts < n ->
  parse_document_p fl n (PSt (map LT ts ++ rest) e) = Ok (d, PSt rest (lend ts e)).
Proof.
  intros [sof body eof defs Ks Ke Hl Hne] Hn. unfold parse_document_p.
  assert (Hb : length body < n) by (simpl in Hn; rewrite app_length in Hn; simpl in Hn; lia).
  pstep ltac:(apply peek_eval_map).
  pstep ltac:(cbn [map app]; apply expect_eval; exact Ks).
  rewrite map_app, <- app_assoc. cbn [map app].
  pstep ltac:(rewrite definitions_loop_many;
              apply (many_loop_complete (parse_definition fl n)
                       (D_executable_definition nl (fragment_variables fl)) KEOF
                       (fun k => k = KName \/ k = KCurlyO) Ftrue n
                       (D_executable_definition_first _)
                       ltac:(intros k [-> | ->]; discriminate) ltac:(intros; exact I)
                       parse_definition_complete body defs Hl Hne n eof rest (tend sof) Hb Hb Ke)).
  pstep ltac:(apply get_loc_eval). unfold pret. cbn [last_end].
  rewrite (mkloc_lend nl sof (body ++ [eof]) e). lnorm. reflexivity.
Qed.

End Complete.
