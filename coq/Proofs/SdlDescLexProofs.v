(* C12, descriptions at the text level: the text the schema printer writes for
   a description -- triple quote, body, triple quote -- is read by the lexer
   model of C01 as one block string token whose value is BlockStringValue of
   the unescaped body. *)
From PyGql Require Import Lang.PrinterModel Spec.PrinterSpec Lang.Lexer Lang.Parser Spec.LexSpec Spec.GrammarSpec Spec.DocGrammarSpec Spec.SdlGrammarSpec Proofs.PrinterExecRoundtrip
                          Proofs.LexProofs Proofs.BlockStringProofs Proofs.PrinterProofs Proofs.PrinterRoundtrip Proofs.PrinterValueRoundtrip Proofs.PrinterSdlRoundtrip Proofs.SdlEntryProofs.
From PyGql Require Import Schema.SdlSchema Schema.SdlBuild Schema.SdlPrint Spec.SdlRoundtripSpec.
From Coq Require Import Lia.

(* ---- the two statements of BlockStringValue agree ------------------------ *)
Lemma split_lines_agree : forall n s, (length s <= n)%nat ->
  SdlRoundtripSpec.split_lines s = PrinterSpec.split_lines s.
Proof.
  induction n as [|n IH]; intros s Hn.
  - destruct s; [reflexivity|simpl in Hn; lia].
  - destruct s as [|c r]; [reflexivity|]. simpl in Hn.
    change (PrinterSpec.split_lines (c :: r))
      with (if (c =? 10)%N then [] :: PrinterSpec.split_lines r
            else if (c =? 13)%N
                 then match r with
                      | d :: r' => if (d =? 10)%N then [] :: PrinterSpec.split_lines r' else [] :: PrinterSpec.split_lines r
                      | [] => [] :: PrinterSpec.split_lines r
                      end
                 else match PrinterSpec.split_lines r with l :: ls => (c :: l) :: ls | [] => [[c]] end).
    destruct (N.eqb_spec c 10) as [->|H10].
    + cbn [SdlRoundtripSpec.split_lines]. rewrite IH by lia. reflexivity.
    + destruct (N.eqb_spec c 13) as [->|H13].
      * destruct r as [|d r'].
        -- reflexivity.
        -- destruct (N.eqb_spec d 10) as [->|Hd].
           ++ cbn [SdlRoundtripSpec.split_lines]. rewrite IH by (simpl in Hn; lia). reflexivity.
           ++ assert (E : SdlRoundtripSpec.split_lines (13%N :: d :: r') = [] :: SdlRoundtripSpec.split_lines (d :: r')).
              { cbn [SdlRoundtripSpec.split_lines]. destruct d as [|p]; [reflexivity|].
                do 4 (destruct p as [p|p|]; try reflexivity). congruence. }
              etransitivity; [exact E|]. rewrite IH by lia. reflexivity.
      * assert (E : SdlRoundtripSpec.split_lines (c :: r)
                    = match SdlRoundtripSpec.split_lines r with l :: ls => (c :: l) :: ls | [] => [[c]] end).
        { cbn [SdlRoundtripSpec.split_lines].
          assert (Hb : ((c =? 10) || (c =? 13))%N = false).
          { apply Bool.orb_false_iff; split; apply N.eqb_neq; assumption. }
          destruct c as [|p]; [rewrite ?Hb; reflexivity|].
          do 4 (destruct p as [p|p|]; try (rewrite ?Hb; reflexivity)); congruence. }
        etransitivity; [exact E|]. rewrite IH by lia. reflexivity.
Qed.

Lemma common_indent_agree ls : SdlRoundtripSpec.common_indent ls = PrinterSpec.common_indent ls.
Proof.
  induction ls as [|l r IH]; [reflexivity|]. cbn [SdlRoundtripSpec.common_indent PrinterSpec.common_indent].
  rewrite IH. change (SdlRoundtripSpec.blank l) with (PrinterSpec.blank l).
  destruct (PrinterSpec.blank l); [reflexivity|].
  assert (Hl : forall s, leading_ws s = indent_of s) by (induction s as [|c s IHs]; [reflexivity|]; cbn; rewrite IHs; reflexivity).
  destruct (PrinterSpec.common_indent r); rewrite Hl; [rewrite Nat.min_comm|]; reflexivity.
Qed.

Lemma drop_blank_agree ls : drop_while_blank ls = PrinterSpec.strip_front ls.
Proof. induction ls as [|l r IH]; [reflexivity|]. cbn. rewrite IH. reflexivity. Qed.

Lemma join_nl_agree ls : join nl ls = PrinterSpec.join_lf ls.
Proof.
  induction ls as [|l r IH]; [reflexivity|]. destruct r as [|l2 r2]; [reflexivity|].
  change (join nl (l :: l2 :: r2)) with (l ++ nl ++ join nl (l2 :: r2)). rewrite IH. reflexivity.
Qed.

Theorem block_string_value_agree raw :
  SdlRoundtripSpec.block_string_value raw = PrinterSpec.block_string_value raw.
Proof.
  unfold SdlRoundtripSpec.block_string_value, PrinterSpec.block_string_value.
  rewrite (split_lines_agree (length raw) raw (le_n _)).
  destruct (PrinterSpec.split_lines raw) as [|first rest]; [reflexivity|].
  rewrite common_indent_agree, join_nl_agree, !drop_blank_agree. reflexivity.
Qed.

(* ---- a block string with any body the scanner accepts ------------------- *)
Local Open Scope N_scope.
Lemma lex_block_raw X raw rest pos :
  block_body (X ++ rest) = Some (raw, rest) -> Forall SourceCharacter raw ->
  exists e, forall f,
    lex_from (S f) (34 :: 34 :: 34 :: X ++ rest) pos
    = LT (PTok KBlockString (PrinterSpec.block_string_value raw) pos e) :: lex_from f rest e.
Proof.
  intros Hbb Hsc.
  pose proof (block_body_scan _ _ _ _ (le_n _) Hbb Hsc) as Hscan.
  assert (Hi : is_ignored 34 = false) by reflexivity.
  assert (H35 : (34 =? 35) = false) by reflexivity.
  assert (Hp : is_printable 34 = true) by reflexivity.
  assert (Hs : symbol_kind 34 = None) by reflexivity.
  assert (H46 : (34 =? 46) = false) by reflexivity.
  assert (H3 : starts_3q (34 :: 34 :: 34 :: X ++ rest) = true) by reflexivity.
  eexists. intros f. cbn [lex_from skip_ws]. rewrite Hi, H35. simpl andb.
  cbn [next_token]. rewrite Hp, Hs, H46. simpl negb. rewrite H3. cbn [skipn].
  rewrite (read_block_complete _ _ _ Hscan). cbn [obind rev app].
  rewrite block_string_model_correct, block_string_value_specs_agree. reflexivity.
Qed.

(* ---- bodies without double quotes ---------------------------------------- *)
Lemma bb_noquote s rest :
  Forall (fun c => c <> 34) s -> (s <> [] -> last s 0 <> 92) ->
  block_body (s ++ 34 :: 34 :: 34 :: rest) = Some (s, rest).
Proof.
  induction s as [|a s IH]; intros Hq Hl; [reflexivity|].
  inversion Hq as [|? ? Ha Hs]; subst. cbn [app].
  rewrite bb_char.
  - rewrite IH; [reflexivity|exact Hs|]. intros Hne. specialize (Hl ltac:(discriminate)).
    destruct s; [congruence|exact Hl].
  - cbn [lead_q]. destruct (N.eqb_spec a 34); [congruence|lia].
  - intros ->. destruct s as [|b s'].
    + exfalso. apply Hl; [discriminate|reflexivity].
    + cbn [app lead_q]. inversion Hs; subst. destruct (N.eqb_spec b 34); [congruence|lia].
Qed.

Definition noquote_body (body : str) : Prop :=
  Forall (fun c => c <> 34) body /\ (body <> [] -> last body 0 <> 92) /\ Forall SourceCharacter body.

(* triple quote, body, triple quote: one block string token *)
Lemma lex_description_text body rest pos :
  noquote_body body ->
  exists e, forall f,
    lex_from (S f) (34 :: 34 :: 34 :: body ++ 34 :: 34 :: 34 :: rest) pos
    = LT (PTok KBlockString (SdlRoundtripSpec.block_string_value body) pos e) :: lex_from f rest e.
Proof.
  intros (Hq & Hl & Hsc).
  pose proof (bb_noquote body rest Hq Hl) as Hbb.
  destruct (lex_block_raw (body ++ [34; 34; 34]) body rest pos) as (e & He).
  - rewrite <- app_assoc. exact Hbb.
  - exact Hsc.
  - exists e. intros f. rewrite block_string_value_agree. specialize (He f). rewrite <- app_assoc in He. exact He.
Qed.

(* ---- bodies in general: what the scanner reads between the triple quotes --- *)
(* [raw] is the content of the block string whose text between the triple
   quotes is [body] (escaped triple quotes unescaped), whatever follows *)
Definition scan_body (body raw : str) : Prop :=
  (forall rest, block_body (body ++ 34 :: 34 :: 34 :: rest) = Some (raw, rest)) /\ Forall SourceCharacter raw.

Lemma noquote_scan body : noquote_body body -> scan_body body body.
Proof. intros (Hq & Hl & Hsc). split; [intros rest; apply bb_noquote; assumption|exact Hsc]. Qed.

Lemma lex_description_raw body raw rest pos :
  scan_body body raw ->
  exists e, forall f,
    lex_from (S f) (34 :: 34 :: 34 :: body ++ 34 :: 34 :: 34 :: rest) pos
    = LT (PTok KBlockString (SdlRoundtripSpec.block_string_value raw) pos e) :: lex_from f rest e.
Proof.
  intros (Hbb & Hsc).
  destruct (lex_block_raw (body ++ [34; 34; 34]) raw rest pos) as (e & He).
  - rewrite <- app_assoc. apply Hbb.
  - exact Hsc.
  - exists e. intros f. rewrite block_string_value_agree. specialize (He f). rewrite <- app_assoc in He. exact He.
Qed.

(* the printed body [body] is read back as the description [desc] *)
Definition desc_body_ok (body desc : str) : Prop :=
  exists raw, scan_body body raw /\ SdlRoundtripSpec.block_string_value raw = desc.

Lemma noquote_body_ok body desc :
  noquote_body body -> SdlRoundtripSpec.block_string_value body = desc -> desc_body_ok body desc.
Proof. intros Hb Hv. exists body. split; [apply noquote_scan; exact Hb|exact Hv]. Qed.

(* bodies with double quotes: the text with its triple quotes escaped, not
   ending with a double quote or a backslash (lex_escaped of C03) *)
Lemma lead_q_snoc (w : str) (c : char) : c <> 34 -> lead_q (w ++ [c]) = lead_q w.
Proof.
  intros Hc. induction w as [|a w IH]; cbn [app lead_q].
  - destruct (N.eqb_spec c 34); [congruence|reflexivity].
  - rewrite IH. reflexivity.
Qed.

Lemma escape3_snoc : forall n (w : str) (c : char), (length w <= n)%nat -> c <> 34 -> escape3 (w ++ [c]) = escape3 w ++ [c].
Proof.
  induction n as [|n IH]; intros w c Hn Hc.
  - destruct w; [|simpl in Hn; lia]. exact (esc_nonq c [] Hc).
  - destruct w as [|a r1]; [exact (esc_nonq c [] Hc)|].
    destruct (le_lt_dec 3 (lead_q (a :: r1))) as [G|G].
    + apply lead_q_ge3 in G. destruct G as [r3 E]. rewrite E.
      assert (Hl : (length r3 <= n)%nat).
      { clear -E Hn. inversion E; subst. cbn [length] in Hn. clear E. apply le_S_n in Hn. apply Nat.le_trans with (2 := Hn). apply Nat.le_trans with (S (length r3)); apply Nat.le_succ_diag_r. }
      pose proof (IH r3 c Hl Hc) as H3.
      change (92 :: 34 :: 34 :: 34 :: escape3 (r3 ++ [c]) = 92 :: 34 :: 34 :: 34 :: (escape3 r3 ++ [c])).
      f_equal. f_equal. f_equal. f_equal. exact H3.
    + assert (G' : (lead_q (a :: (r1 ++ [c])) < 3)%nat).
      { pose proof (lead_q_snoc (a :: r1) c Hc) as Hq. cbn [app] in Hq. rewrite Hq. exact G. }
      assert (Hl : (length r1 <= n)%nat) by (simpl in Hn; lia).
      etransitivity; [exact (esc_cons a (r1 ++ [c]) G')|].
      etransitivity; [|symmetry; exact (f_equal (fun l => l ++ [c]) (esc_cons a r1 G))].
      cbn [app]. f_equal. exact (IH r1 c Hl Hc).
Qed.

Lemma escape_triple_cons (a : char) (r1 : str) : (lead_q (a :: r1) < 3)%nat ->
  escape_triple (a :: r1) = a :: escape_triple r1.
Proof.
  intros G.
  change (escape_triple (a :: r1)) with
    (match a :: r1 with
     | 34 :: 34 :: 34 :: r => 92 :: 34 :: 34 :: 34 :: escape_triple r
     | c' :: r => c' :: escape_triple r
     | [] => []
     end).
  destruct (N.eqb_spec a 34) as [->|Ha].
  - destruct r1 as [|b r2]; [reflexivity|].
    destruct (N.eqb_spec b 34) as [->|Hb].
    + destruct r2 as [|c r3]; [reflexivity|].
      destruct (N.eqb_spec c 34) as [->|Hc]; [cbn in G; lia|].
      destruct c as [|p]; [reflexivity|]. do 6 (destruct p as [p|p|]; try reflexivity). congruence.
    + destruct b as [|p]; [reflexivity|]. do 6 (destruct p as [p|p|]; try reflexivity). congruence.
  - destruct a as [|p]; [reflexivity|]. do 6 (destruct p as [p|p|]; try reflexivity). congruence.
Qed.

Lemma escape_triple_escape3 : forall n (s : str), (length s <= n)%nat -> escape_triple s = escape3 s.
Proof.
  induction n as [|n IH]; intros s Hn; [destruct s; [reflexivity|simpl in Hn; lia]|].
  destruct s as [|a r1]; [reflexivity|].
  destruct (le_lt_dec 3 (lead_q (a :: r1))) as [G|G].
  - apply lead_q_ge3 in G. destruct G as [r3 E]. rewrite E.
    assert (Hl : (length r3 <= n)%nat).
    { clear -E Hn. inversion E; subst. cbn [length] in Hn. clear E. apply le_S_n in Hn. apply Nat.le_trans with (2 := Hn). apply Nat.le_trans with (S (length r3)); apply Nat.le_succ_diag_r. }
    change (92 :: 34 :: 34 :: 34 :: escape_triple r3 = 92 :: 34 :: 34 :: 34 :: escape3 r3).
    f_equal. f_equal. f_equal. f_equal. exact (IH r3 Hl).
  - assert (Hl : (length r1 <= n)%nat) by (simpl in Hn; lia).
    etransitivity; [exact (escape_triple_cons a r1 G)|].
    etransitivity; [|symmetry; exact (esc_cons a r1 G)].
    f_equal. exact (IH r1 Hl).
Qed.

Lemma escaped_scan (w : str) :
  w <> [] -> last w 0 <> 34 -> last w 0 <> 92 -> Forall SourceCharacter w ->
  scan_body (escape_triple w) w.
Proof.
  intros Hne H34 H92 Hsc. split; [|exact Hsc]. intros rest.
  destruct (exists_last Hne) as (v & c & ->). rewrite last_last in H34, H92.
  assert (He : escape_triple (v ++ [c]) = escape3 v ++ [c]).
  { etransitivity; [exact (escape_triple_escape3 _ (v ++ [c]) (le_n _))|exact (escape3_snoc _ v c (le_n _) H34)]. }
  assert (Hc : (c =? 34) = false) by (apply N.eqb_neq; exact H34).
  assert (Ht : block_body (c :: 34 :: 34 :: 34 :: rest) = Some ([c], rest)).
  { etransitivity; [apply bb_char|reflexivity].
    - cbn [lead_q]. rewrite Hc. lia.
    - intros ->. congruence. }
  assert (Hq : lead_q (c :: 34 :: 34 :: 34 :: rest) = 0%nat) by (cbn [lead_q]; rewrite Hc; reflexivity).
  pose proof (lex_escaped (length v) v (c :: 34 :: 34 :: 34 :: rest) [c] rest (le_n _) Hq Ht) as H.
  etransitivity; [|exact H]. f_equal.
  etransitivity; [exact (f_equal (fun l => l ++ 34 :: 34 :: 34 :: rest) He)|].
  rewrite <- app_assoc. reflexivity.
Qed.
Local Close Scope N_scope.

(* ---- a description in front of a definition ------------------------------ *)
Definition Q3s : str := [34; 34; 34]%N.

Lemma desc_prefix_lexok body desc formatted (P : list ptok -> Prop) :
  desc_body_ok body desc -> LexOK formatted P ->
  LexOK ((Q3s ++ body ++ Q3s) ++ [10%N] ++ formatted)
        (fun ts => exists dsts rest, ts = dsts ++ rest
                    /\ D_description true dsts (Some (StrVal desc true None)) /\ P rest).
Proof.
  intros (raw & Hb & Hv) HF.
  apply (lexok_app (Q3s ++ body ++ Q3s) ([10%N] ++ formatted)
           (fun ts => D_description true ts (Some (StrVal desc true None))) P).
  - apply lexok_single; [discriminate|]. intros rest pos Hr.
    destruct (lex_description_raw body raw rest pos Hb) as (e & He).
    eexists _, e. split; [|intros f; specialize (He f); unfold Q3s; rewrite <- !app_assoc; cbn [app] in *; exact He].
    rewrite Hv. apply (DDesc_block true (PTok KBlockString desc pos e)). reflexivity.
  - apply lexok_lead; [repeat constructor|assumption].
  - intros rest _. apply vrest_sym. auto.
  - intros ts1 ts2 H1 H2. exists ts1, ts2. auto.
Qed.

Definition with_description (sv : strval) (d : definition) : definition :=
  match d with
  | DScalar e _ n dirs l => DScalar e (Some sv) n dirs l
  | DObject e _ n ifs dirs fs l => DObject e (Some sv) n ifs dirs fs l
  | DInterface e _ n dirs fs l => DInterface e (Some sv) n dirs fs l
  | DUnion e _ n dirs ts l => DUnion e (Some sv) n dirs ts l
  | DEnum e _ n dirs vs l => DEnum e (Some sv) n dirs vs l
  | DInput e _ n dirs fs l => DInput e (Some sv) n dirs fs l
  | DDirective _ n args locs l => DDirective (Some sv) n args locs l
  | _ => d
  end.

Definition undescribed (d : definition) : Prop :=
  match d with
  | DScalar false None _ _ _ | DObject false None _ _ _ _ _ | DInterface false None _ _ _ _
  | DUnion false None _ _ _ _ | DEnum false None _ _ _ _ | DInput false None _ _ _ _
  | DDirective None _ _ _ _ => True
  | _ => False
  end.

Lemma add_description fv dsts sv rest d :
  D_description true dsts (Some sv) -> undescribed d ->
  D_definition true fv true rest d -> D_definition true fv true (dsts ++ rest) (with_description sv d).
Proof.
  intros HD Hu H. inversion H as [ts d' He|ts d' _ Ht|ts d' _ Hx]; subst.
  - inversion He as [? ? Ho|? ? Hf]; subst; [inversion Ho|inversion Hf]; subst; simpl in Hu; contradiction.
  - apply DD_tsd; [reflexivity|].
    inversion Ht as [| ? desc ? ? ? ? Hd | ? desc ? ? ? ? ? ? ? ? Hd | ? desc ? ? ? ? ? ? Hd
                     | ? desc ? ? ? ? ? ? Hd | ? desc ? ? ? ? ? ? Hd | ? desc ? ? ? ? ? ? Hd
                     | ? desc ? ? ? ? ? ? ? ? ? Hd]; subst; simpl in Hu; try contradiction;
      (destruct desc; [contradiction|]); inversion Hd; subst; cbn [app with_description].
    + apply (DT_scalar true dsts (Some sv)); assumption.
    + apply (DT_object true dsts (Some sv)); assumption.
    + apply (DT_interface true dsts (Some sv)); assumption.
    + apply (DT_union true dsts (Some sv)); assumption.
    + apply (DT_enum true dsts (Some sv)); assumption.
    + apply (DT_input true dsts (Some sv)); assumption.
    + apply (DT_directive true dsts (Some sv)); assumption.
  - inversion Hx; subst; simpl in Hu; contradiction.
Qed.

(* ---- a document made of type-system definition texts --------------------- *)
Section Items.
  Variable fv : bool.

  Definition item_ok (it : str * definition) : Prop :=
    fst it <> [] /\ LexOK (fst it) (fun ts => D_definition true fv true ts (snd it))
    /\ ~ shorthand_shaped (snd it).

  Lemma defs_not_curly ts ds :
    D_definitions_la true fv true ts ds -> Forall (fun d => ~ shorthand_shaped d) ds -> ~ starts_with_curly ts.
  Proof.
    intros HD HF Hc. destruct HD as [|ts d ts' ds Hd _ _]; [destruct Hc as (t & r & E & _); discriminate|].
    inversion HF as [|? ? Hns _]; subst. apply Hns. apply (curly_shorthand fv ts d Hd).
    destruct Hc as (t & r & E & Ht). pose proof (D_definition_ne _ _ _ Hd) as Hne.
    destruct ts as [|a ts0]; [contradiction|]. inversion E; subst. exists t, ts0. auto.
  Qed.

  Lemma items_lexok : forall items : list (str * definition),
    Forall item_ok items ->
    LexOK (join [10%N; 10%N] (map fst items))
          (fun ts => D_definitions_la true fv true ts (map snd items)).
  Proof.
    induction items as [|[t d] items IH]; intros HF.
    - apply lexok_nil. constructor.
    - inversion HF as [|? ? (Hne & HL & Hns) Hrest]; subst. cbn [fst snd] in *.
      assert (Hnsr : Forall (fun d => ~ shorthand_shaped d) (map snd items)).
      { apply Forall_forall. intros x Hx. apply in_map_iff in Hx. destruct Hx as (it & <- & Hin).
        rewrite Forall_forall in Hrest. apply (Hrest it Hin). }
      destruct items as [|it2 items2].
      + cbn [map join]. eapply lexok_weaken; [|exact HL]. intros ts HD.
        rewrite <- (app_nil_r ts). apply DDl_cons; [exact HD| |constructor].
        intros _ (t0 & r & E & _). discriminate.
      + change (join [10%N; 10%N] (map fst ((t, d) :: it2 :: items2)))
          with (t ++ [10%N; 10%N] ++ join [10%N; 10%N] (map fst (it2 :: items2))).
        eapply (lexok_app t ([10%N; 10%N] ++ join [10%N; 10%N] (map fst (it2 :: items2))) _ _ _ HL).
        * apply lexok_lead; [repeat constructor|apply IH; exact Hrest].
        * intros rest _. apply vrest_sym. auto.
        * intros ts1 ts2 H1 H2. cbn [map]. apply DDl_cons; [exact H1| |exact H2].
          intros _. apply (defs_not_curly ts2 _ H2 Hnsr).
  Qed.
End Items.

Theorem items_parse fl (items : list (str * definition)) :
  no_location fl = true -> allow_type_system fl = true -> items <> [] ->
  Forall (item_ok (fragment_variables fl)) items ->
  parse_document fl (join [10%N; 10%N] (map fst items) ++ [10%N]) = Ok (Doc (map snd items) None).
Proof.
  intros Hnl Hts Hne HF. set (fv := fragment_variables fl) in *.
  pose proof (items_lexok fv items HF) as HL0.
  assert (HL : LexOK (join [10%N; 10%N] (map fst items) ++ [10%N])
                     (fun ts => D_definitions_la true fv true ts (map snd items))).
  { apply lexok_trail; [repeat constructor|exact HL0]. }
  destruct (HL [] 0%nat I) as (ts & pos' & HD & Hlen & Hlex).
  set (text := join [10%N; 10%N] (map fst items) ++ [10%N]) in *.
  set (eof := PTok KEOF [] pos' pos').
  apply (parse_document_complete_full fl text (PTok KSOF [] 0 0 :: ts ++ [eof])).
  - unfold lex, lex_stream, lex_fuel. cbn [collect].
    replace (S (length text)) with (length ts + S (length text - length ts))%nat by lia.
    rewrite <- (app_nil_r text) at 2. rewrite Hlex.
    cbn [lex_from skip_ws next_token]. unfold is_kind. simpl tkind_eqb.
    change (tkind_eqb KEOF KEOF) with true. cbv iota. cbn [Lexer.collect].
    rewrite PrinterValueRoundtrip.collect_map. simpl. reflexivity.
  - rewrite Hnl, Hts. fold fv.
    apply (DDocument_la true fv true (PTok KSOF [] 0 0) ts eof _ eq_refl eq_refl HD).
    destruct items; [contradiction|discriminate].
Qed.
