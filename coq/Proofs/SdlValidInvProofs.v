(* validate_schema (Schema/SdlBuild.v) does not depend on applied directives
   ([strip_schema]); with Proofs/SdlValidPermProofs.v (order of the types):
   it is the same for a schema and for what its document declares. *)
From PyGql Require Import Spec.SdlSpec Schema.SdlPrint Spec.SdlRoundtripSpec.
From PyGql Require Import Proofs.SdlProofs Proofs.SdlExactProofs Proofs.SdlOrderProofs Proofs.SdlPrintProofs
                          Proofs.SdlDocRoundtripProofs.
From PyGql Require Export Proofs.SdlValidPermProofs.
From Coq Require Import Lia Sorting.Permutation.

(* ---- (I) invariance under [strip_schema] -------------------------------- *)
Lemma find_type_strip n l : find_type n (map strip_tdef l) = option_map strip_tdef (find_type n l).
Proof.
  induction l as [|t l IH]; [reflexivity|]. cbn [map find_type]. rewrite strip_tdef_name.
  destruct (str_eqb n (tdef_name t)); [reflexivity|exact IH].
Qed.

Lemma strip_tdef_kind t : tdef_kind (strip_tdef t) = tdef_kind t.
Proof. destruct t; reflexivity. Qed.

Section Strip.
  Variable sc : schema.
  Let sc' := strip_schema sc.

  Lemma skind_strip n : skind sc' n = skind sc n.
  Proof.
    unfold skind, sc', strip_schema. cbn [s_types]. rewrite find_type_strip.
    destruct (find_type n (s_types sc)); cbn [option_map]; rewrite ?strip_tdef_kind; reflexivity.
  Qed.

  Lemma s_is_input_strip t : s_is_input sc' t = s_is_input sc t.
  Proof. unfold s_is_input. rewrite skind_strip. reflexivity. Qed.
  Lemma s_is_output_strip t : s_is_output sc' t = s_is_output sc t.
  Proof. unfold s_is_output. rewrite skind_strip. reflexivity. Qed.
  Lemma s_is_object_strip n : s_is_object sc' n = s_is_object sc n.
  Proof. unfold s_is_object. rewrite skind_strip. reflexivity. Qed.

  Lemma possible_type_strip a b : possible_type sc' a b = possible_type sc a b.
  Proof.
    unfold possible_type, sc', strip_schema. cbn [s_types]. rewrite !find_type_strip.
    destruct (find_type a (s_types sc)) as [[]|], (find_type b (s_types sc)) as [[]|]; reflexivity.
  Qed.

  Lemma is_subtype_strip t : forall s, is_subtype sc' t s = is_subtype sc t s.
  Proof.
    induction t as [a|a IH|a IH]; intros s; cbn [is_subtype].
    - destruct s; try reflexivity. rewrite possible_type_strip. reflexivity.
    - destruct s; try reflexivity. rewrite IH. reflexivity.
    - destruct s; rewrite ?IH; reflexivity.
  Qed.

  Lemma valid_args_strip args : valid_args sc' (map strip_siv args) = valid_args sc args.
  Proof.
    unfold valid_args. rewrite forallb_map, map_map. f_equal.
    apply forallb_ext. intros a. destruct a; cbn. rewrite s_is_input_strip. reflexivity.
  Qed.

  Lemma strip_sf_names fs : map sf_name (map strip_sf fs) = map sf_name fs.
  Proof. rewrite map_map. apply map_ext. intros []; reflexivity. Qed.

  Lemma valid_fields_strip fs : valid_fields sc' (map strip_sf fs) = valid_fields sc fs.
  Proof.
    unfold valid_fields. rewrite forallb_map, strip_sf_names. f_equal; [destruct fs; reflexivity|].
    apply forallb_ext. intros f. destruct f as [fn fp fa ft fd fdep fdirs]. cbn [strip_sf sf_name sf_type sf_args].
    rewrite s_is_output_strip, valid_args_strip. reflexivity.
  Qed.

  Lemma find_field_strip n fs : find_field n (map strip_sf fs) = option_map strip_sf (find_field n fs).
  Proof.
    induction fs as [|f fs IH]; [reflexivity|]. cbn [map find_field]. rewrite IH.
    destruct (find_field n fs); cbn [option_map]; [reflexivity|].
    destruct f as [fn fp fa ft fd fdep fdirs]. cbn [strip_sf sf_name]. destruct (str_eqb n fn); reflexivity.
  Qed.

  Lemma find_arg_strip n l : find_arg n (map strip_siv l) = option_map strip_siv (find_arg n l).
  Proof.
    induction l as [|a l IH]; [reflexivity|]. cbn [map find_arg]. rewrite IH.
    destruct (find_arg n l); cbn [option_map]; [reflexivity|].
    destruct a as [an ap at_ ad ade adi]. cbn [strip_siv siv_name]. destruct (str_eqb n an); reflexivity.
  Qed.

  Lemma valid_implementation_strip ofs i :
    valid_implementation sc' (map strip_sf ofs) i = valid_implementation sc ofs i.
  Proof.
    unfold valid_implementation, sc', strip_schema. cbn [s_types]. rewrite find_type_strip.
    destruct (find_type i (s_types sc)) as [[]|]; cbn [option_map strip_tdef]; try reflexivity.
    rewrite forallb_map. apply forallb_ext. intros f. destruct f as [fn fp fa ft fd fdep fdirs].
    cbn [strip_sf sf_name sf_type sf_args].
    rewrite find_field_strip. destruct (find_field fn ofs) as [[gn gp ga gt gd gdep gdirs]|];
      cbn [option_map strip_sf sf_type sf_args]; [|reflexivity].
    fold sc'. rewrite is_subtype_strip. rewrite !forallb_map. f_equal; [f_equal|].
    - apply forallb_ext. intros a. destruct a as [an ap at_ ad ade adi]. cbn [strip_siv siv_name siv_type].
      rewrite find_arg_strip. destruct (find_arg an ga) as [[]|]; reflexivity.
    - apply forallb_ext. intros a. destruct a as [an ap at_ ad ade adi]. cbn [strip_siv siv_name siv_type].
      rewrite find_arg_strip. destruct (find_arg an fa) as [[]|]; reflexivity.
  Qed.

  Lemma valid_type_strip t : valid_type sc' (strip_tdef t) = valid_type sc t.
  Proof.
    unfold valid_type. rewrite strip_tdef_name. f_equal.
    destruct t as [n d ds|n d is_ fs ds|n d fs ds|n d ms ds|n d vs ds|n d fs ds]; cbn [strip_tdef]; try reflexivity.
    - rewrite valid_fields_strip. f_equal. apply forallb_ext. intros i. apply valid_implementation_strip.
    - apply valid_fields_strip.
    - f_equal. f_equal. apply forallb_ext. intros m. apply s_is_object_strip.
    - destruct vs as [|x l]; [reflexivity|]. cbn [map]. cbv iota. rewrite <- map_cons, forallb_map.
      reflexivity.
    - destruct fs as [|x l]; [reflexivity|]. cbn [map]. cbv iota. rewrite <- !map_cons, forallb_map, map_map.
      replace (map (fun x0 : sivalue => siv_name (strip_siv x0)) (x :: l)) with (map siv_name (x :: l))
        by (apply map_ext; intros []; reflexivity).
      f_equal. apply forallb_ext. intros a. destruct a as [an ap at_ ad ade adi]. cbn [strip_siv siv_name siv_type].
      rewrite s_is_input_strip. reflexivity.
  Qed.

  Theorem validate_schema_strip : validate_schema sc' = validate_schema sc.
  Proof.
    assert (Hr : forall r, valid_root sc' r = valid_root sc r) by (intros [n|]; [apply s_is_object_strip|reflexivity]).
    unfold validate_schema.
    change (s_query sc') with (s_query sc). change (s_mutation sc') with (s_mutation sc).
    change (s_subscription sc') with (s_subscription sc).
    change (s_types sc') with (map strip_tdef (s_types sc)).
    change (s_ddefs sc') with (map strip_ddef (s_ddefs sc)).
    rewrite !forallb_map, !Hr. f_equal; [f_equal|].
    - apply forallb_ext. apply valid_type_strip.
    - apply forallb_ext. intros d. cbn [strip_ddef dd_name dd_args]. rewrite valid_args_strip. reflexivity.
  Qed.
End Strip.

Theorem validate_declares_again sc sc' :
  has_dup (map tdef_name (s_types sc)) = false -> declares_again sc sc' ->
  validate_schema sc' = validate_schema sc.
Proof.
  intros Hdup (Hts & HD & Rq & Rm & Rs & _).
  rewrite <- (validate_schema_strip sc'), <- (validate_schema_strip sc).
  apply validate_schema_perm; unfold strip_schema; cbn [s_types s_ddefs s_query s_mutation s_subscription]; try assumption.
  - rewrite Hts. apply Permutation_map. apply sort_by_perm.
  - change (map (fun d : ddef => DD (dd_name d) (dd_desc d) (dd_locs d) (map strip_siv (dd_args d))))
      with (map strip_ddef). rewrite HD. apply Permutation_map. apply sort_by_perm.
  - rewrite Hts, strip_names. apply has_dup_NoDup.
    eapply has_dup_perm; [apply Permutation_map; apply Permutation_sym; apply sort_by_perm|exact Hdup].
Qed.
