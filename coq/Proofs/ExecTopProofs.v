(* Statements of C04 assembled from the proof files. *)
From PyGql Require Import Spec.ExecSpec Exec.ExecCache.
From PyGql Require Export Proofs.ExecProofs Proofs.ExecCollectProofs Proofs.ExecCacheProofs Proofs.ExecSpecProofs.
From PyGql Require Export Proofs.ExecRejProofs.

Arguments field_definition : simpl never.
Arguments collect_for : simpl never.

(* keys of a response object: the keys of the grouped fields (those whose
   field the object type defines), in the grouping's order; groups have
   pairwise distinct keys and hold only field nodes with that response key *)
Lemma exec_sel_keys sch frags vs coerce_args world tyres cfuel fuel tname v p sels kvs es :
  exec_sel sch frags vs coerce_args world tyres cfuel fuel tname v p sels = Ok (PDict kvs, es) ->
  exists g, collect_for sch frags vs cfuel tname sels = Ok g /\
            map fst kvs = keys (filter (defined sch tname) g) /\
            NoDup (keys g) /\ Forall group_ok g.
Proof.
  destruct fuel as [|fuel]; simpl; [discriminate|]. intros H.
  apply obind_ok in H as [g [Hg H]]. apply obind_ok in H as [[kvs' es'] [He H]].
  inversion H; subst. exists g. split; [exact Hg|]. split.
  - eapply exec_groups_keys; eassumption.
  - unfold collect_for in Hg. apply collect_ok in Hg. exact Hg.
Qed.

Lemma spread_free_top frags ss : spread_free ss = true -> top_spreads frags ss = true.
Proof.
  unfold spread_free, top_spreads. induction ss as [|x ss IH]; simpl; [reflexivity|].
  rewrite andb_true_iff. intros [Hx Hs]. rewrite (IH Hs), andb_true_r.
  destruct x; simpl in *; try reflexivity; try discriminate. exact Hx.
Qed.

Lemma collect_keys_first_occurrence sch frags vs cfuel tname sels g :
  top_spreads frags sels = true ->
  collect_for sch frags vs cfuel tname sels = Ok g ->
  exists fs V', SFlat (applies sch tname) frags vs sels [] fs V' /\
                g = spec_groups fs /\ keys g = first_occ (map field_key fs).
Proof.
  intros Hts Hg. unfold collect_for in Hg.
  destruct (collect_is_spec_collect_top _ _ _ _ _ _ _ Hts Hg) as [fs [V' [Hfl ->]]].
  exists fs, V'. split; [exact Hfl|]. split; [reflexivity|apply spec_groups_keys].
Qed.

(* errors <-> nulls *)
Lemma exec_sel_errors_nulls sch frags vs coerce_args world tyres cfuel fuel tname v p sels d es :
  schema_nn_ok sch ->
  exec_sel sch frags vs coerce_args world tyres cfuel fuel tname v p sels = Ok (d, es) ->
  NoDup (map e_path es) /\
  Forall (fun e => exists q, e_path e = p ++ q /\ null_on_path d q) es.
Proof.
  intros Hs H. apply (exec_sel_wf _ _ _ _ _ _ _ Hs) in H. destruct H as [[Hw Hn] _]. split; assumption.
Qed.

Section Failures.
  Variable sch : schema.
  Variable coerce_args : fdef -> selection -> outcome (list (str * pv)).
  Variable world : world_t.
  Variable tyres : str -> option (pv -> tyname_res).
  Variable sub_exec : str -> pv -> path -> list selection -> result.

  Lemma resolver_error_local tname parent fd node nodes p args m x :
    coerce_args fd node = Ok args ->
    world p parent tname (f_name fd) args = RErr m x ->
    resolve_field sch coerce_args world tyres sub_exec tname parent FUser fd (node :: nodes) p =
    Ok (PNone, [Err p [sel_loc node] (EResolver m x)]).
  Proof. intros Hc Hw. unfold resolve_field. rewrite Hc, Hw. reflexivity. Qed.

  Lemma coercion_error_local tname parent k fd node nodes p c q :
    coerce_args fd node = Rejected c q ->
    resolve_field sch coerce_args world tyres sub_exec tname parent k fd (node :: nodes) p =
    Ok (PNone, [Err p [sel_loc node] ECoercion]).
  Proof. intros Hc. unfold resolve_field. rewrite Hc. reflexivity. Qed.

  Hypothesis Hsub : forall tn v p sels r, sub_exec tn v p sels = Ok r -> wf_res p r /\ fst r <> PNone.

  Lemma nonnull_null_local nodes t p v es :
    nn_ok (RNonNull t) = true ->
    complete_value sch tyres sub_exec nodes (RNonNull t) p v = Ok (PNone, es) ->
    es = [Err p (map sel_loc nodes) ENonNull].
  Proof.
    intros Hnn H. simpl in H. apply obind_ok in H as [[r1 es1] [H1 H]]. simpl in H.
    assert (Hnn' : nn_ok t = true) by (destruct t; simpl in Hnn; auto; discriminate).
    destruct (complete_value_wf sch tyres sub_exec Hsub nodes t p v _ Hnn' H1) as [_ Hs]. simpl in Hs.
    destruct r1; inversion H; subst.
    assert (He : es1 = []) by (destruct t; simpl in Hnn, Hs; auto; discriminate).
    subst. reflexivity.
  Qed.

  Lemma nonnull_value_passes nodes t p v r es :
    complete_value sch tyres sub_exec nodes (RNonNull t) p v = Ok (r, es) -> r <> PNone ->
    complete_value sch tyres sub_exec nodes t p v = Ok (r, es).
  Proof.
    intros H Hr. simpl in H. apply obind_ok in H as [[r1 es1] [H1 H]]. simpl in H.
    destruct r1; inversion H; subst; try exact H1. congruence.
  Qed.
End Failures.

(* a sub-selection that cannot be collected (invalid @skip / @include
   arguments): the enclosing field is null with exactly one more error, at the
   field's path; what list items completed before had recorded stays, strictly
   below that path *)
Lemma subselection_abort_local sch tyres sub_exec nodes t p v k q :
  (forall tn x p' ss k' q', sub_exec tn x p' ss = Rejected k' q' -> k' = REJ_COERCION) ->
  nn_ok t = true ->
  (forall tn x p' sels r, sub_exec tn x p' sels = Ok r -> wf_res p' r /\ fst r <> PNone) ->
  complete_value sch tyres sub_exec nodes t p v = Rejected k q ->
  complete_field sch tyres sub_exec nodes t p v =
    Ok (PNone, complete_value_partial sch tyres sub_exec nodes t p v ++ [Err p [] ECoercion]) /\
  Forall (below p) (complete_value_partial sch tyres sub_exec nodes t p v).
Proof.
  intros HK Hnn Hsub H. split.
  - unfold complete_field. rewrite H. rewrite (complete_value_rej sch tyres sub_exec HK _ _ _ _ _ _ H).
    reflexivity.
  - apply (complete_value_partial_wf sch tyres sub_exec Hsub nodes t p v Hnn).
Qed.

(* ... and on the root selection set the whole request is rejected: a
   selection set is rejected exactly when collecting its fields is *)
Lemma root_collect_rejection sch frags vs coerce_args world tyres cfuel fuel tname v p sels k q :
  (exec_sel sch frags vs coerce_args world tyres cfuel fuel tname v p sels = Rejected k q ->
   collect_for sch frags vs cfuel tname sels = Rejected k q /\ k = REJ_COERCION) /\
  (collect_for sch frags vs cfuel tname sels = Rejected k q ->
   exec_sel sch frags vs coerce_args world tyres cfuel (S fuel) tname v p sels = Rejected k q).
Proof.
  split; [apply exec_sel_rej|]. intros H. simpl. rewrite H. reflexivity.
Qed.

(* ---- full-strength statements that are only partly proved (see docs/C04.md) *)

(* the code's grouping equals the specification's CollectFields on every
   selection list on which it terminates (acyclic fragments), up to nodes
   listed more than once *)
Definition C04_collect_full : Prop :=
  forall applies frags vs fuel ss g,
    collect applies frags vs true fuel ss = Ok g ->
    exists g', SCollect applies frags vs ss g' /\ keys g = keys g' /\
               Forall2 (fun a b => incl (snd a) (snd b) /\ incl (snd b) (snd a)) g g'.

(* the executor's result is the specification's, with CollectFields the
   specification's at every level, up to repeated locations inside an error *)
Definition C04_exec_eq_spec_full : Prop :=
  forall sch frags vs coerce_args world tyres cfuel fuel tname v p sels r,
    schema_nn_ok sch ->
    exec_sel sch frags vs coerce_args world tyres cfuel fuel tname v p sels = Ok r ->
    exists es',
      SSel sch coerce_args world tyres (fun tn ss g => SCollect (applies sch tn) frags vs ss g)
           tname v p sels (fst r) es' /\
      Forall2 (fun e e' => e_path e = e_path e' /\ e_kind e = e_kind e' /\
                           incl (e_locs e) (e_locs e') /\ incl (e_locs e') (e_locs e)) (snd r) es'.

Lemma path_eqb_prefixb : forall p q, path_eqb p q = true -> prefixb q p = true.
Proof.
  induction p as [|x p IH]; destruct q as [|y q]; simpl; try discriminate; [reflexivity|].
  rewrite !andb_true_iff. intros [H1 H2]. apply pelem_eqb_eq in H1; subst.
  split; [apply pelem_eqb_refl|apply IH; exact H2].
Qed.
