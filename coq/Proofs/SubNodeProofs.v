(* C02 (4) over the sub-nodes of a returned tree: every Value / Type node
   occurring anywhere in an accepted document is derived by a segment of the
   document's token sequence; hence its loc is that segment's span and the
   spanned text re-parses, through parse_value / parse_type, to the node with
   spans moved to offset 0. *)
From PyGql Require Import Lang.Parser Spec.LexSpec Spec.LexicalSpec Spec.GrammarSpec Spec.DocGrammarSpec
  Spec.SdlGrammarSpec Spec.ReparseSpec Spec.ReparseSdlSpec Spec.SubNodeSpec
  Proofs.GrammarProofs Proofs.ReparseProofs Proofs.SdlEntryProofs.

Section Segments.
Variable nl : bool.

Definition holds (n : node) (seg : list ptok) : Prop :=
  match n with NV v => exists c, D_value nl c seg v | NT t => D_type nl seg t end.

Definition Seg (n : node) (ts : list ptok) : Prop :=
  exists pre seg post, ts = pre ++ seg ++ post /\ holds n seg.

Lemma Seg_self n ts : holds n ts -> Seg n ts.
Proof. intros H. exists [], ts, []. rewrite app_nil_r. split; [reflexivity|exact H]. Qed.

Lemma Seg_app_l n a b : Seg n a -> Seg n (a ++ b).
Proof. intros (pre & seg & post & -> & H). exists pre, seg, (post ++ b). rewrite <- !app_assoc. auto. Qed.

Lemma Seg_app_r n a b : Seg n b -> Seg n (a ++ b).
Proof. intros (pre & seg & post & -> & H). exists (a ++ pre), seg, post. rewrite <- !app_assoc. auto. Qed.

Lemma Seg_cons n t b : Seg n b -> Seg n (t :: b).
Proof. apply (Seg_app_r n [t] b). Qed.

Ltac seg :=
  first [ assumption
        | apply Seg_cons; seg
        | apply Seg_app_l; seg
        | apply Seg_app_r; seg ].

Ltac split_in H := repeat (apply in_app_or in H; destruct H as [H|H]).

(* ---- types, values ---- *)
Lemma D_type_seg ts t : D_type nl ts t -> forall n, In n (sub_ty t) -> Seg n ts.
Proof.
  induction 1 as [t Hk|o ts c inner Ho Hc Hd IH|ts b inner Hb Hd IH Hnn]; intros n [<-|Hn].
  - apply Seg_self. simpl. constructor; exact Hk.
  - destruct Hn.
  - apply Seg_self. simpl. constructor; assumption.
  - apply IH in Hn. seg.
  - apply Seg_self. simpl. constructor; assumption.
  - apply IH in Hn. seg.
Qed.

Lemma D_value_seg_all :
  (forall c ts v, D_value nl c ts v -> forall n, In n (sub_value v) -> Seg n ts)
  /\ (forall c ts vs, D_values nl c ts vs -> forall n, In n (flat_map sub_value vs) -> Seg n ts)
  /\ (forall c ts fs, D_fields nl c ts fs ->
        forall n, In n (flat_map (fun f => sub_value (snd (fst f))) fs) -> Seg n ts).
Proof.
  apply (D_value_mutind nl
    (fun c ts v => forall n, In n (sub_value v) -> Seg n ts)
    (fun c ts vs => forall n, In n (flat_map sub_value vs) -> Seg n ts)
    (fun c ts fs => forall n, In n (flat_map (fun f => sub_value (snd (fst f))) fs) -> Seg n ts)).
  1-9: intros; match goal with H : In _ _ |- _ => destruct H as [<-|[]] end;
       apply Seg_self; exists false; constructor; assumption.
  - intros c o ts cl vs Ho Hc Hd IH n [<-|Hn].
    + apply Seg_self. exists c. constructor; assumption.
    + apply IH in Hn. seg.
  - intros c o ts cl fs Ho Hc Hd IH n [<-|Hn].
    + apply Seg_self. exists c. constructor; assumption.
    + apply IH in Hn. seg.
  - intros c n [].
  - intros c ts v ts' vs Hv IHv Hvs IHvs n Hn. simpl in Hn. split_in Hn; [apply IHv in Hn|apply IHvs in Hn]; seg.
  - intros c n [].
  - intros c nm colon ts v ts' fs Kn Kc Hv IHv Hfs IHfs n Hn. simpl in Hn. split_in Hn; [apply IHv in Hn|apply IHfs in Hn]; seg.
Qed.

Lemma D_value_seg c ts v : D_value nl c ts v -> forall n, In n (sub_value v) -> Seg n ts.
Proof. apply (proj1 D_value_seg_all). Qed.

(* ---- generic lists ---- *)
Lemma D_list_seg {A} (R : list ptok -> A -> Prop) (f : A -> list node) ts xs :
  (forall ts x, R ts x -> forall n, In n (f x) -> Seg n ts) ->
  D_list R ts xs -> forall n, In n (flat_map f xs) -> Seg n ts.
Proof.
  intros HR H. induction H as [|ts x ts' xs Hx Hxs IH]; intros n Hn; [destruct Hn|].
  simpl in Hn. split_in Hn; [apply (HR _ _ Hx) in Hn|apply IH in Hn]; seg.
Qed.

Lemma D_sep_list_seg {A} (R : list ptok -> A -> Prop) (f : A -> list node) delim ts xs :
  (forall ts x, R ts x -> forall n, In n (f x) -> Seg n ts) ->
  D_sep_list R delim ts xs -> forall n, In n (flat_map f xs) -> Seg n ts.
Proof.
  intros HR H. induction H as [ts x Hx|ts x d ts' xs Hx Kd Hxs IH]; intros n Hn; simpl in Hn.
  - rewrite app_nil_r in Hn. apply (HR _ _ Hx) in Hn. exact Hn.
  - split_in Hn; [apply (HR _ _ Hx) in Hn|apply IH in Hn]; seg.
Qed.

Lemma D_opt_block_seg {A} (R : list ptok -> A -> Prop) (f : A -> list node) open close ts xs :
  (forall ts x, R ts x -> forall n, In n (f x) -> Seg n ts) ->
  D_opt_block R open close ts xs -> forall n, In n (flat_map f xs) -> Seg n ts.
Proof.
  intros HR [|o body cl ys Ko Kc Hl Hne] n Hn; [destruct Hn|].
  apply (D_list_seg R f _ _ HR Hl) in Hn. seg.
Qed.

(* ---- arguments, directives, selections ---- *)
Lemma D_argument_seg c ts a : D_argument nl c ts a -> forall n, In n (nodes_arg a) -> Seg n ts.
Proof. intros [t colon vts v Kt Kc Dv] n Hn. unfold nodes_arg in Hn. simpl in Hn. apply (D_value_seg _ _ _ Dv) in Hn. seg. Qed.

Lemma D_arguments_seg c ts args : D_arguments nl c ts args -> forall n, In n (flat_map nodes_arg args) -> Seg n ts.
Proof.
  intros [|o body cl args0 Ko Kc Hl Hne] n Hn; [destruct Hn|].
  apply (D_list_seg _ _ _ _ (D_argument_seg c) Hl) in Hn. seg.
Qed.

Lemma D_directive_seg c ts d : D_directive nl c ts d -> forall n, In n (nodes_dir d) -> Seg n ts.
Proof. intros [a t ats args Ka Kt Da] n Hn. unfold nodes_dir in Hn. simpl in Hn. apply (D_arguments_seg _ _ _ Da) in Hn. seg. Qed.

Lemma D_directives_seg c ts ds : D_directives nl c ts ds -> forall n, In n (flat_map nodes_dir ds) -> Seg n ts.
Proof. apply D_list_seg. apply D_directive_seg. Qed.

Lemma D_selection_seg_all :
  (forall ts s, D_selection nl ts s -> forall n, In n (nodes_sel s) -> Seg n ts)
  /\ (forall ts sl sub, D_opt_selection_set nl ts sl sub -> forall n, In n (flat_map nodes_sel sub) -> Seg n ts)
  /\ (forall ts ss, D_selections nl ts ss -> forall n, In n (flat_map nodes_sel ss) -> Seg n ts).
Proof.
  apply (D_selection_mutind nl
    (fun ts s => forall n, In n (nodes_sel s) -> Seg n ts)
    (fun ts sl sub => forall n, In n (flat_map nodes_sel sub) -> Seg n ts)
    (fun ts ss => forall n, In n (flat_map nodes_sel ss) -> Seg n ts)).
  - intros ats al nt argts args dts dirs ssts sl sub Dal Kn Da Dd Dss IH n Hn. cbn [nodes_sel] in Hn.
    split_in Hn; [apply (D_arguments_seg _ _ _ Da) in Hn|apply (D_directives_seg _ _ _ Dd) in Hn|apply IH in Hn]; seg.
  - intros e nt dts dirs Ke Kn Hon Dd n Hn. cbn [nodes_sel] in Hn. apply (D_directives_seg _ _ _ Dd) in Hn. seg.
  - intros e tcts tc dts dirs o body cl sub Ke Dtc Dd Ko Kc Dsub IH Hne n Hn. cbn [nodes_sel] in Hn.
    split_in Hn; [|apply (D_directives_seg _ _ _ Dd) in Hn; seg|apply IH in Hn; seg].
    destruct Dtc as [|on tn Won Ktn]; [destruct Hn|]. simpl in Hn. destruct Hn as [<-|[]].
    assert (Seg (NT (TNamed (name_node nl tn) (mkloc nl [tn]))) [tn]) by (apply Seg_self; simpl; constructor; exact Ktn).
    change (e :: [on; tn] ++ dts ++ o :: body ++ [cl]) with (e :: on :: [tn] ++ dts ++ o :: body ++ [cl]). seg.
  - intros n [].
  - intros o body cl sub Ko Kc Dsub IH Hne n Hn. apply IH in Hn. seg.
  - intros n [].
  - intros ts s ts' ss Ds IHs Dss IHss n Hn. simpl in Hn. split_in Hn; [apply IHs in Hn|apply IHss in Hn]; seg.
Qed.

Lemma D_selection_set_seg ts sels l : D_selection_set nl ts sels l -> forall n, In n (flat_map nodes_sel sels) -> Seg n ts.
Proof. intros [o body cl sub Ko Kc Ds Hne] n Hn. apply (proj2 (proj2 D_selection_seg_all) _ _ Ds) in Hn. seg. Qed.

(* ---- variable definitions, executable definitions ---- *)
Lemma D_default_seg ts dv : D_default nl ts dv -> forall n, In n (opt_nodes sub_value dv) -> Seg n ts.
Proof. intros [|eq vts v Ke Dv] n Hn; [destruct Hn|]. simpl in Hn. apply (D_value_seg _ _ _ Dv) in Hn. seg. Qed.

Lemma D_variable_definition_seg ts vd : D_variable_definition nl ts vd -> forall n, In n (nodes_var_def vd) -> Seg n ts.
Proof.
  intros [d nm colon tyts t defts dv dts dirs Kd Kn Kc Dt Ddef Dd] n Hn. unfold nodes_var_def in Hn. simpl in Hn.
  destruct Hn as [<-|Hn].
  - assert (Seg (NV (VVar (name_node nl nm) (mkloc nl [d; nm]))) [d; nm])
      by (apply Seg_self; exists false; constructor; assumption).
    change (d :: nm :: colon :: tyts ++ defts ++ dts) with ([d; nm] ++ colon :: tyts ++ defts ++ dts). seg.
  - split_in Hn; [apply (D_type_seg _ _ Dt) in Hn|apply (D_default_seg _ _ Ddef) in Hn|apply (D_directives_seg _ _ _ Dd) in Hn]; seg.
Qed.

Lemma D_variable_definitions_seg ts vds :
  D_variable_definitions nl ts vds -> forall n, In n (flat_map nodes_var_def vds) -> Seg n ts.
Proof.
  intros [|o body cl vds0 Ko Kc Hl Hne] n Hn; [destruct Hn|].
  apply (D_list_seg _ _ _ _ D_variable_definition_seg Hl) in Hn. seg.
Qed.

Lemma D_executable_definition_seg fv ts d :
  D_executable_definition nl fv ts d -> forall n, In n (nodes_def d) -> Seg n ts.
Proof.
  intros [ts0 d0 Do|ts0 d0 Df] n Hn.
  - destruct Do as [ts1 sels l Dss|k kind nts nm vdts vds dts dirs ssts sels ssl Dk Dn Dv Dd Dss]; cbn [nodes_def] in Hn.
    + simpl in Hn. apply (D_selection_set_seg _ _ _ Dss) in Hn. exact Hn.
    + split_in Hn; [apply (D_variable_definitions_seg _ _ Dv) in Hn|apply (D_directives_seg _ _ _ Dd) in Hn
                   |apply (D_selection_set_seg _ _ _ Dss) in Hn]; seg.
  - destruct Df as [f nm vdts vds o tcn dts dirs ssts sels ssl Wf Kn Hon Dv Wo Ktc Dd Dss]. cbn [nodes_def] in Hn.
    split_in Hn.
    + assert (Seg n vdts).
      { destruct fv; [apply (D_variable_definitions_seg _ _ Dv); exact Hn|destruct Dv as [_ ->]; destruct Hn]. }
      seg.
    + simpl in Hn. destruct Hn as [<-|[]].
      assert (Seg (NT (TNamed (name_node nl tcn) (mkloc nl [tcn]))) [tcn]) by (apply Seg_self; simpl; constructor; exact Ktc).
      change (f :: nm :: vdts ++ o :: tcn :: dts ++ ssts) with (f :: nm :: vdts ++ o :: [tcn] ++ dts ++ ssts). seg.
    + apply (D_directives_seg _ _ _ Dd) in Hn. seg.
    + apply (D_selection_set_seg _ _ _ Dss) in Hn. seg.
Qed.

(* ---- type-system definitions ---- *)
Lemma D_description_seg ts d : D_description nl ts d -> forall n, In n (nodes_desc d) -> Seg n ts.
Proof.
  intros [|t K|t K] n Hn; simpl in Hn; [destruct Hn| |]; destruct Hn as [<-|[]]; apply Seg_self; exists false.
  - apply (DV_string nl false t K).
  - apply (DV_block_string nl false t K).
Qed.

Lemma named_type_seg t : tk t = KName -> forall n, In n (sub_ty (named_type nl t)) -> Seg n [t].
Proof. intros K n [<-|[]]. apply Seg_self. simpl. constructor. exact K. Qed.

Lemma D_named_type_seg ts t : D_named_type nl ts t -> forall n, In n (sub_ty t) -> Seg n ts.
Proof. intros [t0 K]. apply named_type_seg. exact K. Qed.

Lemma D_op_type_def_seg ts o : D_op_type_def nl ts o -> forall n, In n (nodes_otd o) -> Seg n ts.
Proof.
  intros [k kind colon t Dk Kc Kn] n Hn. unfold nodes_otd in Hn. cbn [ot_type] in Hn.
  apply (named_type_seg t Kn) in Hn. change [k; colon; t] with (k :: colon :: [t]). seg.
Qed.

Lemma D_op_types_seg ts ots : D_op_types nl ts ots -> forall n, In n (flat_map nodes_otd ots) -> Seg n ts.
Proof. intros [o body cl ots0 Ko Kc Hl Hne] n Hn. apply (D_list_seg _ _ _ _ D_op_type_def_seg Hl) in Hn. seg. Qed.

Lemma D_input_value_seg ts iv : D_input_value nl ts iv -> forall n, In n (nodes_ivd iv) -> Seg n ts.
Proof.
  intros [dsts desc nm colon tyts t defts dv dts dirs Ddesc Kn Kc Dt Ddef Dd] n Hn. unfold nodes_ivd in Hn.
  cbn [iv_desc iv_type iv_default iv_dirs] in Hn.
  split_in Hn; [apply (D_description_seg _ _ Ddesc) in Hn|apply (D_type_seg _ _ Dt) in Hn
               |apply (D_default_seg _ _ Ddef) in Hn|apply (D_directives_seg _ _ _ Dd) in Hn]; seg.
Qed.

Lemma D_args_def_seg ts args : D_args_def nl ts args -> forall n, In n (flat_map nodes_ivd args) -> Seg n ts.
Proof. apply D_opt_block_seg. apply D_input_value_seg. Qed.

Lemma D_input_fields_seg ts fs : D_input_fields nl ts fs -> forall n, In n (flat_map nodes_ivd fs) -> Seg n ts.
Proof. apply D_opt_block_seg. apply D_input_value_seg. Qed.

Lemma D_field_def_seg ts fd : D_field_def nl ts fd -> forall n, In n (nodes_fd fd) -> Seg n ts.
Proof.
  intros [dsts desc nm ats args colon tyts t dts dirs Ddesc Kn Da Kc Dt Dd] n Hn. unfold nodes_fd in Hn.
  cbn [fd_desc fd_args fd_type fd_dirs] in Hn.
  split_in Hn; [apply (D_description_seg _ _ Ddesc) in Hn|apply (D_args_def_seg _ _ Da) in Hn
               |apply (D_type_seg _ _ Dt) in Hn|apply (D_directives_seg _ _ _ Dd) in Hn]; seg.
Qed.

Lemma D_fields_def_seg ts fs : D_fields_def nl ts fs -> forall n, In n (flat_map nodes_fd fs) -> Seg n ts.
Proof. apply D_opt_block_seg. apply D_field_def_seg. Qed.

Lemma D_enum_value_seg ts ev : D_enum_value nl ts ev -> forall n, In n (nodes_evd ev) -> Seg n ts.
Proof.
  intros [dsts desc nm dts dirs Ddesc Kn Hres Dd] n Hn. unfold nodes_evd in Hn. cbn [ev_desc ev_dirs] in Hn.
  split_in Hn; [apply (D_description_seg _ _ Ddesc) in Hn|apply (D_directives_seg _ _ _ Dd) in Hn]; seg.
Qed.

Lemma D_enum_values_seg ts vs : D_enum_values nl ts vs -> forall n, In n (flat_map nodes_evd vs) -> Seg n ts.
Proof. apply D_opt_block_seg. apply D_enum_value_seg. Qed.

Lemma D_implements_seg ts ifs : D_implements nl ts ifs -> forall n, In n (flat_map sub_ty ifs) -> Seg n ts.
Proof.
  intros [|k lead ts0 tys W Dl Ds] n Hn; [destruct Hn|].
  apply (D_sep_list_seg _ _ _ _ _ D_named_type_seg Ds) in Hn. seg.
Qed.

Lemma D_union_members_seg ts tys : D_union_members nl ts tys -> forall n, In n (flat_map sub_ty tys) -> Seg n ts.
Proof.
  intros [|eq lead ts0 tys0 Ke Dl Ds] n Hn; [destruct Hn|].
  apply (D_sep_list_seg _ _ _ _ _ D_named_type_seg Ds) in Hn. seg.
Qed.

Ltac use_parts Hn :=
  split_in Hn;
  repeat match goal with
  | D : D_description _ _ ?d |- _ => apply (D_description_seg _ _ D) in Hn
  | D : D_directives _ _ _ ?ds |- _ => apply (D_directives_seg _ _ _ D) in Hn
  | D : D_op_types _ _ ?o |- _ => apply (D_op_types_seg _ _ D) in Hn
  | D : D_implements _ _ ?i |- _ => apply (D_implements_seg _ _ D) in Hn
  | D : D_fields_def _ _ ?f |- _ => apply (D_fields_def_seg _ _ D) in Hn
  | D : D_union_members _ _ ?m |- _ => apply (D_union_members_seg _ _ D) in Hn
  | D : D_enum_values _ _ ?v |- _ => apply (D_enum_values_seg _ _ D) in Hn
  | D : D_input_fields _ _ ?f |- _ => apply (D_input_fields_seg _ _ D) in Hn
  | D : D_args_def _ _ ?a |- _ => apply (D_args_def_seg _ _ D) in Hn
  end; seg.

Lemma D_type_system_definition_seg ts d :
  D_type_system_definition nl ts d -> forall n, In n (nodes_def d) -> Seg n ts.
Proof. intros H n Hn; destruct H; cbn [nodes_def] in Hn; use_parts Hn. Qed.

Lemma D_type_system_extension_seg ts d :
  D_type_system_extension nl ts d -> forall n, In n (nodes_def d) -> Seg n ts.
Proof.
  intros H n Hn; destruct H; cbn [nodes_def nodes_desc opt_nodes app] in Hn;
    try match goal with D : D_opt_op_types _ _ _ |- _ => destruct D as [|? ? D] end;
    try solve [use_parts Hn].
  split_in Hn; [apply (D_directives_seg _ _ _ H1) in Hn; seg|destruct Hn].
Qed.

Lemma D_definition_seg fv en ts d : D_definition nl fv en ts d -> forall n, In n (nodes_def d) -> Seg n ts.
Proof.
  intros [ts0 d0 H|ts0 d0 He H|ts0 d0 He H].
  - apply (D_executable_definition_seg fv); exact H.
  - apply D_type_system_definition_seg; exact H.
  - apply D_type_system_extension_seg; exact H.
Qed.

Lemma D_document_seg fv en ts doc : D_document nl fv en ts doc -> forall n, In n (nodes_doc doc) -> Seg n ts.
Proof.
  intros [sof body eof defs Ks Ke Hl Hne] n Hn. unfold nodes_doc in Hn. cbn [doc_defs] in Hn.
  apply (D_list_seg _ _ _ _ (D_definition_seg fv en) Hl) in Hn. seg.
Qed.

(* the loc of a derived node is the span of its tokens *)
Lemma D_type_loc ts t : D_type nl ts t -> ty_loc t = mkloc nl ts.
Proof. intros H; destruct H; reflexivity. Qed.

Lemma D_value_loc c ts v : D_value nl c ts v -> value_loc v = mkloc nl ts.
Proof. intros H; destruct H; reflexivity. Qed.
End Segments.

(* ---- the re-parse law over sub-nodes ---- *)
Lemma holds_reparse fl s ts pre seg post n :
  lex s = Ok ts -> ts = pre ++ seg ++ post -> no_location fl = false -> holds (no_location fl) n seg ->
  match n with
  | NV v => exists a b, value_loc v = Some (a, b)
              /\ parse_value_str fl (substring s a b) = Ok (shift_value a v)
  | NT t => exists a b, ty_loc t = Some (a, b)
              /\ parse_type_str fl (substring s a b) = Ok (shift_ty a t)
  end.
Proof.
  intros Hl Ets Hnl H. destruct n as [v|t]; simpl in H.
  - destruct H as [c Dv]. exists (seg_start seg), (seg_end seg). split.
    + rewrite (D_value_loc _ _ _ _ Dv), Hnl. destruct (D_value_ends _ _ _ _ Dv) as (x & r & -> & _). reflexivity.
    + exact (reparse_value fl s ts pre seg post c v Hl Ets Dv).
  - exists (seg_start seg), (seg_end seg). split.
    + rewrite (D_type_loc _ _ _ H), Hnl. destruct (D_type_ends _ _ _ H) as (x & r & -> & _). reflexivity.
    + exact (reparse_type fl s ts pre seg post t Hl Ets H).
Qed.

Theorem reparse_subnodes_document fl s doc :
  parse_document fl s = Ok doc -> no_location fl = false ->
  (forall v, In (NV v) (nodes_doc doc) ->
     exists a b, value_loc v = Some (a, b) /\ parse_value_str fl (substring s a b) = Ok (shift_value a v))
  /\ (forall t, In (NT t) (nodes_doc doc) ->
     exists a b, ty_loc t = Some (a, b) /\ parse_type_str fl (substring s a b) = Ok (shift_ty a t)).
Proof.
  intros H Hnl. destruct (parse_document_sound_full fl s doc H) as (ts & Hl & Dd).
  split; intros x Hx; destruct (D_document_seg _ _ _ _ _ Dd _ Hx) as (pre & seg & post & Ets & Hh).
  - exact (holds_reparse fl s ts pre seg post (NV x) Hl Ets Hnl Hh).
  - exact (holds_reparse fl s ts pre seg post (NT x) Hl Ets Hnl Hh).
Qed.

(* the same below a standalone value / type *)
From PyGql Require Import Proofs.EntryProofs.

Theorem reparse_subnodes_value fl s v0 :
  parse_value_str fl s = Ok v0 -> no_location fl = false ->
  forall v, In (NV v) (sub_value v0) ->
    exists a b, value_loc v = Some (a, b) /\ parse_value_str fl (substring s a b) = Ok (shift_value a v).
Proof.
  intros H Hnl v Hv. destruct (parse_value_str_sound fl s v0 H) as (ts & body & Hl & Hw & Dv).
  destruct Hw as (sof & eof & _ & _ & Ets).
  destruct (D_value_seg _ _ _ _ Dv _ Hv) as (pre & seg & post & Eb & Hh).
  apply (holds_reparse fl s ts (sof :: pre) seg (post ++ [eof]) (NV v) Hl); [|exact Hnl|exact Hh].
  rewrite Ets, Eb. simpl. rewrite <- !app_assoc. reflexivity.
Qed.

Theorem reparse_subnodes_type fl s t0 :
  parse_type_str fl s = Ok t0 -> no_location fl = false ->
  forall t, In (NT t) (sub_ty t0) ->
    exists a b, ty_loc t = Some (a, b) /\ parse_type_str fl (substring s a b) = Ok (shift_ty a t).
Proof.
  intros H Hnl t Ht. destruct (parse_type_str_sound fl s t0 H) as (ts & body & Hl & Hw & Dt).
  destruct Hw as (sof & eof & _ & _ & Ets).
  destruct (D_type_seg _ _ _ Dt _ Ht) as (pre & seg & post & Eb & Hh).
  apply (holds_reparse fl s ts (sof :: pre) seg (post ++ [eof]) (NT t) Hl); [|exact Hnl|exact Hh].
  rewrite Ets, Eb. simpl. rewrite <- !app_assoc. reflexivity.
Qed.
