(* Proofs for C03 (printer side): quoted-string round trip, block-string
   round trip, location independence. *)
From PyGql Require Import Lang.PrinterModel Spec.PrinterSpec.
From Coq Require Import Lia.
Local Open Scope N_scope.

Ltac nbool :=
  repeat match goal with
  | H : (_ =? _) = true |- _ => apply N.eqb_eq in H
  | H : (_ =? _) = false |- _ => apply N.eqb_neq in H
  | H : (_ <? _) = true |- _ => apply N.ltb_lt in H
  | H : (_ <? _) = false |- _ => apply N.ltb_ge in H
  | H : (_ <=? _) = true |- _ => apply N.leb_le in H
  | H : (_ <=? _) = false |- _ => apply N.leb_gt in H
  end.

(* ------------------------------------------------------------------ quoted strings *)
Lemma low_char c tail : c < 32 ->
  string_chars (json_char c ++ tail) = push c (string_chars tail).
Proof.
  intros H. destruct c as [|p]; [reflexivity|].
  do 5 (try (destruct p as [p|p|]; try reflexivity)); exfalso; lia.
Qed.

Lemma json_char_ok c tail :
  string_chars (json_char c ++ tail) = push c (string_chars tail).
Proof.
  destruct (c <? 32) eqn:Hlow; [apply low_char; nbool; assumption|].
  unfold json_char. rewrite Hlow.
  destruct (c =? QUOTE) eqn:E1; [nbool; subst; reflexivity|].
  destruct (c =? BSLASH) eqn:E2; [nbool; subst; reflexivity|].
  destruct (c =? 10) eqn:E3; [nbool; subst; reflexivity|].
  destruct (c =? 13) eqn:E4; [nbool; subst; reflexivity|].
  destruct (c =? 9) eqn:E5; [nbool; subst; reflexivity|].
  destruct (c =? 8) eqn:E6; [nbool; subst; reflexivity|].
  destruct (c =? 12) eqn:E7; [nbool; subst; reflexivity|].
  simpl. unfold QUOTE, BSLASH in *. rewrite E1, E2.
  unfold line_terminator, source_char. rewrite E3, E4, E5.
  assert (H32 : (32 <=? c) = true) by (nbool; apply N.leb_le; assumption).
  rewrite H32. reflexivity.
Qed.

Lemma string_chars_quote s : forall tail,
  string_chars (flat_map json_char s ++ QUOTE :: tail) = Some (s, tail).
Proof.
  induction s as [|c s IH]; intros tail; simpl.
  - reflexivity.
  - rewrite <- app_assoc. rewrite json_char_ok. rewrite IH. reflexivity.
Qed.

Theorem string_quote_roundtrip s tail :
  string_value (json_quote s ++ tail) = Some (s, tail).
Proof.
  unfold json_quote, string_value. simpl. rewrite <- app_assoc. simpl.
  apply string_chars_quote.
Qed.

(* ------------------------------------------------------------------ block strings: lexing *)
Fixpoint lead_q (s : str) : nat :=
  match s with c :: r => if c =? 34 then S (lead_q r) else 0%nat | [] => 0%nat end.

Lemma lead_q_ge3 w : (3 <= lead_q w)%nat -> exists r3, w = 34 :: 34 :: 34 :: r3.
Proof.
  destruct w as [|a [|b [|c r3]]]; simpl; intros H.
  - exfalso; lia.
  - exfalso. destruct (a =? 34); simpl in H; lia.
  - exfalso. destruct (a =? 34); [destruct (b =? 34)|]; simpl in H; lia.
  - destruct (a =? 34) eqn:A; [|exfalso; lia]. destruct (b =? 34) eqn:B; [|exfalso; lia].
    destruct (c =? 34) eqn:C; [|exfalso; lia]. nbool; subst. eauto.
Qed.

Lemma q3_lead (a b c : char) (r : str) : q3 a b c = true -> (3 <= lead_q (a :: b :: c :: r))%nat.
Proof.
  unfold q3. intros H. apply andb_prop in H. destruct H as [H C]. apply andb_prop in H.
  destruct H as [A B]. simpl. rewrite A, B, C. lia.
Qed.

Lemma esc_cons a r1 : (lead_q (a :: r1) < 3)%nat -> escape3 (a :: r1) = a :: escape3 r1.
Proof.
  intros H. cbn [escape3]. destruct r1 as [|b [|c r3]]; try reflexivity.
  destruct ((a =? QUOTE) && (b =? QUOTE) && (c =? QUOTE)) eqn:Q; [|reflexivity].
  apply (q3_lead a b c r3) in Q. exfalso; lia.
Qed.

Lemma esc_q3 r : escape3 (34 :: 34 :: 34 :: r) = 92 :: 34 :: 34 :: 34 :: escape3 r.
Proof. reflexivity. Qed.

Lemma bb_char a Y : (lead_q (a :: Y) < 3)%nat -> (a = 92 -> (lead_q Y < 3)%nat) ->
  block_body (a :: Y) = push a (block_body Y).
Proof.
  intros H1 H2. cbn [block_body]. destruct Y as [|b [|c r3]]; try reflexivity.
  destruct (q3 a b c) eqn:Q; [apply (q3_lead a b c r3) in Q; exfalso; lia|].
  destruct (a =? 92) eqn:A; [|reflexivity]. nbool. specialize (H2 A).
  destruct r3 as [|d r4]; [reflexivity|].
  destruct (q3 b c d) eqn:Q2; [apply (q3_lead b c d r4) in Q2; exfalso; lia|reflexivity].
Qed.

Lemma bb_esc r : block_body (92 :: 34 :: 34 :: 34 :: r) = push3 (block_body r).
Proof. reflexivity. Qed.

Lemma esc_nil : escape3 [] = [].
Proof. reflexivity. Qed.

Arguments escape3 : simpl never.
Arguments block_body : simpl never.

Lemma lead_q_escape3 w tail : lead_q tail = 0%nat ->
  lead_q (escape3 w ++ tail) = if (3 <=? lead_q w)%nat then 0%nat else lead_q w.
Proof.
  intros Ht. induction w as [|a r1 IH]; [simpl; assumption|].
  destruct (3 <=? lead_q (a :: r1))%nat eqn:G.
  - apply Nat.leb_le in G. apply lead_q_ge3 in G. destruct G as [r3 ->].
    rewrite esc_q3. reflexivity.
  - apply Nat.leb_gt in G. rewrite esc_cons by assumption.
    change ((a :: escape3 r1) ++ tail) with (a :: (escape3 r1 ++ tail)).
    cbn [lead_q] in *. destruct (a =? 34); [|reflexivity]. rewrite IH.
    destruct (3 <=? lead_q r1)%nat eqn:G2; [apply Nat.leb_le in G2; exfalso; lia|reflexivity].
Qed.

(* lexing the escaped text gives the text back, whatever follows (as long as
   what follows does not start with a quote and lexes on its own) *)
Lemma lex_escaped : forall n w tail raw rest, (length w <= n)%nat ->
  lead_q tail = 0%nat -> block_body tail = Some (raw, rest) ->
  block_body (escape3 w ++ tail) = Some (w ++ raw, rest).
Proof.
  induction n as [|n IH]; intros w tail raw rest Hn Ht Hb.
  - destruct w; [simpl; assumption|simpl in Hn; lia].
  - destruct w as [|a r1]; [simpl; assumption|].
    destruct (le_lt_dec 3 (lead_q (a :: r1))) as [G|G].
    + apply lead_q_ge3 in G. destruct G as [r3 E]. rewrite E. rewrite esc_q3.
      change ((92 :: 34 :: 34 :: 34 :: escape3 r3) ++ tail)
        with (92 :: 34 :: 34 :: 34 :: (escape3 r3 ++ tail)).
      rewrite bb_esc. rewrite (IH r3 tail raw rest); [reflexivity| |assumption|assumption].
      inversion E; subst. simpl in Hn. lia.
    + rewrite esc_cons by assumption.
      change ((a :: escape3 r1) ++ tail) with (a :: (escape3 r1 ++ tail)).
      rewrite bb_char.
      * rewrite (IH r1 tail raw rest); [reflexivity|simpl in Hn; lia|assumption|assumption].
      * simpl. rewrite lead_q_escape3 by assumption. simpl in G.
        destruct (a =? 34); [|lia].
        destruct (3 <=? lead_q r1)%nat eqn:G2; [lia|]. lia.
      * intros _. rewrite lead_q_escape3 by assumption.
        destruct (3 <=? lead_q r1)%nat eqn:G2; [lia|]. apply Nat.leb_gt in G2. assumption.
Qed.

(* ---- whitespace prefixes and re-indentation commute with escaping ---- *)
Lemma ws_facts c : is_ws c = true -> c <> 34 /\ c <> 92 /\ c <> 10 /\ c <> 13.
Proof.
  unfold is_ws. intros H. apply orb_prop in H. destruct H as [H|H]; nbool; subst; repeat split; discriminate.
Qed.

Lemma all_ws_cons c q : all_ws (c :: q) -> is_ws c = true /\ all_ws q.
Proof. unfold all_ws. simpl. intros H. apply andb_prop in H. assumption. Qed.

Lemma all_ws_app p q : all_ws p -> all_ws q -> all_ws (p ++ q).
Proof.
  unfold all_ws. intros H H0. induction p as [|c p IH]; [assumption|].
  simpl in *. apply andb_prop in H. destruct H as [Hc Hp]. rewrite Hc. simpl. auto.
Qed.

Lemma esc_nonq c t : c <> 34 -> escape3 (c :: t) = c :: escape3 t.
Proof.
  intros H. apply esc_cons. cbn [lead_q]. apply N.eqb_neq in H. rewrite H. lia.
Qed.

Lemma esc_ws q t : all_ws q -> escape3 (q ++ t) = q ++ escape3 t.
Proof.
  induction q as [|c q IH]; intros H; [reflexivity|].
  apply all_ws_cons in H. destruct H as [Hc Hq]. apply ws_facts in Hc.
  change ((c :: q) ++ t) with (c :: (q ++ t)). rewrite esc_nonq by tauto.
  rewrite IH by assumption. reflexivity.
Qed.

Lemma reindent_cons q c s :
  reindent q (c :: s) = (if c =? LF then LF :: q else [c]) ++ reindent q s.
Proof. reflexivity. Qed.

Lemma lead_q_reindent q s : all_ws q -> lead_q (reindent q s) = lead_q s.
Proof.
  intros Hq. induction s as [|c s IH]; [reflexivity|].
  rewrite reindent_cons. destruct (c =? LF) eqn:E.
  - nbool. subst. reflexivity.
  - simpl. destruct (c =? 34); [rewrite IH|]; reflexivity.
Qed.

Lemma esc_reindent q : all_ws q -> forall n w, (length w <= n)%nat ->
  escape3 (reindent q w) = reindent q (escape3 w).
Proof.
  intros Hq. induction n as [|n IH]; intros w Hn.
  - destruct w; [reflexivity|simpl in Hn; lia].
  - destruct w as [|a r1]; [reflexivity|].
    destruct (le_lt_dec 3 (lead_q (a :: r1))) as [G|G].
    + apply lead_q_ge3 in G. destruct G as [r3 E]. rewrite E.
      change (reindent q (34 :: 34 :: 34 :: r3)) with (34 :: 34 :: 34 :: reindent q r3).
      rewrite !esc_q3.
      change (reindent q (92 :: 34 :: 34 :: 34 :: escape3 r3))
        with (92 :: 34 :: 34 :: 34 :: reindent q (escape3 r3)).
      rewrite IH; [reflexivity|]. inversion E; subst. simpl in Hn. lia.
    + rewrite (esc_cons a r1) by assumption. rewrite !reindent_cons.
      destruct (a =? LF) eqn:E.
      * simpl. rewrite esc_nonq by discriminate. rewrite esc_ws by assumption.
        rewrite IH by (simpl in Hn; lia). reflexivity.
      * simpl. rewrite esc_cons.
        -- rewrite IH by (simpl in Hn; lia). reflexivity.
        -- cbn [lead_q] in *. rewrite lead_q_reindent by assumption. assumption.
Qed.

Lemma reindent_nil s : reindent [] s = s.
Proof.
  induction s as [|c s IH]; [reflexivity|]. rewrite reindent_cons, IH.
  destruct (c =? LF) eqn:E; [nbool; subst|]; reflexivity.
Qed.

Lemma reindent_app q a b : reindent q (a ++ b) = reindent q a ++ reindent q b.
Proof. unfold reindent. apply flat_map_app. Qed.

Lemma reindent_ws q p : all_ws p -> reindent q p = p.
Proof.
  induction p as [|c p IH]; intros H; [reflexivity|].
  apply all_ws_cons in H. destruct H as [Hc Hp]. apply ws_facts in Hc.
  rewrite reindent_cons, IH by assumption.
  destruct (c =? LF) eqn:E; [nbool; tauto|reflexivity].
Qed.

Lemma reindent_reindent pre ind s : all_ws ind ->
  reindent pre (reindent ind s) = reindent (pre ++ ind) s.
Proof.
  intros Hi. induction s as [|c s IH]; [reflexivity|].
  rewrite !reindent_cons, reindent_app, IH. destruct (c =? LF) eqn:E.
  - rewrite reindent_cons. simpl. rewrite reindent_ws by assumption. rewrite <- !app_assoc. reflexivity.
  - rewrite reindent_cons, E. reflexivity.
Qed.

(* plain characters are lexed as themselves *)
Lemma bb_plain s : forall Y raw rest,
  (forall c, In c s -> c <> 34 /\ c <> 92) -> block_body Y = Some (raw, rest) ->
  block_body (s ++ Y) = Some (s ++ raw, rest).
Proof.
  induction s as [|c s IH]; intros Y raw rest Hs HY; [assumption|].
  simpl. destruct (Hs c (or_introl eq_refl)) as [H1 H2].
  rewrite bb_char.
  - rewrite (IH Y raw rest); [reflexivity| |assumption]. intros; apply Hs; right; assumption.
  - cbn [lead_q]. apply N.eqb_neq in H1. rewrite H1. lia.
  - intros; contradiction.
Qed.

Lemma ws_plain q : all_ws q -> forall c, In c q -> c <> 34 /\ c <> 92.
Proof.
  induction q as [|x q IH]; intros H c Hin; [contradiction|].
  apply all_ws_cons in H. destruct H as [Hx Hq]. destruct Hin as [<-|Hin].
  - apply ws_facts in Hx. tauto.
  - apply IH; assumption.
Qed.

Lemma bb_end rest : block_body (Q3 ++ rest) = Some ([], rest).
Proof. reflexivity. Qed.

(* ------------------------------------------------------------------ lines *)
Definition no_nl (s : str) : Prop := forall c, In c s -> c <> 10 /\ c <> 13.
Definition no_cr (s : str) : Prop := forall c, In c s -> c <> 13.

Lemma no_nl_tail c s : no_nl (c :: s) -> c <> 10 /\ c <> 13 /\ no_nl s.
Proof.
  intros H. destruct (H c (or_introl eq_refl)) as [H1 H2].
  split; [exact H1|]. split; [exact H2|].
  unfold no_nl. intros x Hx. apply H. right. exact Hx.
Qed.
Lemma no_cr_tail c s : no_cr (c :: s) -> c <> 13 /\ no_cr s.
Proof. intros H. split; [apply H; left; reflexivity|intros x Hx; apply H; right; assumption]. Qed.

Lemma ws_no_nl q : all_ws q -> no_nl q.
Proof.
  induction q as [|x q IH]; intros H c Hin; [contradiction|].
  apply all_ws_cons in H. destruct H as [Hx Hq]. destruct Hin as [<-|Hin].
  - apply ws_facts in Hx. tauto.
  - apply IH; assumption.
Qed.

Lemma split_lines_cons_plain c r : c <> 10 -> c <> 13 ->
  split_lines (c :: r) = match split_lines r with l :: ls => (c :: l) :: ls | [] => [[c]] end.
Proof.
  intros H1 H2. cbn [split_lines]. apply N.eqb_neq in H1, H2. rewrite H1, H2. reflexivity.
Qed.

Lemma split_lines_lf r : split_lines (10 :: r) = [] :: split_lines r.
Proof. reflexivity. Qed.
Lemma join_lf_single l : join_lf [l] = l.
Proof. reflexivity. Qed.

Lemma split_lines_ne v : split_lines v <> [].
Proof.
  induction v as [|c r IH]; [discriminate|]. cbn [split_lines].
  destruct (c =? 10); [discriminate|]. destruct (c =? 13).
  - destruct r as [|d r']; [discriminate|]. destruct (d =? 10); discriminate.
  - destruct (split_lines r); discriminate.
Qed.

Lemma split_lines_single s : no_nl s -> split_lines s = [s].
Proof.
  induction s as [|c s IH]; intros H; [reflexivity|].
  apply no_nl_tail in H. destruct H as (H1 & H2 & Hs).
  rewrite split_lines_cons_plain by assumption. rewrite IH by assumption. reflexivity.
Qed.

Lemma split_lines_app_lf s t : no_nl s -> split_lines (s ++ 10 :: t) = s :: split_lines t.
Proof.
  induction s as [|c s IH]; intros H; [reflexivity|].
  apply no_nl_tail in H. destruct H as (H1 & H2 & Hs).
  change ((c :: s) ++ 10 :: t) with (c :: (s ++ 10 :: t)).
  rewrite split_lines_cons_plain by assumption. rewrite IH by assumption. reflexivity.
Qed.

Lemma split_lines_snoc_lf s t : no_cr s -> no_nl t ->
  split_lines (s ++ 10 :: t) = split_lines s ++ [t].
Proof.
  intros Hs Ht. induction s as [|c s IH].
  - simpl. rewrite split_lines_single by assumption. reflexivity.
  - apply no_cr_tail in Hs. destruct Hs as [Hc Hs].
    change ((c :: s) ++ 10 :: t) with (c :: (s ++ 10 :: t)).
    destruct (N.eq_dec c 10) as [->|Hn].
    + rewrite !split_lines_lf. rewrite IH by assumption. reflexivity.
    + rewrite !split_lines_cons_plain by assumption. rewrite IH by assumption.
      pose proof (split_lines_ne s). destruct (split_lines s); [contradiction|reflexivity].
Qed.

Lemma split_lines_no_nl_n : forall n v, (length v <= n)%nat ->
  forall l, In l (split_lines v) -> no_nl l.
Proof.
  induction n as [|n IH]; intros v Hn l Hl.
  - destruct v; [|simpl in Hn; lia]. destruct Hl as [<-|[]]. intros x [].
  - destruct v as [|c r].
    + destruct Hl as [<-|[]]. intros x [].
    + simpl in Hn. cbn [split_lines] in Hl. destruct (c =? 10) eqn:E10.
      * destruct Hl as [<-|Hl]; [intros x []|]. apply (IH r); [lia|assumption].
      * destruct (c =? 13) eqn:E13.
        -- destruct r as [|d r'].
           ++ destruct Hl as [<-|Hl]; [intros x []|]. apply (IH []); [simpl; lia|assumption].
           ++ simpl in Hn. destruct (d =? 10).
              ** destruct Hl as [<-|Hl]; [intros x []|]. apply (IH r'); [lia|assumption].
              ** destruct Hl as [<-|Hl]; [intros x []|]. apply (IH (d :: r')); [simpl; lia|assumption].
        -- nbool. destruct (split_lines r) as [|l0 ls] eqn:Er.
           ++ destruct Hl as [<-|[]]. intros x [<-|[]]. tauto.
           ++ destruct Hl as [<-|Hl].
              ** intros x [<-|Hx]; [tauto|].
                 refine (IH r _ l0 _ x Hx); [lia|rewrite Er; left; reflexivity].
              ** apply (IH r); [lia|]. rewrite Er; right; assumption.
Qed.

Lemma split_lines_no_nl v : forall l, In l (split_lines v) -> no_nl l.
Proof. apply (split_lines_no_nl_n (length v)). lia. Qed.

Lemma join_lf_cons l ls : ls <> [] -> join_lf (l :: ls) = l ++ 10 :: join_lf ls.
Proof. destruct ls; [contradiction|reflexivity]. Qed.

Lemma join_split v : no_cr v -> join_lf (split_lines v) = v.
Proof.
  induction v as [|c r IH]; intros H; [reflexivity|].
  apply no_cr_tail in H. destruct H as [Hc Hr].
  destruct (N.eq_dec c 10) as [->|Hn].
  - rewrite split_lines_lf. rewrite join_lf_cons by apply split_lines_ne.
    rewrite IH by assumption. reflexivity.
  - rewrite split_lines_cons_plain by assumption.
    pose proof (split_lines_ne r) as Hne. specialize (IH Hr).
    destruct (split_lines r) as [|l ls]; [contradiction|].
    destruct ls as [|l2 ls].
    + rewrite join_lf_single in *. f_equal. exact IH.
    + rewrite join_lf_cons by discriminate. rewrite join_lf_cons in IH by discriminate.
      rewrite <- app_comm_cons. f_equal. exact IH.
Qed.

Lemma split_join L : L <> [] -> (forall l, In l L -> no_nl l) -> split_lines (join_lf L) = L.
Proof.
  induction L as [|l L IH]; intros Hne HL; [contradiction|].
  destruct L as [|l2 L].
  - rewrite join_lf_single. apply split_lines_single. apply HL. left; reflexivity.
  - rewrite join_lf_cons by discriminate.
    rewrite split_lines_app_lf by (apply HL; left; reflexivity).
    rewrite IH; [reflexivity|discriminate|]. intros x Hx. apply HL. right; assumption.
Qed.

Lemma join_no_cr L : (forall l, In l L -> no_nl l) -> no_cr (join_lf L).
Proof.
  induction L as [|l L IH]; intros HL c Hc; [contradiction|].
  destruct L as [|l2 L].
  - rewrite join_lf_single in Hc. apply (HL l (or_introl eq_refl)). assumption.
  - rewrite join_lf_cons in Hc by discriminate. apply in_app_or in Hc. destruct Hc as [Hc|[<-|Hc]].
    + apply (HL l (or_introl eq_refl)). assumption.
    + discriminate.
    + apply IH; [|assumption]. intros x Hx. apply HL. right; assumption.
Qed.

(* re-indented text, line by line *)
Lemma split_lines_reindent q v : all_ws q -> no_cr v -> forall p, no_nl p ->
  split_lines (p ++ reindent q v) =
  match split_lines v with l :: ls => (p ++ l) :: map (app q) ls | [] => [] end.
Proof.
  intros Hq. induction v as [|c v IH]; intros Hv p Hp.
  - simpl. rewrite !app_nil_r. apply split_lines_single. assumption.
  - apply no_cr_tail in Hv. destruct Hv as [Hc Hv]. rewrite reindent_cons.
    destruct (N.eq_dec c 10) as [->|Hn].
    + change (p ++ (if 10 =? LF then LF :: q else [10]) ++ reindent q v)
        with (p ++ 10 :: (q ++ reindent q v)).
      rewrite split_lines_app_lf by assumption.
      rewrite (IH Hv q (ws_no_nl q Hq)). rewrite split_lines_lf.
      pose proof (split_lines_ne v). destruct (split_lines v); [contradiction|].
      rewrite app_nil_r. reflexivity.
    + apply N.eqb_neq in Hn. unfold LF. rewrite Hn. apply N.eqb_neq in Hn.
      rewrite app_assoc.
      rewrite IH; [|assumption|].
      * rewrite split_lines_cons_plain by assumption.
        pose proof (split_lines_ne v). destruct (split_lines v); [contradiction|].
        rewrite <- app_assoc. reflexivity.
      * intros x Hx. apply in_app_or in Hx. destruct Hx as [Hx|[<-|[]]]; [apply Hp; assumption|tauto].
Qed.

(* ------------------------------------------------------------------ indentation and blank lines *)
Arguments split_lines : simpl never.
Arguments join_lf : simpl never.

Lemma indent_ws_app q l : all_ws q -> indent_of (q ++ l) = (length q + indent_of l)%nat.
Proof.
  induction q as [|c q IH]; intros H; [reflexivity|].
  apply all_ws_cons in H. destruct H as [Hc Hq]. simpl. rewrite Hc, IH by assumption. reflexivity.
Qed.

Lemma blank_ws_app q l : all_ws q -> blank (q ++ l) = blank l.
Proof.
  induction q as [|c q IH]; intros H; [reflexivity|].
  apply all_ws_cons in H. destruct H as [Hc Hq]. unfold blank in *. simpl. rewrite Hc, IH by assumption.
  reflexivity.
Qed.

Lemma skipn_app_exact {A} (q l : list A) : skipn (length q) (q ++ l) = l.
Proof. induction q; simpl; auto. Qed.

Lemma common_indent_map q ls : all_ws q ->
  common_indent (map (app q) ls) = option_map (plus (length q)) (common_indent ls).
Proof.
  intros Hq. induction ls as [|l ls IH]; [reflexivity|].
  simpl. rewrite blank_ws_app by assumption. destruct (blank l); [assumption|].
  rewrite IH, indent_ws_app by assumption. destruct (common_indent ls); simpl; [|reflexivity].
  rewrite Nat.add_min_distr_l. reflexivity.
Qed.

Lemma common_indent_snoc_blank ls p : blank p = true -> common_indent (ls ++ [p]) = common_indent ls.
Proof.
  intros Hp. induction ls as [|l ls IH]; simpl; [rewrite Hp; reflexivity|]. rewrite IH. reflexivity.
Qed.

Lemma blank_skipn n : forall p, blank p = true -> blank (skipn n p) = true.
Proof.
  induction n; intros p H; [assumption|]. destruct p as [|c p]; [reflexivity|].
  simpl. apply IHn. unfold blank in *. simpl in H. apply andb_prop in H. tauto.
Qed.

Lemma strip_back_snoc_blank L p : blank p = true -> strip_back (L ++ [p]) = strip_back L.
Proof. intros H. unfold strip_back. rewrite rev_unit. simpl. rewrite H. reflexivity. Qed.

Lemma strip_back_id L : L <> [] -> blank (last L []) = false -> strip_back L = L.
Proof.
  intros Hne Hl. destruct (exists_last Hne) as (L' & x & ->).
  rewrite last_last in Hl. unfold strip_back. rewrite rev_unit. simpl. rewrite Hl.
  simpl. rewrite rev_involutive. reflexivity.
Qed.

Lemma strip_front_all_blank L : (forall l, In l L -> blank l = true) -> strip_front L = [].
Proof.
  induction L as [|l L IH]; intros H; [reflexivity|]. simpl. rewrite (H l) by (left; reflexivity).
  apply IH. intros; apply H; right; assumption.
Qed.

Lemma last_cons_default {A} (l : list A) : forall x d, last (x :: l) d = last l x.
Proof.
  induction l as [|y l IH]; intros x d; [reflexivity|].
  change (last (x :: y :: l) d) with (last (y :: l) d). rewrite (IH y d), (IH y x). reflexivity.
Qed.

Lemma last_escape3 : forall n v d, (length v <= n)%nat -> last (escape3 v) d = last v d.
Proof.
  induction n as [|n IH]; intros v d Hn.
  - destruct v; [reflexivity|simpl in Hn; lia].
  - destruct v as [|a r1]; [reflexivity|].
    destruct (le_lt_dec 3 (lead_q (a :: r1))) as [G|G].
    + apply lead_q_ge3 in G. destruct G as [r3 E]. rewrite E, esc_q3.
      rewrite !last_cons_default. apply IH. inversion E; subst. simpl in Hn. lia.
    + rewrite esc_cons by assumption. rewrite !last_cons_default. apply IH. simpl in Hn. lia.
Qed.

Lemma lead_q_app_nonq w z t : z <> 34 -> lead_q (w ++ z :: t) = lead_q w.
Proof.
  intros Hz. induction w as [|c w IH]; simpl.
  - apply N.eqb_neq in Hz. rewrite Hz. reflexivity.
  - destruct (c =? 34); [rewrite IH|]; reflexivity.
Qed.

Lemma esc_app_nonq z t : z <> 34 -> forall n w, (length w <= n)%nat ->
  escape3 (w ++ z :: t) = escape3 w ++ escape3 (z :: t).
Proof.
  intros Hz. induction n as [|n IH]; intros w Hn.
  - destruct w; [reflexivity|simpl in Hn; lia].
  - destruct w as [|a r1]; [reflexivity|].
    destruct (le_lt_dec 3 (lead_q (a :: r1))) as [G|G].
    + apply lead_q_ge3 in G. destruct G as [r3 E]. rewrite E.
      change ((34 :: 34 :: 34 :: r3) ++ z :: t) with (34 :: 34 :: 34 :: (r3 ++ z :: t)).
      rewrite !esc_q3. rewrite IH; [reflexivity|]. inversion E; subst. simpl in Hn. lia.
    + assert (E1 : escape3 ((a :: r1) ++ z :: t) = a :: escape3 (r1 ++ z :: t)).
      { apply (esc_cons a (r1 ++ z :: t)).
        change (a :: r1 ++ z :: t) with ((a :: r1) ++ z :: t).
        rewrite lead_q_app_nonq by assumption. assumption. }
      rewrite E1. rewrite esc_cons by assumption. rewrite IH by (simpl in Hn; lia). reflexivity.
Qed.

Lemma reindent_id q s : (forall c, In c s -> c <> 10) -> reindent q s = s.
Proof.
  induction s as [|c s IH]; intros H; [reflexivity|].
  rewrite reindent_cons, IH by (intros; apply H; right; assumption).
  pose proof (H c (or_introl eq_refl)) as Hc. apply N.eqb_neq in Hc. unfold LF. rewrite Hc. reflexivity.
Qed.

Lemma has_lf_false s : has_lf s = false -> forall c, In c s -> c <> 10.
Proof.
  unfold has_lf. induction s as [|x s IH]; intros H c Hin; [contradiction|].
  simpl in H. apply orb_false_elim in H. destruct H as [Hx Hs]. destruct Hin as [<-|Hin].
  - unfold LF in Hx. nbool. assumption.
  - apply IH; assumption.
Qed.

Lemma escape3_nonempty v : v <> [] -> escape3 v <> [].
Proof.
  destruct v as [|a r1]; [contradiction|]. intros _.
  destruct (le_lt_dec 3 (lead_q (a :: r1))) as [G|G].
  - apply lead_q_ge3 in G. destruct G as [r3 ->]. rewrite esc_q3. discriminate.
  - rewrite esc_cons by assumption. discriminate.
Qed.

(* ------------------------------------------------------------------ block string round trip *)
Definition canon (v : str) : Prop :=
  no_cr v /\
  (v = [] \/
   (blank (hd [] (split_lines v)) = false /\ blank (last (split_lines v) []) = false /\
    (common_indent (split_lines v) = Some 0%nat \/ exists l, split_lines v = [l]))).

Lemma block_value_q3 X :
  block_value (Q3 ++ X) =
  match block_body X with
  | Some (raw, rest) => Some (block_string_value raw, rest)
  | None => None
  end.
Proof. reflexivity. Qed.

Lemma lf_pre_plain pre : all_ws pre -> forall c, In c (LF :: pre) -> c <> 34 /\ c <> 92.
Proof.
  intros H c [<-|Hin]; [split; discriminate|]. apply (ws_plain pre H). assumption.
Qed.

Lemma bb_lf_pre_end pre rest : all_ws pre ->
  block_body ((LF :: pre) ++ Q3 ++ rest) = Some (LF :: pre, rest).
Proof.
  intros H. rewrite (bb_plain (LF :: pre) (Q3 ++ rest) [] rest).
  - rewrite app_nil_r. reflexivity.
  - apply lf_pre_plain. assumption.
  - apply bb_end.
Qed.

Lemma bsv_lines raw first rest :
  split_lines raw = first :: rest ->
  block_string_value raw =
  join_lf (strip_back (strip_front
    (first :: match common_indent rest with Some n => map (skipn n) rest | None => rest end))).
Proof. intros H. unfold block_string_value. rewrite H. reflexivity. Qed.

Lemma form_M_empty pre rest : all_ws pre ->
  block_value (reindent pre (Q3 ++ [LF] ++ [] ++ [LF] ++ Q3) ++ rest) = Some ([], rest).
Proof.
  intros Hp.
  change (reindent pre (Q3 ++ [LF] ++ [] ++ [LF] ++ Q3))
    with (Q3 ++ (LF :: pre) ++ (LF :: pre) ++ Q3).
  rewrite <- !app_assoc. rewrite block_value_q3.
  rewrite (bb_plain (LF :: pre) _ (LF :: pre) rest);
    [|apply lf_pre_plain; assumption|apply bb_lf_pre_end; assumption].
  assert (Hb : blank pre = true) by exact Hp.
  rewrite (bsv_lines _ [] [pre; pre]).
  - simpl. rewrite Hb. simpl. rewrite Hb. reflexivity.
  - change ((LF :: pre) ++ LF :: pre) with (10 :: (pre ++ 10 :: pre)).
    rewrite split_lines_lf. rewrite split_lines_app_lf by (apply ws_no_nl; assumption).
    rewrite split_lines_single by (apply ws_no_nl; assumption). reflexivity.
Qed.

Lemma no_cr_app a b : no_cr a -> no_cr b -> no_cr (a ++ b).
Proof. intros Ha Hb c Hc. apply in_app_or in Hc. destruct Hc; auto. Qed.

Lemma no_cr_reindent q v : all_ws q -> no_cr v -> no_cr (reindent q v).
Proof.
  intros Hq. induction v as [|c v IH]; intros Hv; [intros x []|].
  apply no_cr_tail in Hv. destruct Hv as [Hc Hv]. rewrite reindent_cons.
  apply no_cr_app; [|apply IH; assumption].
  destruct (c =? LF).
  - intros x [<-|Hx]; [discriminate|]. apply (ws_no_nl q Hq). assumption.
  - intros x [<-|[]]. assumption.
Qed.

Lemma form_M_nonempty v ind pre rest :
  no_cr v -> v <> [] ->
  blank (hd [] (split_lines v)) = false -> blank (last (split_lines v) []) = false ->
  common_indent (split_lines v) = Some 0%nat ->
  all_ws ind -> all_ws pre ->
  block_value (reindent pre (Q3 ++ [LF] ++ p_indent (escape3 v) ind ++ [LF] ++ Q3) ++ rest)
  = Some (v, rest).
Proof.
  intros Hcr Hne Hhd Hlast Hci Hi Hp.
  set (q := pre ++ ind). assert (Hq : all_ws q) by (apply all_ws_app; assumption).
  assert (Hb : blank pre = true) by exact Hp.
  unfold p_indent. pose proof (escape3_nonempty v Hne) as Hen.
  destruct (escape3 v) as [|e0 e] eqn:Ee; [contradiction|]. cbn [is_empty]. rewrite <- Ee. clear Hen.
  rewrite !reindent_app.
  change (reindent pre Q3) with Q3. change (reindent pre [LF]) with ((LF :: pre) ++ []).
  rewrite app_nil_r. rewrite (reindent_ws pre ind) by assumption.
  rewrite reindent_reindent by assumption. fold q.
  rewrite <- esc_reindent with (n := length v) by (assumption || lia).
  match goal with |- block_value ?t = _ =>
    replace t with (Q3 ++ (LF :: q) ++ escape3 (reindent q v) ++ (LF :: pre) ++ Q3 ++ rest)
      by (unfold q; rewrite <- !app_assoc; simpl; rewrite <- !app_assoc; reflexivity)
  end.
  rewrite block_value_q3.
  rewrite (bb_plain (LF :: q) _ (reindent q v ++ LF :: pre) rest).
  2: { apply lf_pre_plain. assumption. }
  2: { apply (lex_escaped (length (reindent q v))); [lia|reflexivity|].
       apply bb_lf_pre_end. assumption. }
  pose proof (split_lines_ne v) as Hsne.
  destruct (split_lines v) as [|l0 ls] eqn:El; [contradiction|].
  rewrite (bsv_lines _ [] (map (app q) (l0 :: ls) ++ [pre])).
  - rewrite common_indent_snoc_blank by assumption.
    rewrite common_indent_map by assumption. rewrite Hci. cbn [option_map].
    rewrite Nat.add_0_r. rewrite map_app, map_map.
    rewrite (map_ext _ (fun x => x)) by (intros; apply skipn_app_exact). rewrite map_id.
    cbn [map]. cbn [strip_front blank forallb].
    change (strip_front ((l0 :: ls) ++ [skipn (length q) pre]))
      with (strip_front (l0 :: (ls ++ [skipn (length q) pre]))).
    cbn [strip_front]. simpl in Hhd. rewrite Hhd.
    change (l0 :: ls ++ [skipn (length q) pre]) with ((l0 :: ls) ++ [skipn (length q) pre]).
    rewrite strip_back_snoc_blank by (apply blank_skipn; assumption).
    rewrite strip_back_id by (discriminate || assumption).
    rewrite <- El. rewrite join_split by assumption. reflexivity.
  - change ((LF :: q) ++ reindent q v ++ LF :: pre) with (10 :: (q ++ reindent q v ++ 10 :: pre)).
    rewrite split_lines_lf. rewrite app_assoc.
    rewrite split_lines_snoc_lf.
    + rewrite (split_lines_reindent q v Hq Hcr q (ws_no_nl q Hq)). rewrite El. reflexivity.
    + apply no_cr_app; [intros x Hx; apply (ws_no_nl q Hq); assumption|apply no_cr_reindent; assumption].
    + apply ws_no_nl. assumption.
Qed.

Lemma no_nl_of v : no_cr v -> has_lf v = false -> no_nl v.
Proof. intros Hcr Hlf c Hc. split; [apply (has_lf_false v Hlf); assumption|apply Hcr; assumption]. Qed.

Lemma form_S v pre rest :
  no_cr v -> v <> [] -> has_lf v = false -> blank v = false -> all_ws pre ->
  block_value (reindent pre (Q3 ++ (if last_is (escape3 v) QUOTE || last_is (escape3 v) BSLASH
                                    then escape3 v ++ [LF] else escape3 v) ++ Q3) ++ rest)
  = Some (v, rest).
Proof.
  intros Hcr Hne Hlf Hnb Hp.
  pose proof (no_nl_of v Hcr Hlf) as Hnl.
  assert (Hb : blank pre = true) by exact Hp.
  assert (Hre : reindent pre (escape3 v) = escape3 v).
  { rewrite <- esc_reindent with (n := length v) by (assumption || lia).
    rewrite reindent_id; [reflexivity|]. apply has_lf_false. assumption. }
  unfold last_is. rewrite !(last_escape3 (length v)) by lia.
  destruct ((last v 0 =? QUOTE) || (last v 0 =? BSLASH)) eqn:C.
  - rewrite !reindent_app, Hre.
    change (reindent pre Q3) with Q3. change (reindent pre [LF]) with ((LF :: pre) ++ []).
    rewrite app_nil_r.
    match goal with |- block_value ?t = _ =>
      replace t with (Q3 ++ escape3 v ++ (LF :: pre) ++ Q3 ++ rest)
        by (rewrite <- !app_assoc; reflexivity)
    end.
    rewrite block_value_q3.
    rewrite (lex_escaped (length v) v _ (LF :: pre) rest);
      [|lia|reflexivity|apply bb_lf_pre_end; assumption].
    rewrite (bsv_lines _ v [pre]).
    + simpl. rewrite Hb, Hnb. unfold strip_back. simpl. rewrite Hb, Hnb. reflexivity.
    + rewrite split_lines_snoc_lf by (assumption || (apply ws_no_nl; assumption)).
      rewrite split_lines_single by assumption. reflexivity.
  - apply orb_false_elim in C. destruct C as [C1 C2]. unfold QUOTE, BSLASH in *. nbool.
    destruct (exists_last Hne) as (w0 & z & Ev). subst v. rewrite last_last in C1, C2.
    assert (E1 : escape3 (w0 ++ [z]) = escape3 w0 ++ [z]).
    { etransitivity; [apply (esc_app_nonq z [] C1 (length w0) w0); apply le_n|]. f_equal. }
    rewrite E1 in *. rewrite !reindent_app. rewrite reindent_app in Hre. rewrite Hre.
    change (reindent pre Q3) with Q3.
    match goal with |- block_value ?t = _ =>
      replace t with (Q3 ++ escape3 w0 ++ z :: Q3 ++ rest)
        by (rewrite <- !app_assoc; reflexivity)
    end.
    rewrite block_value_q3.
    rewrite (lex_escaped (length w0) w0 _ [z] rest); [|lia| |].
    + rewrite (bsv_lines _ (w0 ++ [z]) []).
      * simpl. rewrite Hnb. unfold strip_back. simpl. rewrite Hnb. reflexivity.
      * apply split_lines_single. assumption.
    + cbn [lead_q]. apply N.eqb_neq in C1. rewrite C1. reflexivity.
    + rewrite bb_char.
      * replace (block_body (Q3 ++ rest)) with (Some (@nil char, rest)) by (symmetry; apply bb_end).
        reflexivity.
      * cbn [lead_q]. apply N.eqb_neq in C1. rewrite C1. lia.
      * intros; contradiction.
Qed.

Lemma has_lf_of_no_nl v : no_nl v -> has_lf v = false.
Proof.
  unfold has_lf. induction v as [|c v IH]; intros H; [reflexivity|].
  apply no_nl_tail in H. destruct H as (H1 & _ & Hv). simpl.
  apply N.eqb_neq in H1. unfold LF. rewrite H1. simpl. apply IH. assumption.
Qed.

Lemma starts_blank_indent v : blank v = false -> starts_blank v = false -> indent_of v = 0%nat.
Proof.
  destruct v as [|c v]; [reflexivity|]. unfold starts_blank. fold (is_ws c). simpl.
  intros _ H. rewrite H. reflexivity.
Qed.

Lemma starts_blank_nonblank_line v : starts_blank v = true -> v <> [].
Proof. destruct v; [discriminate|discriminate]. Qed.

Theorem block_print_roundtrip v ind pre rest is_desc :
  canon v -> all_ws ind -> all_ws pre ->
  block_value (reindent pre (block_string v ind is_desc) ++ rest) = Some (v, rest).
Proof.
  intros [Hcr Hc] Hi Hp. unfold block_string. cbv zeta.
  destruct (starts_blank v && negb (has_lf v)) eqn:C.
  - apply andb_prop in C. destruct C as [Csb Clf]. apply negb_true_iff in Clf.
    pose proof (starts_blank_nonblank_line v Csb) as Hne.
    destruct Hc as [->|(Hhd & _ & _)]; [contradiction|].
    pose proof (no_nl_of v Hcr Clf) as Hnl.
    rewrite (split_lines_single v Hnl) in Hhd. simpl in Hhd.
    apply form_S; assumption.
  - destruct Hc as [->|(Hhd & Hlast & Hci)].
    + rewrite esc_nil. replace (if is_desc then [] else p_indent [] ind) with (@nil char)
        by (destruct is_desc; reflexivity).
      apply form_M_empty. assumption.
    + assert (Hne : v <> []).
      { intros ->. simpl in Hhd. discriminate. }
      assert (Hci0 : common_indent (split_lines v) = Some 0%nat).
      { destruct Hci as [Hci|[l El]]; [assumption|].
        assert (Ev : l = v).
        { rewrite <- (join_split v Hcr). rewrite El. reflexivity. }
        subst l. rewrite El in *. simpl in Hhd.
        assert (Hnl : no_nl v).
        { apply (split_lines_no_nl v). rewrite El. left; reflexivity. }
        rewrite (has_lf_of_no_nl v Hnl) in C. rewrite andb_true_r in C.
        simpl. rewrite Hhd. rewrite (starts_blank_indent v Hhd C). reflexivity. }
      assert (Hbody : (if is_desc return (list char) then escape3 v else p_indent (escape3 v) ind)
                      = p_indent (escape3 v) (if is_desc then [] else ind)).
      { destruct is_desc; [|reflexivity]. unfold p_indent.
        pose proof (escape3_nonempty v Hne). destruct (escape3 v) eqn:E; [contradiction|].
        cbn [is_empty]. rewrite reindent_nil. reflexivity. }
      rewrite Hbody.
      apply form_M_nonempty; try assumption. destruct is_desc; [reflexivity|assumption].
Qed.

(* ------------------------------------------------------------------ every block string value is canonical *)
Lemma ci_none R : common_indent R = None -> forall l, In l R -> blank l = true.
Proof.
  induction R as [|l0 R IH]; intros H l Hl; [contradiction|]. simpl in H.
  destruct (blank l0) eqn:B.
  - destruct Hl as [<-|Hl]; [assumption|]. apply IH; assumption.
  - destruct (common_indent R); discriminate.
Qed.

Lemma ci_argmin R : forall n, common_indent R = Some n ->
  exists l, In l R /\ blank l = false /\ indent_of l = n.
Proof.
  induction R as [|l0 R IH]; intros n H; [discriminate|]. simpl in H.
  destruct (blank l0) eqn:B.
  - destruct (IH n H) as (l & Hl & Hb & Hi). exists l. split; [right; assumption|auto].
  - destruct (common_indent R) as [m|] eqn:E.
    + inversion H; subst. destruct (Nat.min_spec (indent_of l0) m) as [[_ Hm]|[_ Hm]]; rewrite Hm.
      * exists l0. split; [left; reflexivity|auto].
      * destruct (IH m eq_refl) as (l & Hl & Hb & Hi). exists l. split; [right; assumption|auto].
    + inversion H; subst. exists l0. split; [left; reflexivity|auto].
Qed.

Lemma ci_zero L : (exists l, In l L /\ blank l = false /\ indent_of l = 0%nat) ->
  common_indent L = Some 0%nat.
Proof.
  induction L as [|l0 L IH]; intros (l & Hl & Hb & Hi); [contradiction|]. simpl.
  destruct (blank l0) eqn:B.
  - apply IH. destruct Hl as [<-|Hl]; [congruence|]. exists l. auto.
  - destruct Hl as [<-|Hl].
    + rewrite Hi. destruct (common_indent L); reflexivity.
    + rewrite IH by (exists l; auto). rewrite Nat.min_0_r. reflexivity.
Qed.

Lemma dedent_line : forall n l, blank l = false -> indent_of l = n ->
  blank (skipn n l) = false /\ indent_of (skipn n l) = 0%nat.
Proof.
  induction n as [|n IH]; intros l Hb Hi.
  - simpl. split; assumption.
  - destruct l as [|c l]; [discriminate|]. simpl in Hi. destruct (is_ws c) eqn:W; [|discriminate].
    simpl. apply IH; [|lia]. unfold blank in *. simpl in Hb. rewrite W in Hb. assumption.
Qed.

Lemma in_strip_front L : forall l, In l L -> blank l = false -> In l (strip_front L).
Proof.
  induction L as [|l0 L IH]; intros l Hl Hb; [contradiction|]. simpl.
  destruct (blank l0) eqn:B; [|assumption].
  destruct Hl as [<-|Hl]; [congruence|]. apply IH; assumption.
Qed.

Lemma in_strip_back L l : In l L -> blank l = false -> In l (strip_back L).
Proof.
  intros Hl Hb. unfold strip_back. apply -> in_rev. apply in_strip_front; [|assumption].
  apply -> in_rev. assumption.
Qed.

Lemma strip_front_incl L : forall l, In l (strip_front L) -> In l L.
Proof.
  induction L as [|l0 L IH]; intros l Hl; [contradiction|]. simpl in Hl.
  destruct (blank l0); [right; apply IH; assumption|assumption].
Qed.

Lemma strip_back_incl L l : In l (strip_back L) -> In l L.
Proof.
  unfold strip_back. intros H. apply in_rev in H. apply strip_front_incl in H. apply in_rev. assumption.
Qed.

Lemma strip_front_hd L : strip_front L = [] \/ blank (hd [] (strip_front L)) = false.
Proof.
  induction L as [|l0 L IH]; [left; reflexivity|]. simpl. destruct (blank l0) eqn:B; [assumption|].
  right. assumption.
Qed.

Lemma strip_front_blank_prefix P N : (forall l, In l P -> blank l = true) ->
  strip_front (P ++ N) = strip_front N.
Proof.
  induction P as [|p P IH]; intros H; [reflexivity|]. simpl. rewrite (H p) by (left; reflexivity).
  apply IH. intros; apply H; right; assumption.
Qed.

(* the shape of strip_front: a blank prefix is dropped *)
Lemma strip_front_split L : exists P, L = P ++ strip_front L /\ (forall l, In l P -> blank l = true).
Proof.
  induction L as [|l0 L IH]; [exists []; split; [reflexivity|intros ? []]|]. simpl.
  destruct (blank l0) eqn:B.
  - destruct IH as (P & E & HP). exists (l0 :: P). split; [simpl; f_equal; assumption|].
    intros l [<-|Hl]; [assumption|apply HP; assumption].
  - exists []. split; [reflexivity|intros ? []].
Qed.

Lemma strip_front_shape RM : (exists m, In m RM /\ blank m = false) ->
  exists x N P, strip_front RM = x :: N /\ blank x = false /\ RM = P ++ x :: N.
Proof.
  intros (m & Hm & Hb).
  destruct (strip_front_split RM) as (P & E & HP).
  pose proof (in_strip_front RM m Hm Hb) as Hin.
  pose proof (strip_front_hd RM) as Hx.
  destruct (strip_front RM) as [|x N] eqn:ES; [contradiction|].
  destruct Hx as [Hx|Hx]; [discriminate|]. simpl in Hx.
  exists x, N, P. auto.
Qed.

Lemma hd_app_ne {A} (a b : list A) d : a <> [] -> hd d (a ++ b) = hd d a.
Proof. destruct a; [contradiction|reflexivity]. Qed.

Lemma strip_back_props M : blank (hd [] M) = false -> M <> [] ->
  strip_back M <> [] /\ blank (hd [] (strip_back M)) = false /\ blank (last (strip_back M) []) = false.
Proof.
  intros Hhd Hne.
  assert (Hex : exists m, In m (rev M) /\ blank m = false).
  { exists (hd [] M). split; [|assumption]. apply -> in_rev. destruct M; [contradiction|left; reflexivity]. }
  destruct (strip_front_shape (rev M) Hex) as (x & N & P & ES & Hx & E).
  assert (ESB : strip_back M = rev (x :: N)) by (unfold strip_back; f_equal; exact ES).
  rewrite ESB.
  assert (EM : M = rev (x :: N) ++ rev P).
  { rewrite <- rev_app_distr. rewrite <- E. rewrite rev_involutive. reflexivity. }
  assert (Hrne : rev (x :: N) <> []).
  { simpl. intros H. apply app_eq_nil in H. destruct H; discriminate. }
  split; [assumption|]. split.
  - rewrite EM in Hhd. rewrite hd_app_ne in Hhd by assumption. assumption.
  - simpl. rewrite last_last. assumption.
Qed.

Lemma skipn_no_nl n l : no_nl l -> no_nl (skipn n l).
Proof.
  revert l. induction n; intros l H; [assumption|]. destruct l as [|c l]; [assumption|].
  simpl. apply IHn. apply no_nl_tail in H. tauto.
Qed.

Theorem block_string_value_canon raw : canon (block_string_value raw).
Proof.
  pose proof (split_lines_ne raw) as Hne. pose proof (split_lines_no_nl raw) as Hnl.
  destruct (split_lines raw) as [|first rest] eqn:El; [contradiction|].
  rewrite (bsv_lines raw first rest El).
  set (rest' := match common_indent rest with Some n => map (skipn n) rest | None => rest end).
  assert (Hnl' : forall l, In l (first :: rest') -> no_nl l).
  { intros l [<-|Hl]; [apply Hnl; left; reflexivity|]. unfold rest' in Hl.
    destruct (common_indent rest).
    - apply in_map_iff in Hl. destruct Hl as (l1 & <- & Hl1). apply skipn_no_nl. apply Hnl. right; assumption.
    - apply Hnl. right; assumption. }
  pose (M := strip_front (first :: rest')).
  pose (L' := strip_back M).
  change (canon (join_lf L')).
  assert (HL'nl : forall l, In l L' -> no_nl l).
  { intros l Hl. apply Hnl'. apply strip_front_incl. apply strip_back_incl. assumption. }
  unfold canon. split; [apply join_no_cr; assumption|].
  assert (HMc : M = [] \/ blank (hd [] M) = false) by apply strip_front_hd.
  destruct HMc as [HM|HM].
  { left. unfold L'. rewrite HM. reflexivity. }
  assert (HMne : M <> []).
  { intros E. rewrite E in HM. simpl in HM. discriminate. }
  destruct (strip_back_props M HM HMne) as (HLne & HLhd & HLlast).
  change (strip_back M) with L' in HLne, HLhd, HLlast.
  right. rewrite (split_join L' HLne HL'nl). split; [assumption|]. split; [assumption|].
  destruct (common_indent rest) as [n|] eqn:Eci.
  - left. apply ci_zero.
    destruct (ci_argmin rest n Eci) as (l & Hl & Hb & Hi).
    destruct (dedent_line n l Hb Hi) as [Hb' Hi'].
    exists (skipn n l). split; [|auto].
    unfold L', M. apply in_strip_back; [|assumption]. apply in_strip_front; [|assumption].
    right. unfold rest'. apply in_map. assumption.
  - right. unfold rest' in *. clear rest'.
    pose proof (ci_none rest Eci) as Hblank.
    destruct (blank first) eqn:Bf.
    + exfalso. apply HMne. unfold M. apply strip_front_all_blank.
      intros l [<-|Hl]; [assumption|apply Hblank; assumption].
    + exists first. unfold L', M. simpl. rewrite Bf. unfold strip_back.
      change (rev (first :: rest)) with (rev rest ++ [first]).
      rewrite strip_front_blank_prefix by (intros l Hl; apply Hblank; apply in_rev; assumption).
      simpl. rewrite Bf. reflexivity.
Qed.

(* ------------------------------------------------------------------ printing ignores locations *)
Section ValInd.
  Variable P : value -> Prop.
  Hypothesis Hvar : forall n l, P (VVar n l).
  Hypothesis Hint : forall s l, P (VInt s l).
  Hypothesis Hfloat : forall s l, P (VFloat s l).
  Hypothesis Hstr : forall s b l, P (VString s b l).
  Hypothesis Hbool : forall b l, P (VBool b l).
  Hypothesis Hnull : forall l, P (VNull l).
  Hypothesis Henum : forall s l, P (VEnum s l).
  Hypothesis Hlist : forall vs l, Forall P vs -> P (VList vs l).
  Hypothesis Hobj : forall fs l, Forall (fun f : name * value * loc => P (snd (fst f))) fs -> P (VObject fs l).
  Fixpoint value_ind' (v : value) : P v :=
    match v with
    | VVar n l => Hvar n l
    | VInt s l => Hint s l
    | VFloat s l => Hfloat s l
    | VString s b l => Hstr s b l
    | VBool b l => Hbool b l
    | VNull l => Hnull l
    | VEnum s l => Henum s l
    | VList vs l =>
        Hlist vs l ((fix go (xs : list value) : Forall P xs :=
                       match xs with
                       | [] => Forall_nil P
                       | x :: xs' => Forall_cons x (value_ind' x) (go xs')
                       end) vs)
    | VObject fs l =>
        Hobj fs l ((fix go (xs : list (name * value * loc))
                      : Forall (fun f : name * value * loc => P (snd (fst f))) xs :=
                      match xs with
                      | [] => Forall_nil _
                      | (n, x, fl) :: xs' => Forall_cons (n, x, fl) (value_ind' x) (go xs')
                      end) fs)
    end.
End ValInd.

Section Strip.
  Variable cf : cfg.

  Lemma pr_type_strip t : pr_type (strip_ty t) = pr_type t.
  Proof. induction t; simpl; congruence. Qed.

  Lemma map_strip {A} (pr : A -> str) (st : A -> A) l :
    Forall (fun x => pr (st x) = pr x) l -> map pr (map st l) = map pr l.
  Proof. induction 1; simpl; congruence. Qed.

  Lemma map_objfields (fs : list (name * value * loc)) :
    Forall (fun f : name * value * loc =>
              pr_value cf (strip_value (snd (fst f))) = pr_value cf (snd (fst f))) fs ->
    map (fun f : name * value * loc => n_val (fst (fst f)) ++ lit ": " ++ pr_value cf (snd (fst f)))
        (map (fun f : name * value * loc =>
                (strip_name (fst (fst f)), strip_value (snd (fst f)), @None (nat * nat))) fs)
    = map (fun f : name * value * loc => n_val (fst (fst f)) ++ lit ": " ++ pr_value cf (snd (fst f))) fs.
  Proof.
    induction 1 as [|f fs Hf _ IH]; [reflexivity|]. cbn [map fst snd strip_name n_val].
    rewrite Hf, IH. reflexivity.
  Qed.

  Lemma pr_value_strip v : pr_value cf (strip_value v) = pr_value cf v.
  Proof.
    induction v using value_ind'; cbn [strip_value pr_value]; try reflexivity.
    - rewrite (map_strip (pr_value cf) strip_value) by assumption. reflexivity.
    - rewrite map_objfields by assumption. reflexivity.
  Qed.

  Lemma all_forall {A} (Q : A -> Prop) l : (forall x, Q x) -> Forall Q l.
  Proof. intros H. induction l; constructor; auto. Qed.

  Lemma pr_argument_strip a : pr_argument cf (strip_arg a) = pr_argument cf a.
  Proof. unfold pr_argument. simpl. rewrite pr_value_strip. reflexivity. Qed.

  Lemma pr_arguments_strip args : pr_arguments cf (map strip_arg args) = pr_arguments cf args.
  Proof.
    unfold pr_arguments. rewrite (map_strip (pr_argument cf) strip_arg); [reflexivity|].
    apply all_forall. apply pr_argument_strip.
  Qed.

  Lemma pr_directive_strip d : pr_directive cf (strip_dir d) = pr_directive cf d.
  Proof. unfold pr_directive. simpl. rewrite pr_arguments_strip. reflexivity. Qed.

  Lemma pr_directives_strip ds : pr_directives cf (map strip_dir ds) = pr_directives cf ds.
  Proof.
    unfold pr_directives. rewrite (map_strip (pr_directive cf) strip_dir); [reflexivity|].
    apply all_forall. apply pr_directive_strip.
  Qed.

  Lemma pr_selection_strip s : pr_selection cf (strip_sel s) = pr_selection cf s.
  Proof.
    induction s using selection_ind'; simpl.
    - rewrite pr_arguments_strip, pr_directives_strip.
      rewrite (map_strip (pr_selection cf) strip_sel) by assumption.
      destruct alias, sl; reflexivity.
    - rewrite pr_directives_strip. reflexivity.
    - rewrite pr_directives_strip. rewrite (map_strip (pr_selection cf) strip_sel) by assumption.
      destruct tc; simpl; [rewrite pr_type_strip|]; reflexivity.
  Qed.

  Lemma pr_selection_set_strip ss : pr_selection_set cf (map strip_sel ss) = pr_selection_set cf ss.
  Proof.
    unfold pr_selection_set. rewrite (map_strip (pr_selection cf) strip_sel); [reflexivity|].
    apply all_forall. apply pr_selection_strip.
  Qed.

  Lemma pr_var_def_strip v : pr_var_def cf (strip_var_def v) = pr_var_def cf v.
  Proof.
    unfold pr_var_def. simpl. rewrite pr_type_strip, pr_directives_strip.
    destruct (vd_default v); simpl; [rewrite pr_value_strip|]; reflexivity.
  Qed.

  Lemma pr_var_defs_strip vds : pr_var_defs cf (map strip_var_def vds) = pr_var_defs cf vds.
  Proof.
    unfold pr_var_defs. rewrite (map_strip (pr_var_def cf) strip_var_def); [reflexivity|].
    apply all_forall. apply pr_var_def_strip.
  Qed.

  Lemma pr_ivdef_strip i : pr_input_value_def cf (strip_ivdef i) = pr_input_value_def cf i.
  Proof.
    unfold pr_input_value_def. simpl. rewrite pr_type_strip, pr_directives_strip.
    destruct (iv_default i); simpl; [rewrite pr_value_strip|]; reflexivity.
  Qed.

  Lemma pr_arg_defs_strip args : pr_arg_defs cf (map strip_ivdef args) = pr_arg_defs cf args.
  Proof.
    unfold pr_arg_defs. rewrite (map_strip (pr_input_value_def cf) strip_ivdef); [reflexivity|].
    apply all_forall. apply pr_ivdef_strip.
  Qed.

  Lemma pr_fdef_strip f : pr_field_def cf (strip_fdef f) = pr_field_def cf f.
  Proof.
    unfold pr_field_def. simpl. rewrite pr_arg_defs_strip, pr_type_strip, pr_directives_strip. reflexivity.
  Qed.

  Lemma pr_evdef_strip e : pr_enum_value_def cf (strip_evdef e) = pr_enum_value_def cf e.
  Proof. unfold pr_enum_value_def. simpl. rewrite pr_directives_strip. reflexivity. Qed.

  Lemma pr_otdef_strip o : pr_op_type_def (strip_otdef o) = pr_op_type_def o.
  Proof. unfold pr_op_type_def. simpl. rewrite pr_type_strip. reflexivity. Qed.

  Lemma with_desc_strip s d e : with_desc cf s (option_map strip_strval d) e = with_desc cf s d e.
  Proof. destruct d; reflexivity. Qed.

  Lemma pr_definition_strip d : pr_definition cf (strip_def d) = pr_definition cf d.
  Proof.
    destruct d; simpl;
      rewrite ?with_desc_strip, ?pr_directives_strip, ?pr_var_defs_strip, ?pr_selection_set_strip,
              ?pr_type_strip, ?pr_arg_defs_strip;
      rewrite ?(map_strip pr_op_type_def strip_otdef) by (apply all_forall; apply pr_otdef_strip);
      rewrite ?(map_strip pr_type strip_ty) by (apply all_forall; apply pr_type_strip);
      rewrite ?(map_strip (pr_field_def cf) strip_fdef) by (apply all_forall; apply pr_fdef_strip);
      rewrite ?(map_strip (pr_enum_value_def cf) strip_evdef) by (apply all_forall; apply pr_evdef_strip);
      rewrite ?(map_strip (pr_input_value_def cf) strip_ivdef) by (apply all_forall; apply pr_ivdef_strip);
      rewrite ?(map_strip n_val strip_name) by (apply all_forall; reflexivity);
      try reflexivity.
    destruct n; reflexivity.
  Qed.

  Lemma pr_defs_strip ds : forall prev, pr_defs cf prev (map strip_def ds) = pr_defs cf prev ds.
  Proof.
    induction ds as [|d ds IH]; intros prev; [reflexivity|].
    cbn [map pr_defs]. rewrite pr_definition_strip. cbv zeta. rewrite IH. reflexivity.
  Qed.

  Theorem pr_document_strip d : pr_document cf (strip_doc d) = pr_document cf d.
  Proof. unfold pr_document. simpl. rewrite pr_defs_strip. reflexivity. Qed.
End Strip.

(* ------------------------------------------------------------------ member descriptions are lost *)
Local Open Scope string_scope.
Definition nm1 (x : string) : name := Name (str_of_string x) None.
Definition desc_doc (d : option strval) : document :=
  Doc [DObject false None (nm1 "A") [] []
         [FDef d (nm1 "a") [] (TNamed (nm1 "Int") None) [] None] None] None.
Definition desc_witness_1 : document := desc_doc (Some (StrVal (str_of_string "d") false None)).
Definition desc_witness_2 : document := desc_doc None.

Lemma descriptions_refuted :
  strip_doc desc_witness_1 <> strip_doc desc_witness_2 /\
  forall ind incl, print_ast ind incl desc_witness_1 = print_ast ind incl desc_witness_2.
Proof. split; [discriminate|reflexivity]. Qed.
