(* Decidable structural equality on the AST of Lang/Ast.v, including every
   [loc] (what Node.__eq__ compares).  Used by the C02 correspondence. *)
From PyGql Require Export Lang.Ast.

Fixpoint list_eqb {A} (e : A -> A -> bool) (a b : list A) : bool :=
  match a, b with
  | [], [] => true
  | x :: a', y :: b' => e x y && list_eqb e a' b'
  | _, _ => false
  end.

Definition option_eqb {A} (e : A -> A -> bool) (a b : option A) : bool :=
  match a, b with
  | None, None => true
  | Some x, Some y => e x y
  | _, _ => false
  end.

Definition loc_eqb (a b : loc) : bool :=
  option_eqb (fun x y => Nat.eqb (fst x) (fst y) && Nat.eqb (snd x) (snd y)) a b.

Definition name_eqb (a b : name) : bool :=
  str_eqb (n_val a) (n_val b) && loc_eqb (n_loc a) (n_loc b).

Fixpoint ty_eqb (a b : ty) : bool :=
  match a, b with
  | TNamed n l, TNamed n' l' => name_eqb n n' && loc_eqb l l'
  | TList t l, TList t' l' => ty_eqb t t' && loc_eqb l l'
  | TNonNull t l, TNonNull t' l' => ty_eqb t t' && loc_eqb l l'
  | _, _ => false
  end.

Fixpoint value_eqb (a b : value) : bool :=
  match a, b with
  | VVar n l, VVar n' l' => name_eqb n n' && loc_eqb l l'
  | VInt s l, VInt s' l' => str_eqb s s' && loc_eqb l l'
  | VFloat s l, VFloat s' l' => str_eqb s s' && loc_eqb l l'
  | VString s b l, VString s' b' l' => str_eqb s s' && Bool.eqb b b' && loc_eqb l l'
  | VBool x l, VBool x' l' => Bool.eqb x x' && loc_eqb l l'
  | VNull l, VNull l' => loc_eqb l l'
  | VEnum s l, VEnum s' l' => str_eqb s s' && loc_eqb l l'
  | VList vs l, VList vs' l' =>
      (fix go (x y : list value) : bool :=
         match x, y with
         | [], [] => true
         | v :: x', w :: y' => value_eqb v w && go x' y'
         | _, _ => false
         end) vs vs' && loc_eqb l l'
  | VObject fs l, VObject fs' l' =>
      (fix go (x y : list (name * value * loc)) : bool :=
         match x, y with
         | [], [] => true
         | (n1, v1, l1) :: x', (n2, v2, l2) :: y' =>
             name_eqb n1 n2 && value_eqb v1 v2 && loc_eqb l1 l2 && go x' y'
         | _, _ => false
         end) fs fs' && loc_eqb l l'
  | _, _ => false
  end.

Definition argument_eqb (a b : argument) : bool :=
  name_eqb (a_name a) (a_name b) && value_eqb (a_val a) (a_val b) && loc_eqb (a_loc a) (a_loc b).

Definition directive_eqb (a b : directive) : bool :=
  name_eqb (d_name a) (d_name b) && list_eqb argument_eqb (d_args a) (d_args b)
  && loc_eqb (d_loc a) (d_loc b).

Definition dirs_eqb := list_eqb directive_eqb.

Fixpoint selection_eqb (a b : selection) : bool :=
  let sels_eqb :=
    fix go (x y : list selection) : bool :=
      match x, y with
      | [], [] => true
      | s :: x', t :: y' => selection_eqb s t && go x' y'
      | _, _ => false
      end in
  match a, b with
  | SField al n args dirs sl sub l, SField al' n' args' dirs' sl' sub' l' =>
      option_eqb name_eqb al al' && name_eqb n n' && list_eqb argument_eqb args args'
      && dirs_eqb dirs dirs' && option_eqb loc_eqb sl sl' && sels_eqb sub sub' && loc_eqb l l'
  | SSpread n dirs l, SSpread n' dirs' l' => name_eqb n n' && dirs_eqb dirs dirs' && loc_eqb l l'
  | SInline tc dirs ssl sub l, SInline tc' dirs' ssl' sub' l' =>
      option_eqb ty_eqb tc tc' && dirs_eqb dirs dirs' && loc_eqb ssl ssl'
      && sels_eqb sub sub' && loc_eqb l l'
  | _, _ => false
  end.

Definition var_def_eqb (a b : var_def) : bool :=
  name_eqb (vd_var a) (vd_var b) && loc_eqb (vd_var_loc a) (vd_var_loc b)
  && ty_eqb (vd_type a) (vd_type b) && option_eqb value_eqb (vd_default a) (vd_default b)
  && dirs_eqb (vd_dirs a) (vd_dirs b) && loc_eqb (vd_loc a) (vd_loc b).

Definition op_kind_eqb (a b : op_kind) : bool :=
  match a, b with
  | OpQuery, OpQuery | OpMutation, OpMutation | OpSubscription, OpSubscription => true
  | _, _ => false
  end.

Definition strval_eqb (a b : strval) : bool :=
  str_eqb (sv_val a) (sv_val b) && Bool.eqb (sv_block a) (sv_block b) && loc_eqb (sv_loc a) (sv_loc b).

Definition desc_eqb := option_eqb strval_eqb.

Definition input_value_def_eqb (a b : input_value_def) : bool :=
  desc_eqb (iv_desc a) (iv_desc b) && name_eqb (iv_name a) (iv_name b)
  && ty_eqb (iv_type a) (iv_type b) && option_eqb value_eqb (iv_default a) (iv_default b)
  && dirs_eqb (iv_dirs a) (iv_dirs b) && loc_eqb (iv_loc a) (iv_loc b).

Definition field_def_eqb (a b : field_def) : bool :=
  desc_eqb (fd_desc a) (fd_desc b) && name_eqb (fd_name a) (fd_name b)
  && list_eqb input_value_def_eqb (fd_args a) (fd_args b) && ty_eqb (fd_type a) (fd_type b)
  && dirs_eqb (fd_dirs a) (fd_dirs b) && loc_eqb (fd_loc a) (fd_loc b).

Definition enum_value_def_eqb (a b : enum_value_def) : bool :=
  desc_eqb (ev_desc a) (ev_desc b) && name_eqb (ev_name a) (ev_name b)
  && dirs_eqb (ev_dirs a) (ev_dirs b) && loc_eqb (ev_loc a) (ev_loc b).

Definition op_type_def_eqb (a b : op_type_def) : bool :=
  op_kind_eqb (ot_op a) (ot_op b) && ty_eqb (ot_type a) (ot_type b) && loc_eqb (ot_loc a) (ot_loc b).

Definition definition_eqb (a b : definition) : bool :=
  match a, b with
  | DOperation k n vds dirs ssl sels l, DOperation k' n' vds' dirs' ssl' sels' l' =>
      op_kind_eqb k k' && option_eqb name_eqb n n' && list_eqb var_def_eqb vds vds'
      && dirs_eqb dirs dirs' && loc_eqb ssl ssl' && list_eqb selection_eqb sels sels' && loc_eqb l l'
  | DFragment n vds tc dirs ssl sels l, DFragment n' vds' tc' dirs' ssl' sels' l' =>
      name_eqb n n' && list_eqb var_def_eqb vds vds' && ty_eqb tc tc'
      && dirs_eqb dirs dirs' && loc_eqb ssl ssl' && list_eqb selection_eqb sels sels' && loc_eqb l l'
  | DSchema e dirs ots l, DSchema e' dirs' ots' l' =>
      Bool.eqb e e' && dirs_eqb dirs dirs' && list_eqb op_type_def_eqb ots ots' && loc_eqb l l'
  | DScalar e d n dirs l, DScalar e' d' n' dirs' l' =>
      Bool.eqb e e' && desc_eqb d d' && name_eqb n n' && dirs_eqb dirs dirs' && loc_eqb l l'
  | DObject e d n ifs dirs fs l, DObject e' d' n' ifs' dirs' fs' l' =>
      Bool.eqb e e' && desc_eqb d d' && name_eqb n n' && list_eqb ty_eqb ifs ifs'
      && dirs_eqb dirs dirs' && list_eqb field_def_eqb fs fs' && loc_eqb l l'
  | DInterface e d n dirs fs l, DInterface e' d' n' dirs' fs' l' =>
      Bool.eqb e e' && desc_eqb d d' && name_eqb n n'
      && dirs_eqb dirs dirs' && list_eqb field_def_eqb fs fs' && loc_eqb l l'
  | DUnion e d n dirs ts l, DUnion e' d' n' dirs' ts' l' =>
      Bool.eqb e e' && desc_eqb d d' && name_eqb n n'
      && dirs_eqb dirs dirs' && list_eqb ty_eqb ts ts' && loc_eqb l l'
  | DEnum e d n dirs vs l, DEnum e' d' n' dirs' vs' l' =>
      Bool.eqb e e' && desc_eqb d d' && name_eqb n n'
      && dirs_eqb dirs dirs' && list_eqb enum_value_def_eqb vs vs' && loc_eqb l l'
  | DInput e d n dirs fs l, DInput e' d' n' dirs' fs' l' =>
      Bool.eqb e e' && desc_eqb d d' && name_eqb n n'
      && dirs_eqb dirs dirs' && list_eqb input_value_def_eqb fs fs' && loc_eqb l l'
  | DDirective d n args locs l, DDirective d' n' args' locs' l' =>
      desc_eqb d d' && name_eqb n n' && list_eqb input_value_def_eqb args args'
      && list_eqb name_eqb locs locs' && loc_eqb l l'
  | _, _ => false
  end.

Definition document_eqb (a b : document) : bool :=
  list_eqb definition_eqb (doc_defs a) (doc_defs b) && loc_eqb (doc_loc a) (doc_loc b).
