(* Boolean structural equality on the AST sorts and on [node] (what
   Node.__eq__ compares: class, loc and every attribute except source).
   Used only by the correspondence oracle (Run/C18run.v). *)
From PyGql Require Import Spec.VisitorSpec.

Fixpoint leqb {A} (e : A -> A -> bool) (a b : list A) : bool :=
  match a, b with
  | [], [] => true
  | x :: a', y :: b' => e x y && leqb e a' b'
  | _, _ => false
  end.
Definition oeqb {A} (e : A -> A -> bool) (a b : option A) : bool :=
  match a, b with
  | None, None => true
  | Some x, Some y => e x y
  | _, _ => false
  end.
Definition loc_eqb (a b : loc) : bool :=
  oeqb (fun p q => Nat.eqb (fst p) (fst q) && Nat.eqb (snd p) (snd q)) a b.
Definition name_eqb (a b : name) : bool := str_eqb (n_val a) (n_val b) && loc_eqb (n_loc a) (n_loc b).

Fixpoint ty_eqb (a b : ty) : bool :=
  match a, b with
  | TNamed n l, TNamed n' l' => name_eqb n n' && loc_eqb l l'
  | TList t l, TList t' l' => ty_eqb t t' && loc_eqb l l'
  | TNonNull t l, TNonNull t' l' => ty_eqb t t' && loc_eqb l l'
  | _, _ => false
  end.

Fixpoint value_eqb (a b : value) : bool :=
  match a, b with
  | VVar n l, VVar n' l' => name_eqb n n' && loc_eqb l l'
  | VInt s l, VInt s' l' => str_eqb s s' && loc_eqb l l'
  | VFloat s l, VFloat s' l' => str_eqb s s' && loc_eqb l l'
  | VString s bl l, VString s' bl' l' => str_eqb s s' && Bool.eqb bl bl' && loc_eqb l l'
  | VBool x l, VBool x' l' => Bool.eqb x x' && loc_eqb l l'
  | VNull l, VNull l' => loc_eqb l l'
  | VEnum s l, VEnum s' l' => str_eqb s s' && loc_eqb l l'
  | VList vs l, VList vs' l' =>
      (fix go (x y : list value) : bool :=
         match x, y with
         | [], [] => true
         | v :: x', w :: y' => value_eqb v w && go x' y'
         | _, _ => false
         end) vs vs' && loc_eqb l l'
  | VObject fs l, VObject fs' l' =>
      (fix go (x y : list (name * value * loc)) : bool :=
         match x, y with
         | [], [] => true
         | (n, v, fl) :: x', (n', w, fl') :: y' =>
             name_eqb n n' && value_eqb v w && loc_eqb fl fl' && go x' y'
         | _, _ => false
         end) fs fs' && loc_eqb l l'
  | _, _ => false
  end.

Definition objfield_eqb (a b : objfield) : bool :=
  name_eqb (fst (fst a)) (fst (fst b)) && value_eqb (snd (fst a)) (snd (fst b))
  && loc_eqb (snd a) (snd b).
Definition arg_eqb (a b : argument) : bool :=
  name_eqb (a_name a) (a_name b) && value_eqb (a_val a) (a_val b) && loc_eqb (a_loc a) (a_loc b).
Definition dir_eqb (a b : directive) : bool :=
  name_eqb (d_name a) (d_name b) && leqb arg_eqb (d_args a) (d_args b) && loc_eqb (d_loc a) (d_loc b).
Definition dirs_eqb := leqb dir_eqb.

Fixpoint sel_eqb (a b : selection) : bool :=
  let go := fix go (x y : list selection) : bool :=
              match x, y with
              | [], [] => true
              | s :: x', t :: y' => sel_eqb s t && go x' y'
              | _, _ => false
              end in
  match a, b with
  | SField al n args ds sl sub l, SField al' n' args' ds' sl' sub' l' =>
      oeqb name_eqb al al' && name_eqb n n' && leqb arg_eqb args args' && dirs_eqb ds ds'
      && oeqb loc_eqb sl sl' && go sub sub' && loc_eqb l l'
  | SSpread n ds l, SSpread n' ds' l' => name_eqb n n' && dirs_eqb ds ds' && loc_eqb l l'
  | SInline tc ds ssl sub l, SInline tc' ds' ssl' sub' l' =>
      oeqb ty_eqb tc tc' && dirs_eqb ds ds' && loc_eqb ssl ssl' && go sub sub' && loc_eqb l l'
  | _, _ => false
  end.

Definition selset_eqb (a b : selset) : bool := loc_eqb (fst a) (fst b) && leqb sel_eqb (snd a) (snd b).

Definition vardef_eqb (a b : var_def) : bool :=
  name_eqb (vd_var a) (vd_var b) && loc_eqb (vd_var_loc a) (vd_var_loc b)
  && ty_eqb (vd_type a) (vd_type b) && oeqb value_eqb (vd_default a) (vd_default b)
  && dirs_eqb (vd_dirs a) (vd_dirs b) && loc_eqb (vd_loc a) (vd_loc b).
Definition strval_eqb (a b : strval) : bool :=
  str_eqb (sv_val a) (sv_val b) && Bool.eqb (sv_block a) (sv_block b) && loc_eqb (sv_loc a) (sv_loc b).
Definition ivdef_eqb (a b : input_value_def) : bool :=
  oeqb strval_eqb (iv_desc a) (iv_desc b) && name_eqb (iv_name a) (iv_name b)
  && ty_eqb (iv_type a) (iv_type b) && oeqb value_eqb (iv_default a) (iv_default b)
  && dirs_eqb (iv_dirs a) (iv_dirs b) && loc_eqb (iv_loc a) (iv_loc b).
Definition fdef_eqb (a b : field_def) : bool :=
  oeqb strval_eqb (fd_desc a) (fd_desc b) && name_eqb (fd_name a) (fd_name b)
  && leqb ivdef_eqb (fd_args a) (fd_args b) && ty_eqb (fd_type a) (fd_type b)
  && dirs_eqb (fd_dirs a) (fd_dirs b) && loc_eqb (fd_loc a) (fd_loc b).
Definition evdef_eqb (a b : enum_value_def) : bool :=
  oeqb strval_eqb (ev_desc a) (ev_desc b) && name_eqb (ev_name a) (ev_name b)
  && dirs_eqb (ev_dirs a) (ev_dirs b) && loc_eqb (ev_loc a) (ev_loc b).
Definition opk_eqb (a b : op_kind) : bool :=
  match a, b with
  | OpQuery, OpQuery | OpMutation, OpMutation | OpSubscription, OpSubscription => true
  | _, _ => false
  end.
Definition otdef_eqb (a b : op_type_def) : bool :=
  opk_eqb (ot_op a) (ot_op b) && ty_eqb (ot_type a) (ot_type b) && loc_eqb (ot_loc a) (ot_loc b).

Definition def_eqb (a b : definition) : bool :=
  match a, b with
  | DOperation k n vds ds ssl sels l, DOperation k' n' vds' ds' ssl' sels' l' =>
      opk_eqb k k' && oeqb name_eqb n n' && leqb vardef_eqb vds vds' && dirs_eqb ds ds'
      && loc_eqb ssl ssl' && leqb sel_eqb sels sels' && loc_eqb l l'
  | DFragment n vds tc ds ssl sels l, DFragment n' vds' tc' ds' ssl' sels' l' =>
      name_eqb n n' && leqb vardef_eqb vds vds' && ty_eqb tc tc' && dirs_eqb ds ds'
      && loc_eqb ssl ssl' && leqb sel_eqb sels sels' && loc_eqb l l'
  | DSchema e ds ots l, DSchema e' ds' ots' l' =>
      Bool.eqb e e' && dirs_eqb ds ds' && leqb otdef_eqb ots ots' && loc_eqb l l'
  | DScalar e d n ds l, DScalar e' d' n' ds' l' =>
      Bool.eqb e e' && oeqb strval_eqb d d' && name_eqb n n' && dirs_eqb ds ds' && loc_eqb l l'
  | DObject e d n ifs ds fs l, DObject e' d' n' ifs' ds' fs' l' =>
      Bool.eqb e e' && oeqb strval_eqb d d' && name_eqb n n' && leqb ty_eqb ifs ifs'
      && dirs_eqb ds ds' && leqb fdef_eqb fs fs' && loc_eqb l l'
  | DInterface e d n ds fs l, DInterface e' d' n' ds' fs' l' =>
      Bool.eqb e e' && oeqb strval_eqb d d' && name_eqb n n' && dirs_eqb ds ds'
      && leqb fdef_eqb fs fs' && loc_eqb l l'
  | DUnion e d n ds ts l, DUnion e' d' n' ds' ts' l' =>
      Bool.eqb e e' && oeqb strval_eqb d d' && name_eqb n n' && dirs_eqb ds ds'
      && leqb ty_eqb ts ts' && loc_eqb l l'
  | DEnum e d n ds vs l, DEnum e' d' n' ds' vs' l' =>
      Bool.eqb e e' && oeqb strval_eqb d d' && name_eqb n n' && dirs_eqb ds ds'
      && leqb evdef_eqb vs vs' && loc_eqb l l'
  | DInput e d n ds fs l, DInput e' d' n' ds' fs' l' =>
      Bool.eqb e e' && oeqb strval_eqb d d' && name_eqb n n' && dirs_eqb ds ds'
      && leqb ivdef_eqb fs fs' && loc_eqb l l'
  | DDirective d n args locs l, DDirective d' n' args' locs' l' =>
      oeqb strval_eqb d d' && name_eqb n n' && leqb ivdef_eqb args args'
      && leqb name_eqb locs locs' && loc_eqb l l'
  | _, _ => false
  end.

Definition doc_eqb (a b : document) : bool :=
  leqb def_eqb (doc_defs a) (doc_defs b) && loc_eqb (doc_loc a) (doc_loc b).

Definition node_eqb (a b : node) : bool :=
  match a, b with
  | NDoc x, NDoc y => doc_eqb x y
  | NDef x, NDef y => def_eqb x y
  | NVarDef x, NVarDef y => vardef_eqb x y
  | NSelSet x, NSelSet y => selset_eqb x y
  | NSel x, NSel y => sel_eqb x y
  | NArg x, NArg y => arg_eqb x y
  | NDir x, NDir y => dir_eqb x y
  | NVal x, NVal y => value_eqb x y
  | NObjField x, NObjField y => objfield_eqb x y
  | NType x, NType y => ty_eqb x y
  | NOpType x, NOpType y => otdef_eqb x y
  | NFieldDef x, NFieldDef y => fdef_eqb x y
  | NIVDef x, NIVDef y => ivdef_eqb x y
  | NEVDef x, NEVDef y => evdef_eqb x y
  | NDesc x, NDesc y => strval_eqb x y
  | NName x, NName y => name_eqb x y
  | _, _ => false
  end.

Definition event_eqb (a b : event) : bool :=
  match a, b with
  | (i, e, k, l), (i', e', k', l') => Nat.eqb i i' && Bool.eqb e e' && kind_eqb k k' && loc_eqb l l'
  end.
