(* C18 -- replacements of ANOTHER class.  _visit_method runs the body of the
   method it wraps -- the one selected for the class of the node that was
   passed in -- on whatever enter() returned.  [visit] (Lang/VisitorModel.v)
   answers Crash 1 as soon as the classes differ; [visitx] extends it with what
   the code does where the body still makes sense on the replacement:
     _visit_type        (NamedType / ListType / NonNullType): the body is the identity;
     _visit_variable    (a Variable in an argument, a list, a default value, or visited
                        directly): the body is the identity -- the children of a
                        ListValue / ObjectValue put in its place are NOT traversed;
     _visit_value       (every other value, and ANY value of an ObjectField, which calls
                        _visit_value directly): the body looks at the class of the node
                        it is given, so a list / object replacement is traversed;
     _visit_fragment_spread on an InlineFragment / Field: only the directives are traversed;
     _visit_inline_fragment on a Field with a selection set: directives and selection set;
   anything else reads an attribute the replacement does not have (AttributeError): Crash 1.
   enter is called once, on the original; leave is called once, on the replacement.
   [visitx] agrees with [visit] wherever [visit] answers Ok (Proofs/VisitorCrossProofs.v). *)
From PyGql Require Import Lang.VisitorModel.

(* the bodies, with ObjectField.value going through _visit_value ([rec true]) *)
Definition methodx (rec : bool -> rec_t) (n : node) : outcome (trace * node) :=
  match n with
  | NObjField (nm, v, l) =>
      do a <- m_req NVal pVal (rec true) v; Ok (fst a, NObjField (nm, snd a, l))
  | _ => method (rec false) n
  end.

(* the body selected for [orig] run on [cur]; [viaval]: reached through _visit_value *)
Definition method_as (rec : bool -> rec_t) (viaval : bool) (orig cur : node)
  : outcome (trace * node) :=
  if kind_eqb (kind_of orig) (kind_of cur) then methodx rec cur
  else
    match orig, cur with
    | NType _, NType _ => Ok ([], cur)
    | NVal (VVar _ _), NVal _ => if viaval then methodx rec cur else Ok ([], cur)
    | NVal _, NVal _ => methodx rec cur
    | NSel (SSpread _ _ _), NSel (SInline tc dirs ssl sub l) =>
        do b <- map_and_filter NDir pDir (rec false) dirs;
        Ok (fst b, NSel (SInline tc (snd b) ssl sub l))
    | NSel (SSpread _ _ _), NSel (SField al nm args dirs sl sub l) =>
        do b <- map_and_filter NDir pDir (rec false) dirs;
        Ok (fst b, NSel (SField al nm args (snd b) sl sub l))
    | NSel (SInline _ _ _ _ _), NSel (SField al nm args dirs (Some sl) sub l) =>
        do b <- map_and_filter NDir pDir (rec false) dirs;
        do c <- m_req NSelSet pSelSet (rec false) (sl, sub);
        Ok (fst b ++ fst c, NSel (SField al nm args (snd b) (Some (fst (snd c))) (snd (snd c)) l))
    | _, _ => Crash 1
    end.

Definition wrapperx (vs : list visitor) (body : node -> node -> outcome (trace * node)) (n : node)
  : outcome (trace * option node) :=
  match chain_enter 0 vs n with
  | (_, ECrash) => Crash 3
  | (tr0, ESkip) => Ok (tr0, Some n)
  | (tr0, EDelete) => Ok (tr0, None)
  | (tr0, ECont n1) =>
      do p <- body n n1;
      match chain_leave 0 vs (snd p) with
      | None => Crash 3
      | Some tr2 => Ok (tr0 ++ fst p ++ tr2, Some (snd p))
      end
  end.

Fixpoint visitx (fuel : nat) (vs : list visitor) (viaval : bool) (n : node)
  : outcome (trace * option node) :=
  match fuel with
  | 0 => OutOfFuel
  | S f => wrapperx vs (method_as (visitx f vs) viaval) n
  end.

Definition visit_topx (fuel : nat) (vs : list visitor) (n : node) : outcome (trace * option node) :=
  if in_table (kind_of n) visit_table then visitx fuel vs false n else Crash 3.

(* ---- after fixes/C18-03-replacement-of-another-class ----
   _visit_method runs the children traversal that belongs to the class of the node enter()
   returned: enter once on the original, the replacement's own children, leave once on the
   replacement -- [visit] without its class check. *)
Fixpoint visitf (fuel : nat) (vs : list visitor) (n : node) : outcome (trace * option node) :=
  match fuel with
  | 0 => OutOfFuel
  | S f => wrapperx vs (fun _ cur => method (visitf f vs) cur) n
  end.

Definition visit_topf (fuel : nat) (vs : list visitor) (n : node) : outcome (trace * option node) :=
  if in_table (kind_of n) visit_table then visitf fuel vs n else Crash 3.
