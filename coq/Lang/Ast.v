(* The node classes of py_gql/lang/ast.py as one inductive family.
   Every node carries [loc : option (nat * nat)] (start, end) as the parser
   sets it; [source] is not part of a node's identity in py-gql
   (Node.__eq__ ignores it) and is not modelled. *)
From PyGql Require Export Base.Str.

Definition loc := option (nat * nat).

Record name := Name { n_val : str; n_loc : loc }.

Inductive ty :=
| TNamed (n : name) (l : loc)
| TList (t : ty) (l : loc)
| TNonNull (t : ty) (l : loc).

Inductive value :=
| VVar (n : name) (l : loc)
| VInt (s : str) (l : loc)
| VFloat (s : str) (l : loc)
| VString (s : str) (block : bool) (l : loc)
| VBool (b : bool) (l : loc)
| VNull (l : loc)
| VEnum (s : str) (l : loc)
| VList (vs : list value) (l : loc)
| VObject (fs : list (name * value * loc)) (l : loc).   (* ObjectField(name, value) *)

(* Argument(name, value) *)
Record argument := Arg { a_name : name; a_val : value; a_loc : loc }.
Record directive := Dir { d_name : name; d_args : list argument; d_loc : loc }.

(* Field.selection_set is None or a SelectionSet node: [sl = None] when the
   field has no selection set, [Some l] when it has one with location [l]
   whose selections are [sub]. *)
Inductive selection :=
| SField (alias : option name) (n : name) (args : list argument)
         (dirs : list directive) (sl : option loc) (sub : list selection) (l : loc)
| SSpread (n : name) (dirs : list directive) (l : loc)
| SInline (tc : option ty) (dirs : list directive) (ssl : loc) (sub : list selection) (l : loc).

Record var_def := VarDef {
  vd_var : name; vd_var_loc : loc; vd_type : ty; vd_default : option value;
  vd_dirs : list directive; vd_loc : loc }.

Inductive op_kind := OpQuery | OpMutation | OpSubscription.

(* description strings: StringValue(value, block) *)
Record strval := StrVal { sv_val : str; sv_block : bool; sv_loc : loc }.

Record input_value_def := IVDef {
  iv_desc : option strval; iv_name : name; iv_type : ty; iv_default : option value;
  iv_dirs : list directive; iv_loc : loc }.
Record field_def := FDef {
  fd_desc : option strval; fd_name : name; fd_args : list input_value_def; fd_type : ty;
  fd_dirs : list directive; fd_loc : loc }.
Record enum_value_def := EVDef {
  ev_desc : option strval; ev_name : name; ev_dirs : list directive; ev_loc : loc }.
Record op_type_def := OTDef { ot_op : op_kind; ot_type : ty; ot_loc : loc }.

Inductive definition :=
| DOperation (k : op_kind) (n : option name) (vds : list var_def)
             (dirs : list directive) (ssl : loc) (sels : list selection) (l : loc)
| DFragment (n : name) (vds : list var_def) (tc : ty) (dirs : list directive)
            (ssl : loc) (sels : list selection) (l : loc)
| DSchema (ext : bool) (dirs : list directive) (ots : list op_type_def) (l : loc)
| DScalar (ext : bool) (desc : option strval) (n : name) (dirs : list directive) (l : loc)
| DObject (ext : bool) (desc : option strval) (n : name) (ifaces : list ty)
          (dirs : list directive) (fields : list field_def) (l : loc)
| DInterface (ext : bool) (desc : option strval) (n : name)
          (dirs : list directive) (fields : list field_def) (l : loc)
| DUnion (ext : bool) (desc : option strval) (n : name)
          (dirs : list directive) (types : list ty) (l : loc)
| DEnum (ext : bool) (desc : option strval) (n : name)
          (dirs : list directive) (vals : list enum_value_def) (l : loc)
| DInput (ext : bool) (desc : option strval) (n : name)
          (dirs : list directive) (fields : list input_value_def) (l : loc)
| DDirective (desc : option strval) (n : name) (args : list input_value_def)
          (locs : list name) (l : loc).

Record document := Doc { doc_defs : list definition; doc_loc : loc }.

(* ---- helpers shared by the executable-document models ---- *)

Definition response_name (alias : option name) (n : name) : str :=
  match alias with Some a => n_val a | None => n_val n end.

(* Document.fragments: dict built by comprehension, so a later definition
   with the same name wins. *)
Fixpoint fragments_of (ds : list definition) : list (str * list selection) :=
  match ds with
  | [] => []
  | DFragment n _ _ _ _ sels _ :: ds' =>
      let rest := fragments_of ds' in
      match alookup (n_val n) rest with
      | Some _ => rest
      | None => (n_val n, sels) :: rest
      end
  | _ :: ds' => fragments_of ds'
  end.

(* strong induction principle for [selection] (nested through [list]) *)
Section SelInd.
  Variable P : selection -> Prop.
  Hypothesis Hf : forall alias n args dirs sl sub l,
      Forall P sub -> P (SField alias n args dirs sl sub l).
  Hypothesis Hs : forall n dirs l, P (SSpread n dirs l).
  Hypothesis Hi : forall tc dirs ssl sub l,
      Forall P sub -> P (SInline tc dirs ssl sub l).
  Fixpoint selection_ind' (s : selection) : P s :=
    match s with
    | SField alias n args dirs sl sub l =>
        Hf alias n args dirs sl sub l
           ((fix go (ss : list selection) : Forall P ss :=
               match ss with
               | [] => Forall_nil P
               | x :: xs => Forall_cons x (selection_ind' x) (go xs)
               end) sub)
    | SSpread n dirs l => Hs n dirs l
    | SInline tc dirs ssl sub l =>
        Hi tc dirs ssl sub l
           ((fix go (ss : list selection) : Forall P ss :=
               match ss with
               | [] => Forall_nil P
               | x :: xs => Forall_cons x (selection_ind' x) (go xs)
               end) sub)
    end.
End SelInd.
