(* C03 -- executable model of py_gql/lang/printer.py (ASTPrinter, print_ast)
   after the repairs fixes/C03-01..04.  Produces the exact text (a [str], list
   of code points) for every node class, every indent string and both values of
   include_descriptions.

     _join / _wrap / _indent / _block   -> p_join / p_wrap / p_indent / p_block
     _block_string                      -> block_string
     json.dumps(s, ensure_ascii=False)  -> json_quote
     ASTPrinter.print_*                 -> pr_* (same decomposition)

   Descriptions of fields, arguments, input fields and enum values are not
   printed (as in the code; known finding member-descriptions). *)
From PyGql Require Export Base.Str Lang.Ast.
Local Open Scope N_scope.

Definition lit (x : string) : str := str_of_string x.
Definition LF : N := 10.
Definition QUOTE : N := 34.
Definition BSLASH : N := 92.

Definition is_empty (s : str) : bool := match s with [] => true | _ => false end.

(* separator.join([x for x in entries if x]) *)
Fixpoint join_ne (entries : list str) (sep : str) : str :=
  match entries with
  | [] => []
  | x :: rest => match rest with [] => x | _ => x ++ sep ++ join_ne rest sep end
  end.
Definition p_join (entries : list str) (sep : str) : str :=
  join_ne (filter (fun x => negb (is_empty x)) entries) sep.

(* "%s%s%s" % (start, s, end) if s else "" *)
Definition p_wrap (start s end_ : str) : str :=
  if is_empty s then [] else start ++ s ++ end_.

(* s.replace("\n", "\n" + indent) *)
Definition reindent (ind : str) (s : str) : str :=
  flat_map (fun c => if c =? LF then LF :: ind else [c]) s.

(* s and (indent + s.replace("\n", "\n%s" % indent)) *)
Definition p_indent (s ind : str) : str :=
  if is_empty s then [] else ind ++ reindent ind s.

(* "{\n%s\n}" % _join(map(lambda s: _indent(s, indent), arr), "\n"), "" when arr is empty *)
Definition p_block (items : list str) (ind : str) : str :=
  match items with
  | [] => []
  | _ => lit "{" ++ [LF] ++ p_join (map (fun s => p_indent s ind) items) [LF] ++ [LF] ++ lit "}"
  end.

(* value.replace('"""', '\\"""'): left to right, non-overlapping *)
Fixpoint escape3 (v : str) : str :=
  match v with
  | [] => []
  | a :: r1 =>
      match r1 with
      | b :: c :: r3 =>
          if (a =? QUOTE) && (b =? QUOTE) && (c =? QUOTE)
          then BSLASH :: QUOTE :: QUOTE :: QUOTE :: escape3 r3
          else a :: escape3 r1
      | _ => a :: escape3 r1
      end
  end.

Definition starts_blank (v : str) : bool :=
  match v with c :: _ => (c =? 32) || (c =? 9) | [] => false end.
Definition has_lf (v : str) : bool := existsb (fun c => c =? LF) v.
(* v.endswith(c) for a one-character c <> NUL *)
Definition last_is (v : str) (c : N) : bool := last v 0 =? c.

Definition Q3 : str := [QUOTE; QUOTE; QUOTE].

(* _block_string(value, indent, is_description) *)
Definition block_string (value ind : str) (is_desc : bool) : str :=
  let escaped := escape3 value in
  if starts_blank value && negb (has_lf value) then
    let escaped' := if last_is escaped QUOTE || last_is escaped BSLASH
                    then escaped ++ [LF] else escaped in
    Q3 ++ escaped' ++ Q3
  else
    Q3 ++ [LF] ++ (if is_desc then escaped else p_indent escaped ind) ++ [LF] ++ Q3.

(* json.dumps(s, ensure_ascii=False) *)
Definition hex_digit (n : N) : N := if n <? 10 then 48 + n else 87 + n.
Definition json_char (c : N) : str :=
  if c =? QUOTE then [BSLASH; QUOTE]
  else if c =? BSLASH then [BSLASH; BSLASH]
  else if c =? 10 then [BSLASH; 110]
  else if c =? 13 then [BSLASH; 114]
  else if c =? 9 then [BSLASH; 116]
  else if c =? 8 then [BSLASH; 98]
  else if c =? 12 then [BSLASH; 102]
  else if c <? 32 then [BSLASH; 117; 48; 48; hex_digit (c / 16); hex_digit (c mod 16)]
  else [c].
Definition json_quote (s : str) : str := QUOTE :: flat_map json_char s ++ [QUOTE].

(* ---- the printer ---- *)
Record cfg := Cfg { c_indent : str; c_desc : bool }.

Section Printer.
  Variable cf : cfg.
  Let ind := c_indent cf.

  Fixpoint pr_type (t : ty) : str :=
    match t with
    | TNamed n _ => n_val n
    | TList t' _ => lit "[" ++ pr_type t' ++ lit "]"
    | TNonNull t' _ => pr_type t' ++ lit "!"
    end.

  Definition pr_string (v : str) (block : bool) : str :=
    if block then block_string v ind false else json_quote v.

  Fixpoint pr_value (v : value) : str :=
    match v with
    | VVar n _ => lit "$" ++ n_val n
    | VInt s _ => s
    | VFloat s _ => s
    | VString s b _ => pr_string s b
    | VBool b _ => if b then lit "true" else lit "false"
    | VNull _ => lit "null"
    | VEnum s _ => s
    | VList vs _ => lit "[" ++ p_join (map pr_value vs) (lit ", ") ++ lit "]"
    | VObject fs _ =>
        lit "{" ++ p_join (map (fun f => n_val (fst (fst f)) ++ lit ": " ++ pr_value (snd (fst f))) fs)
                        (lit ", ") ++ lit "}"
    end.

  Definition pr_argument (a : argument) : str := n_val (a_name a) ++ lit ": " ++ pr_value (a_val a).
  Definition pr_arguments (args : list argument) : str :=
    p_wrap (lit "(") (p_join (map pr_argument args) (lit ", ")) (lit ")").
  Definition pr_directive (d : directive) : str := lit "@" ++ n_val (d_name d) ++ pr_arguments (d_args d).
  Definition pr_directives (ds : list directive) : str := p_join (map pr_directive ds) (lit " ").

  Fixpoint pr_selection (s : selection) : str :=
    let selset (sub : list selection) := p_block (map pr_selection sub) ind in
    match s with
    | SField alias n args dirs sl sub _ =>
        let lead := match alias with
                    | Some a => p_join [p_wrap [] (n_val a) (lit ": "); n_val n] []
                    | None => n_val n
                    end in
        p_join [p_join [lead; pr_arguments args] []; pr_directives dirs;
                match sl with Some _ => selset sub | None => [] end] (lit " ")
    | SSpread n dirs _ => lit "..." ++ n_val n ++ p_wrap (lit " ") (pr_directives dirs) []
    | SInline tc dirs _ sub _ =>
        p_join [lit "...";
                p_wrap (lit "on ") (match tc with Some t => pr_type t | None => [] end) [];
                pr_directives dirs; selset sub] (lit " ")
    end.

  Definition pr_selection_set (sub : list selection) : str := p_block (map pr_selection sub) ind.

  Definition pr_var_def (v : var_def) : str :=
    p_join [lit "$" ++ n_val (vd_var v) ++ lit ": " ++ pr_type (vd_type v)
            ++ p_wrap (lit " = ") (match vd_default v with Some d => pr_value d | None => [] end) [];
            pr_directives (vd_dirs v)] (lit " ").
  Definition pr_var_defs (vds : list var_def) : str :=
    p_wrap (lit "(") (p_join (map pr_var_def vds) (lit ", ")) (lit ")").

  Definition op_text (k : op_kind) : str :=
    match k with OpQuery => lit "query" | OpMutation => lit "mutation" | OpSubscription => lit "subscription" end.
  Definition is_query (k : op_kind) : bool := match k with OpQuery => true | _ => false end.

  Definition pr_input_value_def (i : input_value_def) : str :=
    p_join [p_join [n_val (iv_name i); lit ": "; pr_type (iv_type i)] [];
            p_wrap (lit " = ") (match iv_default i with Some d => pr_value d | None => [] end) [];
            p_wrap (lit " ") (pr_directives (iv_dirs i)) []] [].

  (* print_argument_definitions *)
  Definition pr_arg_defs (args : list input_value_def) : str :=
    let printed := map pr_input_value_def args in
    if existsb has_lf printed
    then p_wrap (lit "(" ++ [LF]) (p_indent (p_join printed [LF]) ind) ([LF] ++ lit ")")
    else p_wrap (lit "(") (p_join printed (lit ", ")) (lit ")").

  Definition pr_field_def (f : field_def) : str :=
    p_join [n_val (fd_name f); pr_arg_defs (fd_args f); lit ": "; pr_type (fd_type f);
            p_wrap (lit " ") (pr_directives (fd_dirs f)) []] [].

  Definition pr_enum_value_def (e : enum_value_def) : str :=
    p_join [n_val (ev_name e); pr_directives (ev_dirs e)] (lit " ").

  Definition pr_op_type_def (o : op_type_def) : str :=
    op_text (ot_op o) ++ lit ": " ++ pr_type (ot_type o).

  (* _with_desc *)
  Definition with_desc (formatted : str) (desc : option strval) (ext : bool) : str :=
    match desc with
    | Some d =>
        if c_desc cf && negb ext then
          p_join [if sv_block d then block_string (sv_val d) ind true else json_quote (sv_val d);
                  formatted] [LF]
        else formatted
    | None => formatted
    end.

  Definition kw (ext : bool) (k : string) : str := if ext then lit "extend " ++ lit k else lit k.

  Definition pr_definition (d : definition) : str :=
    match d with
    | DOperation k n vds dirs _ sels _ =>
        let name := match n with Some x => n_val x | None => [] end in
        let var_defs := pr_var_defs vds in
        let directives := pr_directives dirs in
        let selection_set := pr_selection_set sels in
        if is_empty name && is_empty directives && is_empty var_defs && is_query k
        then selection_set
        else p_join [op_text k; p_join [name; var_defs] []; directives; selection_set] (lit " ")
    | DFragment n vds tc dirs _ sels _ =>
        lit "fragment " ++ n_val n ++ pr_var_defs vds ++ lit " on " ++ pr_type tc ++ lit " "
          ++ pr_directives dirs ++ pr_selection_set sels
    | DSchema ext dirs ots _ =>
        p_join [kw ext "schema"; pr_directives dirs; p_block (map pr_op_type_def ots) ind] (lit " ")
    | DScalar ext desc n dirs _ =>
        with_desc (p_join [kw ext "scalar"; n_val n; pr_directives dirs] (lit " ")) desc ext
    | DObject ext desc n ifaces dirs fields _ =>
        with_desc (p_join [kw ext "type"; n_val n;
                           p_wrap (lit "implements ") (p_join (map pr_type ifaces) (lit " & ")) [];
                           pr_directives dirs; p_block (map pr_field_def fields) ind] (lit " ")) desc ext
    | DInterface ext desc n dirs fields _ =>
        with_desc (p_join [kw ext "interface"; n_val n; pr_directives dirs;
                           p_block (map pr_field_def fields) ind] (lit " ")) desc ext
    | DUnion ext desc n dirs types _ =>
        with_desc (p_join [kw ext "union"; n_val n; pr_directives dirs;
                           p_wrap (lit "= ") (p_join (map pr_type types) (lit " | ")) []] (lit " ")) desc ext
    | DEnum ext desc n dirs vals _ =>
        with_desc (p_join [kw ext "enum"; n_val n; pr_directives dirs;
                           p_block (map pr_enum_value_def vals) ind] (lit " ")) desc ext
    | DInput ext desc n dirs fields _ =>
        with_desc (p_join [kw ext "input"; n_val n; pr_directives dirs;
                           p_block (map pr_input_value_def fields) ind] (lit " ")) desc ext
    | DDirective desc n args locs _ =>
        with_desc (p_join [lit "directive @"; n_val n; pr_arg_defs args; lit " on ";
                           p_join (map n_val locs) (lit " | ")] []) desc false
    end.

  (* print_document: the query shorthand is spelled out when the previous
     printed definition does not end with a closing brace *)
  Definition starts_brace (s : str) : bool := match s with c :: _ => c =? 123 | [] => false end.
  Definition ends_brace (s : str) : bool := last s 0 =? 125.
  Fixpoint pr_defs (prev : option str) (ds : list definition) : list str :=
    match ds with
    | [] => []
    | d :: rest =>
        let t := pr_definition d in
        let t' := if starts_brace t && match prev with Some p => negb (ends_brace p) | None => false end
                  then lit "query " ++ t else t in
        t' :: pr_defs (Some t') rest
    end.
  Definition pr_document (d : document) : str :=
    p_join (pr_defs None (doc_defs d)) [LF; LF] ++ [LF].
End Printer.

(* print_ast(node, indent, include_descriptions): an int indent is that many spaces *)
Definition indent_of_int (n : nat) : str := repeat 32 n.
Definition print_ast (ind : str) (incl : bool) (d : document) : str := pr_document (Cfg ind incl) d.
