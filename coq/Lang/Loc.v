(* Model of py_gql/_string_utils.py index_to_loc and of the position the
   (repaired, fixes/C01-06) GraphQLSyntaxError.highlighted / to_dict hand to
   it: min(position, len(source)).  [None] stands for IndexError. *)
From PyGql Require Export Base.Str Lang.BlockString.
Local Open Scope N_scope.

(* the for-loop of index_to_loc *)
Fixpoint itl_loop (body : str) (offset position lines cols : nat) : nat * nat :=
  match body with
  | [] => (S lines, S cols)
  | c :: r =>
      if Nat.eqb offset position then (S lines, S cols)
      else if c =? 10 then itl_loop r (S offset) position (S lines) O
      else itl_loop r (S offset) position lines (S cols)
  end.

Definition index_to_loc (body : str) (position : nat) : option (nat * nat) :=
  match body, position with
  | [], O => Some (1%nat, 1%nat)
  | _, _ => if Nat.ltb (length body) position then None
            else Some (itl_loop body 0 position 0 0)
  end.

(* position used for rendering a syntax error *)
Definition render_position (source : str) (position : nat) : nat :=
  Nat.min position (length source).

(* highlight_location indexes LINE_SEPARATOR.split(body) with line - 1 *)
Definition highlight_line_in_range (body : str) (position : nat) : bool :=
  match index_to_loc body position with
  | Some (l, _) => Nat.leb 1 l && Nat.leb l (length (split_lines body))
  | None => false
  end.
