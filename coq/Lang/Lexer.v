(* Model of py_gql/lang/lexer.py (class Lexer), after the repairs
   fixes/C01-01 (ASCII digit tests), C01-02 (exponent is Digit+),
   C01-03 (\u needs four ASCII hex digits).

   The lexer works on the not yet consumed suffix [rest] of the source and the
   absolute offset [pos] of its first character (Lexer._position).  Each
   [read_*] function stands for the method of the same name.  Error positions
   are the ones the code passes to the exception (including the out-of-text
   [position + 1] of truncated escapes, which stays an open finding). *)
From PyGql Require Export Lang.Token Lang.BlockString.
Local Open Scope N_scope.

(* ---- character classes, written as the code writes them ---- *)
Definition is_digit (c : char) : bool := (48 <=? c) && (c <=? 57).          (* "0" <= c <= "9" *)
Definition is_letter (c : char) : bool :=
  ((65 <=? c) && (c <=? 90)) || ((97 <=? c) && (c <=? 122)).               (* c in ascii_letters *)
Definition is_name_start (c : char) : bool := (c =? 95) || is_letter c.
Definition is_name_cont (c : char) : bool := (c =? 95) || is_letter c || is_digit c.
Definition is_printable (c : char) : bool := (32 <=? c) || (c =? 9).        (* c >= " " or c == "\t" *)
Definition is_ignored (c : char) : bool :=                                   (* IGNORED_CHARS *)
  (c =? 10) || (c =? 13) || (c =? 65279) || (c =? 9) || (c =? 32) || (c =? 44).
Definition is_comment_char (c : char) : bool :=
  is_printable c && negb ((c =? 10) || (c =? 13)).
Definition is_hex (c : char) : bool :=
  is_digit c || ((65 <=? c) && (c <=? 70)) || ((97 <=? c) && (c <=? 102)).
Definition hex_val (c : char) : N :=
  if is_digit c then c - 48 else if c <=? 70 then c - 55 else c - 87.

Definition symbol_kind (c : char) : option tkind :=
  if c =? 33 then Some KBang else if c =? 36 then Some KDollar
  else if c =? 40 then Some KParenO else if c =? 41 then Some KParenC
  else if c =? 91 then Some KBrackO else if c =? 93 then Some KBrackC
  else if c =? 123 then Some KCurlyO else if c =? 125 then Some KCurlyC
  else if c =? 58 then Some KColon else if c =? 61 then Some KEquals
  else if c =? 64 then Some KAt else if c =? 124 then Some KPipe
  else if c =? 38 then Some KAmp else None.

(* QUOTED_CHARS *)
Definition quoted_char (c : char) : option char :=
  if c =? 34 then Some 34 else if c =? 92 then Some 92 else if c =? 47 then Some 47
  else if c =? 98 then Some 8 else if c =? 102 then Some 12 else if c =? 110 then Some 10
  else if c =? 114 then Some 13 else if c =? 116 then Some 9 else None.

(* longest prefix satisfying p, and the rest *)
Fixpoint span (p : char -> bool) (l : str) : str * str :=
  match l with
  | c :: r => if p c then let (a, b) := span p r in (c :: a, b) else ([], l)
  | [] => ([], [])
  end.

(* ---- _read_over_whitespace ---- *)
Fixpoint skip_ws (in_comment : bool) (rest : str) (pos : nat) : str * nat :=
  match rest with
  | [] => ([], pos)
  | c :: r =>
      if in_comment && is_comment_char c then skip_ws true r (S pos)
      else if is_ignored c then skip_ws false r (S pos)
      else if c =? 35 then skip_ws true r (S pos)
      else (rest, pos)
  end.

(* ---- _read_ellipsis (rest starts with ".") ---- *)
Definition read_ellipsis (rest : str) (pos : nat) : outcome (ptok * str) :=
  match rest with
  | [] => Rejected E_UnexpectedEOF pos
  | c1 :: r1 =>
    if negb (c1 =? 46) then Rejected E_UnexpectedCharacter (pos + 1)%nat else
    match r1 with
    | [] => Rejected E_UnexpectedEOF (pos + 1)%nat
    | c2 :: r2 =>
      if negb (c2 =? 46) then Rejected E_UnexpectedCharacter (pos + 2)%nat else
      match r2 with
      | [] => Rejected E_UnexpectedEOF (pos + 2)%nat
      | c3 :: r3 =>
        if negb (c3 =? 46) then Rejected E_UnexpectedCharacter (pos + 3)%nat
        else Ok (PTok KEllip [] pos (pos + 3)%nat, r3)
      end
    end
  end.

(* ---- _read_string / _read_escape_sequence / _read_escaped_unicode ----
   [rest] is the text after the opening quote, [pos] its offset, [acc] the
   decoded characters so far (reversed).  Result: value, remaining text,
   offset after the closing quote. *)
Fixpoint read_string (rest : str) (pos : nat) (acc : str) : outcome (str * str * nat) :=
  match rest with
  | [] => Rejected E_NonTerminatedString pos
  | c :: r =>
    if c =? 34 then Ok (rev acc, r, S pos)
    else if c =? 92 then
      (* _read_escape_sequence: position is now pos + 1 *)
      match r with
      | [] => Rejected E_NonTerminatedString (pos + 2)%nat
      | e :: r2 =>
        match quoted_char e with
        | Some d => read_string r2 (pos + 2)%nat (d :: acc)
        | None =>
          if negb (e =? 117) then Rejected E_InvalidEscapeSequence (pos + 1)%nat
          else
            (* _read_escaped_unicode: start = pos + 2, errors at start - 1 *)
            match r2 with
            | [] => Rejected E_NonTerminatedString (pos + 3)%nat
            | h1 :: r3 =>
              if negb (is_hex h1) then Rejected E_InvalidEscapeSequence (pos + 1)%nat else
              match r3 with
              | [] => Rejected E_NonTerminatedString (pos + 4)%nat
              | h2 :: r4 =>
                if negb (is_hex h2) then Rejected E_InvalidEscapeSequence (pos + 1)%nat else
                match r4 with
                | [] => Rejected E_NonTerminatedString (pos + 5)%nat
                | h3 :: r5 =>
                  if negb (is_hex h3) then Rejected E_InvalidEscapeSequence (pos + 1)%nat else
                  match r5 with
                  | [] => Rejected E_NonTerminatedString (pos + 6)%nat
                  | h4 :: r6 =>
                    if negb (is_hex h4) then Rejected E_InvalidEscapeSequence (pos + 1)%nat
                    else read_string r6 (pos + 6)%nat
                           (((hex_val h1 * 16 + hex_val h2) * 16 + hex_val h3) * 16 + hex_val h4 :: acc)
                  end
                end
              end
            end
        end
      end
    else if (c =? 10) || (c =? 13) then Rejected E_NonTerminatedString pos
    else if negb (is_printable c) then Rejected E_InvalidCharacter pos
    else read_string r (S pos) (c :: acc)
  end.

(* ---- _read_block_string: [rest] is the text after the opening triple
   quote; result: raw (undecoded) body, remaining text, offset after the
   closing triple quote ---- *)
Definition starts_3q (l : str) : bool :=
  match l with
  | a :: b :: c :: _ => (a =? 34) && (b =? 34) && (c =? 34)
  | _ => false
  end.

Fixpoint read_block (rest : str) (pos : nat) (acc : str) : outcome (str * str * nat) :=
  match rest with
  | [] => Rejected E_NonTerminatedString pos
  | c :: r =>
    if starts_3q rest then Ok (rev acc, skipn 3 rest, (pos + 3)%nat)
    else if c =? 92 then
      match r with
      | q1 :: q2 :: q3 :: r' =>
          if (q1 =? 34) && (q2 =? 34) && (q3 =? 34)
          then read_block r' (pos + 4)%nat (34 :: 34 :: 34 :: acc)
          else read_block r (S pos) (c :: acc)
      | _ => read_block r (S pos) (c :: acc)
      end
    else if negb ((32 <=? c) || (c =? 9) || (c =? 10) || (c =? 13))
      then Rejected E_InvalidCharacter pos
    else read_block r (S pos) (c :: acc)
  end.

(* ---- numbers ---- *)
(* _read_over_digits *)
Definition read_over_digits (rest : str) (pos : nat) : outcome (str * nat) :=
  match rest with
  | [] => Rejected E_UnexpectedEOF pos
  | c :: _ =>
      if is_digit c then let (ds, r) := span is_digit rest in Ok (r, (pos + length ds)%nat)
      else Rejected E_UnexpectedCharacter pos
  end.

(* _read_over_integer *)
Definition read_over_integer (rest : str) (pos : nat) : outcome (str * nat) :=
  match rest with
  | [] => Rejected E_UnexpectedEOF pos
  | c :: r =>
      if c =? 48 then
        match r with
        | d :: _ => if is_digit d then Rejected E_UnexpectedCharacter (S pos) else Ok (r, S pos)
        | [] => Ok (r, S pos)
        end
      else read_over_digits rest pos
  end.

(* _read_number, in the order of the code: optional "-", integer part,
   optional fraction, optional exponent, look-ahead check.
   Result: is_float, remaining text, end offset. *)
Definition read_sign (rest : str) (pos : nat) : str * nat :=
  match rest with
  | c :: r => if c =? 45 then (r, S pos) else (rest, pos)
  | [] => (rest, pos)
  end.

Definition read_fraction (r2 : str) (p2 : nat) : outcome (bool * str * nat) :=
  match r2 with
  | c :: r => if c =? 46
              then (do rp <- read_over_digits r (S p2); Ok (true, fst rp, snd rp))
              else Ok (false, r2, p2)
  | [] => Ok (false, r2, p2)
  end.

Definition read_exp_sign (r : str) (p : nat) : str * nat :=
  match r with
  | sg :: r' => if (sg =? 43) || (sg =? 45) then (r', S p) else (r, p)
  | [] => (r, p)
  end.

Definition read_exponent (fl3 : bool) (r3 : str) (p3 : nat) : outcome (bool * str * nat) :=
  match r3 with
  | c :: r =>
      if (c =? 101) || (c =? 69) then
        let rp' := read_exp_sign r (S p3) in
        (do rp <- read_over_digits (fst rp') (snd rp'); Ok (true, fst rp, snd rp))
      else Ok (fl3, r3, p3)
  | [] => Ok (fl3, r3, p3)
  end.

Definition number_lookahead (x : bool * str * nat) : outcome (bool * str * nat) :=
  match snd (fst x) with
  | c :: _ => if is_name_start c then Rejected E_UnexpectedCharacter (snd x) else Ok x
  | [] => Ok x
  end.

Definition read_number (rest : str) (pos : nat) : outcome (bool * str * nat) :=
  let rp1 := read_sign rest pos in
  do rp2 <- read_over_integer (fst rp1) (snd rp1);
  do x3 <- read_fraction (fst rp2) (snd rp2);
  do x4 <- read_exponent (fst (fst x3)) (snd (fst x3)) (snd x3);
  number_lookahead x4.

(* ---- Lexer.__next__ after the SOF token and after white space ---- *)
Definition next_token (rest : str) (pos : nat) : outcome (ptok * str) :=
  match rest with
  | [] => Ok (PTok KEOF [] pos pos, [])
  | c :: r =>
    if negb (is_printable c) then Rejected E_InvalidCharacter (S pos)
    else
      match symbol_kind c with
      | Some k => Ok (PTok k [] pos (S pos), r)
      | None =>
        if c =? 46 then read_ellipsis rest pos
        else if starts_3q rest then
          do x <- read_block (skipn 3 rest) (pos + 3)%nat [];
          let '(raw, r', e) := x in
          Ok (PTok KBlockString (block_string_model raw) pos e, r')
        else if c =? 34 then
          do x <- read_string r (S pos) [];
          let '(v, r', e) := x in
          Ok (PTok KString v pos e, r')
        else if (c =? 45) || is_digit c then
          do x <- read_number rest pos;
          let '(fl, r', e) := x in
          Ok (PTok (if fl then KFloat else KInt) (firstn (e - pos)%nat rest) pos e, r')
        else if is_name_start c then
          let (nm, r') := span is_name_cont rest in
          Ok (PTok KName nm pos (pos + length nm)%nat, r')
        else Rejected E_UnexpectedCharacter pos
      end
  end.

(* The token stream as the parser pulls it: tokens up to and including EOF,
   or up to the first lexer error.  [LF] marks exhausted fuel. *)
Inductive lx :=
| LT (t : ptok)
| LE (kind pos : nat)
| LF.

Fixpoint lex_from (fuel : nat) (rest : str) (pos : nat) : list lx :=
  match fuel with
  | O => [LF]
  | S f =>
    let (r1, p1) := skip_ws false rest pos in
    match next_token r1 p1 with
    | Ok (t, r2) => LT t :: (if is_kind KEOF t then [] else lex_from f r2 (tend t))
    | Rejected k p => [LE k p]
    | _ => [LF]
    end
  end.

Definition lex_fuel (s : str) : nat := S (length s).

Definition lex_stream (s : str) : list lx :=
  LT (PTok KSOF [] 0 0) :: lex_from (lex_fuel s) s 0.

(* eager view: all tokens, or the first error *)
Fixpoint collect (l : list lx) : outcome (list ptok) :=
  match l with
  | [] => Ok []
  | LT t :: l' => do ts <- collect l'; Ok (t :: ts)
  | LE k p :: _ => Rejected k p
  | LF :: _ => OutOfFuel
  end.

Definition lex (s : str) : outcome (list ptok) := collect (lex_stream s).
