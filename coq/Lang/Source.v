(* A bytes source: Lexer.__init__ stores ensure_unicode(source), i.e. the
   UTF-8 decoding of the bytes, and everything else (tokens, every loc, the
   `source` attribute of every node) refers to that text.  [Crash 0] stands
   for the UnicodeDecodeError of undecodable bytes (outside C01's quantifier). *)
From PyGql Require Import Lang.Parser Lang.Utf8.

Definition source_text (b : list N) : option str := decode_utf8 b.

Definition on_bytes {A} (p : str -> outcome A) (b : list N) : outcome A :=
  match decode_utf8 b with Some s => p s | None => Crash 0 end.

Definition parse_document_bytes (fl : flags) : list N -> outcome document := on_bytes (parse_document fl).
Definition parse_value_bytes (fl : flags) : list N -> outcome value := on_bytes (parse_value_str fl).
Definition parse_type_bytes (fl : flags) : list N -> outcome ty := on_bytes (parse_type_str fl).
