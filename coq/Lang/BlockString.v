(* Model of py_gql/_string_utils.py parse_block_string (after the repair
   fixes/C02-01: lines are split with LINE_SEPARATOR = \r\n|[\n\r] and only
   " \t" is stripped).  Written after the Python code's own steps. *)
From PyGql Require Export Base.Str.
Local Open Scope N_scope.

(* line.lstrip(" \t") *)
Definition is_ws (c : char) : bool := (c =? 32) || (c =? 9).

Fixpoint lstrip (l : str) : str :=
  match l with
  | c :: r => if is_ws c then lstrip r else l
  | [] => []
  end.

(* LINE_SEPARATOR.split(raw): the regex \r\n|[\n\r] scanned left to right;
   [cur] is the current line, reversed. *)
Fixpoint split_lines_acc (cur : str) (raw : str) : list str :=
  match raw with
  | [] => [rev cur]
  | c :: r =>
      if c =? 13 then
        match r with
        | d :: r' => if d =? 10 then rev cur :: split_lines_acc [] r'
                     else rev cur :: split_lines_acc [] r
        | [] => rev cur :: split_lines_acc [] r
        end
      else if c =? 10 then rev cur :: split_lines_acc [] r
      else split_lines_acc (c :: cur) r
  end.

Definition split_lines (raw : str) : list str := split_lines_acc [] raw.

(* common_indent = sys.maxsize is [None] *)
Definition upd_indent (ci : option nat) (line : str) : option nat :=
  let inner_len := length (lstrip line) in
  if Nat.eqb inner_len 0 then ci
  else let ind := (length line - inner_len)%nat in
       Some (match ci with None => ind | Some m => Nat.min m ind end).

Definition common_indent (tail_lines : list str) : option nat :=
  fold_left upd_indent tail_lines None.

(* not line.lstrip(" \t") *)
Definition blank_line (l : str) : bool := Nat.eqb (length (lstrip l)) 0.

(* while lines and not lines[0].lstrip(): lines.pop(0) *)
Fixpoint pop_blank_front (lines : list str) : list str :=
  match lines with
  | l :: ls => if blank_line l then pop_blank_front ls else lines
  | [] => []
  end.

(* while lines and not lines[-1].lstrip(): lines.pop() *)
Definition pop_blank_back (lines : list str) : list str :=
  rev (pop_blank_front (rev lines)).

(* "\n".join(lines) *)
Definition join_lf (lines : list str) : str :=
  match lines with
  | [] => []
  | l :: ls => l ++ flat_map (fun x => 10 :: x) ls
  end.

Definition block_string_model (raw : str) : str :=
  let lines := split_lines raw in
  let lines :=
    match lines with
    | [] => []
    | first :: rest =>
        match common_indent rest with
        | Some n => first :: map (skipn n) rest
        | None => lines
        end
    end in
  join_lf (pop_blank_back (pop_blank_front lines)).
