(* Model of py_gql/_string_utils.py  index_to_loc / loc_to_index.

   Python [str] = list of code points.  Both functions split the text into
   lines at U+000A only: a CR (alone or in a CRLF pair) is an ordinary
   character that occupies a column.  (highlight_location splits at
   \r\n|\n|\r, but only for rendering the message text, which is not
   modelled.)  Positions, lines and columns are Python ints; the model uses
   [nat] because every caller passes a lexer index / a node's loc[0]; negative
   positions raise IndexError in the code and never occur. *)
From PyGql Require Import Base.Str.

Definition LF : N := 10%N.
Definition CR : N := 13%N.

(* kinds of Crash produced here *)
Definition crash_IndexError : nat := 1.

(* the for-loop of index_to_loc, from the current offset on:
     for offset, char in enumerate(body):
         if offset == position: return (lines + 1, cols + 1)
         elif char == "\n": lines += 1; cols = 0
         else: cols += 1
     return (lines + 1, cols + 1)
   [p] = position - offset. *)
Fixpoint itl (body : str) (p lines cols : nat) : nat * nat :=
  match p, body with
  | O, _ => (S lines, S cols)
  | _, [] => (S lines, S cols)
  | S p', c :: rest =>
      if N.eqb c LF then itl rest p' (S lines) 0 else itl rest p' lines (S cols)
  end.

Definition index_to_loc (body : str) (position : nat) : outcome (nat * nat) :=
  match body, position with
  | [], O => Ok (1, 1)                                  (* not body and not position *)
  | _, _ =>
      if length body <? position then Crash crash_IndexError
      else Ok (itl body position 0 0)
  end.

(* the for-loop of loc_to_index:
     for index, char in enumerate(body):
         if lines == lineo - 1:
             if len(body) >= index + col - 1: return index + col - 1
             break
         if char == "\n": lines += 1
     raise IndexError
   [lineo], [col] >= 1 (lineo = 0 never matches in Python: lines == -1 is
   false; the model returns the same IndexError; col = 0 is outside the
   model's domain and mapped to IndexError as well). *)
Fixpoint lti (body : str) (index lines lineo col total : nat) : outcome nat :=
  match body with
  | [] => Crash crash_IndexError
  | ch :: rest =>
      if lines =? lineo - 1 then
        (if index + col - 1 <=? total then Ok (index + col - 1) else Crash crash_IndexError)
      else lti rest (S index) (if N.eqb ch LF then S lines else lines) lineo col total
  end.

Definition loc_to_index (body : str) (lc : nat * nat) : outcome nat :=
  let '(lineo, col) := lc in
  match body, lineo, col with
  | [], 1, 1 => Ok 0
  | _, O, _ => Crash crash_IndexError
  | _, _, O => Crash crash_IndexError
  | _, _, _ => lti body 0 0 lineo col (length body)
  end.

(* The line structure both functions use: split at LF only.  Always at least
   one (possibly empty) line; a trailing LF opens a last empty line. *)
Fixpoint split_lf (s : str) : list str :=
  match s with
  | [] => [[]]
  | c :: r =>
      if N.eqb c LF then [] :: split_lf r
      else match split_lf r with
           | [] => [[c]]
           | ln :: lns => (c :: ln) :: lns
           end
  end.

(* (line, column), 1-based, denotes a place inside the text: the line exists
   and the column is at a character of that line or just after its last one
   (where the LF or the end of the text is). *)
Definition loc_inside_b (doc : str) (line col : nat) : bool :=
  (1 <=? line) && (1 <=? col) &&
  match nth_error (split_lf doc) (line - 1) with
  | Some ln => col <=? S (length ln)
  | None => false
  end.
