(* Tokens of py_gql/lang/token.py and the syntax-error classes of py_gql/exc.py.
   A token carries its class, its [value] (only meaningful for Name, Integer,
   Float, String, BlockString; the constant tokens carry []), and its
   (start, end) offsets into the source text. *)
From PyGql Require Export Base.Str.

Inductive tkind :=
| KSOF | KEOF
| KBang | KDollar | KParenO | KParenC | KBrackO | KBrackC | KCurlyO | KCurlyC
| KColon | KEquals | KAt | KPipe | KAmp | KEllip
| KInt | KFloat | KName | KString | KBlockString.

Definition tkind_id (k : tkind) : nat :=
  match k with
  | KSOF => 0 | KEOF => 1 | KBang => 2 | KDollar => 3 | KParenO => 4 | KParenC => 5
  | KBrackO => 6 | KBrackC => 7 | KCurlyO => 8 | KCurlyC => 9 | KColon => 10
  | KEquals => 11 | KAt => 12 | KPipe => 13 | KAmp => 14 | KEllip => 15
  | KInt => 16 | KFloat => 17 | KName => 18 | KString => 19 | KBlockString => 20
  end.

Definition tkind_eqb (a b : tkind) : bool := Nat.eqb (tkind_id a) (tkind_id b).

Lemma tkind_eqb_eq a b : tkind_eqb a b = true <-> a = b.
Proof.
  unfold tkind_eqb; rewrite Nat.eqb_eq; split; [|intros ->; reflexivity].
  destruct a, b; simpl; intros H; try reflexivity; discriminate.
Qed.

Lemma tkind_eqb_refl a : tkind_eqb a a = true.
Proof. apply tkind_eqb_eq; reflexivity. Qed.

Record ptok := PTok { tk : tkind; tval : str; tstart : nat; tend : nat }.

Definition is_kind (k : tkind) (t : ptok) : bool := tkind_eqb (tk t) k.

(* GraphQLSyntaxError subclasses (exc.py) as rejection kinds *)
Definition E_InvalidCharacter : nat := 1.
Definition E_UnexpectedCharacter : nat := 2.
Definition E_UnexpectedEOF : nat := 3.
Definition E_NonTerminatedString : nat := 4.
Definition E_InvalidEscapeSequence : nat := 5.
Definition E_UnexpectedToken : nat := 6.

