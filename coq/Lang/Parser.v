(* Model of py_gql/lang/parser.py (class Parser and the entry points parse,
   parse_value, parse_type), after the repairs fixes/C01-04 (keywords must be
   Name tokens), C01-05 (bare "extend schema"), C01-07 (enum value names),
   C02-02 (source on named operations; not observable in the tree).

   The parser state is the not yet consumed part of the lazily produced token
   stream (Parser._buffer + the rest of the lexer) and the end offset of the
   last consumed token (Parser._last.end).  Every definition below stands for
   the method of the same name; Python evaluates keyword arguments left to
   right, which fixes the order of the monadic steps.  The explicit [n] is
   fuel for the recursive productions (values, types, selection sets) and the
   loops; [parse_fuel] is always enough (Proofs/ParserProofs.v). *)
From PyGql Require Export Lang.Ast Lang.Lexer.

Record flags := Flags {
  no_location : bool;
  allow_type_system : bool;
  fragment_variables : bool }.

Record pst := PSt { toks : list lx; last_end : nat }.

Definition parser (A : Type) : Type := pst -> outcome (A * pst).

Definition pret {A} (a : A) : parser A := fun st => Ok (a, st).
Definition pbind {A B} (p : parser A) (f : A -> parser B) : parser B :=
  fun st => match p st with
            | Ok (a, st') => f a st'
            | OutOfFuel => OutOfFuel
            | Rejected k pos => Rejected k pos
            | Crash k => Crash k
            end.
Definition perr {A} (k pos : nat) : parser A := fun _ => Rejected k pos.
Definition pfuel {A} : parser A := fun _ => OutOfFuel.

Notation "'pdo' x <- e ; f" := (pbind e (fun x => f))
  (at level 200, x pattern, e at level 100, f at level 200, right associativity).

Local Open Scope string_scope.
Definition kw (x : string) : str := str_of_string x.
Definition is_kw (x : string) (v : str) : bool := str_eqb v (kw x).

(* ---- window primitives: peek / peek(2) / advance / expect / skip ---- *)
Definition peek : parser ptok := fun st =>
  match toks st with
  | LT t :: _ => Ok (t, st)
  | LE k p :: _ => Rejected k p
  | LF :: _ => OutOfFuel
  | [] => Rejected E_UnexpectedEOF (last_end st)     (* _advance_window on an exhausted lexer *)
  end.

(* peek(2): only used after peek() returned a non-EOF token.  Asking an
   exhausted lexer for a second token while the buffer is non-empty loops for
   ever in the code; that case is [OutOfFuel] here (never reached). *)
Definition peek2 : parser ptok := fun st =>
  match toks st with
  | LT _ :: LT t :: _ => Ok (t, st)
  | LT _ :: LE k p :: _ => Rejected k p
  | LT _ :: LF :: _ => OutOfFuel
  | LT _ :: [] => OutOfFuel
  | LE k p :: _ => Rejected k p
  | LF :: _ => OutOfFuel
  | [] => Rejected E_UnexpectedEOF (last_end st)
  end.

Definition advance : parser ptok := fun st =>
  match toks st with
  | LT t :: r => Ok (t, PSt r (tend t))
  | LE k p :: _ => Rejected k p
  | LF :: _ => OutOfFuel
  | [] => Rejected E_UnexpectedEOF (last_end st)
  end.

Definition expect (k : tkind) : parser ptok :=
  pdo t <- peek;
  if is_kind k t then advance else perr E_UnexpectedToken (tstart t).

Definition expect_keyword (w : string) : parser ptok :=
  pdo t <- peek;
  if is_kind KName t && is_kw w (tval t) then advance else perr E_UnexpectedToken (tstart t).

Definition skip (k : tkind) : parser bool :=
  pdo t <- peek;
  if is_kind k t then (pdo _ <- advance; pret true) else pret false.

(* _unexpected_token(token, position, source) *)
Definition unexpected {A} (t : ptok) (pos : nat) : parser A :=
  if is_kind KEOF t then perr E_UnexpectedEOF pos else perr E_UnexpectedToken pos.

Section WithFlags.
Variable fl : flags.

(* self._loc(start) *)
Definition get_loc (start : ptok) : parser loc := fun st =>
  Ok (if no_location fl then None else Some (tstart start, last_end st), st).

(* ---- many / any_ / delimited_list (after the opening token) ---- *)
Fixpoint many_loop {A} (n : nat) (p : parser A) (close : tkind) : parser (list A) :=
  match n with
  | O => pfuel
  | S n' =>
      pdo x <- p;
      pdo b <- skip close;
      if b then pret [x] else (pdo xs <- many_loop n' p close; pret (x :: xs))
  end.

Definition many {A} (n : nat) (open : tkind) (p : parser A) (close : tkind) : parser (list A) :=
  pdo _ <- expect open; many_loop n p close.

Fixpoint any_loop {A} (n : nat) (p : parser A) (close : tkind) : parser (list A) :=
  match n with
  | O => pfuel
  | S n' =>
      pdo b <- skip close;
      if b then pret [] else (pdo x <- p; pdo xs <- any_loop n' p close; pret (x :: xs))
  end.

Definition any_ {A} (n : nat) (open : tkind) (p : parser A) (close : tkind) : parser (list A) :=
  pdo _ <- expect open; any_loop n p close.

Fixpoint delimited_loop {A} (n : nat) (delim : tkind) (p : parser A) : parser (list A) :=
  match n with
  | O => pfuel
  | S n' =>
      pdo x <- p;
      pdo b <- skip delim;
      if b then (pdo xs <- delimited_loop n' delim p; pret (x :: xs)) else pret [x]
  end.

Definition delimited_list {A} (n : nat) (delim : tkind) (p : parser A) : parser (list A) :=
  pdo _ <- skip delim; delimited_loop n delim p.

(* while self.peek().__class__ is K: items.append(p()) *)
Fixpoint while_kind {A} (n : nat) (k : tkind) (p : parser A) : parser (list A) :=
  match n with
  | O => pfuel
  | S n' =>
      pdo t <- peek;
      if is_kind k t then (pdo x <- p; pdo xs <- while_kind n' k p; pret (x :: xs)) else pret []
  end.

(* ---- names, variables, values ---- *)
Definition parse_name : parser name :=
  pdo t <- expect KName;
  pdo l <- get_loc t;
  pret (Name (tval t) l).

Definition parse_variable : parser (name * loc) :=
  pdo start <- peek;
  pdo _ <- expect KDollar;
  pdo nm <- parse_name;
  pdo l <- get_loc start;
  pret (nm, l).

Definition parse_string_literal : parser strval :=
  pdo t <- advance;
  pdo l <- get_loc t;
  pret (StrVal (tval t) (is_kind KBlockString t) l).

(* parse_object_field, given the value parser of the next recursion level *)
Definition parse_object_field (pv : parser value) : parser (name * value * loc) :=
  pdo fstart <- peek;
  pdo nm <- parse_name;
  pdo _ <- expect KColon;
  pdo v <- pv;
  pdo l <- get_loc fstart;
  pret (nm, v, l).

Fixpoint parse_value_literal (n : nat) (const : bool) : parser value :=
  match n with
  | O => pfuel
  | S n' =>
    pdo t <- peek;
    match tk t with
    | KBrackO =>                                              (* parse_list *)
        pdo vs <- any_ n' KBrackO (parse_value_literal n' const) KBrackC;
        pdo l <- get_loc t;
        pret (VList vs l)
    | KCurlyO =>                                              (* parse_object *)
        pdo start <- expect KCurlyO;
        pdo fs <- any_loop n' (parse_object_field (parse_value_literal n' const)) KCurlyC;
        pdo l <- get_loc start;
        pret (VObject fs l)
    | KInt => pdo _ <- advance; pdo l <- get_loc t; pret (VInt (tval t) l)
    | KFloat => pdo _ <- advance; pdo l <- get_loc t; pret (VFloat (tval t) l)
    | KString | KBlockString =>
        pdo sv <- parse_string_literal;
        pret (VString (sv_val sv) (sv_block sv) (sv_loc sv))
    | KName =>
        pdo _ <- advance;
        pdo l <- get_loc t;
        if is_kw "true" (tval t) then pret (VBool true l)
        else if is_kw "false" (tval t) then pret (VBool false l)
        else if is_kw "null" (tval t) then pret (VNull l)
        else pret (VEnum (tval t) l)
    | KDollar =>
        if const then unexpected t (tstart t)
        else (pdo v <- parse_variable; pret (VVar (fst v) (snd v)))
    | _ => unexpected t (tstart t)
    end
  end.

Variable n : nat.   (* fuel handed to every recursive production and loop *)

Definition parse_argument (const : bool) : parser argument :=
  pdo start <- peek;
  pdo nm <- parse_name;
  pdo _ <- expect KColon;
  pdo v <- parse_value_literal n const;
  pdo l <- get_loc start;
  pret (Arg nm v l).

Definition parse_arguments (const : bool) : parser (list argument) :=
  pdo t <- peek;
  if is_kind KParenO t then many n KParenO (parse_argument const) KParenC else pret [].

Definition parse_directive (const : bool) : parser directive :=
  pdo start <- expect KAt;
  pdo nm <- parse_name;
  pdo args <- parse_arguments const;
  pdo l <- get_loc start;
  pret (Dir nm args l).

Definition parse_directives (const : bool) : parser (list directive) :=
  while_kind n KAt (parse_directive const).

(* ---- types ---- *)
Definition parse_named_type : parser ty :=
  pdo start <- peek;
  pdo nm <- parse_name;
  pdo l <- get_loc start;
  pret (TNamed nm l).

Fixpoint parse_type_reference (m : nat) : parser ty :=
  match m with
  | O => pfuel
  | S m' =>
    pdo start <- peek;
    pdo b <- skip KBrackO;
    pdo t <- (if b then
                pdo inner <- parse_type_reference m';
                pdo _ <- expect KBrackC;
                pdo l <- get_loc start;
                pret (TList inner l)
              else parse_named_type);
    pdo b2 <- skip KBang;
    if b2 then (pdo l <- get_loc start; pret (TNonNull t l)) else pret t
  end.

(* ---- selections ---- *)
Definition parse_fragment_name : parser name :=
  pdo t <- peek;
  if is_kw "on" (tval t) then unexpected t (tstart t) else parse_name.

Section Selections.
  (* parse_selection_set of the next recursion level *)
  Variable sub : parser (list selection * loc).

  Definition parse_field : parser selection :=
    pdo start <- peek;
    pdo name_or_alias <- parse_name;
    pdo b <- skip KColon;
    pdo an <- (if b then (pdo nm <- parse_name; pret (Some name_or_alias, nm))
               else pret (None, name_or_alias));
    pdo args <- parse_arguments false;
    pdo dirs <- parse_directives false;
    pdo t <- peek;
    pdo ss <- (if is_kind KCurlyO t then (pdo x <- sub; pret (Some (snd x), fst x))
               else pret (None, []));
    pdo l <- get_loc start;
    pret (SField (fst an) (snd an) args dirs (fst ss) (snd ss) l).

  Definition parse_fragment : parser selection :=
    pdo start <- peek;
    pdo _ <- expect KEllip;
    pdo lead <- peek;
    if is_kind KName lead && negb (is_kw "on" (tval lead)) then
      pdo nm <- parse_fragment_name;
      pdo dirs <- parse_directives false;
      pdo l <- get_loc start;
      pret (SSpread nm dirs l)
    else
      pdo tc <- (if is_kind KName lead && is_kw "on" (tval lead)
                 then (pdo _ <- advance; pdo t <- parse_named_type; pret (Some t))
                 else pret None);
      pdo dirs <- parse_directives false;
      pdo x <- sub;
      pdo l <- get_loc start;
      pret (SInline tc dirs (snd x) (fst x) l).

  Definition parse_selection : parser selection :=
    pdo t <- peek;
    if is_kind KEllip t then parse_fragment else parse_field.
End Selections.

Fixpoint parse_selection_set (m : nat) : parser (list selection * loc) :=
  match m with
  | O => pfuel
  | S m' =>
    pdo start <- peek;
    pdo sels <- many m' KCurlyO (parse_selection (parse_selection_set m')) KCurlyC;
    pdo l <- get_loc start;
    pret (sels, l)
  end.

(* ---- executable definitions ---- *)
Definition parse_variable_definition : parser var_def :=
  pdo start <- peek;
  pdo v <- parse_variable;
  pdo _ <- expect KColon;
  pdo t <- parse_type_reference n;
  pdo b <- skip KEquals;
  pdo dv <- (if b then (pdo x <- parse_value_literal n true; pret (Some x)) else pret None);
  pdo dirs <- parse_directives true;
  pdo l <- get_loc start;
  pret (VarDef (fst v) (snd v) t dv dirs l).

Definition parse_variable_definitions : parser (list var_def) :=
  pdo t <- peek;
  if is_kind KParenO t then many n KParenO parse_variable_definition KParenC else pret [].

Definition op_kind_of (v : str) : option op_kind :=
  if is_kw "query" v then Some OpQuery
  else if is_kw "mutation" v then Some OpMutation
  else if is_kw "subscription" v then Some OpSubscription
  else None.

Definition parse_operation_type : parser op_kind :=
  pdo t <- expect KName;
  match op_kind_of (tval t) with
  | Some k => pret k
  | None => unexpected t (tstart t)
  end.

Definition parse_operation_definition : parser definition :=
  pdo start <- peek;
  if is_kind KCurlyO start then
    pdo x <- parse_selection_set n;
    pdo l <- get_loc start;
    pret (DOperation OpQuery None [] [] (snd x) (fst x) l)
  else
    pdo k <- parse_operation_type;
    pdo t <- peek;
    pdo nm <- (if is_kind KName t then (pdo x <- parse_name; pret (Some x)) else pret None);
    pdo vds <- parse_variable_definitions;
    pdo dirs <- parse_directives false;
    pdo x <- parse_selection_set n;
    pdo l <- get_loc start;
    pret (DOperation k nm vds dirs (snd x) (fst x) l).

Definition parse_fragment_definition : parser definition :=
  pdo start <- peek;
  pdo _ <- expect_keyword "fragment";
  pdo nm <- parse_fragment_name;
  pdo vds <- (if fragment_variables fl then parse_variable_definitions else pret []);
  pdo _ <- expect_keyword "on";
  pdo tc <- parse_named_type;
  pdo dirs <- parse_directives false;
  pdo x <- parse_selection_set n;
  pdo l <- get_loc start;
  pret (DFragment nm vds tc dirs (snd x) (fst x) l).

Definition parse_executable_definition : parser definition :=
  pdo start <- peek;
  if is_kind KName start then
    match op_kind_of (tval start) with
    | Some _ => parse_operation_definition
    | None => if is_kw "fragment" (tval start) then parse_fragment_definition
              else unexpected start (tstart start)
    end
  else if is_kind KCurlyO start then parse_operation_definition
  else unexpected start (tstart start).

(* ---- type system definitions ---- *)
Definition is_string_tok (t : ptok) : bool := is_kind KString t || is_kind KBlockString t.

Definition parse_description : parser (option strval) :=
  pdo t <- peek;
  if is_string_tok t then (pdo x <- parse_string_literal; pret (Some x)) else pret None.

Definition parse_operation_type_definition : parser op_type_def :=
  pdo start <- peek;
  pdo k <- parse_operation_type;
  pdo _ <- expect KColon;
  pdo t <- parse_named_type;
  pdo l <- get_loc start;
  pret (OTDef k t l).

Definition parse_schema_definition : parser definition :=
  pdo start <- peek;
  pdo _ <- expect_keyword "schema";
  pdo dirs <- parse_directives true;
  pdo ots <- many n KCurlyO parse_operation_type_definition KCurlyC;
  pdo l <- get_loc start;
  pret (DSchema false dirs ots l).

Definition parse_scalar_type_definition : parser definition :=
  pdo start <- peek;
  pdo desc <- parse_description;
  pdo _ <- expect_keyword "scalar";
  pdo nm <- parse_name;
  pdo dirs <- parse_directives true;
  pdo l <- get_loc start;
  pret (DScalar false desc nm dirs l).

Definition parse_implements_interfaces : parser (list ty) :=
  pdo t <- peek;
  if is_kind KName t && is_kw "implements" (tval t) then
    pdo _ <- advance;
    pdo _ <- skip KAmp;
    delimited_loop n KAmp parse_named_type
  else pret [].

Definition parse_input_value_definition : parser input_value_def :=
  pdo start <- peek;
  pdo desc <- parse_description;
  pdo nm <- parse_name;
  pdo _ <- expect KColon;
  pdo t <- parse_type_reference n;
  pdo b <- skip KEquals;
  pdo dv <- (if b then (pdo x <- parse_value_literal n true; pret (Some x)) else pret None);
  pdo dirs <- parse_directives true;
  pdo l <- get_loc start;
  pret (IVDef desc nm t dv dirs l).

Definition parse_argument_definitions : parser (list input_value_def) :=
  pdo t <- peek;
  if is_kind KParenO t then many n KParenO parse_input_value_definition KParenC else pret [].

Definition parse_field_definition : parser field_def :=
  pdo start <- peek;
  pdo desc <- parse_description;
  pdo nm <- parse_name;
  pdo args <- parse_argument_definitions;
  pdo _ <- expect KColon;
  pdo t <- parse_type_reference n;
  pdo dirs <- parse_directives true;
  pdo l <- get_loc start;
  pret (FDef desc nm args t dirs l).

Definition parse_fields_definition : parser (list field_def) :=
  pdo t <- peek;
  if is_kind KCurlyO t then many n KCurlyO parse_field_definition KCurlyC else pret [].

Definition parse_object_type_definition : parser definition :=
  pdo start <- peek;
  pdo desc <- parse_description;
  pdo _ <- expect_keyword "type";
  pdo nm <- parse_name;
  pdo ifs <- parse_implements_interfaces;
  pdo dirs <- parse_directives true;
  pdo fields <- parse_fields_definition;
  pdo l <- get_loc start;
  pret (DObject false desc nm ifs dirs fields l).

Definition parse_interface_type_definition : parser definition :=
  pdo start <- peek;
  pdo desc <- parse_description;
  pdo _ <- expect_keyword "interface";
  pdo nm <- parse_name;
  pdo dirs <- parse_directives true;
  pdo fields <- parse_fields_definition;
  pdo l <- get_loc start;
  pret (DInterface false desc nm dirs fields l).

Definition parse_union_member_types : parser (list ty) :=
  pdo b <- skip KEquals;
  if b then delimited_list n KPipe parse_named_type else pret [].

Definition parse_union_type_definition : parser definition :=
  pdo start <- peek;
  pdo desc <- parse_description;
  pdo _ <- expect_keyword "union";
  pdo nm <- parse_name;
  pdo dirs <- parse_directives true;
  pdo types <- parse_union_member_types;
  pdo l <- get_loc start;
  pret (DUnion false desc nm dirs types l).

Definition parse_enum_value_definition : parser enum_value_def :=
  pdo start <- peek;
  pdo desc <- parse_description;
  pdo t <- peek;
  if is_kind KName t && (is_kw "true" (tval t) || is_kw "false" (tval t) || is_kw "null" (tval t))
  then unexpected t (tstart t)
  else
    pdo nm <- parse_name;
    pdo dirs <- parse_directives true;
    pdo l <- get_loc start;
    pret (EVDef desc nm dirs l).

Definition parse_enum_values_definition : parser (list enum_value_def) :=
  pdo t <- peek;
  if is_kind KCurlyO t then many n KCurlyO parse_enum_value_definition KCurlyC else pret [].

Definition parse_enum_type_definition : parser definition :=
  pdo start <- peek;
  pdo desc <- parse_description;
  pdo _ <- expect_keyword "enum";
  pdo nm <- parse_name;
  pdo dirs <- parse_directives true;
  pdo vals <- parse_enum_values_definition;
  pdo l <- get_loc start;
  pret (DEnum false desc nm dirs vals l).

Definition parse_input_fields_definition : parser (list input_value_def) :=
  pdo t <- peek;
  if is_kind KCurlyO t then many n KCurlyO parse_input_value_definition KCurlyC else pret [].

Definition parse_input_object_type_definition : parser definition :=
  pdo start <- peek;
  pdo desc <- parse_description;
  pdo _ <- expect_keyword "input";
  pdo nm <- parse_name;
  pdo dirs <- parse_directives true;
  pdo fields <- parse_input_fields_definition;
  pdo l <- get_loc start;
  pret (DInput false desc nm dirs fields l).

Definition directive_locations : list string :=
  ["QUERY"; "MUTATION"; "SUBSCRIPTION"; "FIELD"; "FRAGMENT_DEFINITION"; "FRAGMENT_SPREAD";
   "INLINE_FRAGMENT"; "VARIABLE_DEFINITION";
   "SCHEMA"; "SCALAR"; "OBJECT"; "FIELD_DEFINITION"; "ARGUMENT_DEFINITION"; "INTERFACE";
   "UNION"; "ENUM"; "ENUM_VALUE"; "INPUT_OBJECT"; "INPUT_FIELD_DEFINITION"].

Definition parse_directive_location : parser name :=
  pdo start <- peek;
  pdo nm <- parse_name;
  if mem_str (n_val nm) (map kw directive_locations) then pret nm
  else perr E_UnexpectedToken (tstart start).

Definition parse_directive_definition : parser definition :=
  pdo start <- peek;
  pdo desc <- parse_description;
  pdo _ <- expect_keyword "directive";
  pdo _ <- expect KAt;
  pdo nm <- parse_name;
  pdo args <- parse_argument_definitions;
  pdo _ <- expect_keyword "on";
  pdo locs <- delimited_list n KPipe parse_directive_location;
  pdo l <- get_loc start;
  pret (DDirective desc nm args locs l).

Definition parse_type_system_definition : parser definition :=
  pdo next <- peek;
  pdo keyword <- (if is_string_tok next then peek2 else pret next);
  if is_kind KName keyword then
    let v := tval keyword in
    if is_kw "schema" v then parse_schema_definition
    else if is_kw "scalar" v then parse_scalar_type_definition
    else if is_kw "type" v then parse_object_type_definition
    else if is_kw "interface" v then parse_interface_type_definition
    else if is_kw "union" v then parse_union_type_definition
    else if is_kw "enum" v then parse_enum_type_definition
    else if is_kw "input" v then parse_input_object_type_definition
    else if is_kw "directive" v then parse_directive_definition
    else unexpected keyword (tstart keyword)
  else unexpected keyword (tstart keyword).

(* ---- type system extensions ---- *)
Definition is_nil {A} (l : list A) : bool := match l with [] => true | _ => false end.

Definition parse_schema_extension : parser definition :=
  pdo start <- peek;
  pdo _ <- expect_keyword "extend";
  pdo _ <- expect_keyword "schema";
  pdo dirs <- parse_directives true;
  pdo t <- peek;
  pdo ots <- (if is_kind KCurlyO t then many n KCurlyO parse_operation_type_definition KCurlyC
              else pret []);
  if is_nil dirs && is_nil ots then (pdo tok <- peek; unexpected tok (tstart tok))
  else (pdo l <- get_loc start; pret (DSchema true dirs ots l)).

Definition parse_scalar_type_extension : parser definition :=
  pdo start <- peek;
  pdo _ <- expect_keyword "extend";
  pdo _ <- expect_keyword "scalar";
  pdo nm <- parse_name;
  pdo dirs <- parse_directives true;
  if is_nil dirs then unexpected start (tstart start)
  else (pdo l <- get_loc start; pret (DScalar true None nm dirs l)).

Definition parse_object_type_extension : parser definition :=
  pdo start <- peek;
  pdo _ <- expect_keyword "extend";
  pdo _ <- expect_keyword "type";
  pdo nm <- parse_name;
  pdo ifs <- parse_implements_interfaces;
  pdo dirs <- parse_directives true;
  pdo fields <- parse_fields_definition;
  if is_nil ifs && is_nil dirs && is_nil fields then (pdo tok <- peek; unexpected tok (tstart tok))
  else (pdo l <- get_loc start; pret (DObject true None nm ifs dirs fields l)).

Definition parse_interface_type_extension : parser definition :=
  pdo start <- peek;
  pdo _ <- expect_keyword "extend";
  pdo _ <- expect_keyword "interface";
  pdo nm <- parse_name;
  pdo dirs <- parse_directives true;
  pdo fields <- parse_fields_definition;
  if is_nil dirs && is_nil fields then (pdo tok <- peek; unexpected tok (tstart tok))
  else (pdo l <- get_loc start; pret (DInterface true None nm dirs fields l)).

Definition parse_union_type_extension : parser definition :=
  pdo start <- peek;
  pdo _ <- expect_keyword "extend";
  pdo _ <- expect_keyword "union";
  pdo nm <- parse_name;
  pdo dirs <- parse_directives true;
  pdo types <- parse_union_member_types;
  if is_nil dirs && is_nil types then (pdo tok <- peek; unexpected tok (tstart tok))
  else (pdo l <- get_loc start; pret (DUnion true None nm dirs types l)).

Definition parse_enum_type_extension : parser definition :=
  pdo start <- peek;
  pdo _ <- expect_keyword "extend";
  pdo _ <- expect_keyword "enum";
  pdo nm <- parse_name;
  pdo dirs <- parse_directives true;
  pdo vals <- parse_enum_values_definition;
  if is_nil dirs && is_nil vals then (pdo tok <- peek; unexpected tok (tstart tok))
  else (pdo l <- get_loc start; pret (DEnum true None nm dirs vals l)).

Definition parse_input_object_type_extension : parser definition :=
  pdo start <- peek;
  pdo _ <- expect_keyword "extend";
  pdo _ <- expect_keyword "input";
  pdo nm <- parse_name;
  pdo dirs <- parse_directives true;
  pdo fields <- parse_input_fields_definition;
  if is_nil dirs && is_nil fields then perr E_UnexpectedToken (tstart start)
  else (pdo l <- get_loc start; pret (DInput true None nm dirs fields l)).

Definition parse_type_system_extension : parser definition :=
  pdo keyword <- peek2;
  if is_kind KName keyword then
    let v := tval keyword in
    if is_kw "schema" v then parse_schema_extension
    else if is_kw "scalar" v then parse_scalar_type_extension
    else if is_kw "type" v then parse_object_type_extension
    else if is_kw "interface" v then parse_interface_type_extension
    else if is_kw "union" v then parse_union_type_extension
    else if is_kw "enum" v then parse_enum_type_extension
    else if is_kw "input" v then parse_input_object_type_extension
    else unexpected keyword (tstart keyword)
  else unexpected keyword (tstart keyword).

(* ---- definitions and documents ---- *)
Definition executable_keywords : list string := ["query"; "mutation"; "subscription"; "fragment"].
Definition schema_keywords : list string :=
  ["schema"; "scalar"; "type"; "interface"; "union"; "enum"; "input"; "directive"].

Definition parse_definition : parser definition :=
  pdo start <- peek;
  if is_kind KName start then
    if mem_str (tval start) (map kw executable_keywords) then parse_executable_definition
    else if allow_type_system fl then
      if mem_str (tval start) (map kw schema_keywords) then parse_type_system_definition
      else if is_kw "extend" (tval start) then parse_type_system_extension
      else unexpected start (tstart start)
    else unexpected start (tstart start)
  else if is_kind KCurlyO start then parse_executable_definition
  else if allow_type_system fl && is_string_tok start then parse_type_system_definition
  else unexpected start (tstart start).

Fixpoint definitions_loop (m : nat) : parser (list definition) :=
  match m with
  | O => pfuel
  | S m' =>
      pdo d <- parse_definition;
      pdo b <- skip KEOF;
      if b then pret [d] else (pdo ds <- definitions_loop m'; pret (d :: ds))
  end.

Definition parse_document_p : parser document :=
  pdo start <- peek;
  pdo _ <- expect KSOF;
  pdo defs <- definitions_loop n;
  pdo l <- get_loc start;
  pret (Doc defs l).

(* module-level parse_value / parse_type *)
Definition parse_value_p : parser value :=
  pdo _ <- expect KSOF;
  pdo v <- parse_value_literal n false;
  pdo _ <- expect KEOF;
  pret v.

Definition parse_type_p : parser ty :=
  pdo _ <- expect KSOF;
  pdo t <- parse_type_reference n;
  pdo _ <- expect KEOF;
  pret t.

End WithFlags.

(* ---- entry points on source text ---- *)
Definition parse_fuel (ts : list lx) : nat := S (length ts).

Definition run {A} (p : flags -> nat -> parser A) (fl : flags) (s : str) : outcome A :=
  let ts := lex_stream s in
  match p fl (parse_fuel ts) (PSt ts 0) with
  | Ok (a, _) => Ok a
  | OutOfFuel => OutOfFuel
  | Rejected k pos => Rejected k pos
  | Crash k => Crash k
  end.

Definition parse_document (fl : flags) (s : str) : outcome document := run parse_document_p fl s.
Definition parse_value_str (fl : flags) (s : str) : outcome value := run parse_value_p fl s.
Definition parse_type_str (fl : flags) (s : str) : outcome ty := run parse_type_p fl s.
