(* bytes.decode("utf8") as the library applies it to a bytes source
   (_string_utils.ensure_unicode): strict UTF-8 -- no overlong forms, no
   surrogates, nothing above U+10FFFF, no truncated sequence; a BOM is NOT
   removed (it stays U+FEFF, which the lexer ignores).  [None] stands for
   UnicodeDecodeError.  Bytes and code points are both numbers. *)
From PyGql Require Export Base.Str.
Local Open Scope N_scope.

Definition cont (b : N) : bool := (128 <=? b) && (b <=? 191).

Fixpoint decode_utf8 (b : list N) : option str :=
  match b with
  | [] => Some []
  | b0 :: r =>
    if b0 <? 128 then option_map (cons b0) (decode_utf8 r)
    else if (194 <=? b0) && (b0 <=? 223) then
      match r with
      | b1 :: r1 =>
          if cont b1 then option_map (cons ((b0 - 192) * 64 + (b1 - 128))) (decode_utf8 r1) else None
      | _ => None
      end
    else if (224 <=? b0) && (b0 <=? 239) then
      match r with
      | b1 :: b2 :: r2 =>
          let c := (b0 - 224) * 4096 + (b1 - 128) * 64 + (b2 - 128) in
          if cont b1 && cont b2 && (2048 <=? c) && negb ((55296 <=? c) && (c <=? 57343))
          then option_map (cons c) (decode_utf8 r2) else None
      | _ => None
      end
    else if (240 <=? b0) && (b0 <=? 244) then
      match r with
      | b1 :: b2 :: b3 :: r3 =>
          let c := (b0 - 240) * 262144 + (b1 - 128) * 4096 + (b2 - 128) * 64 + (b3 - 128) in
          if cont b1 && cont b2 && cont b3 && (65536 <=? c) && (c <=? 1114111)
          then option_map (cons c) (decode_utf8 r3) else None
      | _ => None
      end
    else None
  end.

(* str.encode("utf8") *)
Definition encode_char (c : N) : list N :=
  if c <? 128 then [c]
  else if c <? 2048 then [192 + c / 64; 128 + c mod 64]
  else if c <? 65536 then [224 + c / 4096; 128 + (c / 64) mod 64; 128 + c mod 64]
  else [240 + c / 262144; 128 + (c / 4096) mod 64; 128 + (c / 64) mod 64; 128 + c mod 64].

Definition encode_utf8 (s : str) : list N := flat_map encode_char s.

(* Unicode scalar values: what a Python str can hold and encode *)
Definition scalar (c : N) : Prop := c < 55296 \/ (57343 < c /\ c <= 1114111).
Definition is_byte (b : N) : Prop := b < 256.
