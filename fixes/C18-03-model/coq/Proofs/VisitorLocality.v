(* C18 -- edits stay local, at every depth.
   [reach act n m]   m is entered when n is visited under the decision function act;
   [vt_ok]/[subvt]   every node of the visit tree obeys its own decision: a deleted /
                     skipped node has no visited children and is not left, a kept node is
                     left as itself after exactly its traversed children, a replaced node
                     is left as the replacement after exactly the replacement's children;
   [quiet act n]     act keeps every node reached from n: such a subtree comes back
                     unchanged and is walked in full, whatever act does elsewhere;
   member_*          deleting / skipping / replacing one member of a list whose other
                     members are quiet changes exactly that member. *)
From PyGql Require Import Lang.VisitorModel Proofs.VisitorProofs Proofs.VisitorTermination.

(* ------------------------------------------------------------------ slots *)
Section SlotExt.
  Variables f g : ed.

  Lemma e_one_ext {X} (inj : X -> node) (proj : node -> option X) x :
    f (inj x) = g (inj x) -> e_one inj proj f x = e_one inj proj g x.
  Proof. unfold e_one. intros ->. reflexivity. Qed.

  Lemma e_list_ext {X} (inj : X -> node) (proj : node -> option X) l :
    (forall x, In x l -> f (inj x) = g (inj x)) -> e_list inj proj f l = e_list inj proj g l.
  Proof.
    induction l as [|a l IH]; simpl; intros H; [reflexivity|].
    rewrite (e_one_ext inj proj a) by (apply H; left; reflexivity).
    rewrite IH by (intros; apply H; right; assumption). reflexivity.
  Qed.

  Lemma e_req_ext {X} (inj : X -> node) (proj : node -> option X) x :
    f (inj x) = g (inj x) -> e_req inj proj f x = e_req inj proj g x.
  Proof. unfold e_req. intros H. rewrite (e_one_ext inj proj x H). reflexivity. Qed.

  Lemma e_opt_ext {X} (inj : X -> node) (proj : node -> option X) o :
    (forall x, In x (olist o) -> f (inj x) = g (inj x)) -> e_opt inj proj f o = e_opt inj proj g o.
  Proof. destruct o as [x|]; simpl; intros H; [|reflexivity]. apply e_one_ext. apply H. left. reflexivity. Qed.
End SlotExt.

Section SlotOk.
  Variable f : ed.

  Lemma e_one_ok {X} (inj : X -> node) (proj : node -> option X) x o :
    e_one inj proj f x = Ok o -> exists r, f (inj x) = Ok r.
  Proof. unfold e_one. intros H. inv_bind H. eauto. Qed.

  Lemma e_list_ok_in {X} (inj : X -> node) (proj : node -> option X) l : forall l' x,
    e_list inj proj f l = Ok l' -> In x l -> exists r, f (inj x) = Ok r.
  Proof.
    induction l as [|a l IH]; simpl; intros l' x H Hx; [contradiction|].
    inv_bind H. inv_bind H. destruct Hx as [<-|Hx]; [eapply e_one_ok; eassumption|eapply IH; eassumption].
  Qed.

  Lemma e_req_ok {X} (inj : X -> node) (proj : node -> option X) x x' :
    e_req inj proj f x = Ok x' -> exists r, f (inj x) = Ok r.
  Proof. unfold e_req. intros H. inv_bind H. eapply e_one_ok; eassumption. Qed.

  Lemma e_opt_ok_in {X} (inj : X -> node) (proj : node -> option X) o o' x :
    e_opt inj proj f o = Ok o' -> In x (olist o) -> exists r, f (inj x) = Ok r.
  Proof.
    destruct o as [y|]; simpl; intros H Hx; [|contradiction]. destruct Hx as [<-|[]].
    eapply e_one_ok; eassumption.
  Qed.
End SlotOk.

Ltac solve_in := simpl; rewrite ?in_app_iff; simpl; auto 8 using in_map.

(* the edit of a node consults the edit function on its traversed children only *)
Lemma map_children_local f g n :
  (forall c, In c (tchildren n) -> f c = g c) -> map_children f n = map_children g n.
Proof.
  intros H.
  destruct n as [ [defs dl] | d | [v vl t dflt dirs l] | [sl ss] | s | [nm v l] | [nm args l]
                | v | [[nm v] l] | t | [k t l] | [desc nm args t dirs l] | [desc nm t dflt dirs l]
                | [desc nm dirs l] | sv | nm ];
    try destruct d; try destruct s; try destruct v; cbn [map_children];
    repeat match goal with
           | |- context [e_list ?i ?p f ?l] =>
               rewrite (e_list_ext f g i p l) by (intros; apply H; solve_in)
           | |- context [e_req ?i ?p f ?x] =>
               rewrite (e_req_ext f g i p x) by (apply H; solve_in)
           | |- context [e_opt ?i ?p f ?o] =>
               rewrite (e_opt_ext f g i p o) by (intros; apply H; solve_in)
           end; reflexivity.
Qed.

(* if the edit of a node succeeds, the edit of each traversed child did *)
Lemma map_children_children_ok f n n' :
  map_children f n = Ok n' -> forall c, In c (tchildren n) -> exists r, f c = Ok r.
Proof.
  intros H c Hc.
  destruct n as [ [defs dl] | d | [v vl t dflt dirs l] | [sl ss] | s | [nm v l] | [nm args l]
                | v | [[nm v] l] | t | [k t l] | [desc nm args t dirs l] | [desc nm t dflt dirs l]
                | [desc nm dirs l] | sv | nm ];
    try destruct d; try destruct s; try destruct v;
    cbn [map_children] in H; repeat (inv_bind H);
    simpl in Hc; rewrite ?in_app_iff in Hc; simpl in Hc;
    repeat match goal with Hc : _ \/ _ |- _ => destruct Hc as [Hc|Hc] end;
    try contradiction;
    try (apply in_map_iff in Hc; destruct Hc as (x & <- & Hx));
    try (subst c);
    first [ eapply e_list_ok_in; eassumption
          | eapply e_req_ok; eassumption
          | eapply e_opt_ok_in; eassumption ].
Qed.

(* ------------------------------------------------------------------ reachability, the visit tree at every depth *)
Inductive reach (act : node -> action) : node -> node -> Prop :=
| reach_here n : reach act n n
| reach_keep n c m : act n = Keep -> In c (tchildren n) -> reach act c m -> reach act n m
| reach_repl n r c m : act n = Replace r -> In c (tchildren r) -> reach act c m -> reach act n m.

Definition vt_root (t : vt) : node := match t with VT n _ _ => n end.

(* a node of the visit tree obeys the decision taken for it *)
Definition step_ok (act : node -> action) (t : vt) : Prop :=
  match t with
  | VT x l cs =>
      match act x with
      | Delete | Skip => l = None /\ cs = []
      | Keep => l = Some x /\ map vt_root cs = tchildren x
      | Replace m => l = Some m /\ map vt_root cs = tchildren m
      end
  end.

Inductive subvt : vt -> vt -> Prop :=
| sub_here t : subvt t t
| sub_child x l cs c t : In c cs -> subvt c t -> subvt (VT x l cs) t.

Lemma vtree_root fuel act n : vt_root (vtree fuel act n) = n.
Proof. destruct fuel; simpl; [reflexivity|]. destruct (act n); reflexivity. Qed.

Lemma map_roots fuel act l : map vt_root (map (vtree fuel act) l) = l.
Proof. rewrite map_map. rewrite <- (map_id l) at 2. apply map_ext. intros. apply vtree_root. Qed.

Theorem vtree_deep act : forall fuel n r,
  apply fuel act n = Ok r -> forall t, subvt (vtree fuel act n) t -> step_ok act t.
Proof.
  induction fuel as [|fuel IH]; intros n r H t Hs; [discriminate|].
  simpl in H, Hs. destruct (act n) as [|m| |] eqn:A.
  - inv_bind H. inversion Hs as [|x l cs c t' Hc Hsub]; subst.
    + simpl. rewrite A. split; [reflexivity|apply map_roots].
    + apply in_map_iff in Hc. destruct Hc as (c0 & <- & Hc0).
      destruct (map_children_children_ok _ _ _ E c0 Hc0) as [r0 Hr0]. eapply IH; eassumption.
  - inv_bind H. inversion Hs as [|x l cs c t' Hc Hsub]; subst.
    + simpl. rewrite A. split; [reflexivity|apply map_roots].
    + apply in_map_iff in Hc. destruct Hc as (c0 & <- & Hc0).
      destruct (map_children_children_ok _ _ _ E c0 Hc0) as [r0 Hr0]. eapply IH; eassumption.
  - inversion Hs as [|x l cs c t' Hc Hsub]; subst; [simpl; rewrite A; auto|contradiction].
  - inversion Hs as [|x l cs c t' Hc Hsub]; subst; [simpl; rewrite A; auto|contradiction].
Qed.

(* the nodes of the visit tree are reached *)
Lemma subvt_reach act : forall fuel n t, subvt (vtree fuel act n) t -> reach act n (vt_root t).
Proof.
  induction fuel as [|fuel IH]; intros n t Hs; simpl in Hs.
  - inversion Hs; subst; [constructor|contradiction].
  - destruct (act n) as [|m| |] eqn:A; inversion Hs as [|x l cs c t' Hc Hsub]; subst;
      try (simpl; constructor); try contradiction.
    + apply in_map_iff in Hc. destruct Hc as (c0 & <- & Hc0). eapply reach_keep; eauto.
    + apply in_map_iff in Hc. destruct Hc as (c0 & <- & Hc0). eapply reach_repl; eauto.
Qed.

(* ------------------------------------------------------------------ decisions elsewhere do not matter *)
Lemma apply_local act act' : forall fuel n,
  (forall m, reach act n m -> act m = act' m) -> apply fuel act n = apply fuel act' n.
Proof.
  induction fuel as [|fuel IH]; intros n H; [reflexivity|]. simpl.
  rewrite <- (H n (reach_here _ _)). destruct (act n) as [|r| |] eqn:A; try reflexivity.
  - rewrite (map_children_local (apply fuel act) (apply fuel act') n); [reflexivity|].
    intros c Hc. apply IH. intros m Hm. apply H. eapply reach_keep; eauto.
  - rewrite (map_children_local (apply fuel act) (apply fuel act') r); [reflexivity|].
    intros c Hc. apply IH. intros m Hm. apply H. eapply reach_repl; eauto.
Qed.

Lemma vtree_local act act' : forall fuel n,
  (forall m, reach act n m -> act m = act' m) -> vtree fuel act n = vtree fuel act' n.
Proof.
  induction fuel as [|fuel IH]; intros n H; [reflexivity|]. simpl.
  rewrite <- (H n (reach_here _ _)). destruct (act n) as [|r| |] eqn:A; try reflexivity.
  - f_equal. apply map_ext_in. intros c Hc. apply IH. intros m Hm. apply H. eapply reach_keep; eauto.
  - f_equal. apply map_ext_in. intros c Hc. apply IH. intros m Hm. apply H. eapply reach_repl; eauto.
Qed.

(* ------------------------------------------------------------------ quiet subtrees *)
Definition quiet (act : node -> action) (n : node) : Prop := forall m, reach act n m -> act m = Keep.

Lemma quiet_child act n c : quiet act n -> In c (tchildren n) -> quiet act c.
Proof.
  intros Q Hc m Hm. apply Q. eapply reach_keep; [apply Q; constructor|eassumption|assumption].
Qed.

Theorem quiet_unchanged act fuel n r : quiet act n -> apply fuel act n = Ok r -> r = Some n.
Proof.
  intros Q H. rewrite (apply_local act (fun _ => Keep) fuel n Q) in H.
  eapply apply_keep; [|eassumption]. reflexivity.
Qed.

Theorem quiet_full_tree act fuel n : quiet act n -> vtree fuel act n = full_tree fuel n.
Proof. intros Q. rewrite (vtree_local act (fun _ => Keep) fuel n Q). apply vtree_keep. Qed.

(* ------------------------------------------------------------------ one member of a list *)
Section Member.
  Variable X : Type.
  Variable inj : X -> node.
  Variable proj : node -> option X.
  Hypothesis Hp : forall x, proj (inj x) = Some x.
  Variable act : node -> action.

  Lemma e_list_quiet fuel l : forall l',
    (forall y, In y l -> quiet act (inj y)) ->
    e_list inj proj (apply fuel act) l = Ok l' -> l' = l.
  Proof.
    induction l as [|y l IH]; simpl; intros l' Q H; [inversion H; reflexivity|].
    inv_bind H. inv_bind H. inversion H; subst. clear H.
    rewrite (IH a0) by (auto || (intros; apply Q; right; assumption)).
    unfold e_one in E. inv_bind E. apply quiet_unchanged in E1; [|apply Q; left; reflexivity]. subst.
    rewrite Hp in E. inversion E; subst. reflexivity.
  Qed.

  Section Around.
    Variables (fuel : nat) (pre post : list X) (x : X) (l' : list X).
    Hypothesis Qpre : forall y, In y pre -> quiet act (inj y).
    Hypothesis Qpost : forall y, In y post -> quiet act (inj y).
    Hypothesis Hrun : e_list inj proj (apply (S fuel) act) (pre ++ x :: post) = Ok l'.

    Lemma around : exists o, e_one inj proj (apply (S fuel) act) x = Ok o /\ l' = pre ++ olist o ++ post.
    Proof.
      destruct (e_list_member inj proj _ pre x post l' Hrun) as (a & o & b & Ea & Eo & Eb & ->).
      apply e_list_quiet in Ea; [|assumption]. apply e_list_quiet in Eb; [|assumption]. subst. eauto.
    Qed.

    (* returning nothing removes exactly that member *)
    Theorem member_delete : act (inj x) = Delete -> l' = pre ++ post.
    Proof.
      intros A. destruct around as (o & Eo & ->). unfold e_one in Eo. simpl in Eo. rewrite A in Eo.
      simpl in Eo. inversion Eo; subst. reflexivity.
    Qed.

    (* skipping leaves the list as it was *)
    Theorem member_skip : act (inj x) = Skip -> l' = pre ++ x :: post.
    Proof.
      intros A. destruct around as (o & Eo & ->). unfold e_one in Eo. simpl in Eo. rewrite A in Eo.
      simpl in Eo. rewrite Hp in Eo. inversion Eo; subst. reflexivity.
    Qed.

    (* a replacement whose own children are quiet substitutes exactly that member *)
    Theorem member_replace m : act (inj x) = Replace m ->
      (forall c, In c (tchildren m) -> quiet act c) ->
      exists x', proj m = Some x' /\ l' = pre ++ x' :: post.
    Proof.
      intros A Qm. destruct around as (o & Eo & ->). unfold e_one in Eo. simpl in Eo. rewrite A in Eo.
      inv_bind Eo. inv_bind E.
      assert (a0 = m).
      { rewrite (map_children_local (apply fuel act) (fun c => Ok (Some c)) m) in E0.
        - eapply (map_children_id (fun c => Ok (Some c))); [|exact E0].
          intros c r Hr. inversion Hr; reflexivity.
        - intros c Hc. destruct (map_children_children_ok _ _ _ E0 c Hc) as [r Hr].
          rewrite Hr. apply quiet_unchanged in Hr; [subst; reflexivity|apply Qm; assumption]. }
      subst. inversion E; subst. destruct (proj m) as [x'|]; [|discriminate].
      inversion Eo; subst. exists x'. auto.
    Qed.
  End Around.
End Member.

(* ------------------------------------------------------------------ at the level of the visitor model *)
Theorem visit_deep vs fuel n tr r :
  visit fuel vs n = Ok (tr, r) ->
  forall t, subvt (vtree fuel (compose (acts_of vs)) n) t ->
    step_ok (compose (acts_of vs)) t /\ reach (compose (acts_of vs)) n (vt_root t).
Proof.
  intros H t Hs. apply visit_refines in H. destruct H as [HA _].
  split; [eapply vtree_deep; eassumption|eapply subvt_reach; eassumption].
Qed.

Theorem visit_quiet vs fuel n tr r :
  visit fuel vs n = Ok (tr, r) -> quiet (compose (acts_of vs)) n ->
  r = Some n /\
  tr = render (enter_block (acts_of vs) 0) (leave_block 0 (length (acts_of vs))) (full_tree fuel n).
Proof.
  intros H Q. apply visit_refines in H. destruct H as [HA ->].
  split; [eapply quiet_unchanged; eassumption|]. unfold chain_events. rewrite quiet_full_tree by assumption.
  reflexivity.
Qed.

Theorem visit_local vs vs' fuel n :
  (forall m, reach (compose (acts_of vs)) n m -> compose (acts_of vs) m = compose (acts_of vs') m) ->
  apply fuel (compose (acts_of vs)) n = apply fuel (compose (acts_of vs')) n /\
  vtree fuel (compose (acts_of vs)) n = vtree fuel (compose (acts_of vs')) n.
Proof. intros H. split; [apply apply_local|apply vtree_local]; assumption. Qed.

(* a chain keeps a node exactly when each of its visitors does *)
Lemma compose_keep_iff acts n : compose acts n = Keep <-> forall a, In a acts -> a n = Keep.
Proof.
  induction acts as [|a rest IH]; simpl.
  - split; [intros _ a []|reflexivity].
  - split.
    + intros H. destruct (a n) as [|m| |] eqn:A; try discriminate.
      * intros b [<-|Hb]; [assumption|]. apply IH; assumption.
      * destruct (compose rest m); discriminate.
    + intros H. rewrite (H a (or_introl eq_refl)). apply IH. intros b Hb. apply H. right. assumption.
Qed.
