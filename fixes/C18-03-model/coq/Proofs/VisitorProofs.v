(* Proofs for C18: the model of lang/visitor.py refines the declarative visit
   (Spec/VisitorSpec.v), and the laws of the declarative visit. *)
From PyGql Require Import Lang.VisitorModel.

(* ------------------------------------------------------------------ generic *)
Lemma obind_ok {A B} (x : outcome A) (f : A -> outcome B) b :
  obind x f = Ok b -> exists a, x = Ok a /\ f a = Ok b.
Proof. destruct x; simpl; intros H; try discriminate; eauto. Qed.

Ltac inv_bind H :=
  let a := fresh "a" in
  let E := fresh "E" in
  apply obind_ok in H; destruct H as (a & E & H);
  try (destruct a as [? ?]).

Lemma flat_map_map {A B C} (h : A -> B) (k : B -> list C) (l : list A) :
  flat_map k (map h l) = flat_map (fun x => k (h x)) l.
Proof. induction l; simpl; congruence. Qed.

Lemma flat_map_ext' {A B} (h k : A -> list B) (l : list A) :
  (forall x, In x l -> h x = k x) -> flat_map h l = flat_map k l.
Proof.
  induction l as [|x l IH]; simpl; intros H; [reflexivity|].
  rewrite H by (left; reflexivity). rewrite IH; [reflexivity|]. intros; apply H; right; assumption.
Qed.

(* ------------------------------------------------------------------ slots *)
Section Slots.
  Variable rec : rec_t.
  Variable f : ed.
  Variable g : node -> trace.
  Hypothesis HR : forall c tr r, rec c = Ok (tr, r) -> f c = Ok r /\ tr = g c.

  Lemma m_one_ref {X} (inj : X -> node) (proj : node -> option X) x tr o :
    m_one inj proj rec x = Ok (tr, o) -> e_one inj proj f x = Ok o /\ tr = g (inj x).
  Proof.
    unfold m_one, e_one. intros H. inv_bind H. simpl in H.
    apply HR in E. destruct E as [E ->]. rewrite E. simpl.
    destruct o0 as [m|]; [destruct (proj m)|]; inversion H; subst; auto.
  Qed.

  Lemma maf_ref {X} (inj : X -> node) (proj : node -> option X) (l : list X) : forall tr l',
    map_and_filter inj proj rec l = Ok (tr, l') ->
    e_list inj proj f l = Ok l' /\ tr = flat_map g (map inj l).
  Proof.
    induction l as [|x l IH]; simpl; intros tr l' H.
    - inversion H; auto.
    - inv_bind H. apply m_one_ref in E. destruct E as [E ->].
      inv_bind H. apply IH in E0. destruct E0 as [E0 ->].
      simpl in H. inversion H; subst. rewrite E, E0. simpl. auto.
  Qed.

  Lemma m_req_ref {X} (inj : X -> node) (proj : node -> option X) x tr x' :
    m_req inj proj rec x = Ok (tr, x') -> e_req inj proj f x = Ok x' /\ tr = flat_map g [inj x].
  Proof.
    unfold m_req, e_req. intros H. inv_bind H. apply m_one_ref in E. destruct E as [E ->].
    rewrite E. simpl in *. rewrite app_nil_r. destruct o; inversion H; subst; auto.
  Qed.

  Lemma m_opt_ref {X} (inj : X -> node) (proj : node -> option X) o tr o' :
    m_opt inj proj rec o = Ok (tr, o') ->
    e_opt inj proj f o = Ok o' /\ tr = flat_map g (map inj (olist o)).
  Proof.
    unfold m_opt, e_opt. destruct o as [x|]; simpl; intros H.
    - apply m_one_ref in H. destruct H as [H ->]. rewrite app_nil_r. auto.
    - inversion H; auto.
  Qed.
End Slots.

Lemma via_R rec (f : ed) (g : node -> trace) t :
  (forall c tr r, rec c = Ok (tr, r) -> f c = Ok r /\ tr = g c) ->
  forall c tr r, via_table t rec c = Ok (tr, r) -> f c = Ok r /\ tr = g c.
Proof. unfold via_table. intros HR c tr r H. destruct (in_table (kind_of c) t); [auto|discriminate]. Qed.

(* ------------------------------------------------------------------ the method bodies *)
Ltac use_slots HR :=
  repeat match goal with
  | E : map_and_filter _ _ (via_table _ _) _ = Ok (_, _) |- _ =>
      apply (maf_ref _ _ _ (via_R _ _ _ _ HR)) in E; destruct E as [E ->]
  | E : map_and_filter _ _ _ _ = Ok (_, _) |- _ =>
      apply (maf_ref _ _ _ HR) in E; destruct E as [E ->]
  | E : m_req _ _ _ _ = Ok (_, _) |- _ =>
      apply (m_req_ref _ _ _ HR) in E; destruct E as [E ->]
  | E : m_opt _ _ _ _ = Ok (_, _) |- _ =>
      apply (m_opt_ref _ _ _ HR) in E; destruct E as [E ->]
  end.

Ltac finish_method :=
  match goal with H : Ok _ = Ok _ |- _ => inversion H; subst; clear H end;
  cbn [map_children tchildren];
  repeat match goal with E : _ = Ok _ |- _ => rewrite E; clear E end;
  simpl; split; [reflexivity|];
  rewrite ?flat_map_app; simpl; rewrite ?app_nil_r; reflexivity.

Lemma method_refines rec (f : ed) (g : node -> trace) :
  (forall c tr r, rec c = Ok (tr, r) -> f c = Ok r /\ tr = g c) ->
  forall n tr n', method rec n = Ok (tr, n') ->
    map_children f n = Ok n' /\ tr = flat_map g (tchildren n).
Proof.
  intros HR n tr n' H.
  destruct n as [ [defs dl] | d | [v vl t dflt dirs l] | [sl ss] | s | [nm v l] | [nm args l]
                | v | [[nm v] l] | t | [k t l] | [desc nm args t dirs l] | [desc nm t dflt dirs l]
                | [desc nm dirs l] | sv | nm ];
    try destruct d; try destruct s; try destruct v;
    cbn [method] in H; cbv zeta in H;
    repeat (inv_bind H); use_slots HR; simpl in H;
    try finish_method.
  (* SField: the optional selection set *)
  match goal with H : Ok _ = Ok _ |- _ => inversion H; subst; clear H end.
  cbn [map_children tchildren].
  repeat match goal with E : _ = Ok _ |- _ => rewrite E; clear E end.
  simpl. split.
  - match goal with |- context [match ?x with Some _ => _ | None => _ end] => destruct x end;
      simpl; try reflexivity; destruct (set_selset _ _); reflexivity.
  - rewrite ?flat_map_app; reflexivity.
Qed.

Lemma method_ev rec n tr n' :
  method rec n = Ok (tr, n') -> kind_of n' = kind_of n /\ loc_of n' = loc_of n.
Proof.
  intros H.
  destruct n as [ [defs dl] | d | [v vl t dflt dirs l] | [sl ss] | s | [nm v l] | [nm args l]
                | v | [[nm v] l] | t | [k t l] | [desc nm args t dirs l] | [desc nm t dflt dirs l]
                | [desc nm dirs l] | sv | nm ];
    try destruct d; try destruct s; try destruct v;
    cbn [method] in H; cbv zeta in H;
    repeat (inv_bind H); simpl in H; inversion H; subst; simpl; auto.
Qed.

(* ------------------------------------------------------------------ chain enter / leave *)
Definition acts_of (vs : list visitor) : list (node -> action) := map v_act vs.

Lemma chain_enter_spec vs : forall i n tr res,
  chain_enter i vs n = (tr, res) -> res <> ECrash ->
  tr = enter_block (acts_of vs) i n /\
  match res with
  | ECont n1 => (compose (acts_of vs) n = Keep /\ n1 = n) \/ compose (acts_of vs) n = Replace n1
  | EDelete => compose (acts_of vs) n = Delete
  | ESkip => compose (acts_of vs) n = Skip
  | ECrash => False
  end.
Proof.
  induction vs as [|v rest IH]; intros i n tr res H Hn; simpl in *.
  - inversion H; subst. auto.
  - destruct (enter_miss v n); [inversion H; subst; congruence|].
    destruct (v_act v n) as [|m| |] eqn:A.
    + destruct (chain_enter (S i) rest n) as [t r] eqn:C. simpl in H. inversion H; subst.
      apply IH in C; [|assumption]. destruct C as [-> C]. split; [reflexivity|exact C].
    + destruct (chain_enter (S i) rest m) as [t r] eqn:C. simpl in H. inversion H; subst.
      apply IH in C; [|assumption]. destruct C as [-> C]. split; [reflexivity|].
      destruct res; try contradiction.
      * destruct C as [[C ->]|C]; rewrite C; right; reflexivity.
      * rewrite C; reflexivity.
      * rewrite C; reflexivity.
    + inversion H; subst. auto.
    + inversion H; subst. auto.
Qed.

Lemma chain_leave_spec vs : forall i m tr,
  chain_leave i vs m = Some tr -> tr = leave_block i (length (acts_of vs)) m.
Proof.
  induction vs as [|v rest IH]; intros i m tr H; simpl in *.
  - inversion H; reflexivity.
  - destruct (chain_leave (S i) rest m) eqn:C; [|discriminate].
    destruct (leave_miss v m); [discriminate|]. inversion H; subst.
    rewrite (IH _ _ _ C). reflexivity.
Qed.

Lemma leave_block_ev a b : kind_of a = kind_of b -> loc_of a = loc_of b ->
  forall k i, leave_block i k a = leave_block i k b.
Proof.
  intros Hk Hl. induction k; intros i; simpl; [reflexivity|].
  rewrite IHk. unfold ev. rewrite Hk, Hl. reflexivity.
Qed.

(* ------------------------------------------------------------------ refinement *)
Theorem visit_refines vs : forall fuel n tr r,
  visit fuel vs n = Ok (tr, r) ->
  apply fuel (compose (acts_of vs)) n = Ok r /\ tr = chain_events fuel (acts_of vs) n.
Proof.
  induction fuel as [|fuel IH]; intros n tr r H; simpl in H; [discriminate|].
  unfold wrapper in H. destruct (chain_enter 0 vs n) as [tr0 res] eqn:CE.
  unfold chain_events.
  destruct res.
  - inv_bind H. simpl in H.
    destruct (chain_leave 0 vs n1) eqn:CL; [|discriminate]. inversion H; subst. clear H.
    apply chain_enter_spec in CE; [|discriminate]. destruct CE as [-> C].
    apply chain_leave_spec in CL. subst.
    pose proof (method_ev _ _ _ _ E) as [Hk Hl].
    apply (method_refines _ (apply fuel (compose (acts_of vs)))
             (fun c => chain_events fuel (acts_of vs) c)) in E; [|exact IH].
    destruct E as [E ->].
    rewrite (leave_block_ev _ _ Hk Hl).
    unfold chain_events.
    destruct C as [[C ->]|C]; simpl; rewrite C.
    + rewrite E. simpl. split; [reflexivity|]. rewrite flat_map_map. reflexivity.
    + rewrite E. simpl. split; [reflexivity|]. rewrite flat_map_map. reflexivity.
  - inversion H; subst. apply chain_enter_spec in CE; [|discriminate]. destruct CE as [-> C].
    simpl. rewrite C. auto.
  - inversion H; subst. apply chain_enter_spec in CE; [|discriminate]. destruct CE as [-> C].
    simpl. rewrite C. auto.
  - discriminate.
Qed.

(* ------------------------------------------------------------------ well-bracketedness *)
Lemma wb_app a b : wb a -> wb b -> wb (a ++ b).
Proof.
  intros Ha Hb. induction Ha; simpl.
  - assumption.
  - constructor; assumption.
  - rewrite <- app_assoc. simpl. apply wb_pair; assumption.
Qed.

Lemma wb_flat {A} (h : A -> trace) l : (forall x, In x l -> wb (h x)) -> wb (flat_map h l).
Proof.
  induction l as [|x l IH]; simpl; intros H; [constructor|].
  apply wb_app; [apply H; left; reflexivity|apply IH; intros; apply H; right; assumption].
Qed.

Lemma wb_enter_block acts : forall i n, wb (enter_block acts i n).
Proof.
  induction acts as [|a rest IH]; intros i n; simpl; [constructor|].
  unfold ev. apply wb_leaf. destruct (a n); auto; constructor.
Qed.

Lemma kind_pres_tail a rest : kind_pres (a :: rest) -> kind_pres rest.
Proof. intros H b n m Hin. apply H. right; assumption. Qed.

Lemma blocks_wb acts : kind_pres acts -> forall i n m mid,
  (compose acts n = Keep /\ m = n \/ compose acts n = Replace m) -> wb mid ->
  wb (enter_block acts i n ++ mid ++ leave_block i (length acts) m) /\ kind_of m = kind_of n.
Proof.
  induction acts as [|a rest IH]; intros KP i n m mid C Hm; simpl in *.
  - destruct C as [[_ ->]|C]; [|discriminate]. rewrite app_nil_r. auto.
  - pose proof (kind_pres_tail _ _ KP) as KP'.
    assert (Hstep : forall cur, kind_of cur = kind_of n ->
              (compose rest cur = Keep /\ m = cur \/ compose rest cur = Replace m) ->
              wb (ev i true n :: enter_block rest (S i) cur ++ mid
                  ++ leave_block (S i) (length rest) m ++ [ev i false m])
              /\ kind_of m = kind_of n).
    { intros cur Hk C'. destruct (IH KP' (S i) cur m mid C' Hm) as [W K].
      split; [|congruence].
      replace (enter_block rest (S i) cur ++ mid ++ leave_block (S i) (length rest) m ++ [ev i false m])
        with ((enter_block rest (S i) cur ++ mid ++ leave_block (S i) (length rest) m)
              ++ [ev i false m]) by (rewrite <- !app_assoc; reflexivity).
      unfold ev. rewrite K, Hk. apply wb_pair; [assumption|constructor]. }
    destruct (a n) as [|m0| |] eqn:A.
    + apply Hstep; [reflexivity|assumption].
    + assert (Hk : kind_of m0 = kind_of n) by (apply (KP a n m0); [left; reflexivity|assumption]).
      apply Hstep; [assumption|].
      destruct (compose rest m0) eqn:C0.
      * destruct C as [[C _]|C]; [discriminate|]. inversion C; subst. left; auto.
      * destruct C as [[C _]|C]; [discriminate|]. inversion C; subst. right; reflexivity.
      * destruct C as [[C _]|C]; discriminate.
      * destruct C as [[C _]|C]; discriminate.
    + destruct C as [[C _]|C]; discriminate.
    + destruct C as [[C _]|C]; discriminate.
Qed.

Theorem chain_events_wb acts : kind_pres acts -> forall fuel n, wb (chain_events fuel acts n).
Proof.
  intros KP. induction fuel as [|fuel IH]; intros n; unfold chain_events; simpl.
  - apply wb_enter_block.
  - destruct (compose acts n) as [|m| |] eqn:C; simpl; try apply wb_enter_block.
    + apply (blocks_wb acts KP 0 n n); [left; auto|].
      apply wb_flat. intros t Ht. apply in_map_iff in Ht. destruct Ht as (c & <- & _). apply IH.
    + apply (blocks_wb acts KP 0 n m); [right; assumption|].
      apply wb_flat. intros t Ht. apply in_map_iff in Ht. destruct Ht as (c & <- & _). apply IH.
Qed.

(* ------------------------------------------------------------------ exactly once *)
Lemma filter_flat_map {A B} (p : B -> bool) (h : A -> list B) l :
  filter p (flat_map h l) = flat_map (fun x => filter p (h x)) l.
Proof. induction l; simpl; [reflexivity|]. rewrite filter_app. congruence. Qed.

Lemma map_flat_map {A B C} (h : B -> C) (k : A -> list B) l :
  map h (flat_map k l) = flat_map (fun x => map h (k x)) l.
Proof. induction l; simpl; [reflexivity|]. rewrite map_app. congruence. Qed.

Theorem events_enters act : forall fuel n,
  enters (events fuel act n) = map (ev 0 true) (vt_entered (vtree fuel act n)).
Proof.
  unfold events, enters. induction fuel as [|fuel IH]; intros n; simpl; [reflexivity|].
  destruct (act n); simpl; try reflexivity.
  - f_equal. rewrite filter_app. simpl. rewrite app_nil_r.
    rewrite filter_flat_map, map_flat_map, !flat_map_map.
    apply flat_map_ext'. intros; apply IH.
  - f_equal. rewrite filter_app. simpl. rewrite app_nil_r.
    rewrite filter_flat_map, map_flat_map, !flat_map_map.
    apply flat_map_ext'. intros; apply IH.
Qed.

Theorem events_leaves act : forall fuel n,
  leaves (events fuel act n) = map (ev 0 false) (vt_left (vtree fuel act n)).
Proof.
  unfold events, leaves. induction fuel as [|fuel IH]; intros n; simpl; [reflexivity|].
  destruct (act n); simpl; try reflexivity.
  - rewrite filter_app. simpl. rewrite map_app. simpl. f_equal.
    rewrite filter_flat_map, map_flat_map, !flat_map_map.
    apply flat_map_ext'. intros; apply IH.
  - rewrite filter_app. simpl. rewrite map_app. simpl. f_equal.
    rewrite filter_flat_map, map_flat_map, !flat_map_map.
    apply flat_map_ext'. intros; apply IH.
Qed.

Lemma vtree_keep : forall fuel n, vtree fuel (fun _ => Keep) n = full_tree fuel n.
Proof.
  induction fuel as [|fuel IH]; intros n; simpl; [reflexivity|].
  f_equal. apply map_ext. assumption.
Qed.

(* a single visitor's blocks *)
Lemma enter_block_single a n : enter_block [a] 0 n = eb1 n.
Proof. simpl. unfold eb1. destruct (a n); reflexivity. Qed.

Lemma render_ext eb lb eb' lb' :
  (forall n, eb n = eb' n) -> (forall n, lb n = lb' n) ->
  forall fuel act n, render eb lb (vtree fuel act n) = render eb' lb' (vtree fuel act n).
Proof.
  intros He Hl. induction fuel as [|fuel IH]; intros act n; simpl; [apply He|].
  destruct (act n); simpl; rewrite ?He, ?Hl; try reflexivity.
  - do 2 f_equal. rewrite !flat_map_map. apply flat_map_ext'. intros; apply IH.
  - do 2 f_equal. rewrite !flat_map_map. apply flat_map_ext'. intros; apply IH.
Qed.

Lemma chain_events_single a fuel n : chain_events fuel [a] n = events fuel (compose [a]) n.
Proof.
  unfold chain_events, events. apply render_ext.
  - apply enter_block_single.
  - intros m. reflexivity.
Qed.

Lemma compose_single a n :
  compose [a] n = a n.
Proof. simpl. destruct (a n); reflexivity. Qed.

(* ------------------------------------------------------------------ identity *)
Section Id.
  Variable f : ed.
  Hypothesis Hf : forall c r, f c = Ok r -> r = Some c.

  Lemma e_one_id {X} (inj : X -> node) (proj : node -> option X)
        (Hp : forall x, proj (inj x) = Some x) x o :
    e_one inj proj f x = Ok o -> o = Some x.
  Proof.
    unfold e_one. intros H. inv_bind H. apply Hf in E. subst. rewrite Hp in H. inversion H; auto.
  Qed.

  Lemma e_list_id {X} (inj : X -> node) (proj : node -> option X)
        (Hp : forall x, proj (inj x) = Some x) l : forall l',
    e_list inj proj f l = Ok l' -> l' = l.
  Proof.
    induction l as [|x l IH]; simpl; intros l' H; [inversion H; auto|].
    inv_bind H. apply (e_one_id _ _ Hp) in E. subst. inv_bind H. apply IH in E. subst.
    inversion H; reflexivity.
  Qed.

  Lemma e_req_id {X} (inj : X -> node) (proj : node -> option X)
        (Hp : forall x, proj (inj x) = Some x) x x' :
    e_req inj proj f x = Ok x' -> x' = x.
  Proof.
    unfold e_req. intros H. inv_bind H. apply (e_one_id _ _ Hp) in E. subst. inversion H; auto.
  Qed.

  Lemma e_opt_id {X} (inj : X -> node) (proj : node -> option X)
        (Hp : forall x, proj (inj x) = Some x) o o' :
    e_opt inj proj f o = Ok o' -> o' = o.
  Proof.
    unfold e_opt. destruct o; intros H; [apply (e_one_id _ _ Hp) in H; auto|inversion H; auto].
  Qed.

  Ltac use_ids :=
    repeat match goal with
    | E : e_list _ _ _ _ = Ok _ |- _ => apply e_list_id in E; [subst|intros; reflexivity]
    | E : e_req _ _ _ _ = Ok _ |- _ =>
        apply e_req_id in E; [try (injection E as ? ?); subst|intros; reflexivity]
    | E : e_opt _ _ _ _ = Ok _ |- _ => apply e_opt_id in E; [subst|intros; reflexivity]
    end.

  Lemma map_children_id n n' : map_children f n = Ok n' -> n' = n.
  Proof.
    intros H.
    destruct n as [ [defs dl] | d | [v vl t dflt dirs l] | [sl ss] | s | [nm v l] | [nm args l]
                  | v | [[nm v] l] | t | [k t l] | [desc nm args t dirs l] | [desc nm t dflt dirs l]
                  | [desc nm dirs l] | sv | nm ];
      try destruct d; try destruct s; try destruct v;
      cbn [map_children] in H; repeat (inv_bind H); use_ids;
      try (inversion H; subst; reflexivity).
    (* SField *)
    match goal with H : context [match ?x with Some _ => _ | None => _ end] |- _ => destruct x end;
      simpl in H; inversion H; reflexivity.
  Qed.
End Id.

Lemma apply_keep act : (forall n, act n = Keep) ->
  forall fuel n r, apply fuel act n = Ok r -> r = Some n.
Proof.
  intros HK. induction fuel as [|fuel IH]; intros n r H; simpl in H; [discriminate|].
  rewrite HK in H. inv_bind H. apply (map_children_id _ IH) in E. subst. inversion H; auto.
Qed.

Lemma vtree_keep' act : (forall n, act n = Keep) -> forall fuel n, vtree fuel act n = full_tree fuel n.
Proof.
  intros HK. induction fuel as [|fuel IH]; intros n; simpl; [reflexivity|].
  rewrite HK. f_equal. apply map_ext. assumption.
Qed.

Lemma compose_all_keep acts : (forall a n, In a acts -> a n = Keep) -> forall n, compose acts n = Keep.
Proof.
  induction acts as [|a rest IH]; intros H n; simpl; [reflexivity|].
  rewrite (H a n) by (left; reflexivity). apply IH. intros; apply H; right; assumption.
Qed.

(* ------------------------------------------------------------------ locality in lists *)
Lemma e_list_app {X} (inj : X -> node) (proj : node -> option X) f l1 : forall l2 l',
  e_list inj proj f (l1 ++ l2) = Ok l' ->
  exists a b, e_list inj proj f l1 = Ok a /\ e_list inj proj f l2 = Ok b /\ l' = a ++ b.
Proof.
  induction l1 as [|x l1 IH]; simpl; intros l2 l' H.
  - exists [], l'. auto.
  - inv_bind H. inv_bind H. apply IH in E0. destruct E0 as (a1 & b & Ea & Eb & ->).
    inversion H; subst. rewrite E, Ea. simpl. exists (olist a ++ a1), b.
    rewrite app_assoc. auto.
Qed.

Theorem e_list_member {X} (inj : X -> node) (proj : node -> option X) f pre x post l' :
  e_list inj proj f (pre ++ x :: post) = Ok l' ->
  exists a o b, e_list inj proj f pre = Ok a /\ e_one inj proj f x = Ok o /\
                e_list inj proj f post = Ok b /\ l' = a ++ olist o ++ b.
Proof.
  intros H. apply e_list_app in H. destruct H as (a & b' & Ea & Eb & ->).
  simpl in Eb. inv_bind Eb. inv_bind Eb. inversion Eb; subst.
  exists a, a0, a1. auto.
Qed.

(* ------------------------------------------------------------------ chain order *)
Definition ev_idx (e : event) : nat := fst (fst (fst e)).

Lemma enter_block_idx acts : forall i n,
  exists j, j <= length acts /\ map ev_idx (enter_block acts i n) = seq i j /\
            ((compose acts n = Keep \/ exists m, compose acts n = Replace m) -> j = length acts).
Proof.
  induction acts as [|a rest IH]; intros i n; simpl.
  - exists 0. auto.
  - destruct (a n) as [|m| |] eqn:A.
    + destruct (IH (S i) n) as (j & Hj & Hm & Hc). exists (S j). simpl. rewrite Hm.
      repeat split; [lia|]. intros C. f_equal. auto.
    + destruct (IH (S i) m) as (j & Hj & Hm & Hc). exists (S j). simpl. rewrite Hm.
      repeat split; [lia|]. intros C. f_equal. apply Hc.
      destruct (compose rest m) eqn:C0;
        try (left; reflexivity); try (right; eexists; reflexivity);
        exfalso; destruct C as [C|[m' C]]; discriminate.
    + exists 1. simpl. repeat split; [lia|]. intros [C|[m' C]]; discriminate.
    + exists 1. simpl. repeat split; [lia|]. intros [C|[m' C]]; discriminate.
Qed.

Lemma leave_block_idx : forall k i m, map ev_idx (leave_block i k m) = rev (seq i k).
Proof.
  induction k; intros i m; simpl; [reflexivity|]. rewrite map_app, IHk. reflexivity.
Qed.

(* a Delete / Skip by one visitor: the visitors after it see nothing of the node *)
Lemma enter_block_stops pre : forall a post i n,
  (forall b, In b pre -> b n = Keep) -> (a n = Skip \/ a n = Delete) ->
  enter_block (pre ++ a :: post) i n = map (fun j => ev j true n) (seq i (S (length pre)))
  /\ compose (pre ++ a :: post) n = a n.
Proof.
  induction pre as [|b pre IH]; intros a post i n Hk Ha; simpl.
  - destruct Ha as [-> | ->]; auto.
  - rewrite (Hk b) by (left; reflexivity).
    destruct (IH a post (S i) n) as [E C]; [intros; apply Hk; right; assumption|assumption|].
    rewrite E, C. auto.
Qed.

(* ------------------------------------------------------------------ class tables *)
Lemma tables_total : forall k, k <> KName ->
  in_table k visit_table = true /\ in_table k dispatch_enter_table = true
  /\ in_table k dispatch_leave_table = true.
Proof. intros k Hk. destruct k; try (vm_compute; auto); congruence. Qed.

Lemma definition_table_total : forall d, in_table (kind_of_def d) definition_table = true.
Proof. intros d. destruct d; try destruct ext; reflexivity. Qed.

Lemma selection_table_total : forall s, in_table (kind_of (NSel s)) selection_table = true.
Proof. intros s. destruct s; reflexivity. Qed.

Lemma tchildren_not_name n c : In c (tchildren n) -> kind_of c <> KName.
Proof.
  intros H.
  assert (G : forall (X : Type) (inj : X -> node) l, (forall x, kind_of (inj x) <> KName) ->
              In c (map inj l) -> kind_of c <> KName).
  { intros X inj l Hx Hin. apply in_map_iff in Hin. destruct Hin as (x & <- & _). apply Hx. }
  assert (Hdef : forall d, kind_of (NDef d) <> KName)
    by (intros d; destruct d; simpl; try destruct ext; discriminate).
  assert (Hsel : forall s, kind_of (NSel s) <> KName) by (intros s; destruct s; discriminate).
  assert (Hval : forall v, kind_of (NVal v) <> KName) by (intros v; destruct v; discriminate).
  assert (Hty : forall t, kind_of (NType t) <> KName) by (intros t; destruct t; discriminate).
  destruct n as [ [defs dl] | d | [v vl t dflt dirs l] | [sl ss] | s | [nm v l] | [nm args l]
                | v | [[nm v] l] | t | [k t l] | [desc nm args t dirs l] | [desc nm t dflt dirs l]
                | [desc nm dirs l] | sv | nm ];
    try destruct d; try destruct s; try destruct v; simpl in H;
    try (destruct H as [<-|H]; [solve [auto]|]);
    repeat (apply in_app_or in H; destruct H as [H|H]);
    try contradiction;
    try (eapply G; [|exact H]; auto; intros; discriminate);
    try (destruct H as [<-|[]]; auto; discriminate).
Qed.

(* ------------------------------------------------------------------ coverage *)
Lemma coverage_partial n : gaps n = [] -> tchildren n = all_children n.
Proof.
  destruct n as [ [defs dl] | d | [v vl t dflt dirs l] | [sl ss] | s | [nm v l] | [nm args l]
                | v | [[nm v] l] | ty0 | [k t l] | [desc nm args t dirs l] | [desc nm t dflt dirs l]
                | [desc nm dirs l] | sv | nm ];
    try destruct d; try destruct s; try destruct v; try destruct ty0; simpl; intros H;
    try reflexivity; try discriminate;
    repeat match goal with
           | H : context [isSome ?d] |- _ => destruct d; simpl in H; try discriminate
           | H : context [nonempty ?l] |- _ => destruct l; simpl in H; try discriminate
           end;
    simpl; rewrite ?app_nil_r; reflexivity.
Qed.

Lemma vtree_ext act act' : (forall n, act n = act' n) ->
  forall fuel n, vtree fuel act n = vtree fuel act' n.
Proof.
  intros HE. induction fuel as [|fuel IH]; intros n; simpl; [reflexivity|].
  rewrite HE. destruct (act' n); try reflexivity; f_equal; apply map_ext; assumption.
Qed.

Lemma visit_once v fuel n tr r :
  visit fuel [v] n = Ok (tr, r) ->
  enters tr = map (ev 0 true) (vt_entered (vtree fuel (v_act v) n)) /\
  leaves tr = map (ev 0 false) (vt_left (vtree fuel (v_act v) n)).
Proof.
  intros H. apply visit_refines in H. destruct H as [_ ->].
  change (acts_of [v]) with [v_act v]. rewrite chain_events_single.
  rewrite events_enters, events_leaves.
  rewrite (vtree_ext _ _ (compose_single (v_act v))). auto.
Qed.

Lemma visit_identity vs fuel n tr r :
  (forall v m, In v vs -> v_act v m = Keep) -> visit fuel vs n = Ok (tr, r) ->
  r = Some n /\
  tr = render (enter_block (acts_of vs) 0) (leave_block 0 (length (acts_of vs))) (full_tree fuel n).
Proof.
  intros HK H. apply visit_refines in H. destruct H as [HA ->].
  assert (HC : forall m, compose (acts_of vs) m = Keep).
  { apply compose_all_keep. intros a m Hin. apply in_map_iff in Hin.
    destruct Hin as (v & <- & Hv). apply HK; assumption. }
  split; [eapply apply_keep; eassumption|].
  unfold chain_events. rewrite (vtree_keep' _ HC). reflexivity.
Qed.

Lemma visit_delete vs fuel n tr r :
  visit fuel vs n = Ok (tr, r) -> compose (acts_of vs) n = Delete ->
  r = None /\ tr = enter_block (acts_of vs) 0 n.
Proof.
  intros H C. apply visit_refines in H. destruct H as [HA ->].
  destruct fuel; simpl in HA; [discriminate|]. rewrite C in HA. inversion HA.
  unfold chain_events. simpl. rewrite C. auto.
Qed.

Lemma visit_skip vs fuel n tr r :
  visit fuel vs n = Ok (tr, r) -> compose (acts_of vs) n = Skip ->
  r = Some n /\ tr = enter_block (acts_of vs) 0 n.
Proof.
  intros H C. apply visit_refines in H. destruct H as [HA ->].
  destruct fuel; simpl in HA; [discriminate|]. rewrite C in HA. inversion HA.
  unfold chain_events. simpl. rewrite C. auto.
Qed.

Lemma visit_replace vs fuel n m tr r :
  visit (S fuel) vs n = Ok (tr, r) -> compose (acts_of vs) n = Replace m ->
  exists m', map_children (apply fuel (compose (acts_of vs))) m = Ok m' /\ r = Some m' /\
    tr = enter_block (acts_of vs) 0 n
         ++ flat_map (chain_events fuel (acts_of vs)) (tchildren m)
         ++ leave_block 0 (length (acts_of vs)) m.
Proof.
  intros H C. apply visit_refines in H. destruct H as [HA ->].
  simpl in HA. rewrite C in HA.
  inv_bind HA. inversion HA; subst. exists a. split; [assumption|]. split; [reflexivity|].
  unfold chain_events. simpl. rewrite C. simpl. rewrite flat_map_map. reflexivity.
Qed.

(* ---- witnesses of the coverage gaps ---- *)
Definition nm0 (x : string) : name := Name (str_of_string x) None.
Definition tnamed (x : string) : ty := TNamed (nm0 x) None.
Local Open Scope string_scope.
Definition gap_witness (g : gap) : node :=
  match g with
  | GInnerType => NType (TList (TNonNull (tnamed "T") None) None)
  | GTypeCondition => NSel (SInline (Some (tnamed "U")) [] None [] None)
  | GVarDefVariable => NVarDef (VarDef (nm0 "v") None (tnamed "Int") None [] None)
  | GVarDefDirectives => NVarDef (VarDef (nm0 "v") None (tnamed "Int") None [Dir (nm0 "d") [] None] None)
  | GFragVarDefs =>
      NDef (DFragment (nm0 "F") [VarDef (nm0 "v") None (tnamed "Int") None [] None] (tnamed "T") [] None [] None)
  | GDefaultBeforeType =>
      NVarDef (VarDef (nm0 "v") None (tnamed "Int") (Some (VInt (str_of_string "1") None)) [] None)
  | GTypeBeforeArguments =>
      NFieldDef (FDef None (nm0 "f") [IVDef None (nm0 "x") (tnamed "Int") None [] None] (tnamed "T") [] None)
  | GOpTypesBeforeDirectives =>
      NDef (DSchema false [Dir (nm0 "d") [] None] [OTDef OpQuery (tnamed "Q") None] None)
  | GDescription =>
      NFieldDef (FDef (Some (StrVal (str_of_string "d") false None)) (nm0 "f") [] (tnamed "T") [] None)
  end.

Lemma coverage_refuted : forall g,
  In g (gaps (gap_witness g)) /\ tchildren (gap_witness g) <> all_children (gap_witness g).
Proof. intros g. destruct g; (split; [vm_compute; auto|vm_compute; discriminate]). Qed.
