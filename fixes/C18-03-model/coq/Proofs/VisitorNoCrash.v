(* C18 -- when an editing visit cannot fail.  The model answers Crash in three
   situations only (a replacement of another class, a required child deleted,
   a class without table entry); under the two conditions on the visitors that
   exclude the first two, and for a root that is not a Name, the visit of
   every node is Ok or runs out of fuel -- it never crashes. *)
From PyGql Require Import Lang.VisitorModel Proofs.VisitorProofs Proofs.VisitorTermination.

(* the family of classes a node belongs to (one per wrapper of [node]; a
   description StringValue and a value StringValue are the same class in
   py-gql but stand in different attribute positions) *)
Definition sort_of (n : node) : nat :=
  match n with
  | NDoc _ => 0 | NDef _ => 1 | NVarDef _ => 2 | NSelSet _ => 3 | NSel _ => 4 | NArg _ => 5
  | NDir _ => 6 | NVal _ => 7 | NObjField _ => 8 | NType _ => 9 | NOpType _ => 10
  | NFieldDef _ => 11 | NIVDef _ => 12 | NEVDef _ => 13 | NDesc _ => 14 | NName _ => 15
  end.

(* the traversed children that the node class requires (deleting one leaves
   an object that is not an AST any more) *)
Definition required_children (n : node) : list node :=
  match n with
  | NDef (DOperation _ _ _ _ ssl sels _) => [NSelSet (ssl, sels)]
  | NDef (DFragment _ _ _ _ ssl sels _) => [NSelSet (ssl, sels)]
  | NSel (SInline _ _ ssl sub _) => [NSelSet (ssl, sub)]
  | NVarDef v => [NType (vd_type v)]
  | NArg a => [NVal (a_val a)]
  | NObjField f => [NVal (snd (fst f))]
  | NOpType o => [NType (ot_type o)]
  | NFieldDef f => [NType (fd_type f)]
  | NIVDef i => [NType (iv_type i)]
  | _ => []
  end.

Definition fine {A} (x : outcome A) : Prop := match x with Ok _ | OutOfFuel => True | _ => False end.

Lemma obind_fine {A B} (x : outcome A) (f : A -> outcome B) :
  fine x -> (forall a, x = Ok a -> fine (f a)) -> fine (obind x f).
Proof. destruct x; simpl; intros H1 H2; try contradiction; [apply H2; reflexivity|exact I]. Qed.

Definition slot_sorted {X} (inj : X -> node) (proj : node -> option X) : Prop :=
  forall x m, sort_of m = sort_of (inj x) -> exists x', proj m = Some x'.

Ltac sorted :=
  let y := fresh "y" in let m := fresh "m" in let Hm := fresh "Hm" in
  intros y m Hm; destruct m; simpl in Hm; try discriminate Hm; eexists; reflexivity.

Section Fine.
  Variable rec : rec_t.

  Definition rec_ok (c : node) : Prop :=
    fine (rec c) /\ forall tr m, rec c = Ok (tr, Some m) -> sort_of m = sort_of c.
  Definition rec_some (c : node) : Prop := forall tr, rec c <> Ok (tr, None).

  Lemma m_one_fine {X} (inj : X -> node) (proj : node -> option X) x :
    slot_sorted inj proj -> rec_ok (inj x) -> fine (m_one inj proj rec x).
  Proof.
    intros Hs [Hf Hm]. unfold m_one. apply obind_fine; [assumption|].
    intros [tr [m|]] E; simpl; [|exact I]. destruct (Hs x m (Hm _ _ E)) as [x' ->]. exact I.
  Qed.

  Lemma maf_fine {X} (inj : X -> node) (proj : node -> option X) l :
    slot_sorted inj proj -> (forall x, In x l -> rec_ok (inj x)) -> fine (map_and_filter inj proj rec l).
  Proof.
    intros Hs. induction l as [|x l IH]; intros H; simpl; [exact I|].
    apply obind_fine; [apply m_one_fine; [assumption|apply H; left; reflexivity]|]. intros p _.
    apply obind_fine; [apply IH; intros; apply H; right; assumption|]. intros q _. exact I.
  Qed.

  Lemma m_req_fine {X} (inj : X -> node) (proj : node -> option X) x :
    slot_sorted inj proj -> rec_ok (inj x) -> rec_some (inj x) -> fine (m_req inj proj rec x).
  Proof.
    intros Hs Hr Hsome. unfold m_req. apply obind_fine; [apply m_one_fine; assumption|].
    intros [tr [x'|]] E; simpl; [exact I|]. exfalso. unfold m_one in E.
    destruct (rec (inj x)) as [[tr1 [m|]]| | |] eqn:R; simpl in E; try discriminate.
    - destruct (proj m); discriminate.
    - exact (Hsome tr1 R).
  Qed.

  Lemma m_opt_fine {X} (inj : X -> node) (proj : node -> option X) o :
    slot_sorted inj proj -> (forall x, o = Some x -> rec_ok (inj x)) -> fine (m_opt inj proj rec o).
  Proof.
    intros Hs H. unfold m_opt. destruct o as [x|]; [|exact I]. apply m_one_fine; [assumption|apply H; reflexivity].
  Qed.
End Fine.

Lemma via_ok t rec n : in_table (kind_of n) t = true -> rec_ok rec n -> rec_ok (via_table t rec) n.
Proof. intros Ht H. unfold rec_ok, via_table. rewrite Ht. exact H. Qed.

Lemma method_fine rec n :
  (forall c, In c (tchildren n) -> rec_ok rec c) ->
  (forall c, In c (required_children n) -> rec_some rec c) ->
  fine (method rec n).
Proof.
  intros H Hreq.
  destruct n as [ [defs dl] | d | [v vl t dflt dirs l] | [sl ss] | s | [nm v l] | [nm args l]
                | v | [[nm v] l] | t | [k t l] | [desc nm args t dirs l] | [desc nm t dflt dirs l]
                | [desc nm dirs l] | sv | nm ];
    try destruct d; try destruct s; try destruct v;
    cbn [method]; cbv zeta;
    repeat (apply obind_fine;
            [ first [ apply maf_fine;
                      [ sorted
                      | intros x Hx;
                        try (apply via_ok;
                             [first [apply definition_table_total | apply selection_table_total]|]);
                        apply H; in_tch ]
                    | apply m_req_fine; [ sorted | apply H; in_tch | apply Hreq; simpl; auto ]
                    | apply m_opt_fine;
                      [ sorted
                      | intros x Hx; apply H; try subst; try (cbn [tchildren]; rewrite Hx); in_tch ] ]
            | intros ? _ ]);
    try exact I.
  all: try (destruct sl; exact I).
Qed.

Lemma method_sort rec n tr n' : method rec n = Ok (tr, n') -> sort_of n' = sort_of n.
Proof.
  intros H.
  destruct n as [ [defs dl] | d | [v vl t dflt dirs l] | [sl ss] | s | [nm v l] | [nm args l]
                | v | [[nm v] l] | t | [k t l] | [desc nm args t dirs l] | [desc nm t dflt dirs l]
                | [desc nm dirs l] | sv | nm ];
    try destruct d; try destruct s; try destruct v;
    cbn [method] in H; cbv zeta in H;
    repeat (inv_bind H); simpl in H; inversion H; subst; reflexivity.
Qed.

(* replacements are of the class of what they replace *)
Definition class_pres (vs : list visitor) : Prop :=
  forall v x m, In v vs -> v_act v x = Replace m -> kind_of m = kind_of x /\ sort_of m = sort_of x.

Lemma class_pres_tail v rest : class_pres (v :: rest) -> class_pres rest.
Proof. intros H v0 x m Hin. apply H. right. assumption. Qed.

Lemma chain_enter_class vs : class_pres vs -> forall i n tr n1,
  chain_enter i vs n = (tr, ECont n1) -> kind_of n1 = kind_of n /\ sort_of n1 = sort_of n.
Proof.
  induction vs as [|v rest IH]; intros Hc i n tr n1 H; simpl in H.
  - inversion H; subst. auto.
  - destruct (enter_miss v n); [discriminate|].
    destruct (v_act v n) as [|m| |] eqn:A.
    + destruct (chain_enter (S i) rest n) as [t r] eqn:C. simpl in H. inversion H; subst.
      apply (IH (class_pres_tail _ _ Hc) _ _ _ _ C).
    + destruct (chain_enter (S i) rest m) as [t r] eqn:C. simpl in H. inversion H; subst.
      destruct (IH (class_pres_tail _ _ Hc) _ _ _ _ C) as [K1 S1].
      destruct (Hc v n m (or_introl eq_refl) A) as [K2 S2]. split; congruence.
    + discriminate.
    + discriminate.
Qed.

Lemma chain_enter_no_crash vs : class_pres vs -> forall i n tr,
  kind_of n <> KName -> chain_enter i vs n <> (tr, ECrash).
Proof.
  induction vs as [|v rest IH]; intros Hc i n tr Hk H; simpl in H; [inversion H|].
  unfold enter_miss in H. destruct (tables_total _ Hk) as (_ & He & _). rewrite He, andb_false_r in H.
  destruct (v_act v n) as [|m| |] eqn:A.
  - destruct (chain_enter (S i) rest n) as [t r] eqn:C. simpl in H. inversion H; subst.
    exact (IH (class_pres_tail _ _ Hc) _ _ _ Hk C).
  - destruct (chain_enter (S i) rest m) as [t r] eqn:C. simpl in H. inversion H; subst.
    destruct (Hc v n m (or_introl eq_refl) A) as [K2 _].
    refine (IH (class_pres_tail _ _ Hc) _ _ _ _ C). congruence.
  - inversion H.
  - inversion H.
Qed.

Lemma visit_sort vs : class_pres vs -> forall fuel n tr m,
  visit fuel vs n = Ok (tr, Some m) -> sort_of m = sort_of n.
Proof.
  intros Hc. induction fuel as [|fuel IH]; intros n tr m H; [discriminate|].
  cbn [visit] in H. unfold wrapper in H. destruct (chain_enter 0 vs n) as [tr0 res] eqn:CE.
  destruct res as [n1| | |].
  - inv_bind H. simpl in H. destruct (chain_leave 0 vs n0); [|discriminate]. inversion H; subst.
    destruct (chain_enter_class vs Hc _ _ _ _ CE) as [_ S1].
    rewrite (method_sort _ _ _ _ E). assumption.
  - inversion H.
  - inversion H; subst. reflexivity.
  - discriminate.
Qed.

Lemma visit_none_delete vs fuel n tr :
  visit fuel vs n = Ok (tr, None) -> compose (acts_of vs) n = Delete.
Proof.
  intros H. apply visit_refines in H. destruct H as [HA _].
  destruct fuel; simpl in HA; [discriminate|].
  destruct (compose (acts_of vs) n) as [|m| |]; try reflexivity.
  - inv_bind HA. discriminate.
  - inv_bind HA. discriminate.
  - discriminate.
Qed.

Theorem visit_fine vs : class_pres vs ->
  (forall p c, In c (required_children p) -> compose (acts_of vs) c <> Delete) ->
  forall fuel n, kind_of n <> KName -> fine (visit fuel vs n).
Proof.
  intros Hc Hreq. induction fuel as [|fuel IH]; intros n Hk; [exact I|].
  cbn [visit]. unfold wrapper. destruct (chain_enter 0 vs n) as [tr0 res] eqn:CE.
  destruct res as [n1| | |].
  - destruct (chain_enter_class vs Hc _ _ _ _ CE) as [K1 S1].
    apply obind_fine.
    + apply method_fine.
      * intros c Hcin. split; [apply IH; apply (tchildren_not_name n1 c Hcin)|].
        intros tr m E. eapply visit_sort; eassumption.
      * intros c Hcin tr E. apply visit_none_delete in E. exact (Hreq n1 c Hcin E).
    + intros [tr1 n2] E. simpl. destruct (method_ev _ _ _ _ E) as [Hk2 _].
      destruct (chain_leave_keep vs 0 n2) as [tr2 E2]; [congruence|]. rewrite E2. exact I.
  - exact I.
  - exact I.
  - exfalso. exact (chain_enter_no_crash vs Hc 0 n tr0 Hk CE).
Qed.

(* with C18_terminates: enough fuel gives Ok *)
Theorem visit_ok vs : class_pres vs ->
  (forall p c, In c (required_children p) -> compose (acts_of vs) c <> Delete) ->
  (forall v x m, In v vs -> v_act v x = Replace m -> node_size m <= node_size x) ->
  forall fuel n, kind_of n <> KName -> node_size n <= fuel ->
  exists tr r, visit fuel vs n = Ok (tr, r).
Proof.
  intros Hc Hreq Hng fuel n Hk Hsz.
  pose proof (visit_fine vs Hc Hreq fuel n Hk) as Hf.
  pose proof (visit_terminates vs Hng fuel n Hsz) as Ht.
  destruct (visit fuel vs n) as [[tr r]| | |]; try contradiction; try congruence; eauto.
Qed.

(* each condition is needed *)
Definition nc_name (x : string) : name := Name (str_of_string x) None.
Example required_delete_crashes :
  let arg := NArg (Arg (nc_name "a") (VInt (str_of_string "1") None) None) in
  visit 5 [Visitor false (fun n => match n with NVal _ => Delete | _ => Keep end)] arg = Crash 2.
Proof. reflexivity. Qed.

Example other_class_crashes :
  let arg := NArg (Arg (nc_name "a") (VInt (str_of_string "1") None) None) in
  visit 5 [Visitor false (fun n => match n with
                                   | NVal _ => Replace (NType (TNamed (nc_name "T") None))
                                   | _ => Keep end)] arg = Crash 1.
Proof. reflexivity. Qed.

Lemma fine_cases {A} (x : outcome A) : fine x -> x = OutOfFuel \/ exists a, x = Ok a.
Proof. destruct x; simpl; intros H; try contradiction; eauto. Qed.

Theorem visit_never_crashes vs : class_pres vs ->
  (forall p c, In c (required_children p) -> compose (acts_of vs) c <> Delete) ->
  forall fuel n, kind_of n <> KName ->
    (visit fuel vs n = OutOfFuel \/ exists tr r, visit fuel vs n = Ok (tr, r)) /\
    (visit_top fuel vs n = visit fuel vs n).
Proof.
  intros Hc Hreq fuel n Hk. split.
  - destruct (fine_cases _ (visit_fine vs Hc Hreq fuel n Hk)) as [H|[[tr r] H]]; eauto.
  - unfold visit_top. destruct (tables_total _ Hk) as (Hv & _ & _). rewrite Hv. reflexivity.
Qed.

(* utilities/ast_transforms.py: RemoveFieldAliasesVisitor and
   CamelCaseToSnakeCaseVisitor satisfy the three conditions *)
Theorem transform_total (d : bool) act :
  act = act_remove_aliases \/ act = act_camel_to_snake ->
  forall fuel n, kind_of n <> KName -> node_size n <= fuel ->
  exists tr r, visit fuel [Visitor d act] n = Ok (tr, r).
Proof.
  intros Ha. apply visit_ok.
  - intros v x m [<-|[]] A. simpl in A.
    destruct Ha; subst act; destruct x as [| | | |s| | | | | | | | | | |]; try discriminate;
      destruct s as [al nm args dirs sl sub l| |]; try discriminate;
      try (destruct al; try discriminate); inversion A; subst; split; reflexivity.
  - intros p c _. simpl.
    destruct Ha; subst act; destruct c as [| | | |s| | | | | | | | | | |]; simpl; try discriminate;
      destruct s as [al nm args dirs sl sub l| |]; simpl; try discriminate;
      try (destruct al; discriminate).
  - intros v x m [<-|[]] A. simpl in A.
    destruct Ha; subst act; destruct x as [| | | |s| | | | | | | | | | |]; try discriminate;
      destruct s as [al nm args dirs sl sub l| |]; try discriminate;
      try (destruct al; try discriminate); inversion A; subst; simpl; lia.
Qed.
