(* C18 -- fuel adequacy of the visitor model, and exactness of the coverage guard. *)
From PyGql Require Import Lang.VisitorModel Proofs.VisitorProofs.
From Coq Require Import Lia.

Definition sum {A} (f : A -> nat) (l : list A) : nat := fold_right (fun x acc => f x + acc) 0 l.

Lemma sum_in {A} (f : A -> nat) l x : In x l -> f x <= sum f l.
Proof. induction l as [|y l IH]; [intros []|]. simpl. intros [->|H]; [lia|specialize (IH H); lia]. Qed.

(* number of traversed nodes below (and including) a node, per sort *)
Fixpoint size_value (v : value) : nat :=
  match v with
  | VList vs _ => S ((fix go (l : list value) := match l with [] => 0 | x :: r => size_value x + go r end) vs)
  | VObject fs _ =>
      S ((fix go (l : list (name * value * loc)) :=
            match l with [] => 0 | f :: r => S (size_value (snd (fst f))) + go r end) fs)
  | _ => 1
  end.

Lemma size_value_list vs l : size_value (VList vs l) = S (sum size_value vs).
Proof.
  cbn [size_value]. f_equal.
Qed.
Lemma size_value_object fs l :
  size_value (VObject fs l) = S (sum (fun f : name * value * loc => S (size_value (snd (fst f)))) fs).
Proof.
  cbn [size_value]. f_equal.
Qed.

Definition size_arg (a : argument) : nat := S (size_value (a_val a)).
Definition size_dir (d : directive) : nat := S (sum size_arg (d_args d)).
Definition size_dirs (ds : list directive) : nat := sum size_dir ds.

Fixpoint size_sel (s : selection) : nat :=
  let go := fix go (l : list selection) := match l with [] => 0 | x :: r => size_sel x + go r end in
  match s with
  | SField _ _ args dirs sl sub _ =>
      S (sum size_arg args + size_dirs dirs + match sl with Some _ => S (go sub) | None => 0 end)
  | SSpread _ dirs _ => S (size_dirs dirs)
  | SInline _ dirs _ sub _ => S (size_dirs dirs + S (go sub))
  end.

Lemma size_sel_go sub :
  (fix go (l : list selection) := match l with [] => 0 | x :: r => size_sel x + go r end) sub
  = sum size_sel sub.
Proof. reflexivity. Qed.

Definition size_selset (ss : list selection) : nat := S (sum size_sel ss).
Definition size_opt {A} (f : A -> nat) (o : option A) : nat := match o with Some x => f x | None => 0 end.
Definition size_vardef (v : var_def) : nat := S (size_opt size_value (vd_default v) + 1).
Definition size_ivdef (i : input_value_def) : nat :=
  S (1 + size_opt size_value (iv_default i) + size_dirs (iv_dirs i)).
Definition size_fdef (f : field_def) : nat := S (1 + sum size_ivdef (fd_args f) + size_dirs (fd_dirs f)).
Definition size_evdef (e : enum_value_def) : nat := S (size_dirs (ev_dirs e)).

Definition size_def (d : definition) : nat :=
  match d with
  | DOperation _ _ vds dirs _ sels _ => S (sum size_vardef vds + size_dirs dirs + size_selset sels)
  | DFragment _ _ _ dirs _ sels _ => S (size_dirs dirs + size_selset sels)
  | DSchema _ dirs ots _ => S (sum (fun _ => 2) ots + size_dirs dirs)
  | DScalar _ _ _ dirs _ => S (size_dirs dirs)
  | DObject _ _ _ ifaces dirs fields _ => S (sum (fun _ => 1) ifaces + size_dirs dirs + sum size_fdef fields)
  | DInterface _ _ _ dirs fields _ => S (size_dirs dirs + sum size_fdef fields)
  | DUnion _ _ _ dirs types _ => S (size_dirs dirs + sum (fun _ => 1) types)
  | DEnum _ _ _ dirs vals _ => S (size_dirs dirs + sum size_evdef vals)
  | DInput _ _ _ dirs fields _ => S (size_dirs dirs + sum size_ivdef fields)
  | DDirective _ _ args _ _ => S (sum size_ivdef args)
  end.

Definition node_size (n : node) : nat :=
  match n with
  | NDoc d => S (sum size_def (doc_defs d))
  | NDef d => size_def d
  | NVarDef v => size_vardef v
  | NSelSet s => size_selset (snd s)
  | NSel s => size_sel s
  | NArg a => size_arg a
  | NDir d => size_dir d
  | NVal v => size_value v
  | NObjField f => S (size_value (snd (fst f)))
  | NType _ => 1
  | NOpType _ => 2
  | NFieldDef f => size_fdef f
  | NIVDef i => size_ivdef i
  | NEVDef e => size_evdef e
  | NDesc _ => 1
  | NName _ => 1
  end.

Lemma in_map_size {X} (inj : X -> node) (sz : X -> nat) l c :
  (forall x, node_size (inj x) = sz x) -> In c (map inj l) -> node_size c <= sum sz l.
Proof.
  intros H Hin. apply in_map_iff in Hin. destruct Hin as (x & <- & Hx). rewrite H. apply sum_in. assumption.
Qed.

Arguments sum : simpl never.

Lemma size_value_go vs :
  (fix go (l : list value) := match l with [] => 0 | x :: r => size_value x + go r end) vs
  = sum size_value vs.
Proof. reflexivity. Qed.
Lemma size_fields_go fs :
  (fix go (l : list (name * value * loc)) :=
     match l with [] => 0 | f :: r => S (size_value (snd (fst f))) + go r end) fs
  = sum (fun f : name * value * loc => S (size_value (snd (fst f)))) fs.
Proof. reflexivity. Qed.

Lemma child_size n c : In c (tchildren n) -> node_size c < node_size n.
Proof.
  intros H.
  destruct n as [ [defs dl] | d | [v vl t dflt dirs l] | [sl ss] | s | [nm v l] | [nm args l]
                | v | [[nm v] l] | t | [k t l] | [desc nm args t dirs l] | [desc nm t dflt dirs l]
                | [desc nm dirs l] | sv | nm ];
    try destruct d; try destruct s; try destruct v; try destruct dflt; try destruct sl;
    simpl in H;
    repeat (apply in_app_or in H; destruct H as [H|H]);
    try contradiction;
    repeat match goal with
           | H : In _ (_ ++ _) |- _ => apply in_app_or in H
           | H : In _ (_ :: _) |- _ => simpl in H
           | H : _ \/ _ |- _ => destruct H as [H|H]
           | H : False |- _ => contradiction
           end;
    try (match goal with H : _ = c |- _ => subst c end);
    try (apply in_map_iff in H; destruct H as (x & <- & Hx));
    simpl; rewrite ?size_sel_go, ?size_value_go, ?size_fields_go;
    unfold size_dirs, size_selset, size_vardef, size_ivdef, size_fdef, size_evdef, size_arg, size_dir,
           size_opt; simpl; rewrite ?size_sel_go, ?size_value_go, ?size_fields_go;
    repeat (unfold size_dirs, size_selset, size_vardef, size_ivdef, size_fdef, size_evdef, size_arg,
                   size_dir, size_opt in *; cbn beta in *);
    try (match goal with
         | Hx : In ?x ?l |- context [sum ?f ?l] => pose proof (sum_in f l x Hx)
         end);
    cbn beta in *;
    try lia; try (apply le_n).
Qed.

(* ---- no OutOfFuel below a node when none arises at its children ---- *)
Lemma obind_no_oof {A B} (x : outcome A) (f : A -> outcome B) :
  x <> OutOfFuel -> (forall a, x = Ok a -> f a <> OutOfFuel) -> obind x f <> OutOfFuel.
Proof. destruct x; simpl; intros H1 H2; try discriminate; [apply H2; reflexivity|contradiction]. Qed.

Section NoOof.
  Variable rec : rec_t.

  Lemma m_one_no_oof {X} (inj : X -> node) (proj : node -> option X) x :
    rec (inj x) <> OutOfFuel -> m_one inj proj rec x <> OutOfFuel.
  Proof.
    intros H. unfold m_one. apply obind_no_oof; [assumption|]. intros p _.
    destruct (snd p) as [m|]; [destruct (proj m)|]; discriminate.
  Qed.

  Lemma maf_no_oof {X} (inj : X -> node) (proj : node -> option X) l :
    (forall x, In x l -> rec (inj x) <> OutOfFuel) -> map_and_filter inj proj rec l <> OutOfFuel.
  Proof.
    induction l as [|x l IH]; intros H; simpl; [discriminate|].
    apply obind_no_oof; [apply m_one_no_oof; apply H; left; reflexivity|]. intros p _.
    apply obind_no_oof; [apply IH; intros; apply H; right; assumption|]. intros q _. discriminate.
  Qed.

  Lemma m_req_no_oof {X} (inj : X -> node) (proj : node -> option X) x :
    rec (inj x) <> OutOfFuel -> m_req inj proj rec x <> OutOfFuel.
  Proof.
    intros H. unfold m_req. apply obind_no_oof; [apply m_one_no_oof; assumption|]. intros p _.
    destruct (snd p); discriminate.
  Qed.

  Lemma m_opt_no_oof {X} (inj : X -> node) (proj : node -> option X) o :
    (forall x, o = Some x -> rec (inj x) <> OutOfFuel) -> m_opt inj proj rec o <> OutOfFuel.
  Proof.
    intros H. unfold m_opt. destruct o as [x|]; [apply m_one_no_oof; apply H; reflexivity|discriminate].
  Qed.
End NoOof.

Lemma via_no_oof t rec n : rec n <> OutOfFuel -> via_table t rec n <> OutOfFuel.
Proof. unfold via_table. destruct (in_table (kind_of n) t); [auto|discriminate]. Qed.

Ltac in_tch :=
  cbn [tchildren olist map app field_selset doc_defs vd_default vd_type a_val d_args snd fst
       ot_type fd_type fd_args fd_dirs iv_type iv_default iv_dirs ev_dirs];
  simpl; repeat rewrite in_app_iff; simpl; auto 12 using in_map.

Lemma method_no_oof rec n :
  (forall c, In c (tchildren n) -> rec c <> OutOfFuel) -> method rec n <> OutOfFuel.
Proof.
  intros H.
  destruct n as [ [defs dl] | d | [v vl t dflt dirs l] | [sl ss] | s | [nm v l] | [nm args l]
                | v | [[nm v] l] | t | [k t l] | [desc nm args t dirs l] | [desc nm t dflt dirs l]
                | [desc nm dirs l] | sv | nm ];
    try destruct d; try destruct s; try destruct v;
    cbn [method]; cbv zeta;
    repeat (apply obind_no_oof;
            [ first [ apply maf_no_oof; intros x Hx; try apply via_no_oof; apply H; in_tch
                    | apply m_req_no_oof; apply H; in_tch
                    | apply m_opt_no_oof; intros x Hx; apply H; try subst; try (cbn [tchildren]; rewrite Hx); in_tch ]
            | intros ? _ ]);
    try discriminate.
  (* SField: optional selection set *)
  all: try (destruct sl; simpl; discriminate).
Qed.

(* ---- termination ---- *)
(* replacements are no larger than what they replace *)
Definition non_growing (vs : list visitor) : Prop :=
  forall v x m, In v vs -> v_act v x = Replace m -> node_size m <= node_size x.

Lemma chain_enter_size vs : (forall v x m, In v vs -> v_act v x = Replace m -> node_size m <= node_size x) ->
  forall i n tr n1, chain_enter i vs n = (tr, ECont n1) -> node_size n1 <= node_size n.
Proof.
  induction vs as [|v rest IH]; intros Hng i n tr n1 H; simpl in H.
  - inversion H; subst. lia.
  - assert (Hng' : forall v x m, In v rest -> v_act v x = Replace m -> node_size m <= node_size x)
      by (intros v0 x m Hin; apply Hng; right; assumption).
    destruct (enter_miss v n); [discriminate|].
    destruct (v_act v n) as [|m| |] eqn:A.
    + destruct (chain_enter (S i) rest n) as [t r] eqn:C. simpl in H. inversion H; subst.
      apply (IH Hng' _ _ _ _ C).
    + destruct (chain_enter (S i) rest m) as [t r] eqn:C. simpl in H. inversion H; subst.
      pose proof (IH Hng' _ _ _ _ C). pose proof (Hng v n m (or_introl eq_refl) A). lia.
    + discriminate.
    + discriminate.
Qed.

Lemma node_size_pos n : 1 <= node_size n.
Proof.
  destruct n as [d|d|v|s|s|a|d|v|f|t|o|f|i|e|sv|nm]; simpl; try lia;
    try (destruct d; simpl; lia); try (destruct s; simpl; lia); try (destruct v; simpl; lia);
    unfold size_vardef, size_selset, size_arg, size_dir, size_fdef, size_ivdef, size_evdef; lia.
Qed.

Theorem visit_terminates vs : non_growing vs ->
  forall fuel n, node_size n <= fuel -> visit fuel vs n <> OutOfFuel.
Proof.
  intros Hng. induction fuel as [|fuel IH]; intros n Hn.
  - exfalso. pose proof (node_size_pos n). lia.
  - cbn [visit]. unfold wrapper. destruct (chain_enter 0 vs n) as [tr0 res] eqn:CE.
    destruct res; try discriminate.
    pose proof (chain_enter_size vs Hng _ _ _ _ CE) as Hsz.
    apply obind_no_oof.
    + apply method_no_oof. intros c Hc. apply IH. pose proof (child_size n0 c Hc). lia.
    + intros p _. destruct (chain_leave 0 vs (snd p)); discriminate.
Qed.

(* keep / delete / skip visitors (no replacement) are non-growing *)
Lemma no_replace_non_growing vs :
  (forall v x m, In v vs -> v_act v x <> Replace m) -> non_growing vs.
Proof. intros H v x m Hin A. exfalso. apply (H v x m Hin A). Qed.

(* ---- the coverage guard is exact ---- *)
Lemma coverage_exact n : tchildren n = all_children n <-> gaps n = [].
Proof.
  split; [|apply coverage_partial].
  intros E.
  assert (HL : length (tchildren n) = length (all_children n)) by (rewrite E; reflexivity).
  destruct n as [ [defs dl] | d | [v vl t dflt dirs l] | [sl ss] | s | [nm v l] | [nm args l]
                | v | [[nm v] l] | ty0 | [k t l] | [desc nm args t dirs l] | [desc nm t dflt dirs l]
                | [desc nm dirs l] | sv | nm ];
    try destruct d; try destruct s; try destruct v; try destruct ty0; simpl in *;
    try reflexivity;
    repeat match goal with
           | |- context [isSome ?d] => destruct d; simpl in *
           | |- context [nonempty ?l] => destruct l; simpl in *
           end;
    try reflexivity;
    try (exfalso; repeat (rewrite ?app_length, ?map_length in HL; simpl in HL); lia);
    try discriminate.
Qed.

(* ---- keep-all visitors always succeed (the Ok premises are satisfiable) ---- *)
Section KeepOk.
  Variable rec : rec_t.

  Lemma m_one_keep {X} (inj : X -> node) (proj : node -> option X) x :
    (forall y, proj (inj y) = Some y) ->
    (exists tr, rec (inj x) = Ok (tr, Some (inj x))) ->
    exists tr, m_one inj proj rec x = Ok (tr, Some x).
  Proof. intros Hp [tr H]. unfold m_one. rewrite H. simpl. rewrite Hp. eauto. Qed.

  Lemma maf_keep {X} (inj : X -> node) (proj : node -> option X) l :
    (forall y, proj (inj y) = Some y) ->
    (forall x, In x l -> exists tr, rec (inj x) = Ok (tr, Some (inj x))) ->
    exists tr, map_and_filter inj proj rec l = Ok (tr, l).
  Proof.
    intros Hp. induction l as [|x l IH]; intros H; simpl; [eauto|].
    destruct (m_one_keep inj proj x Hp (H x (or_introl eq_refl))) as [t1 E1]. rewrite E1. simpl.
    destruct IH as [t2 E2]; [intros; apply H; right; assumption|]. rewrite E2. simpl. eauto.
  Qed.

  Lemma m_req_keep {X} (inj : X -> node) (proj : node -> option X) x :
    (forall y, proj (inj y) = Some y) ->
    (exists tr, rec (inj x) = Ok (tr, Some (inj x))) ->
    exists tr, m_req inj proj rec x = Ok (tr, x).
  Proof.
    intros Hp H. unfold m_req. destruct (m_one_keep inj proj x Hp H) as [t E]. rewrite E. simpl. eauto.
  Qed.

  Lemma m_opt_keep {X} (inj : X -> node) (proj : node -> option X) o :
    (forall y, proj (inj y) = Some y) ->
    (forall x, o = Some x -> exists tr, rec (inj x) = Ok (tr, Some (inj x))) ->
    exists tr, m_opt inj proj rec o = Ok (tr, o).
  Proof.
    intros Hp H. unfold m_opt. destruct o as [x|]; [|eauto].
    apply m_one_keep; [assumption|apply H; reflexivity].
  Qed.
End KeepOk.

Lemma via_keep t rec n : in_table (kind_of n) t = true ->
  (exists tr, rec n = Ok (tr, Some n)) -> exists tr, via_table t rec n = Ok (tr, Some n).
Proof. intros Ht H. unfold via_table. rewrite Ht. assumption. Qed.

Lemma method_keep rec n :
  (forall c, In c (tchildren n) -> exists tr, rec c = Ok (tr, Some c)) ->
  exists tr, method rec n = Ok (tr, n).
Proof.
  intros H.
  destruct n as [ [defs dl] | d | [v vl t dflt dirs l] | [sl ss] | s | [nm v l] | [nm args l]
                | v | [[nm v] l] | t | [k t l] | [desc nm args t dirs l] | [desc nm t dflt dirs l]
                | [desc nm dirs l] | sv | nm ];
    try destruct d; try destruct s; try destruct v;
    cbn [method]; cbv zeta;
    repeat match goal with
    | |- context [map_and_filter ?inj ?proj (via_table ?t ?r) ?l] =>
        let E := fresh "E" in let tr := fresh "tr" in
        destruct (maf_keep (via_table t r) inj proj l (fun y => eq_refl)) as [tr E];
        [ intros x Hx; apply via_keep;
          [ first [apply definition_table_total | apply selection_table_total] | apply H; in_tch ]
        | rewrite E; cbn [obind fst snd] ]
    | |- context [map_and_filter ?inj ?proj rec ?l] =>
        let E := fresh "E" in let tr := fresh "tr" in
        destruct (maf_keep rec inj proj l (fun y => eq_refl)) as [tr E];
        [ intros x Hx; apply H; in_tch | rewrite E; cbn [obind fst snd] ]
    | |- context [m_req ?inj ?proj rec ?x] =>
        let E := fresh "E" in let tr := fresh "tr" in
        destruct (m_req_keep rec inj proj x (fun y => eq_refl)) as [tr E];
        [ apply H; in_tch | rewrite E; cbn [obind fst snd] ]
    | |- context [m_opt ?inj ?proj rec ?o] =>
        let E := fresh "E" in let tr := fresh "tr" in
        destruct (m_opt_keep rec inj proj o (fun y => eq_refl)) as [tr E];
        [ intros x Hx; apply H; try subst; try (cbn [tchildren]; rewrite Hx); in_tch
        | rewrite E; cbn [obind fst snd] ]
    end;
    try (eexists; reflexivity).
  (* SField *)
  destruct sl; simpl; eexists; reflexivity.
Qed.

Lemma chain_enter_keep vs : (forall v m, In v vs -> v_act v m = Keep) ->
  forall i n, kind_of n <> KName -> exists tr, chain_enter i vs n = (tr, ECont n).
Proof.
  induction vs as [|v rest IH]; intros HK i n Hk; simpl; [eauto|].
  unfold enter_miss. destruct (tables_total _ Hk) as (_ & He & _). rewrite He, andb_false_r.
  rewrite (HK v n (or_introl eq_refl)).
  destruct (IH (fun v0 m Hin => HK v0 m (or_intror Hin)) (S i) n Hk) as [tr E]. rewrite E. simpl. eauto.
Qed.

Lemma chain_leave_keep vs : forall i n, kind_of n <> KName -> exists tr, chain_leave i vs n = Some tr.
Proof.
  induction vs as [|v rest IH]; intros i n Hk; simpl; [eauto|].
  destruct (IH (S i) n Hk) as [tr E]. rewrite E.
  unfold leave_miss. destruct (tables_total _ Hk) as (_ & _ & Hl). rewrite Hl, andb_false_r. eauto.
Qed.

Theorem visit_keep_ok vs : (forall v m, In v vs -> v_act v m = Keep) ->
  forall fuel n, kind_of n <> KName -> node_size n <= fuel -> exists tr, visit fuel vs n = Ok (tr, Some n).
Proof.
  intros HK. induction fuel as [|fuel IH]; intros n Hk Hn.
  - exfalso. pose proof (node_size_pos n). lia.
  - cbn [visit]. unfold wrapper.
    destruct (chain_enter_keep vs HK 0 n Hk) as [tr0 E0]. rewrite E0.
    destruct (method_keep (visit fuel vs) n) as [tr1 E1].
    + intros c Hc. apply IH; [apply (tchildren_not_name n c Hc)|pose proof (child_size n c Hc); lia].
    + rewrite E1. cbn [obind fst snd].
      destruct (chain_leave_keep vs 0 n Hk) as [tr2 E2]. rewrite E2. eauto.
Qed.
