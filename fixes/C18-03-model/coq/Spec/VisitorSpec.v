(* C18 -- declarative side: what a visit of an AST is supposed to be.

   [node]        a sum of the node sorts of Lang/Ast.v (one wrapper per class
                 family) so that a visitor is one function on nodes;
   [tchildren]   the children the visitor traverses, in traversal order;
   [all_children] every non-name child node in source order (the ideal the
                 property text describes);  [gaps] names the places where the
                 two differ (coverage findings);
   [vtree]/[render]  the visit tree under an action function and its
                 enter/leave word;  [apply]  the tree edit, with no traces,
                 no visitor chain, no dispatch tables.
   Nothing here mentions map_and_filter, _visit_method or class dispatch. *)
From PyGql Require Export Base.Str Lang.Ast.

Inductive kind :=
| KDocument | KOperationDefinition | KFragmentDefinition | KVariableDefinition
| KVariable | KSelectionSet | KField | KArgument | KFragmentSpread | KInlineFragment
| KIntValue | KFloatValue | KStringValue | KBooleanValue | KNullValue | KEnumValue
| KListValue | KObjectValue | KObjectField | KDirective
| KNamedType | KListType | KNonNullType
| KSchemaDefinition | KOperationTypeDefinition | KScalarTypeDefinition
| KObjectTypeDefinition | KFieldDefinition | KInputValueDefinition
| KInterfaceTypeDefinition | KUnionTypeDefinition | KEnumTypeDefinition
| KEnumValueDefinition | KInputObjectTypeDefinition
| KSchemaExtension | KScalarTypeExtension | KObjectTypeExtension
| KInterfaceTypeExtension | KUnionTypeExtension | KEnumTypeExtension
| KInputObjectTypeExtension | KDirectiveDefinition | KName.

Definition kind_eq_dec (a b : kind) : {a = b} + {a <> b}.
Proof. decide equality. Defined.
Definition kind_eqb (a b : kind) : bool := if kind_eq_dec a b then true else false.

Definition objfield := (name * value * loc)%type.
Definition selset := (loc * list selection)%type.

Inductive node :=
| NDoc (d : document)
| NDef (d : definition)
| NVarDef (v : var_def)
| NSelSet (s : selset)
| NSel (s : selection)
| NArg (a : argument)
| NDir (d : directive)
| NVal (v : value)
| NObjField (f : objfield)
| NType (t : ty)
| NOpType (o : op_type_def)
| NFieldDef (f : field_def)
| NIVDef (i : input_value_def)
| NEVDef (e : enum_value_def)
| NDesc (s : strval)          (* description StringValue; never traversed *)
| NName (n : name).           (* never traversed; outside the property *)

Definition kind_of_def (d : definition) : kind :=
  match d with
  | DOperation _ _ _ _ _ _ _ => KOperationDefinition
  | DFragment _ _ _ _ _ _ _ => KFragmentDefinition
  | DSchema ext _ _ _ => if ext then KSchemaExtension else KSchemaDefinition
  | DScalar ext _ _ _ _ => if ext then KScalarTypeExtension else KScalarTypeDefinition
  | DObject ext _ _ _ _ _ _ => if ext then KObjectTypeExtension else KObjectTypeDefinition
  | DInterface ext _ _ _ _ _ => if ext then KInterfaceTypeExtension else KInterfaceTypeDefinition
  | DUnion ext _ _ _ _ _ => if ext then KUnionTypeExtension else KUnionTypeDefinition
  | DEnum ext _ _ _ _ _ => if ext then KEnumTypeExtension else KEnumTypeDefinition
  | DInput ext _ _ _ _ _ => if ext then KInputObjectTypeExtension else KInputObjectTypeDefinition
  | DDirective _ _ _ _ _ => KDirectiveDefinition
  end.

Definition kind_of_value (v : value) : kind :=
  match v with
  | VVar _ _ => KVariable | VInt _ _ => KIntValue | VFloat _ _ => KFloatValue
  | VString _ _ _ => KStringValue | VBool _ _ => KBooleanValue | VNull _ => KNullValue
  | VEnum _ _ => KEnumValue | VList _ _ => KListValue | VObject _ _ => KObjectValue
  end.

Definition kind_of (n : node) : kind :=
  match n with
  | NDoc _ => KDocument
  | NDef d => kind_of_def d
  | NVarDef _ => KVariableDefinition
  | NSelSet _ => KSelectionSet
  | NSel (SField _ _ _ _ _ _ _) => KField
  | NSel (SSpread _ _ _) => KFragmentSpread
  | NSel (SInline _ _ _ _ _) => KInlineFragment
  | NArg _ => KArgument
  | NDir _ => KDirective
  | NVal v => kind_of_value v
  | NObjField _ => KObjectField
  | NType (TNamed _ _) => KNamedType
  | NType (TList _ _) => KListType
  | NType (TNonNull _ _) => KNonNullType
  | NOpType _ => KOperationTypeDefinition
  | NFieldDef _ => KFieldDefinition
  | NIVDef _ => KInputValueDefinition
  | NEVDef _ => KEnumValueDefinition
  | NDesc _ => KStringValue
  | NName _ => KName
  end.

Definition loc_of_def (d : definition) : loc :=
  match d with
  | DOperation _ _ _ _ _ _ l | DFragment _ _ _ _ _ _ l | DSchema _ _ _ l
  | DScalar _ _ _ _ l | DObject _ _ _ _ _ _ l | DInterface _ _ _ _ _ l
  | DUnion _ _ _ _ _ l | DEnum _ _ _ _ _ l | DInput _ _ _ _ _ l | DDirective _ _ _ _ l => l
  end.
Definition loc_of_value (v : value) : loc :=
  match v with
  | VVar _ l | VInt _ l | VFloat _ l | VString _ _ l | VBool _ l | VNull l
  | VEnum _ l | VList _ l | VObject _ l => l
  end.
Definition loc_of_sel (s : selection) : loc :=
  match s with SField _ _ _ _ _ _ l | SSpread _ _ l | SInline _ _ _ _ l => l end.
Definition loc_of_ty (t : ty) : loc :=
  match t with TNamed _ l | TList _ l | TNonNull _ l => l end.

Definition loc_of (n : node) : loc :=
  match n with
  | NDoc d => doc_loc d
  | NDef d => loc_of_def d
  | NVarDef v => vd_loc v
  | NSelSet s => fst s
  | NSel s => loc_of_sel s
  | NArg a => a_loc a
  | NDir d => d_loc d
  | NVal v => loc_of_value v
  | NObjField f => snd f
  | NType t => loc_of_ty t
  | NOpType o => ot_loc o
  | NFieldDef f => fd_loc f
  | NIVDef i => iv_loc i
  | NEVDef e => ev_loc e
  | NDesc s => sv_loc s
  | NName n => n_loc n
  end.

Definition olist {A} (o : option A) : list A := match o with Some a => [a] | None => [] end.

Definition field_selset (sl : option loc) (sub : list selection) : option selset :=
  match sl with Some l => Some (l, sub) | None => None end.

(* ---- the children a visit traverses, in the order it traverses them ---- *)
Definition tchildren (n : node) : list node :=
  match n with
  | NDoc d => map NDef (doc_defs d)
  | NDef (DOperation _ _ vds dirs ssl sels _) =>
      map NVarDef vds ++ map NDir dirs ++ [NSelSet (ssl, sels)]
  | NDef (DFragment _ _ _ dirs ssl sels _) => map NDir dirs ++ [NSelSet (ssl, sels)]
  | NDef (DSchema _ dirs ots _) => map NOpType ots ++ map NDir dirs
  | NDef (DScalar _ _ _ dirs _) => map NDir dirs
  | NDef (DObject _ _ _ ifaces dirs fields _) =>
      map NType ifaces ++ map NDir dirs ++ map NFieldDef fields
  | NDef (DInterface _ _ _ dirs fields _) => map NDir dirs ++ map NFieldDef fields
  | NDef (DUnion _ _ _ dirs types _) => map NDir dirs ++ map NType types
  | NDef (DEnum _ _ _ dirs vals _) => map NDir dirs ++ map NEVDef vals
  | NDef (DInput _ _ _ dirs fields _) => map NDir dirs ++ map NIVDef fields
  | NDef (DDirective _ _ args _ _) => map NIVDef args
  | NVarDef v => map NVal (olist (vd_default v)) ++ [NType (vd_type v)]
  | NSelSet s => map NSel (snd s)
  | NSel (SField _ _ args dirs sl sub _) =>
      map NArg args ++ map NDir dirs ++ map NSelSet (olist (field_selset sl sub))
  | NSel (SSpread _ dirs _) => map NDir dirs
  | NSel (SInline _ dirs ssl sub _) => map NDir dirs ++ [NSelSet (ssl, sub)]
  | NArg a => [NVal (a_val a)]
  | NDir d => map NArg (d_args d)
  | NVal (VList vs _) => map NVal vs
  | NVal (VObject fs _) => map NObjField fs
  | NVal _ => []
  | NObjField f => [NVal (snd (fst f))]
  | NType _ => []
  | NOpType o => [NType (ot_type o)]
  | NFieldDef f => [NType (fd_type f)] ++ map NIVDef (fd_args f) ++ map NDir (fd_dirs f)
  | NIVDef i => [NType (iv_type i)] ++ map NVal (olist (iv_default i)) ++ map NDir (iv_dirs i)
  | NEVDef e => map NDir (ev_dirs e)
  | NDesc _ => []
  | NName _ => []
  end.

(* ---- the ideal: every non-name child node, in source order ---- *)
Definition all_children (n : node) : list node :=
  match n with
  | NDoc d => map NDef (doc_defs d)
  | NDef (DOperation _ _ vds dirs ssl sels _) =>
      map NVarDef vds ++ map NDir dirs ++ [NSelSet (ssl, sels)]
  | NDef (DFragment _ vds tc dirs ssl sels _) =>
      map NVarDef vds ++ [NType tc] ++ map NDir dirs ++ [NSelSet (ssl, sels)]
  | NDef (DSchema _ dirs ots _) => map NDir dirs ++ map NOpType ots
  | NDef (DScalar _ desc _ dirs _) => map NDesc (olist desc) ++ map NDir dirs
  | NDef (DObject _ desc _ ifaces dirs fields _) =>
      map NDesc (olist desc) ++ map NType ifaces ++ map NDir dirs ++ map NFieldDef fields
  | NDef (DInterface _ desc _ dirs fields _) =>
      map NDesc (olist desc) ++ map NDir dirs ++ map NFieldDef fields
  | NDef (DUnion _ desc _ dirs types _) =>
      map NDesc (olist desc) ++ map NDir dirs ++ map NType types
  | NDef (DEnum _ desc _ dirs vals _) =>
      map NDesc (olist desc) ++ map NDir dirs ++ map NEVDef vals
  | NDef (DInput _ desc _ dirs fields _) =>
      map NDesc (olist desc) ++ map NDir dirs ++ map NIVDef fields
  | NDef (DDirective desc _ args _ _) => map NDesc (olist desc) ++ map NIVDef args
  | NVarDef v =>
      [NVal (VVar (vd_var v) (vd_var_loc v)); NType (vd_type v)]
      ++ map NVal (olist (vd_default v)) ++ map NDir (vd_dirs v)
  | NSelSet s => map NSel (snd s)
  | NSel (SField _ _ args dirs sl sub _) =>
      map NArg args ++ map NDir dirs ++ map NSelSet (olist (field_selset sl sub))
  | NSel (SSpread _ dirs _) => map NDir dirs
  | NSel (SInline tc dirs ssl sub _) =>
      map NType (olist tc) ++ map NDir dirs ++ [NSelSet (ssl, sub)]
  | NArg a => [NVal (a_val a)]
  | NDir d => map NArg (d_args d)
  | NVal (VList vs _) => map NVal vs
  | NVal (VObject fs _) => map NObjField fs
  | NVal _ => []
  | NObjField f => [NVal (snd (fst f))]
  | NType (TNamed _ _) => []
  | NType (TList t _) => [NType t]
  | NType (TNonNull t _) => [NType t]
  | NOpType o => [NType (ot_type o)]
  | NFieldDef f =>
      map NDesc (olist (fd_desc f)) ++ map NIVDef (fd_args f) ++ [NType (fd_type f)]
      ++ map NDir (fd_dirs f)
  | NIVDef i =>
      map NDesc (olist (iv_desc i)) ++ [NType (iv_type i)] ++ map NVal (olist (iv_default i))
      ++ map NDir (iv_dirs i)
  | NEVDef e => map NDesc (olist (ev_desc e)) ++ map NDir (ev_dirs e)
  | NDesc _ => []
  | NName _ => []
  end.

(* The places where the traversal is not the ideal one; one name per gap. *)
Inductive gap :=
| GInnerType            (* inner type of ListType / NonNullType never entered *)
| GTypeCondition        (* type condition of a fragment definition / inline fragment *)
| GVarDefVariable       (* VariableDefinition.variable *)
| GVarDefDirectives     (* VariableDefinition.directives *)
| GFragVarDefs          (* FragmentDefinition.variable_definitions *)
| GDefaultBeforeType    (* VariableDefinition: default value visited before the type *)
| GTypeBeforeArguments  (* FieldDefinition: type visited before the arguments *)
| GOpTypesBeforeDirectives (* schema definition/extension: operation types before directives *)
| GDescription.         (* description StringValue of a definition or member *)

Definition nonempty {A} (l : list A) : bool := match l with [] => false | _ => true end.
Definition isSome {A} (o : option A) : bool := match o with Some _ => true | None => false end.
Definition gif (b : bool) (g : gap) : list gap := if b then [g] else [].

Definition gaps (n : node) : list gap :=
  match n with
  | NDef (DFragment _ vds _ _ _ _ _) => [GTypeCondition] ++ gif (nonempty vds) GFragVarDefs
  | NDef (DSchema _ dirs ots _) => gif (nonempty dirs && nonempty ots) GOpTypesBeforeDirectives
  | NDef (DScalar _ desc _ _ _) | NDef (DObject _ desc _ _ _ _ _)
  | NDef (DInterface _ desc _ _ _ _) | NDef (DUnion _ desc _ _ _ _)
  | NDef (DEnum _ desc _ _ _ _) | NDef (DInput _ desc _ _ _ _)
  | NDef (DDirective desc _ _ _ _) => gif (isSome desc) GDescription
  | NVarDef v => [GVarDefVariable] ++ gif (nonempty (vd_dirs v)) GVarDefDirectives
                 ++ gif (isSome (vd_default v)) GDefaultBeforeType
  | NSel (SInline tc _ _ _ _) => gif (isSome tc) GTypeCondition
  | NType (TList _ _) | NType (TNonNull _ _) => [GInnerType]
  | NFieldDef f => gif (isSome (fd_desc f)) GDescription
                   ++ gif (nonempty (fd_args f)) GTypeBeforeArguments
  | NIVDef i => gif (isSome (iv_desc i)) GDescription
  | NEVDef e => gif (isSome (ev_desc e)) GDescription
  | _ => []
  end.

(* ---- actions, visit tree, events ---- *)
Inductive action := Keep | Replace (m : node) | Delete | Skip.

(* one event: visitor index in the chain, enter?, class, location *)
Definition event := (nat * bool * kind * loc)%type.
Definition trace := list event.
Definition ev (i : nat) (enter : bool) (n : node) : event := (i, enter, kind_of n, loc_of n).

(* The tree of nodes a visit walks: the node entered, the node left (None when
   the node was skipped or deleted, the replacement when replaced), and the
   visit trees of the traversed children of the node that is left. *)
Inductive vt := VT (entered : node) (left : option node) (children : list vt).

Fixpoint vtree (fuel : nat) (act : node -> action) (n : node) : vt :=
  match fuel with
  | 0 => VT n None []
  | S f =>
      match act n with
      | Delete | Skip => VT n None []
      | Keep => VT n (Some n) (map (vtree f act) (tchildren n))
      | Replace m => VT n (Some m) (map (vtree f act) (tchildren m))
      end
  end.

(* enter block of the node, events of the children in order, leave block *)
Fixpoint render (eb lb : node -> trace) (t : vt) : trace :=
  match t with
  | VT n None _ => eb n
  | VT n (Some m) cs => eb n ++ flat_map (render eb lb) cs ++ lb m
  end.

Definition eb1 (n : node) : trace := [ev 0 true n].
Definition lb1 (n : node) : trace := [ev 0 false n].
Definition events (fuel : nat) (act : node -> action) (n : node) : trace :=
  render eb1 lb1 (vtree fuel act n).

(* pre-order list of entered nodes / post-order list of left nodes *)
Fixpoint vt_entered (t : vt) : list node :=
  match t with VT n _ cs => n :: flat_map vt_entered cs end.
Fixpoint vt_left (t : vt) : list node :=
  match t with
  | VT _ None _ => []
  | VT _ (Some m) cs => flat_map vt_left cs ++ [m]
  end.

(* the full tree below a node (what an all-Keep visit walks) *)
Fixpoint full_tree (fuel : nat) (n : node) : vt :=
  match fuel with
  | 0 => VT n None []
  | S f => VT n (Some n) (map (full_tree f) (tchildren n))
  end.

(* well-bracketed words: every leave closes the innermost open enter of the
   same visitor and class; an enter may stay open-less (skipped / deleted). *)
Inductive wb : trace -> Prop :=
| wb_nil : wb []
| wb_leaf i k l t : wb t -> wb ((i, true, k, l) :: t)
| wb_pair i k l l' t1 t2 :
    wb t1 -> wb t2 -> wb ((i, true, k, l) :: t1 ++ (i, false, k, l') :: t2).

(* ---- the tree edit ---- *)
Definition pDef n := match n with NDef x => Some x | _ => None end.
Definition pVarDef n := match n with NVarDef x => Some x | _ => None end.
Definition pSelSet n := match n with NSelSet x => Some x | _ => None end.
Definition pSel n := match n with NSel x => Some x | _ => None end.
Definition pArg n := match n with NArg x => Some x | _ => None end.
Definition pDir n := match n with NDir x => Some x | _ => None end.
Definition pVal n := match n with NVal x => Some x | _ => None end.
Definition pObjField n := match n with NObjField x => Some x | _ => None end.
Definition pType n := match n with NType x => Some x | _ => None end.
Definition pOpType n := match n with NOpType x => Some x | _ => None end.
Definition pFieldDef n := match n with NFieldDef x => Some x | _ => None end.
Definition pIVDef n := match n with NIVDef x => Some x | _ => None end.
Definition pEVDef n := match n with NEVDef x => Some x | _ => None end.

(* crash kinds of the edit: 1 = a replacement of another class was supplied,
   2 = a child that the node class requires was deleted (the resulting object
   is not a tree of Lang/Ast.v any more) *)
Definition ed := node -> outcome (option node).

Definition e_one {X} (inj : X -> node) (proj : node -> option X) (f : ed) (x : X)
  : outcome (option X) :=
  do r <- f (inj x);
  match r with
  | None => Ok None
  | Some m => match proj m with Some x' => Ok (Some x') | None => Crash 1 end
  end.

(* list slot: members edited independently, deleted members dropped *)
Fixpoint e_list {X} (inj : X -> node) (proj : node -> option X) (f : ed) (l : list X)
  : outcome (list X) :=
  match l with
  | [] => Ok []
  | x :: l' =>
      do r <- e_one inj proj f x;
      do rest <- e_list inj proj f l';
      Ok (olist r ++ rest)
  end.

(* required single slot *)
Definition e_req {X} (inj : X -> node) (proj : node -> option X) (f : ed) (x : X) : outcome X :=
  do r <- e_one inj proj f x;
  match r with Some x' => Ok x' | None => Crash 2 end.

(* optional single slot: deleting clears it *)
Definition e_opt {X} (inj : X -> node) (proj : node -> option X) (f : ed) (o : option X)
  : outcome (option X) :=
  match o with None => Ok None | Some x => e_one inj proj f x end.

Definition set_selset (o : option selset) (sub0 : list selection) : option loc * list selection :=
  match o with Some (l, sub) => (Some l, sub) | None => (None, sub0) end.

(* the node with each traversed child replaced by its edit *)
Definition map_children (f : ed) (n : node) : outcome node :=
  match n with
  | NDoc (Doc defs l) =>
      do defs' <- e_list NDef pDef f defs; Ok (NDoc (Doc defs' l))
  | NDef (DOperation k nm vds dirs ssl sels l) =>
      do vds' <- e_list NVarDef pVarDef f vds;
      do dirs' <- e_list NDir pDir f dirs;
      do ss' <- e_req NSelSet pSelSet f (ssl, sels);
      Ok (NDef (DOperation k nm vds' dirs' (fst ss') (snd ss') l))
  | NDef (DFragment nm vds tc dirs ssl sels l) =>
      do dirs' <- e_list NDir pDir f dirs;
      do ss' <- e_req NSelSet pSelSet f (ssl, sels);
      Ok (NDef (DFragment nm vds tc dirs' (fst ss') (snd ss') l))
  | NDef (DSchema ext dirs ots l) =>
      do ots' <- e_list NOpType pOpType f ots;
      do dirs' <- e_list NDir pDir f dirs;
      Ok (NDef (DSchema ext dirs' ots' l))
  | NDef (DScalar ext desc nm dirs l) =>
      do dirs' <- e_list NDir pDir f dirs; Ok (NDef (DScalar ext desc nm dirs' l))
  | NDef (DObject ext desc nm ifaces dirs fields l) =>
      do ifaces' <- e_list NType pType f ifaces;
      do dirs' <- e_list NDir pDir f dirs;
      do fields' <- e_list NFieldDef pFieldDef f fields;
      Ok (NDef (DObject ext desc nm ifaces' dirs' fields' l))
  | NDef (DInterface ext desc nm dirs fields l) =>
      do dirs' <- e_list NDir pDir f dirs;
      do fields' <- e_list NFieldDef pFieldDef f fields;
      Ok (NDef (DInterface ext desc nm dirs' fields' l))
  | NDef (DUnion ext desc nm dirs types l) =>
      do dirs' <- e_list NDir pDir f dirs;
      do types' <- e_list NType pType f types;
      Ok (NDef (DUnion ext desc nm dirs' types' l))
  | NDef (DEnum ext desc nm dirs vals l) =>
      do dirs' <- e_list NDir pDir f dirs;
      do vals' <- e_list NEVDef pEVDef f vals;
      Ok (NDef (DEnum ext desc nm dirs' vals' l))
  | NDef (DInput ext desc nm dirs fields l) =>
      do dirs' <- e_list NDir pDir f dirs;
      do fields' <- e_list NIVDef pIVDef f fields;
      Ok (NDef (DInput ext desc nm dirs' fields' l))
  | NDef (DDirective desc nm args locs l) =>
      do args' <- e_list NIVDef pIVDef f args; Ok (NDef (DDirective desc nm args' locs l))
  | NVarDef (VarDef v vl t d dirs l) =>
      do d' <- e_opt NVal pVal f d;
      do t' <- e_req NType pType f t;
      Ok (NVarDef (VarDef v vl t' d' dirs l))
  | NSelSet (l, ss) =>
      do ss' <- e_list NSel pSel f ss; Ok (NSelSet (l, ss'))
  | NSel (SField al nm args dirs sl sub l) =>
      do args' <- e_list NArg pArg f args;
      do dirs' <- e_list NDir pDir f dirs;
      do o <- e_opt NSelSet pSelSet f (field_selset sl sub);
      let '(sl', sub') := match sl with Some _ => set_selset o [] | None => (None, sub) end in
      Ok (NSel (SField al nm args' dirs' sl' sub' l))
  | NSel (SSpread nm dirs l) =>
      do dirs' <- e_list NDir pDir f dirs; Ok (NSel (SSpread nm dirs' l))
  | NSel (SInline tc dirs ssl sub l) =>
      do dirs' <- e_list NDir pDir f dirs;
      do ss' <- e_req NSelSet pSelSet f (ssl, sub);
      Ok (NSel (SInline tc dirs' (fst ss') (snd ss') l))
  | NArg (Arg nm v l) =>
      do v' <- e_req NVal pVal f v; Ok (NArg (Arg nm v' l))
  | NDir (Dir nm args l) =>
      do args' <- e_list NArg pArg f args; Ok (NDir (Dir nm args' l))
  | NVal (VList vs l) =>
      do vs' <- e_list NVal pVal f vs; Ok (NVal (VList vs' l))
  | NVal (VObject fs l) =>
      do fs' <- e_list NObjField pObjField f fs; Ok (NVal (VObject fs' l))
  | NVal v => Ok (NVal v)
  | NObjField (nm, v, l) =>
      do v' <- e_req NVal pVal f v; Ok (NObjField (nm, v', l))
  | NType t => Ok (NType t)
  | NOpType (OTDef k t l) =>
      do t' <- e_req NType pType f t; Ok (NOpType (OTDef k t' l))
  | NFieldDef (FDef desc nm args t dirs l) =>
      do t' <- e_req NType pType f t;
      do args' <- e_list NIVDef pIVDef f args;
      do dirs' <- e_list NDir pDir f dirs;
      Ok (NFieldDef (FDef desc nm args' t' dirs' l))
  | NIVDef (IVDef desc nm t d dirs l) =>
      do t' <- e_req NType pType f t;
      do d' <- e_opt NVal pVal f d;
      do dirs' <- e_list NDir pDir f dirs;
      Ok (NIVDef (IVDef desc nm t' d' dirs' l))
  | NEVDef (EVDef desc nm dirs l) =>
      do dirs' <- e_list NDir pDir f dirs; Ok (NEVDef (EVDef desc nm dirs' l))
  | NDesc s => Ok (NDesc s)
  | NName x => Ok (NName x)
  end.

(* [apply act n]: top-down edit.  Delete removes the node, Skip keeps it
   untouched, Keep keeps it and edits its children, Replace m puts m in its
   place and edits m's children.  [None] = the node is gone. *)
Fixpoint apply (fuel : nat) (act : node -> action) (n : node) : outcome (option node) :=
  match fuel with
  | 0 => OutOfFuel
  | S f =>
      match act n with
      | Delete => Ok None
      | Skip => Ok (Some n)
      | Keep => do n' <- map_children (apply f act) n; Ok (Some n')
      | Replace m => do m' <- map_children (apply f act) m; Ok (Some m')
      end
  end.

(* A chain of visitors acts on a node like one visitor: each member sees what
   the previous one returned; the first Delete / Skip decides. *)
Fixpoint compose (acts : list (node -> action)) (n : node) : action :=
  match acts with
  | [] => Keep
  | a :: rest =>
      match a n with
      | Keep => compose rest n
      | Delete => Delete
      | Skip => Skip
      | Replace m =>
          match compose rest m with
          | Keep => Replace m
          | other => other
          end
      end
  end.

(* ---- enter / leave blocks of a chain (visitor i logs with index i) ----
   Enter: the visitors are asked in order, each sees what the previous one
   returned; the block stops at the first Delete / Skip.  Leave: all
   visitors, in reverse order. *)
Fixpoint enter_block (acts : list (node -> action)) (i : nat) (cur : node) : trace :=
  match acts with
  | [] => []
  | a :: rest =>
      ev i true cur ::
      match a cur with
      | Keep => enter_block rest (S i) cur
      | Replace m => enter_block rest (S i) m
      | Delete | Skip => []
      end
  end.

Fixpoint leave_block (i k : nat) (m : node) : trace :=
  match k with
  | 0 => []
  | S k' => leave_block (S i) k' m ++ [ev i false m]
  end.

(* the word a chain of visitors is supposed to produce on a node *)
Definition chain_events (fuel : nat) (acts : list (node -> action)) (n : node) : trace :=
  render (enter_block acts 0) (leave_block 0 (length acts)) (vtree fuel (compose acts) n).

(* replacements are of the class of the node they replace *)
Definition kind_pres (acts : list (node -> action)) : Prop :=
  forall a n m, In a acts -> a n = Replace m -> kind_of m = kind_of n.

Definition is_enter (e : event) : bool := snd (fst (fst e)).
Definition enters (tr : trace) : trace := filter is_enter tr.
Definition leaves (tr : trace) : trace := filter (fun e => negb (is_enter e)) tr.
