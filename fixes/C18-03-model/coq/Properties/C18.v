(* C18 -- AST visitors reach every node once with balanced enter/leave; edits
   stay local.  Statements only; proofs are in Proofs/VisitorProofs.v.

   [visit fuel vs n] is the model of ASTVisitor.visit for the chain of
   visitors [vs] (a plain visitor is the chain of length one); the spec side
   ([apply], [chain_events], [vtree], [render], [wb], [tchildren],
   [all_children], [gaps], [compose]) is Spec/VisitorSpec.v.  Theorems hold for
   every fuel for which the model returns a result (fuel only bounds the
   traversal of replacement nodes, which is not structural). *)
From PyGql Require Import Lang.VisitorModel Proofs.VisitorProofs Proofs.VisitorTermination
                          Proofs.VisitorLocality Proofs.VisitorNoCrash Lang.VisitorEq Run.C18run Proofs.VisitorEqProofs.

(* The model refines the declarative visit: the tree it returns is the
   top-down edit [apply] under the composed decision function of the chain, and
   its log is the rendering of the visit tree -- for every chain of visitors,
   every node of every class, every decision function. *)
Theorem C18_refines : forall vs fuel n tr r,
  visit fuel vs n = Ok (tr, r) ->
  apply fuel (compose (acts_of vs)) n = Ok r /\ tr = chain_events fuel (acts_of vs) n.
Proof. exact visit_refines. Qed.
Print Assumptions C18_refines.

(* Balanced: the log is a well-bracketed word (each leave closes the innermost
   open enter of the same visitor and class), and it is the rendering of the
   visit tree: a node's bracket encloses exactly the brackets of its traversed
   children ([tchildren]), in list order. *)
Theorem C18_balanced : forall vs fuel n tr r,
  kind_pres (acts_of vs) -> visit fuel vs n = Ok (tr, r) ->
  wb tr /\ tr = chain_events fuel (acts_of vs) n.
Proof.
  intros vs fuel n tr r KP H. destruct (visit_refines _ _ _ _ _ H) as [_ ->].
  split; [apply chain_events_wb; assumption|reflexivity].
Qed.
Print Assumptions C18_balanced.

(* Once: a single visitor's enter events are exactly the nodes of the visit
   tree in pre-order, one event per node; its leave events are exactly the
   nodes that were neither skipped nor deleted, in post-order, one per node
   (the replacement where a node was replaced). *)
Theorem C18_once : forall v fuel n tr r,
  visit fuel [v] n = Ok (tr, r) ->
  enters tr = map (ev 0 true) (vt_entered (vtree fuel (v_act v) n)) /\
  leaves tr = map (ev 0 false) (vt_left (vtree fuel (v_act v) n)).
Proof. exact visit_once. Qed.
Print Assumptions C18_once.

(* Identity: visitors that keep everything return the node they were given and
   walk the full tree below it. *)
Theorem C18_identity : forall vs fuel n tr r,
  (forall v m, In v vs -> v_act v m = Keep) -> visit fuel vs n = Ok (tr, r) ->
  r = Some n /\
  tr = render (enter_block (acts_of vs) 0) (leave_block 0 (length (acts_of vs))) (full_tree fuel n).
Proof. exact visit_identity. Qed.
Print Assumptions C18_identity.

(* Delete: the node is gone, nothing below it is visited, it is not left. *)
Theorem C18_delete : forall vs fuel n tr r,
  visit fuel vs n = Ok (tr, r) -> compose (acts_of vs) n = Delete ->
  r = None /\ tr = enter_block (acts_of vs) 0 n.
Proof. exact visit_delete. Qed.
Print Assumptions C18_delete.

(* Skip: the node stays as it is, nothing below it is visited, it is not left. *)
Theorem C18_skip : forall vs fuel n tr r,
  visit fuel vs n = Ok (tr, r) -> compose (acts_of vs) n = Skip ->
  r = Some n /\ tr = enter_block (acts_of vs) 0 n.
Proof. exact visit_skip. Qed.
Print Assumptions C18_skip.

(* Replace: the replacement (with its own children edited) takes the node's
   place; the replacement's children are visited and leave sees the replacement. *)
Theorem C18_replace : forall vs fuel n m tr r,
  visit (S fuel) vs n = Ok (tr, r) -> compose (acts_of vs) n = Replace m ->
  exists m', map_children (apply fuel (compose (acts_of vs))) m = Ok m' /\ r = Some m' /\
    tr = enter_block (acts_of vs) 0 n
         ++ flat_map (chain_events fuel (acts_of vs)) (tchildren m)
         ++ leave_block 0 (length (acts_of vs)) m.
Proof. exact visit_replace. Qed.
Print Assumptions C18_replace.

(* Locality in lists (every list-valued child slot of [map_children] is an
   [e_list]): the edited list is the edited prefix, then what the member became
   (nothing when deleted, one node otherwise), then the edited suffix. *)
Theorem C18_list_local : forall X (inj : X -> node) (proj : node -> option X) f pre x post l',
  e_list inj proj f (pre ++ x :: post) = Ok l' ->
  exists a o b, e_list inj proj f pre = Ok a /\ e_one inj proj f x = Ok o /\
                e_list inj proj f post = Ok b /\ l' = a ++ olist o ++ b.
Proof. intros X. exact (@e_list_member X). Qed.
Print Assumptions C18_list_local.

(* Chains: the enter block of a node asks the visitors in order 0,1,2,.. and
   reaches all of them unless one deletes or skips; the leave block runs over
   all visitors in reverse order; a Skip / Delete by visitor number |pre| ends
   the block there and decides for the whole chain. *)
Theorem C18_chain : forall acts,
  (forall i n, exists j, j <= length acts /\ map ev_idx (enter_block acts i n) = seq i j /\
      ((compose acts n = Keep \/ exists m, compose acts n = Replace m) -> j = length acts)) /\
  (forall k i m, map ev_idx (leave_block i k m) = rev (seq i k)) /\
  (forall pre a post i n, acts = pre ++ a :: post ->
      (forall b, In b pre -> b n = Keep) -> (a n = Skip \/ a n = Delete) ->
      enter_block acts i n = map (fun j => ev j true n) (seq i (S (length pre)))
      /\ compose acts n = a n).
Proof.
  intros acts. split; [apply enter_block_idx|]. split; [apply leave_block_idx|].
  intros pre a post i n ->. apply enter_block_stops.
Qed.
Print Assumptions C18_chain.

(* The class tables (ASTVisitor.visit, _visit_definition, _visit_selection,
   DispatchingVisitor.enter / .leave) have an entry for every class a
   traversal can reach: every class but Name, and no traversed child is a Name. *)
Theorem C18_dispatch_total :
  (forall k, k <> KName ->
     in_table k visit_table = true /\ in_table k dispatch_enter_table = true
     /\ in_table k dispatch_leave_table = true) /\
  (forall d, in_table (kind_of_def d) definition_table = true) /\
  (forall s, in_table (kind_of (NSel s)) selection_table = true) /\
  (forall n c, In c (tchildren n) -> kind_of c <> KName).
Proof.
  split; [exact tables_total|]. split; [exact definition_table_total|].
  split; [exact selection_table_total|exact tchildren_not_name].
Qed.
Print Assumptions C18_dispatch_total.

(* Coverage: away from the named gaps the traversed children of a node are all
   its non-name children in source order ... *)
Theorem C18_coverage_partial : forall n, gaps n = [] -> tchildren n = all_children n.
Proof. exact coverage_partial. Qed.
Print Assumptions C18_coverage_partial.

(* ... and each gap is real (known findings, one per gap). *)
Definition C18_coverage_full : Prop := forall n, tchildren n = all_children n.
Theorem C18_coverage_refuted : forall g,
  In g (gaps (gap_witness g)) /\ tchildren (gap_witness g) <> all_children (gap_witness g).
Proof. exact coverage_refuted. Qed.
Print Assumptions C18_coverage_refuted.

(* Fuel adequacy.  [node_size n] counts the traversed nodes below n.  If no
   visitor of the chain ever returns a replacement larger than the node it was
   given (in particular: no replacements at all), fuel = node_size n is enough:
   the model never answers OutOfFuel.  (Without such a condition a visitor can
   keep producing bigger replacements and the traversal -- in the code as in
   the model -- does not terminate.) *)
Theorem C18_terminates : forall vs,
  (forall v x m, In v vs -> v_act v x = Replace m -> node_size m <= node_size x) ->
  forall fuel n, node_size n <= fuel -> visit fuel vs n <> OutOfFuel.
Proof. exact visit_terminates. Qed.
Print Assumptions C18_terminates.

(* ... and for visitors that keep everything the result is Ok for every node
   (of any class but Name) and every fuel >= node_size n: the Ok premises of
   C18_refines, C18_balanced, C18_once, C18_identity are satisfiable for every
   input, with an explicit fuel. *)
Theorem C18_keep_total : forall vs,
  (forall v m, In v vs -> v_act v m = Keep) ->
  forall fuel n, kind_of n <> KName -> node_size n <= fuel ->
    exists tr, visit fuel vs n = Ok (tr, Some n).
Proof. exact visit_keep_ok. Qed.
Print Assumptions C18_keep_total.

(* The coverage guard is exact: the traversed children of a node are all its
   non-name children in source order if and only if none of the nine named
   gaps applies to the node.  A tenth kind of gap would contradict this. *)
Theorem C18_coverage_exact : forall n, tchildren n = all_children n <-> gaps n = [].
Proof. exact coverage_exact. Qed.
Print Assumptions C18_coverage_exact.

(* ---- edits stay local, at every depth (Proofs/VisitorLocality.v) ----
   [subvt T t]: t is a node of the visit tree T (at any depth);  [step_ok act t]:
   the node obeys the decision act takes for it.  For every successful visit,
   at EVERY node x entered anywhere in the traversal:
     Delete / Skip : x is not left and none of its children is entered;
     Keep          : x is left as itself after exactly its traversed children,
                     each entered once, in order;
     Replace m     : the replacement m is what is left, after exactly m's
                     traversed children (not x's);
   and the node was reached from the root through kept / replaced nodes only.
   (C18_delete / _skip / _replace above are the case t = the root.) *)
Theorem C18_deep : forall vs fuel n tr r,
  visit fuel vs n = Ok (tr, r) ->
  forall t, subvt (vtree fuel (compose (acts_of vs)) n) t ->
    step_ok (compose (acts_of vs)) t /\ reach (compose (acts_of vs)) n (vt_root t).
Proof. exact visit_deep. Qed.
Print Assumptions C18_deep.

(* The outcome of a visit depends on the decisions taken at the nodes it
   enters and on nothing else: two chains that decide alike on every node
   reached from n produce the same tree and the same visit tree. *)
Theorem C18_local : forall vs vs' fuel n,
  (forall m, reach (compose (acts_of vs)) n m -> compose (acts_of vs) m = compose (acts_of vs') m) ->
  apply fuel (compose (acts_of vs)) n = apply fuel (compose (acts_of vs')) n /\
  vtree fuel (compose (acts_of vs)) n = vtree fuel (compose (acts_of vs')) n.
Proof. exact visit_local. Qed.
Print Assumptions C18_local.

(* A subtree in which the chain keeps every node it reaches ([quiet]; by
   C18_quiet_chain: every visitor keeps it) comes back unchanged and is walked
   in full -- whatever the visitors do elsewhere in the document. *)
Theorem C18_quiet_unchanged : forall vs fuel n tr r,
  visit fuel vs n = Ok (tr, r) -> quiet (compose (acts_of vs)) n ->
  r = Some n /\
  tr = render (enter_block (acts_of vs) 0) (leave_block 0 (length (acts_of vs))) (full_tree fuel n).
Proof. exact visit_quiet. Qed.
Print Assumptions C18_quiet_unchanged.

Theorem C18_quiet_chain : forall acts n,
  compose acts n = Keep <-> forall a, In a acts -> a n = Keep.
Proof. exact compose_keep_iff. Qed.
Print Assumptions C18_quiet_chain.

(* Exactly that member.  In any list-valued child slot ([e_list], the slots of
   [map_children]; inj / proj are the slot's class) whose other members are
   quiet: deleting member x gives the list without x, skipping it gives the
   list as it was, replacing it by m (whose own children are quiet) gives the
   list with m in the place of x -- nothing else moves. *)
Theorem C18_member_delete : forall X (inj : X -> node) (proj : node -> option X),
  (forall x, proj (inj x) = Some x) ->
  forall act fuel pre post x l',
  (forall y, In y pre -> quiet act (inj y)) -> (forall y, In y post -> quiet act (inj y)) ->
  e_list inj proj (apply (S fuel) act) (pre ++ x :: post) = Ok l' ->
  act (inj x) = Delete -> l' = pre ++ post.
Proof. exact member_delete. Qed.
Print Assumptions C18_member_delete.

Theorem C18_member_skip : forall X (inj : X -> node) (proj : node -> option X),
  (forall x, proj (inj x) = Some x) ->
  forall act fuel pre post x l',
  (forall y, In y pre -> quiet act (inj y)) -> (forall y, In y post -> quiet act (inj y)) ->
  e_list inj proj (apply (S fuel) act) (pre ++ x :: post) = Ok l' ->
  act (inj x) = Skip -> l' = pre ++ x :: post.
Proof. exact member_skip. Qed.
Print Assumptions C18_member_skip.

Theorem C18_member_replace : forall X (inj : X -> node) (proj : node -> option X),
  (forall x, proj (inj x) = Some x) ->
  forall act fuel pre post x l',
  (forall y, In y pre -> quiet act (inj y)) -> (forall y, In y post -> quiet act (inj y)) ->
  e_list inj proj (apply (S fuel) act) (pre ++ x :: post) = Ok l' ->
  forall m, act (inj x) = Replace m -> (forall c, In c (tchildren m) -> quiet act c) ->
  exists x', proj m = Some x' /\ l' = pre ++ x' :: post.
Proof. exact member_replace. Qed.
Print Assumptions C18_member_replace.

(* ---- when an editing visit cannot fail (Proofs/VisitorNoCrash.v) ----
   The model answers Crash in three situations: a replacement of another class
   (Crash 1), a required child deleted (Crash 2: the selection set of an
   operation / fragment / inline fragment, the type of a variable definition /
   field definition / input value definition / operation type definition, the
   value of an argument / object field -- [required_children]), a class
   without table entry (Crash 3: Name).  If every visitor returns replacements
   of the class of the node it was given ([class_pres]: same [kind_of], same
   wrapper) and the chain never deletes a node standing in a required position,
   then for every root that is not a Name and every fuel the visit is Ok or out
   of fuel -- whatever else the visitors delete, skip or replace, at any depth --
   and ASTVisitor.visit's own class dispatch passes. *)
Theorem C18_no_crash : forall vs,
  class_pres vs ->
  (forall p c, In c (required_children p) -> compose (acts_of vs) c <> Delete) ->
  forall fuel n, kind_of n <> KName ->
    (visit fuel vs n = OutOfFuel \/ exists tr r, visit fuel vs n = Ok (tr, r)) /\
    (visit_top fuel vs n = visit fuel vs n).
Proof. exact visit_never_crashes. Qed.
Print Assumptions C18_no_crash.

(* ... and with replacements that do not grow (C18_terminates) fuel =
   node_size n suffices: the Ok premise of C18_refines / _balanced / _once /
   _deep / _delete / _skip / _replace is satisfiable for editing visitors. *)
Theorem C18_edit_total : forall vs,
  class_pres vs ->
  (forall p c, In c (required_children p) -> compose (acts_of vs) c <> Delete) ->
  (forall v x m, In v vs -> v_act v x = Replace m -> node_size m <= node_size x) ->
  forall fuel n, kind_of n <> KName -> node_size n <= fuel ->
  exists tr r, visit fuel vs n = Ok (tr, r).
Proof. exact visit_ok. Qed.
Print Assumptions C18_edit_total.

(* utilities/ast_transforms.py: RemoveFieldAliasesVisitor and
   CamelCaseToSnakeCaseVisitor (dispatching or not) meet the three conditions:
   on every node of every document they return Ok with fuel = node_size.
   (SnakeCaseToCamelCaseVisitor raises IndexError on a name made of underscores
   only -- a finding of the correspondence, modelled by act_snake_to_camel.) *)
Theorem C18_transforms_total : forall (d : bool) act,
  act = act_remove_aliases \/ act = act_camel_to_snake ->
  forall fuel n, kind_of n <> KName -> node_size n <= fuel ->
  exists tr r, visit fuel [Visitor d act] n = Ok (tr, r).
Proof. exact transform_total. Qed.
Print Assumptions C18_transforms_total.

(* both conditions are needed: deleting the value of an argument is Crash 2,
   replacing it by a node of another class is Crash 1 *)
Theorem C18_crash_conditions_needed :
  (let arg := NArg (Arg (nc_name "a") (VInt (str_of_string "1") None) None) in
   visit 5 [Visitor false (fun n => match n with NVal _ => Delete | _ => Keep end)] arg = Crash 2) /\
  (let arg := NArg (Arg (nc_name "a") (VInt (str_of_string "1") None) None) in
   visit 5 [Visitor false (fun n => match n with
                                    | NVal _ => Replace (NType (TNamed (nc_name "T") None))
                                    | _ => Keep end)] arg = Crash 1).
Proof. split; [exact required_delete_crashes|exact other_class_crashes]. Qed.
Print Assumptions C18_crash_conditions_needed.

(* ---- replacements of another class ----
   Since fixes/C18-03 _visit_method runs the children traversal that belongs to
   the class of the node enter() returned, so [visit] / [apply] carry no class
   check: C18_refines, C18_replace, C18_deep (a replaced node is left as the
   replacement after exactly the replacement's traversed children),
   C18_member_replace, C18_local hold for replacements of ANY class the slot
   admits.  Non-vacuity: a fragment spread replaced by an inline fragment --
   enter once on the spread, the inline fragment's directive and selection set
   are traversed, leave once on the inline fragment, which takes the spread's
   place. *)
Local Open Scope string_scope.
Theorem C18_replace_other_class :
  let fld x := SField None (nm0 x) [] [] None [] None in
  let inl := SInline (Some (tnamed "T")) [Dir (nm0 "d") [] None] None [fld "g"] None in
  let act n := match n with NSel (SSpread _ _ _) => Replace (NSel inl) | _ => Keep end in
  exists tr,
    visit 6 [Visitor false act] (NSelSet (None, [fld "a"; SSpread (nm0 "F") [] None; fld "b"]))
    = Ok (tr, Some (NSelSet (None, [fld "a"; inl; fld "b"]))) /\
    map (fun e : event => (snd (fst (fst e)), snd (fst e))) tr =
      [(true, KSelectionSet); (true, KField); (false, KField);
       (true, KFragmentSpread); (true, KDirective); (false, KDirective);
       (true, KSelectionSet); (true, KField); (false, KField); (false, KSelectionSet);
       (false, KInlineFragment);
       (true, KField); (false, KField); (false, KSelectionSet)].
Proof. cbv zeta. eexists. vm_compute. split; reflexivity. Qed.
Print Assumptions C18_replace_other_class.
Local Close Scope string_scope.

(* ---- the oracle of the correspondence harness ----
   The boolean comparison used to compare the implementation's recorded trace
   and result tree with the model's (Lang/VisitorEq.v: class, loc and every
   attribute) decides Leibniz equality; a case the oracle accepts is one where
   the recorded observation IS the model's output. *)
Theorem C18_oracle_reflects :
  (forall a b, node_eqb a b = true <-> a = b) /\
  (forall a b, event_eqb a b = true <-> a = b) /\
  (forall a b, leqb event_eqb a b = true <-> a = b) /\
  (forall a b, oeqb node_eqb a b = true <-> a = b).
Proof.
  split; [exact node_eqb_eq|]. split; [exact event_eqb_eq|]. split; [exact trace_eqb_eq|exact result_eqb_eq].
Qed.
Print Assumptions C18_oracle_reflects.

Theorem C18_oracle_sound : forall i o',
  agree_C18 (i, o') = true ->
  match model_C18 i with
  | Ok o => o = o'
  | Crash 3 => o' = OCrash
  | Crash 2 => o' = OIllFormed
  | _ => False
  end.
Proof. exact agree_C18_sound. Qed.
Print Assumptions C18_oracle_sound.

(* non-vacuity: { foo bar { x } baz } with a dispatching visitor that deletes
   foo, skips bar and replaces baz; chained with a keep-all visitor *)
Local Open Scope string_scope.
Example C18_example :
  let fld x sub := SField None (nm0 x) [] [] (match sub with [] => None | _ => Some None end) sub None in
  let d := Doc [DOperation OpQuery None [] [] None [fld "foo" []; fld "bar" [fld "x" []]; fld "baz" []] None] None in
  let act n := match n with
               | NSel (SField _ nm _ _ _ _ _) =>
                   if str_eqb (n_val nm) (str_of_string "foo") then Delete
                   else if str_eqb (n_val nm) (str_of_string "bar") then Skip
                   else if str_eqb (n_val nm) (str_of_string "baz") then Replace (NSel (fld "qux" []))
                   else Keep
               | _ => Keep
               end in
  let vs := [Visitor true act; Visitor false (fun _ => Keep)] in
  kind_pres (acts_of vs) /\
  exists tr, visit 10 vs (NDoc d) =
    Ok (tr, Some (NDoc (Doc [DOperation OpQuery None [] [] None
                               [fld "bar" [fld "x" []]; fld "qux" []] None] None)))
    /\ length tr = 18.
Proof.
  cbv zeta. split.
  - intros a n m [<-|[<-|[]]] H; [|simpl in H; discriminate]. simpl in H.
    destruct n; try discriminate. destruct s; try discriminate.
    repeat match goal with H : context [if ?c then _ else _] |- _ => destruct c; try discriminate end.
    inversion H; reflexivity.
  - eexists. vm_compute. split; reflexivity.
Qed.
