(* C18 -- executable model of py_gql/lang/visitor.py (after the two repairs
   fixes/C18-01, C18-02) and of py_gql/utilities/ast_transforms.py.

     _visit_method            -> [wrapper]
     map_and_filter           -> [map_and_filter]
     x.attr = visit(x.attr)   -> [m_req];  "if x.attr is not None: ..." -> [m_opt]
     ASTVisitor._visit_*      -> [method] (one clause per method, children in
                                 the order the code visits them)
     _visit_definition / _visit_selection / ASTVisitor.visit / Dispatching-
     Visitor.enter / .leave   -> the class tables below
     ChainedVisitor.enter/.leave -> [chain_enter] / [chain_leave]; a plain
                                 visitor is the chain of length one.

   A visitor is its decision function [v_act] (what enter returns for a node:
   the node itself, another node, None, or raises SkipNode); every enter and
   leave call is logged.  Recursion is on fuel because the children of a
   *replacement* are traversed, which is not structural.

   Outcomes: Crash 1 = enter returned a node of another class (the code would
   run the wrong _visit_* body on it; not modelled further), Crash 2 = a
   required attribute was set to None (object no longer a tree of Ast.v; the
   code itself carries on), Crash 3 = TypeError from a class table. *)
From PyGql Require Export Spec.VisitorSpec.

Record visitor := Visitor { v_dispatching : bool; v_act : node -> action }.

(* ---- class tables, in the order the code lists them ---- *)
Definition visit_table : list kind :=
  [KDocument; KOperationDefinition; KVariableDefinition; KVariable; KSelectionSet; KField;
   KArgument; KFragmentSpread; KInlineFragment; KFragmentDefinition; KIntValue; KFloatValue;
   KBooleanValue; KNullValue; KEnumValue; KStringValue; KListValue; KObjectValue; KObjectField;
   KDirective; KNonNullType; KListType; KNamedType; KSchemaDefinition;
   KOperationTypeDefinition; KScalarTypeDefinition; KObjectTypeDefinition; KFieldDefinition;
   KInputValueDefinition; KInterfaceTypeDefinition; KUnionTypeDefinition; KEnumTypeDefinition;
   KEnumValueDefinition; KInputObjectTypeDefinition; KSchemaExtension; KScalarTypeExtension;
   KObjectTypeExtension; KInterfaceTypeExtension; KUnionTypeExtension; KEnumTypeExtension;
   KInputObjectTypeExtension; KDirectiveDefinition].

Definition definition_table : list kind :=
  [KOperationDefinition; KFragmentDefinition; KSchemaDefinition; KScalarTypeDefinition;
   KObjectTypeDefinition; KInterfaceTypeDefinition; KUnionTypeDefinition; KEnumTypeDefinition;
   KInputObjectTypeDefinition; KSchemaExtension; KScalarTypeExtension; KObjectTypeExtension;
   KInterfaceTypeExtension; KUnionTypeExtension; KEnumTypeExtension;
   KInputObjectTypeExtension; KDirectiveDefinition].

Definition selection_table : list kind := [KField; KFragmentSpread; KInlineFragment].

Definition dispatch_enter_table : list kind :=
  [KDocument; KOperationDefinition; KFragmentDefinition; KVariableDefinition; KDirective;
   KArgument; KSelectionSet; KField; KFragmentSpread; KInlineFragment; KNullValue; KIntValue;
   KFloatValue; KStringValue; KBooleanValue; KEnumValue; KVariable; KListValue; KObjectValue;
   KObjectField; KNamedType; KListType; KNonNullType; KSchemaDefinition;
   KOperationTypeDefinition; KScalarTypeDefinition; KObjectTypeDefinition; KFieldDefinition;
   KInputValueDefinition; KInterfaceTypeDefinition; KUnionTypeDefinition; KEnumTypeDefinition;
   KEnumValueDefinition; KInputObjectTypeDefinition; KSchemaExtension; KScalarTypeExtension;
   KObjectTypeExtension; KInterfaceTypeExtension; KUnionTypeExtension; KEnumTypeExtension;
   KInputObjectTypeExtension; KDirectiveDefinition].

Definition dispatch_leave_table : list kind := dispatch_enter_table.

Definition in_table (k : kind) (t : list kind) : bool := existsb (kind_eqb k) t.

(* ---- enter / leave of a chain of visitors ---- *)
Inductive enter_result := ECont (n : node) | EDelete | ESkip | ECrash.

Definition enter_miss (v : visitor) (n : node) : bool :=
  v_dispatching v && negb (in_table (kind_of n) dispatch_enter_table).
Definition leave_miss (v : visitor) (n : node) : bool :=
  v_dispatching v && negb (in_table (kind_of n) dispatch_leave_table).

(* ChainedVisitor.enter: cur = node; for v in visitors: if cur is None: break;
   cur = v.enter(cur); return cur.  SkipNode propagates to _visit_method. *)
Fixpoint chain_enter (i : nat) (vs : list visitor) (cur : node) : trace * enter_result :=
  match vs with
  | [] => ([], ECont cur)
  | v :: rest =>
      if enter_miss v cur then ([], ECrash)
      else match v_act v cur with
           | Keep => let p := chain_enter (S i) rest cur in (ev i true cur :: fst p, snd p)
           | Replace m => let p := chain_enter (S i) rest m in (ev i true cur :: fst p, snd p)
           | Delete => ([ev i true cur], EDelete)
           | Skip => ([ev i true cur], ESkip)
           end
  end.

(* ChainedVisitor.leave: for v in visitors[::-1]: v.leave(node) *)
Fixpoint chain_leave (i : nat) (vs : list visitor) (n : node) : option trace :=
  match vs with
  | [] => Some []
  | v :: rest =>
      match chain_leave (S i) rest n with
      | None => None
      | Some tr => if leave_miss v n then None else Some (tr ++ [ev i false n])
      end
  end.

(* ---- _visit_method ----
   (after fixes/C18-03: when enter returns a node of another class the wrapper runs the
   children traversal of THAT class -- [method] dispatches on the node it is given) *)
Definition wrapper (vs : list visitor) (method : node -> outcome (trace * node)) (n : node)
  : outcome (trace * option node) :=
  match chain_enter 0 vs n with
  | (_, ECrash) => Crash 3
  | (tr0, ESkip) => Ok (tr0, Some n)          (* except SkipNode: return node *)
  | (tr0, EDelete) => Ok (tr0, None)
  | (tr0, ECont n1) =>
      do p <- method n1;
      match chain_leave 0 vs (snd p) with
      | None => Crash 3
      | Some tr2 => Ok (tr0 ++ fst p ++ tr2, Some (snd p))
      end
  end.

(* ---- child slots ---- *)
Definition rec_t := node -> outcome (trace * option node).

Definition m_one {X} (inj : X -> node) (proj : node -> option X) (rec : rec_t) (x : X)
  : outcome (trace * option X) :=
  do p <- rec (inj x);
  match snd p with
  | None => Ok (fst p, None)
  | Some m => match proj m with Some x' => Ok (fst p, Some x') | None => Crash 1 end
  end.

(* [m for m in (func(e) for e in iterable) if m is not None] *)
Fixpoint map_and_filter {X} (inj : X -> node) (proj : node -> option X) (rec : rec_t) (l : list X)
  : outcome (trace * list X) :=
  match l with
  | [] => Ok ([], [])
  | x :: l' =>
      do p <- m_one inj proj rec x;
      do q <- map_and_filter inj proj rec l';
      Ok (fst p ++ fst q, olist (snd p) ++ snd q)
  end.

Definition m_req {X} (inj : X -> node) (proj : node -> option X) (rec : rec_t) (x : X)
  : outcome (trace * X) :=
  do p <- m_one inj proj rec x;
  match snd p with Some x' => Ok (fst p, x') | None => Crash 2 end.

Definition m_opt {X} (inj : X -> node) (proj : node -> option X) (rec : rec_t) (o : option X)
  : outcome (trace * option X) :=
  match o with None => Ok ([], None) | Some x => m_one inj proj rec x end.

(* _visit_definition / _visit_selection: class dispatch, then the method *)
Definition via_table (t : list kind) (rec : rec_t) : rec_t :=
  fun n => if in_table (kind_of n) t then rec n else Crash 3.

(* ---- ASTVisitor._visit_* bodies ---- *)
Definition method (rec : rec_t) (n : node) : outcome (trace * node) :=
  let dirs_of := map_and_filter NDir pDir rec in
  match n with
  | NDoc (Doc defs l) =>                                        (* _visit_document *)
      do a <- map_and_filter NDef pDef (via_table definition_table rec) defs;
      Ok (fst a, NDoc (Doc (snd a) l))
  | NDef (DOperation k nm vds dirs ssl sels l) =>               (* _visit_operation_definition *)
      do a <- map_and_filter NVarDef pVarDef rec vds;
      do b <- dirs_of dirs;
      do c <- m_req NSelSet pSelSet rec (ssl, sels);
      Ok (fst a ++ fst b ++ fst c,
          NDef (DOperation k nm (snd a) (snd b) (fst (snd c)) (snd (snd c)) l))
  | NDef (DFragment nm vds tc dirs ssl sels l) =>               (* _visit_fragment_definition *)
      do b <- dirs_of dirs;
      do c <- m_req NSelSet pSelSet rec (ssl, sels);
      Ok (fst b ++ fst c, NDef (DFragment nm vds tc (snd b) (fst (snd c)) (snd (snd c)) l))
  | NDef (DSchema ext dirs ots l) =>                            (* _visit_schema_definition *)
      do a <- map_and_filter NOpType pOpType rec ots;
      do b <- dirs_of dirs;
      Ok (fst a ++ fst b, NDef (DSchema ext (snd b) (snd a) l))
  | NDef (DScalar ext desc nm dirs l) =>                        (* _visit_scalar_type_definition *)
      do b <- dirs_of dirs; Ok (fst b, NDef (DScalar ext desc nm (snd b) l))
  | NDef (DObject ext desc nm ifaces dirs fields l) =>          (* _visit_object_type_definition *)
      do a <- map_and_filter NType pType rec ifaces;
      do b <- dirs_of dirs;
      do c <- map_and_filter NFieldDef pFieldDef rec fields;
      Ok (fst a ++ fst b ++ fst c, NDef (DObject ext desc nm (snd a) (snd b) (snd c) l))
  | NDef (DInterface ext desc nm dirs fields l) =>              (* _visit_interface_type_definition *)
      do b <- dirs_of dirs;
      do c <- map_and_filter NFieldDef pFieldDef rec fields;
      Ok (fst b ++ fst c, NDef (DInterface ext desc nm (snd b) (snd c) l))
  | NDef (DUnion ext desc nm dirs types l) =>                   (* _visit_union_type_definition *)
      do b <- dirs_of dirs;
      do c <- map_and_filter NType pType rec types;
      Ok (fst b ++ fst c, NDef (DUnion ext desc nm (snd b) (snd c) l))
  | NDef (DEnum ext desc nm dirs vals l) =>                     (* _visit_enum_type_definition *)
      do b <- dirs_of dirs;
      do c <- map_and_filter NEVDef pEVDef rec vals;
      Ok (fst b ++ fst c, NDef (DEnum ext desc nm (snd b) (snd c) l))
  | NDef (DInput ext desc nm dirs fields l) =>                  (* _visit_input_object_type_definition *)
      do b <- dirs_of dirs;
      do c <- map_and_filter NIVDef pIVDef rec fields;
      Ok (fst b ++ fst c, NDef (DInput ext desc nm (snd b) (snd c) l))
  | NDef (DDirective desc nm args locs l) =>                    (* _visit_directive_definition *)
      do a <- map_and_filter NIVDef pIVDef rec args;
      Ok (fst a, NDef (DDirective desc nm (snd a) locs l))
  | NVarDef (VarDef v vl t d dirs l) =>                         (* _visit_variable_definition *)
      do a <- m_opt NVal pVal rec d;           (* "if definition.default_value:" -- nodes are truthy *)
      do b <- m_req NType pType rec t;
      Ok (fst a ++ fst b, NVarDef (VarDef v vl (snd b) (snd a) dirs l))
  | NSelSet (l, ss) =>                                          (* _visit_selection_set *)
      do a <- map_and_filter NSel pSel (via_table selection_table rec) ss;
      Ok (fst a, NSelSet (l, snd a))
  | NSel (SField al nm args dirs sl sub l) =>                   (* _visit_field *)
      do a <- map_and_filter NArg pArg rec args;
      do b <- dirs_of dirs;
      do c <- m_opt NSelSet pSelSet rec (field_selset sl sub);
      let r := match sl with Some _ => set_selset (snd c) [] | None => (None, sub) end in
      Ok (fst a ++ fst b ++ fst c, NSel (SField al nm (snd a) (snd b) (fst r) (snd r) l))
  | NSel (SSpread nm dirs l) =>                                 (* _visit_fragment_spread *)
      do b <- dirs_of dirs; Ok (fst b, NSel (SSpread nm (snd b) l))
  | NSel (SInline tc dirs ssl sub l) =>                         (* _visit_inline_fragment *)
      do b <- dirs_of dirs;
      do c <- m_req NSelSet pSelSet rec (ssl, sub);
      Ok (fst b ++ fst c, NSel (SInline tc (snd b) (fst (snd c)) (snd (snd c)) l))
  | NArg (Arg nm v l) =>                                        (* _visit_argument *)
      do a <- m_req NVal pVal rec v; Ok (fst a, NArg (Arg nm (snd a) l))
  | NDir (Dir nm args l) =>                                     (* _visit_directive *)
      do a <- map_and_filter NArg pArg rec args; Ok (fst a, NDir (Dir nm (snd a) l))
  | NVal (VObject fs l) =>                                      (* _visit_value, ObjectValue *)
      do a <- map_and_filter NObjField pObjField rec fs; Ok (fst a, NVal (VObject (snd a) l))
  | NVal (VList vs l) =>                                        (* _visit_value, ListValue *)
      do a <- map_and_filter NVal pVal rec vs; Ok (fst a, NVal (VList (snd a) l))
  | NVal v => Ok ([], NVal v)                                   (* _visit_value / _visit_variable *)
  | NObjField (nm, v, l) =>                                     (* _visit_object_field *)
      do a <- m_req NVal pVal rec v; Ok (fst a, NObjField (nm, snd a, l))
  | NType t => Ok ([], NType t)                                 (* _visit_type *)
  | NOpType (OTDef k t l) =>                                    (* _visit_operation_type_definition *)
      do a <- m_req NType pType rec t; Ok (fst a, NOpType (OTDef k (snd a) l))
  | NFieldDef (FDef desc nm args t dirs l) =>                   (* _visit_field_definition *)
      do a <- m_req NType pType rec t;
      do b <- map_and_filter NIVDef pIVDef rec args;
      do c <- dirs_of dirs;
      Ok (fst a ++ fst b ++ fst c, NFieldDef (FDef desc nm (snd b) (snd a) (snd c) l))
  | NIVDef (IVDef desc nm t d dirs l) =>                        (* _visit_input_value_definition *)
      do a <- m_req NType pType rec t;
      do b <- m_opt NVal pVal rec d;
      do c <- dirs_of dirs;
      Ok (fst a ++ fst b ++ fst c, NIVDef (IVDef desc nm (snd a) (snd b) (snd c) l))
  | NEVDef (EVDef desc nm dirs l) =>                            (* _visit_enum_value_definition *)
      do b <- dirs_of dirs; Ok (fst b, NEVDef (EVDef desc nm (snd b) l))
  | NDesc s => Ok ([], NDesc s)       (* only reachable as a root: visit(StringValue) *)
  | NName x => Ok ([], NName x)       (* unreachable: no table has Name *)
  end.

Fixpoint visit (fuel : nat) (vs : list visitor) (n : node) : outcome (trace * option node) :=
  match fuel with
  | 0 => OutOfFuel
  | S f => wrapper vs (method (visit f vs)) n
  end.

(* ASTVisitor.visit(node) *)
Definition visit_top (fuel : nat) (vs : list visitor) (n : node) : outcome (trace * option node) :=
  if in_table (kind_of n) visit_table then visit fuel vs n else Crash 3.

(* ---- utilities/ast_transforms.py: the three visitors as action functions.
   They mutate the field in place and return it = Replace by the changed field. *)
Definition is_upper (c : N) : bool := (65 <=? c)%N && (c <=? 90)%N.
Definition is_lower (c : N) : bool := (97 <=? c)%N && (c <=? 122)%N.
Definition is_alpha (c : N) : bool := is_upper c || is_lower c.
Definition to_lower (c : N) : N := if is_upper c then (c + 32)%N else c.
Definition to_upper (c : N) : N := if is_lower c then (c - 32)%N else c.
Definition us : N := 95%N.

(* camelcase_to_snakecase on names (ASCII letters, digits, underscore):
   value[0].lower() + re.sub("[A-Z]", "_" + lower, value[1:]) *)
Definition camel_to_snake (s : str) : str :=
  match s with
  | [] => []
  | c :: r => to_lower c :: flat_map (fun x => if is_upper x then [us; to_lower x] else [x]) r
  end.

Fixpoint take_us (s : str) : str :=
  match s with c :: r => if N.eqb c us then c :: take_us r else [] | [] => [] end.
Fixpoint drop_us (s : str) : str :=
  match s with c :: r => if N.eqb c us then drop_us r else s | [] => [] end.
Definition strip_us (s : str) : str := rev (drop_us (rev (drop_us s))).

Fixpoint split_us (cur : str) (s : str) : list str :=
  match s with
  | [] => [rev cur]
  | c :: r => if N.eqb c us then rev cur :: split_us [] r else split_us (c :: cur) r
  end.

(* str.title() on ASCII: a letter is upper-cased when the previous character
   is not a letter, lower-cased otherwise *)
Fixpoint title_from (prev_alpha : bool) (s : str) : str :=
  match s with
  | [] => []
  | c :: r => (if is_alpha c then (if prev_alpha then to_lower c else to_upper c) else c)
              :: title_from (is_alpha c) r
  end.

(* snakecase_to_camelcase; [None] = IndexError on a name made of underscores only *)
Definition snake_to_camel (s : str) : option str :=
  match s with
  | [] => Some []
  | _ =>
      let core := strip_us s in
      let leading := take_us s in
      let trailing := match core with [] => [] | _ => rev (take_us (rev s)) end in
      match split_us [] core with
      | (h :: hr) :: tail =>
          Some (leading ++ to_lower h :: hr ++ flat_map (title_from false) tail ++ trailing)
      | _ => None
      end
  end.

Definition act_remove_aliases (n : node) : action :=
  match n with
  | NSel (SField (Some _) nm args dirs sl sub l) => Replace (NSel (SField None nm args dirs sl sub l))
  | _ => Keep
  end.

Definition act_camel_to_snake (n : node) : action :=
  match n with
  | NSel (SField al nm args dirs sl sub l) =>
      Replace (NSel (SField al (Name (camel_to_snake (n_val nm)) (n_loc nm)) args dirs sl sub l))
  | _ => Keep
  end.

(* [None]: the visitor's enter raised IndexError *)
Definition act_snake_to_camel (n : node) : option action :=
  match n with
  | NSel (SField al nm args dirs sl sub l) =>
      match snake_to_camel (n_val nm) with
      | Some s' => Some (Replace (NSel (SField al (Name s' (n_loc nm)) args dirs sl sub l)))
      | None => None
      end
  | _ => Some Keep
  end.
