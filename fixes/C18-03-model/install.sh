#!/bin/sh
# fixes/C18-03-model/install.sh <commit-id-of-the-fix-in-/repo>
# Run AFTER fixes/C18-03-replacement-of-another-class.patch is applied to /repo: installs the model in
# which [visit] / [apply] carry no class check (so C18_refines / _replace / _deep / _member_replace cover
# replacements of any class by proof), drops the interim Lang/VisitorCross.v oracle, flips the finding.
set -e
C="$1"; [ -n "$C" ] || { echo "usage: install.sh <commit>"; exit 2; }
H="$(cd "$(dirname "$0")" && pwd)"; V="$(cd "$H/../.." && pwd)"
for f in Spec/VisitorSpec Lang/VisitorModel Proofs/VisitorProofs Proofs/VisitorTermination Proofs/VisitorLocality \
         Proofs/VisitorNoCrash Proofs/VisitorEqProofs Run/C18run Properties/C18; do
  cp "$H/coq/$f.v" "$V/coq/$f.v"
done
for f in Lang/VisitorCross Proofs/VisitorCrossProofs; do
  rm -f "$V/coq/$f.v" "$V/coq/$f.vo" "$V/coq/$f.vos" "$V/coq/$f.vok" "$V/coq/$f.glob" "$V/coq/$(dirname $f)/.$(basename $f).aux"
done
cp "$H/harness/props/c18.py" "$V/harness/props/c18.py"
/venv/bin/python - "$V" "$C" <<'PY'
import json, sys
v, c = sys.argv[1], sys.argv[2]
p = v + "/known_findings.d/C18.json"
k = json.load(open(p))
for f in k["findings"]:
    if f["id"] == "replace-other-class":
        f["status"] = "fixed"; f["commit"] = c
        f["what"] = ("fixed: property=C18 %s when enter() returned a node of another class the traversal written "
                     "for the ORIGINAL class ran on the replacement (Field -> FragmentSpread / InlineFragment raised "
                     "AttributeError; FragmentSpread -> InlineFragment skipped the selection set; Variable -> ListValue "
                     "skipped the members)" % c)
json.dump(k, open(p, "w"), indent=1, ensure_ascii=False); open(p, "a").write("\n")
PY
sh "$V/tools/update_digests.sh" C18
echo "installed; now run ./check C18 --tier quick"
