# -*- coding: utf-8 -*-
"""Generators, py_gql schema construction and Coq serialisation for C07
(input coercion).

JSON-able descriptions used in cases
  type       ["N", nonnull, name] | ["L", nonnull, type]
  schema     {"types": [typedef]}   (the five specified scalars are implicit)
  typedef    {"name", "kind": "enum",   "values": [[name, internal]]}
             {"name", "kind": "input",  "fields": [fielddef]}
             {"name", "kind": "scalar", "scalar": "any" | "tag"}
             {"name", "kind": "output"}
  fielddef   {"name", "py", "type", "default": [value] | None}
Python values (internal values, defaults, coerced variables) are plain
JSON-able Python values; floats are compared through positional decimal text.
"""
import decimal
import json
import re

from py_gql.lang import ast as A
from py_gql.schema import (
    ID,
    Argument,
    Boolean,
    EnumType,
    Field,
    Float,
    InputField,
    InputObjectType,
    Int,
    ListType,
    NonNullType,
    ObjectType,
    ScalarType,
    Schema,
    String,
    InterfaceType,
    UnionType,
    Directive,
)
from py_gql.schema.scalars import default_scalar

from . import ser

BUILTIN = {"Int": Int, "Float": Float, "String": String, "ID": ID, "Boolean": Boolean}
BUILTIN_KIND = {"Int": "KInt", "Float": "KFloat", "String": "KString", "ID": "KID",
                "Boolean": "KBoolean"}
NAME_RE = re.compile(r"^[_A-Za-z][_0-9A-Za-z]*$")


# ------------------------------------------------------------------ types
def N(name, nn=False):
    return ["N", bool(nn), name]


def L(inner, nn=False):
    return ["L", bool(nn), inner]


def ty_name(t):
    return t[2] if t[0] == "N" else ty_name(t[2])


def ty_text(t):
    base = t[2] if t[0] == "N" else "[%s]" % ty_text(t[2])
    return base + ("!" if t[1] else "")


def ty_depth(t):
    return 0 if t[0] == "N" else 1 + ty_depth(t[2])


def nullable(t):
    return [t[0], False, t[2]]


def nonnull(t):
    return [t[0], True, t[2]]


def type_shapes(maxdepth):
    """all wrapper shapes up to maxdepth lists, as functions name -> type"""
    shapes = [lambda n, nn=nn: N(n, nn) for nn in (False, True)]
    out = list(shapes)
    cur = shapes
    for _ in range(maxdepth):
        nxt = []
        for f in cur:
            for nn in (False, True):
                nxt.append(lambda n, f=f, nn=nn: L(f(n), nn))
        out.extend(nxt)
        cur = nxt
    return out


# ----------------------------------------------------- the user scalar Tag
def _parse_tag(value):
    if not isinstance(value, str):
        raise TypeError("Tag must be a string")
    if not value:
        raise ValueError("Tag must not be empty")
    return value


def _tag_literal(node, _variables):
    if type(node) is not A.StringValue:
        raise TypeError("Invalid literal %s" % node.__class__.__name__)
    return _parse_tag(node.value)


# ------------------------------------- the raising user scalar Odd
class OddBoom(Exception):
    """an arbitrary exception (neither ValueError nor TypeError) raised by user
    scalar code: ScalarType.parse lets it bubble up"""


def _parse_odd(value):
    if isinstance(value, bool) or not isinstance(value, int):
        raise TypeError("Odd must be an integer")
    if value == 13:
        raise OddBoom("unlucky")
    if value % 2 == 0:
        raise ValueError("Odd must be odd")
    return value


def _odd_literal(node, _variables):
    if type(node) is not A.IntValue:
        raise TypeError("Invalid literal %s" % node.__class__.__name__)
    return _parse_odd(int(node.value, 10))


# ----------------------------------------------------------------- schemas
def tdefs(sd):
    return {td["name"]: td for td in sd["types"]}


def kind_of(sd, name):
    if name in BUILTIN:
        return "scalar"
    return tdefs(sd)[name]["kind"]


def scalar_kind(sd, name):
    if name in BUILTIN:
        return name
    return tdefs(sd)[name]["scalar"]


class Built:
    """py_gql types for a schema description + a field `f` capturing kwargs"""

    def __init__(self, sd, argdefs=()):
        self.sd = sd
        self.types = dict(BUILTIN)
        for td in sd["types"]:
            k = td["kind"]
            if k == "enum":
                self.types[td["name"]] = EnumType(
                    td["name"], [(n, _hashable(v)) for n, v in td["values"]])
            elif k == "scalar":
                if td["scalar"] == "any":
                    self.types[td["name"]] = default_scalar(td["name"])
                elif td["scalar"] == "odd":
                    self.types[td["name"]] = ScalarType(
                        td["name"], serialize=int, parse=_parse_odd, parse_literal=_odd_literal)
                else:
                    self.types[td["name"]] = ScalarType(
                        td["name"], serialize=str, parse=_parse_tag, parse_literal=_tag_literal)
            elif k == "input":
                self.types[td["name"]] = InputObjectType(
                    td["name"], fields=(lambda td=td: [self._mk(InputField, f) for f in td["fields"]]))
            elif k == "output":
                self.types[td["name"]] = ObjectType(td["name"], [Field("x", Int)])
        self.calls = []

        def resolver(root, ctx, info, **kwargs):
            self.calls.append(kwargs)
            return 1

        self.field = Field("f", Int, args=[self._mk(Argument, a) for a in argdefs],
                           resolver=resolver)
        self.query = ObjectType("Query", [self.field, Field("other", Int, resolver=lambda *a, **k: 2)])
        self.schema = Schema(self.query, types=[t for n, t in self.types.items() if n not in BUILTIN])

    def ty(self, t):
        inner = self.types[t[2]] if t[0] == "N" else ListType(self.ty(t[2]))
        return NonNullType(inner) if t[1] else inner

    def _mk(self, cls, f):
        kw = {}
        if f.get("default") is not None:
            kw["default_value"] = f["default"][0]
        return cls(f["name"], (lambda f=f: self.ty(f["type"])), python_name=f["py"], **kw)


class BuiltAbs:
    """an interface `Thing` with field g(iface_args), concrete object types
    (impls: [{"name", "args"}]) declaring g with their OWN argument
    definitions, a union of them, and root fields returning objects of the
    concrete types in a given order. Every resolver of g records
    (index of the object, kwargs)."""

    def __init__(self, sd, iface_args, impls):
        self.base = b = Built(sd)
        self.calls = []
        self.order = []
        iface = InterfaceType("Thing", [Field("g", Int, args=[b._mk(Argument, a) for a in iface_args])])
        self.fields = {}
        objs = []
        for imp in impls:
            def resolver(root, ctx, info, **kwargs):
                self.calls.append((root["idx"], kwargs))
                return 1
            f = Field("g", Int, args=[b._mk(Argument, a) for a in imp["args"]], resolver=resolver)
            self.fields[imp["name"]] = f
            objs.append(ObjectType(imp["name"], [f], interfaces=[iface]))
        union = UnionType("AnyThing", objs)

        def things(root, ctx, info):
            return [{"__typename__": n, "idx": i} for i, n in enumerate(self.order)]

        query = ObjectType("Query", [Field("things", ListType(iface), resolver=things),
                                     Field("items", ListType(union), resolver=things)])
        self.schema = Schema(
            query, types=[t for n, t in b.types.items() if n not in BUILTIN] + objs + [iface, union])


class BuiltDir:
    """schema with a custom directive @custom(cdefs) (FIELD and OBJECT); the
    resolver of Query.f / Sub.f records info.get_directive_arguments("custom"),
    the resolver of the sibling field `other` records that it ran"""

    def __init__(self, sd, cdefs):
        self.base = b = Built(sd)
        self.calls = []
        self.custom = Directive("custom", locations=["FIELD", "OBJECT"],
                                args=[b._mk(Argument, a) for a in cdefs])

        def resolver(root, ctx, info, **kwargs):
            try:
                self.calls.append(("ok", info.get_directive_arguments("custom")))
            except Exception as e:  # noqa
                self.calls.append(("exc", e))
                raise
            return 1

        self.others = []

        def other(root, ctx, info, **kwargs):
            self.others.append(1)
            return 2

        sub = ObjectType("Sub", [Field("f", Int, resolver=resolver), Field("other", Int, resolver=other)])
        query = ObjectType("Query", [Field("f", Int, resolver=resolver),
                                     Field("other", Int, resolver=other),
                                     Field("parent", sub, resolver=lambda *a, **k: {})])
        self.schema = Schema(query, directives=[self.custom],
                             types=[t for n, t in b.types.items() if n not in BUILTIN])


def ty_of_obj(t):
    if isinstance(t, NonNullType):
        inner = ty_of_obj(t.type)
        return [inner[0], True, inner[2]]
    if isinstance(t, ListType):
        return ["L", False, ty_of_obj(t.type)]
    return ["N", False, t.name]


def dump_sd(schema, sd):
    """the schema description of a (derived) py_gql schema, for the types the
    source description names: input fields are read from `.fields`"""
    out = []
    for td in sd["types"]:
        t = schema.types.get(td["name"])
        if t is None:
            continue
        if td["kind"] == "input":
            fields = []
            for f in t.fields:
                fields.append({"name": f.name, "py": f.python_name, "type": ty_of_obj(f.type),
                               "default": [f.default_value] if f.has_default_value else None})
            out.append({"name": td["name"], "kind": "input", "fields": fields})
        elif td["kind"] == "enum":
            out.append({"name": td["name"], "kind": "enum",
                        "values": [[v.name, list(v.value) if isinstance(v.value, tuple) else v.value]
                                   for v in t.values]})
        else:
            out.append(dict(td))
    return {"types": out}


def _hashable(v):
    return tuple(v) if isinstance(v, list) else v


# ------------------------------------------------------- Coq serialisation
def float_text(f):
    """positional decimal text of the shortest repr (canonical form of floats)"""
    if f != f:
        return "nan"
    if f in (float("inf"), float("-inf")):
        return "inf" if f > 0 else "-inf"
    d = decimal.Decimal(repr(f))
    t = format(d, "f")
    if "." not in t:
        t += ".0"
    else:
        t = t.rstrip("0")
        if t.endswith("."):
            t += "0"
    return t


def cpv(v):
    if v is None:
        return "PNone"
    if v is True or v is False:
        return "(PBool %s)" % ser.cbool(v)
    if isinstance(v, int):
        return "(PInt %s)" % ser.cz(v)
    if isinstance(v, float):
        return "(PFloat %s)" % ser.cstr(float_text(v))
    if isinstance(v, str):
        return "(PStr %s)" % ser.cstr(v)
    if isinstance(v, (list, tuple)):
        return "(PList %s)" % ser.clist(v, cpv)
    if isinstance(v, dict):
        return "(PDict %s)" % ser.clist(list(v.items()), lambda kv: "(%s, %s)" % (ser.cstr(kv[0]), cpv(kv[1])))
    raise TypeError("cpv: %r" % (v,))


def cjson(v):
    if v is None:
        return "JNull"
    if v is True or v is False:
        return "(JBool %s)" % ser.cbool(v)
    if isinstance(v, int):
        return "(JInt %s)" % ser.cz(v)
    if isinstance(v, float):
        return "(JFloat %s)" % ser.cstr(float_text(v))
    if isinstance(v, str):
        return "(JStr %s)" % ser.cstr(v)
    if isinstance(v, list):
        return "(JList %s)" % ser.clist(v, cjson)
    if isinstance(v, dict):
        return "(JObj %s)" % ser.clist(list(v.items()), lambda kv: "(%s, %s)" % (ser.cstr(kv[0]), cjson(kv[1])))
    raise TypeError("cjson: %r" % (v,))


def city(t):
    if t[0] == "N":
        return "(INamed %s %s)" % (ser.cbool(t[1]), ser.cstr(t[2]))
    return "(IList %s %s)" % (ser.cbool(t[1]), city(t[2]))


def cfield(f):
    return "(IField %s %s %s %s)" % (
        ser.cstr(f["name"]), ser.cstr(f["py"]), city(f["type"]),
        "None" if f.get("default") is None else "(Some %s)" % cpv(f["default"][0]))


def cschema(sd):
    items = ["(%s, TDScalar %s)" % (ser.cstr(n), k) for n, k in BUILTIN_KIND.items()]
    for td in sd["types"]:
        k = td["kind"]
        if k == "enum":
            d = "TDEnum %s" % ser.clist(td["values"], lambda nv: "(%s, %s)" % (ser.cstr(nv[0]), cpv(nv[1])))
        elif k == "scalar":
            d = "TDScalar %s" % {"any": "KAny", "tag": "KTag", "odd": "KOdd"}[td["scalar"]]
        elif k == "input":
            d = "TDInput %s" % ser.clist(td["fields"], cfield)
        else:
            d = "TDOutput"
        items.append("(%s, %s)" % (ser.cstr(td["name"]), d))
    return "[" + ";\n ".join(items) + "]"


# ------------------------------------------------------------ the schemas
def fixed_schema():
    """hand-made: enums with internal values, a recursive input type with
    defaults and python names that differ from the GraphQL names"""
    point_default = {"x": 0, "y_py": 7, "label": "pt"}
    return {"types": [
        {"name": "Color", "kind": "enum", "values": [["RED", 1001], ["GREEN", "g_internal"], ["BLUE", "blue"]]},
        {"name": "Any1", "kind": "scalar", "scalar": "any"},
        {"name": "Tag", "kind": "scalar", "scalar": "tag"},
        {"name": "Odd", "kind": "scalar", "scalar": "odd"},
        {"name": "Out", "kind": "output"},
        {"name": "Point", "kind": "input", "fields": [
            {"name": "x", "py": "x", "type": N("Int", True), "default": None},
            {"name": "y", "py": "y_py", "type": N("Int"), "default": [7]},
            {"name": "label", "py": "label", "type": N("String"), "default": ["pt"]},
            {"name": "tags", "py": "tags", "type": L(N("Tag", True)), "default": None},
        ]},
        {"name": "Node", "kind": "input", "fields": [
            {"name": "value", "py": "value", "type": N("Int", True), "default": None},
            {"name": "next", "py": "next_node", "type": N("Node"), "default": None},
            {"name": "children", "py": "kids", "type": L(N("Node", True)), "default": [[]]},
            {"name": "color", "py": "color", "type": N("Color"), "default": ["g_internal"]},
            {"name": "meta", "py": "meta", "type": N("Any1"), "default": None},
            {"name": "origin", "py": "origin_pt", "type": N("Point"), "default": [point_default]},
            {"name": "ratio", "py": "ratio", "type": N("Float", True), "default": [1.5]},
            {"name": "flag", "py": "is_flag", "type": N("Boolean"), "default": None},
            {"name": "ident", "py": "ident", "type": N("ID"), "default": None},
            {"name": "odds", "py": "odds_py", "type": L(N("Odd")), "default": None},
        ]},
    ]}


def random_schema(rng):
    ncol = rng.randint(2, 3)
    enum_names = ["A", "B", "C", "D"][:ncol]
    internal = []
    for i, n in enumerate(enum_names):
        internal.append(rng.choice([100 + i, "int_" + n.lower(), n.lower() + "_v"]))
    types = [
        {"name": "E", "kind": "enum", "values": [[n, v] for n, v in zip(enum_names, internal)]},
        {"name": "Any1", "kind": "scalar", "scalar": "any"},
        {"name": "Tag", "kind": "scalar", "scalar": "tag"},
        {"name": "Odd", "kind": "scalar", "scalar": "odd"},
        {"name": "Out", "kind": "output"},
    ]
    sd = {"types": types}
    n_inputs = rng.randint(1, 3)
    inames = ["In%d" % i for i in range(n_inputs)]
    for nm in inames:
        types.append({"name": nm, "kind": "input", "fields": []})
    leafs = ["Int", "Float", "String", "ID", "Boolean", "E", "Any1", "Tag", "Odd"]
    for idx, nm in enumerate(inames):
        fields = []
        for k in range(rng.randint(2, 5)):
            fname = rng.choice(["a", "b", "c", "fooBar", "x", "val", "itemList"]) + str(k)
            py = fname if rng.random() < 0.4 else "py_" + fname.lower()
            if rng.random() < 0.3:
                # reference to an input object (possibly itself or a later one: recursion)
                base = rng.choice(inames)
                shape = rng.choice(["n", "l", "ln", "ll"])
                t = {"n": N(base), "l": L(N(base)), "ln": L(N(base, True)), "ll": L(L(N(base, True)))}[shape]
                if rng.random() < 0.3:
                    t = nonnull(t) if t[0] == "L" else t
            else:
                base = rng.choice(leafs)
                t = rng.choice(type_shapes(2))(base)
            fields.append({"name": fname, "py": py, "type": t, "default": None})
        tdefs(sd)[nm]["fields"] = fields
    # defaults: conforming internal values, added once all types are known
    # Leaf-typed fields first (their defaults are final before any object that
    # embeds them is built). A declared default must itself be a conforming
    # resolver-side value (schema_wf): for fields whose type involves an input
    # object, whose conforming values embed other fields' defaults, only the
    # two values that embed nothing are used: None and the empty list.
    for nm in inames:
        for f in tdefs(sd)[nm]["fields"]:
            if kind_of(sd, ty_name(f["type"])) == "input":
                continue
            if rng.random() < 0.45:
                j = gen_json(rng, sd, f["type"], 2, None)
                if j is None and f["type"][1]:
                    continue
                f["default"] = [internal_of(sd, f["type"], j)]
    for nm in inames:
        for f in tdefs(sd)[nm]["fields"]:
            if kind_of(sd, ty_name(f["type"])) != "input" or rng.random() >= 0.45:
                continue
            t = f["type"]
            choices = ([[]] if t[0] == "L" else []) + ([None] if not t[1] else [])
            if choices:
                f["default"] = [rng.choice(choices)]
    return sd


# ------------------------------------------------- values natural and wrong
INT_POOL = [0, 1, -1, 7, 42, 2 ** 31 - 1, -2 ** 31, 2 ** 31 - 2, -2 ** 31 + 1, 65536]
FLOAT_POOL = [0.0, 1.5, -2.25, 100.0, 0.001, 12345.678, 3, -7, 0.1, 2.5e10, 2 ** 31 + 0.5]
STR_POOL = ["", "abc", "hello world", "RED", "A", "x\"y", "été", "line\nbreak", "1", "true", "back\\slash"]
ID_POOL = ["id-1", "", "42", 0, 17, -5, 10 ** 20]
TAG_POOL = ["t", "tag two", "T3"]
ODD_POOL = [1, 3, -5, 7, 99, 2 ** 31 + 1, -1]
ANY_POOL = ["free", True, False, 12, -3, 1.25, "", 2 ** 40]

WRONG_LABELS = [
    "null-for-nonnull", "missing-required", "unknown-field", "unknown-enum",
    "wrong-kind", "int-out-of-range",
    # accepted by the implementation, pinned by its tests (open known findings)
    "numeric-string-for-number", "number-for-string",
]


class Plan:
    """one structural mistake to plant somewhere in a generated value"""

    def __init__(self, rng, label):
        self.rng, self.label, self.armed = rng, label, True
        self.path_kind = None

    def fire(self, p=0.5):
        if self.armed and self.rng.random() < p:
            self.armed = False
            return True
        return False


_WRONG_KIND = {
    "Int": [True, False, "abc", 1.5, {"a": 1}, "", "1.5", "1__0", "_1", "1_", " ", "1 0", "+-1"],
    "Float": [True, "x", {"a": 1}, "", "1__0", "_1.5", "1_", " ", "1 .5"],
    "String": [True, {"a": 1}, False],
    "ID": [1.5, True, {"a": 1}],
    "Boolean": [0, 1, "true", "", 1.5],
    "tag": [5, True, "", {"a": 1}],
    "odd": [2, 0, "3", True, 1.5, -4],
    "enum": [3, True, 1.5],
    "input": ["str", 3, True],
}


def gen_json(rng, sd, t, depth, plan):
    """a JSON value for type t: natural when plan is None or never fires"""
    lab = plan.label if plan is not None and plan.armed else None
    if t[1]:
        if lab == "null-for-nonnull" and plan.fire(0.4):
            return None
    elif rng.random() < (0.12 if depth > 0 else 0.5):
        return None
    if t[0] == "L":
        inner = t[2]
        if lab == "wrong-kind" and kind_of(sd, ty_name(t)) != "input" and ty_name(t) != "Any1" and plan.fire(0.15):
            return {"zz": 1}
        if rng.random() < 0.15:
            v = gen_json(rng, sd, inner, depth, plan)
            if v is not None and not isinstance(v, list):
                return v          # a single value in a list position
            return [v]
        n = rng.choice([0, 1, 1, 2, 3]) if depth > 0 else rng.choice([0, 1])
        if plan is not None and plan.armed and n == 0 and depth > 0:
            n = 1
        return [gen_json(rng, sd, inner, depth - 1 if inner[0] == "L" else depth, plan) for _ in range(n)]
    name = t[2]
    kind = kind_of(sd, name)
    if kind == "scalar":
        sk = scalar_kind(sd, name)
        if lab == "wrong-kind" and sk in _WRONG_KIND and plan.fire():
            return rng.choice(_WRONG_KIND[sk])
        if lab == "int-out-of-range" and sk == "Int" and plan.fire(0.7):
            return rng.choice([2 ** 31, -2 ** 31 - 1, 10 ** 12, -10 ** 15, 2 ** 31 + 7])
        if lab == "numeric-string-for-number" and sk in ("Int", "Float") and plan.fire(0.7):
            return rng.choice(["12", "-3", "0", "2147483647", "1_0", " 12 ", "+5", "\t7\n", "-1_000"]
                              + (["1.5", "-0.25", "100", "1_0.5", " 1.5 ", "+2.5e1"] if sk == "Float"
                                 else ["1.0", "1e3", " 1e3"]))
        if lab == "number-for-string" and sk == "String" and plan.fire(0.7):
            return rng.choice([3, -12, 1.5, 0, 2.25])
        if sk == "Int":
            return rng.choice(INT_POOL + [rng.randint(-2 ** 31, 2 ** 31 - 1)])
        if sk == "Float":
            return rng.choice(FLOAT_POOL + [round(rng.uniform(-1000, 1000), 3)])
        if sk == "String":
            return rng.choice(STR_POOL)
        if sk == "ID":
            return rng.choice(ID_POOL)
        if sk == "Boolean":
            return rng.choice([True, False])
        if sk == "tag":
            return rng.choice(TAG_POOL)
        if sk == "odd":
            # 13 makes the user scalar raise an arbitrary exception: planted only
            if lab == "user-exception" and plan.fire(0.8):
                return 13
            return rng.choice(ODD_POOL)
        return rng.choice(ANY_POOL)
    if kind == "enum":
        if lab == "unknown-enum" and plan.fire(0.7):
            return rng.choice(["NOPE", "red", "Zz9"])
        if lab == "wrong-kind" and plan.fire():
            return rng.choice(_WRONG_KIND["enum"])
        return rng.choice(tdefs(sd)[name]["values"])[0]
    if kind == "input":
        if lab == "wrong-kind" and plan.fire(0.3):
            return rng.choice(_WRONG_KIND["input"])
        obj = {}
        fields = list(tdefs(sd)[name]["fields"])
        for f in fields:
            ft = f["type"]
            required = ft[1] and f.get("default") is None
            rec = kind_of(sd, ty_name(ft)) == "input"
            if lab == "missing-required" and required and plan.fire(0.6):
                continue
            if not required:
                r = rng.random()
                if depth <= 0 and rec:
                    if ft[1] or r < 0.6:
                        continue
                    obj[f["name"]] = None
                    continue
                if r < 0.35:
                    continue                       # omitted
                if r < 0.45 and not ft[1]:
                    obj[f["name"]] = None          # explicit null
                    continue
            obj[f["name"]] = gen_json(rng, sd, ft, depth - 1 if rec else depth, plan)
        if lab == "unknown-field" and plan.fire(0.6):
            obj["zzUnknown"] = rng.choice([1, None, "x"])
        if rng.random() < 0.3:
            items = list(obj.items())
            rng.shuffle(items)
            obj = dict(items)
        return obj
    return None   # output type: nothing natural


def internal_of(sd, t, j):
    """reference conversion of a *natural* JSON value to the resolver-side
    value (only used to build declared defaults and coerced-variable inputs)"""
    if j is None:
        return None
    if t[0] == "L":
        if isinstance(j, list):
            return [internal_of(sd, t[2], x) for x in j]
        return [internal_of(sd, t[2], j)]
    name = t[2]
    kind = kind_of(sd, name)
    if kind == "enum":
        if not isinstance(j, str):
            return j
        return dict((n, v) for n, v in tdefs(sd)[name]["values"]).get(j, j)
    if kind == "input" and isinstance(j, dict):
        out = {}
        for f in tdefs(sd)[name]["fields"]:
            if f["name"] in j:
                out[f["py"]] = internal_of(sd, f["type"], j[f["name"]])
            elif f.get("default") is not None:
                out[f["py"]] = f["default"][0]
        return out
    if kind == "scalar":
        sk = scalar_kind(sd, name)
        if sk == "Float" and isinstance(j, int) and not isinstance(j, bool):
            return float(j)
        if sk == "ID" and isinstance(j, int) and not isinstance(j, bool):
            return str(j)
    return j


# ------------------------------------------------------------- literals
def lit_text(sd, t, j, subst=None, path=()):
    """GraphQL literal spelling of JSON value j at type t (t may be None for
    positions the type does not describe). subst: {path: "$var"}."""
    if subst and path in subst:
        return subst[path]
    if j is None:
        return "null"
    if j is True:
        return "true"
    if j is False:
        return "false"
    if isinstance(j, int):
        return str(j)
    if isinstance(j, float):
        return float_text(j)
    if isinstance(j, str):
        if t is not None and t[0] == "L":
            return lit_text(sd, t[2], j, subst, path)
        if (t is not None and t[0] == "N" and kind_of(sd, t[2]) == "enum"
                and NAME_RE.match(j) and j not in ("true", "false", "null")):
            return j
        return json.dumps(j, ensure_ascii=False)
    if isinstance(j, list):
        inner = t[2] if (t is not None and t[0] == "L") else None
        return "[" + ", ".join(lit_text(sd, inner, x, subst, path + (i,)) for i, x in enumerate(j)) + "]"
    if isinstance(j, dict):
        tt = t
        while tt is not None and tt[0] == "L":
            tt = tt[2]
        fmap = {}
        if tt is not None and kind_of(sd, tt[2]) == "input":
            fmap = {f["name"]: f["type"] for f in tdefs(sd)[tt[2]]["fields"]}
        return "{" + ", ".join("%s: %s" % (k, lit_text(sd, fmap.get(k), v, subst, path + (k,)))
                                for k, v in j.items()) + "}"
    raise TypeError(j)


def positions(sd, t, j, path=()):
    """(path, type, value) of every sub-position whose type is known"""
    out = [(path, t, j)]
    if t is None or j is None:
        return out
    if t[0] == "L":
        if isinstance(j, list):
            for i, x in enumerate(j):
                out.extend(positions(sd, t[2], x, path + (i,)))
        return out
    if kind_of(sd, t[2]) == "input" and isinstance(j, dict):
        fmap = {f["name"]: f["type"] for f in tdefs(sd)[t[2]]["fields"]}
        for k, v in j.items():
            if k in fmap:
                out.extend(positions(sd, fmap[k], v, path + (k,)))
    return out


LIT_MUTANTS = [
    # (label, type name kind, literal text)
    ("lit-string-for-enum", "enum", '"RED"'),
    ("lit-name-for-string", "String", "RED"),
    ("lit-float-for-int", "Int", "1.0"),
    ("lit-int-for-float", "Float", "3"),
    ("lit-int-for-id", "ID", "12"),
    ("lit-float-for-id", "ID", "1.5"),
    ("lit-int-for-string", "String", "5"),
    ("lit-int-for-boolean", "Boolean", "1"),
    ("lit-string-for-boolean", "Boolean", '"true"'),
    ("lit-list-for-any", "any", "[1]"),
    ("lit-object-for-any", "any", "{a: 1}"),
    ("lit-name-for-any", "any", "RED"),
    ("lit-int-for-tag", "tag", "7"),
    ("lit-empty-tag", "tag", '""'),
    ("lit-exponent-float", "Float", "1.5e3"),
    ("lit-neg-exponent-float", "Float", "-25E-2"),
    ("lit-object-for-scalar", "Int", "{a: 1}"),
    ("lit-block-string", "String", '"""blk"""'),
    ("lit-string-for-odd", "odd", '"3"'),
    ("lit-even-for-odd", "odd", "4"),
    ("lit-odd", "odd", "-7"),
    ("user-exception", "odd", "13"),
]


def kind_key(sd, name):
    k = kind_of(sd, name)
    return scalar_kind(sd, name) if k == "scalar" else k
