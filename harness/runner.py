# -*- coding: utf-8 -*-
"""Generic check driver: proofs re-check + correspondence + verdict + evidence.

A property module (harness/props/cXX.py) provides:
  PROP, THEOREMS, AXIOMS_OK, RUN_MODULE, AGREE, LEVEL_NOTE (str), RULE (str)
  corpus() -> [case]            regression inputs, always run first
  generate(rng, tier) -> [case] fresh seeded cases
  run_impl(case) -> obs         drives /repo (JSON-able observable)
  to_coq(case, obs) -> str      Coq term `(input, observable)` for AGREE
  nontrivial(case, obs) -> bool; canonical(case) -> hashable
  classify(case, obs) -> (clause, finding_key|None)  for a disagreement
  direct_checks(case, obs) -> [(clause, finding_key|None)]  violations that
        need no model (wrong exception class etc.); optional
  shrink(case, is_bad) -> case  optional minimiser
  show_expr(case, obs) -> str   optional Coq expr printing the model's answer
  extra_evidence(cases, obss) -> dict   optional distribution info
"""
import json
import random
import time
import traceback

from . import common


def run_property(mod, tier, seed, replay=None):
    replay_body = json.load(open(replay)) if replay else None
    v = common.Verdict(mod.PROP, tier, seed)
    rng = random.Random(seed)
    problems_build = []

    targets = ["Properties/%s.vo" % mod.PROP] + [
        m.replace(".", "/") + ".vo" for m in mod.RUN_MODULE.split()]
    ok, log = common.ensure_built(targets)
    if not ok:
        problems_build.append("coq build failed: " + log)
    hyg = common.hygiene()
    discharged, tproblems, assumptions = ([], [], {})
    if ok:
        discharged, tproblems, assumptions = common.check_theorems(
            mod.PROP, mod.THEOREMS, getattr(mod, "AXIOMS_OK", ()))
    proof_broken = problems_build + hyg + tproblems

    # ---- cases
    if replay:
        body = replay_body
        cases = [body["case"]] if "case" in body else []
        corpus_n = 0
    else:
        corp = list(mod.corpus())
        corpus_n = len(corp)
        cases = corp + list(mod.generate(rng, tier))
    obss, terms = [], []
    impl_errors = 0
    for c in cases:
        try:
            o = mod.run_impl(c)
        except Exception:  # harness failure, not a verdict
            o = {"harness_error": traceback.format_exc()[-2000:]}
            impl_errors += 1
        obss.append(o)
    model_cases = [i for i, o in enumerate(obss) if "harness_error" not in o]
    for i in model_cases:
        terms.append(mod.to_coq(cases[i], obss[i]))

    bad, cproblems = ([], [])
    if ok and terms:
        bad_local, cproblems = common.run_cases(
            mod.PROP, mod.RUN_MODULE, mod.AGREE, terms,
            shard=getattr(mod, "SHARD", 250),
            extra_header=getattr(mod, "EXTRA_HEADER", ""),
            case_type=getattr(mod, "CASE_TYPE", None))
        bad = [model_cases[i] for i in bad_local]

    # ---- direct (model-free) violations
    direct = []
    if hasattr(mod, "direct_checks"):
        for i in model_cases:
            for clause, key in mod.direct_checks(cases[i], obss[i]):
                direct.append((i, clause, key))

    def is_bad(case):
        try:
            o = mod.run_impl(case)
        except Exception:
            return False
        if hasattr(mod, "direct_checks") and mod.direct_checks(case, o):
            return True
        b, pr = common.run_cases(mod.PROP + "s", mod.RUN_MODULE, mod.AGREE,
                                 [mod.to_coq(case, o)],
                                 extra_header=getattr(mod, "EXTRA_HEADER", ""),
                                 case_type=getattr(mod, "CASE_TYPE", None))
        return bool(b) and not pr

    reported = 0
    seen_keys = set()
    for i in bad:
        clause, key = mod.classify(cases[i], obss[i])
        if key is not None and key in v.open_keys():
            v.report(clause, {}, finding_key=key)
            continue
        if reported >= 5:
            v.notes.append("further disagreements suppressed (case %d)" % i)
            continue
        case = cases[i]
        if hasattr(mod, "shrink") and not replay:
            try:
                case = mod.shrink(case, is_bad)
            except Exception:
                v.notes.append("shrink failed: " + traceback.format_exc()[-500:])
        o = mod.run_impl(case)
        payload = {"case": case, "impl_observable": o,
                   "disagreement": "implementation and proved model differ on this input"}
        if hasattr(mod, "show_expr"):
            payload["model_observable_coq"] = common.coq_show(
                mod.RUN_MODULE, mod.show_expr(case, o),
                extra_header=getattr(mod, "EXTRA_HEADER", ""))
        v.report(clause, payload, finding_key=key)
        reported += 1
    for i, clause, key in direct:
        if key is not None and key in v.open_keys():
            v.report(clause, {}, finding_key=key)
            continue
        if i in bad or reported >= 8:
            continue
        v.report(clause, {"case": cases[i], "impl_observable": obss[i]}, finding_key=key)
        reported += 1

    # ---- broken obligations with no failing input
    if (proof_broken or cproblems) and not v.violations:
        v.report("proof-obligation",
                 {"broken": proof_broken + cproblems,
                  "theorems_expected": mod.THEOREMS, "theorems_discharged": discharged},
                 no_input=True)
    elif proof_broken or cproblems:
        v.notes.extend(proof_broken + cproblems)
    if impl_errors:
        v.notes.append("%d cases raised inside the harness itself (not counted)" % impl_errors)

    # ---- evidence
    distinct = {}
    for i in model_cases:
        try:
            if mod.nontrivial(cases[i], obss[i]):
                distinct[mod.canonical(cases[i])] = 1
        except Exception:
            pass
    samples = []
    for i in model_cases[corpus_n:corpus_n + 3] or model_cases[:3]:
        samples.append({"case": cases[i], "impl_observable": obss[i]})
    coverage = {
        "obligations": len(mod.THEOREMS),
        "discharged": len(discharged),
        "theorems": {t: ("closed" if not assumptions.get(t) else assumptions.get(t))
                     for t in discharged},
        "checker_cmd": "coqc -Q /verif/coq PyGql coq/Properties/%s.v (after full make); "
                       "cases: coqc on generated Cases_%s_*.v with Eval vm_compute" % (mod.PROP, mod.PROP),
        "trusted_base": common.TRUSTED_BASE_COMMON + list(getattr(mod, "TRUSTED_EXTRA", [])),
        "evaluations": len(model_cases),
        "corpus_cases": corpus_n,
        "distinct_nontrivial": len(distinct),
        "rule": mod.RULE,
        "samples": samples,
        "traces_validated_against_impl": len(model_cases),
        "disagreements": len(bad),
        "direct_violations": len(direct),
        "exhaustive": False,
    }
    if hasattr(mod, "extra_evidence"):
        try:
            coverage.update(mod.extra_evidence([cases[i] for i in model_cases],
                                               [obss[i] for i in model_cases]))
        except Exception:
            v.notes.append("extra_evidence failed: " + traceback.format_exc()[-500:])
    return v.finish("proof", coverage, [mod.LEVEL_NOTE])
