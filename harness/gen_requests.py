# -*- coding: utf-8 -*-
"""Requests for C10: a fixed handful of schemas whose resolvers fail on demand,
valid operations over them, truncations, mutants, invalid documents, failing
variable payloads, unknown operation names.  All randomness from the rng
passed in.  The type tables below are written by hand (independent of
py_gql's schema objects); they are what the null/error cross-check uses."""
import asyncio
import collections
import copy
import collections.abc
import math
import types

from py_gql import build_schema
from py_gql.exc import ResolverError

# ------------------------------------------------------------------ schemas
SDL = {
    "A": """
        type Query {
          a: Int
          s: String!
          f: Float
          fn: Float!
          b: Boolean
          o: Obj
          on: Obj!
          l: [Int]
          ln: [Int!]!
          lf: [Float]
          lo: [Obj!]
          lol: [[Obj]]
          e: Color
          arg(x: Int!, y: [Int] = [1], inp: Inp): Int
          argn(x: Int!): Int!
          echo(f: Float): Float
          sum(xs: [Float!], inp: Inp): Float
          pick(c: Color, cs: [Color!], inp: Inp, n: Int, f: Float, s: String, b: Boolean, i: ID, t: Trim, ns: [Int]): Int
          t: Trim
          tn: Trim!
          tl: [Trim!]
          tln: [Trim!]!
          st: Strict
        }
        scalar Trim
        scalar Strict
        type Obj { a: Int, s: String!, f: Float, o: Obj, on: Obj!, ln: [Int!], id: ID!, lo: [Obj], tn: Trim!, tl: [Trim!] }
        enum Color { RED GREEN }
        input Inp { a: Int!, b: [Inp2!], f: Float, c: Color }
        input Inp2 { a: Int, zz: String }
        type Mutation { set(x: Int): Int, fail: Int!, mo: Obj }
    """,
    "B": """
        interface Node { id: ID! }
        scalar Trim
        type User implements Node { id: ID!, name: String, friends: [Node!]!, best: Node, nick: Trim!, tags: [Trim!]! }
        type Bot implements Node { id: ID!, model: String!, owner: User }
        union Any = User | Bot
        type Query { node(id: ID): Node, nodes: [Node]!, any: Any, me: User!, anys: [Any!] }
    """,
}

# field -> type text, by type name
TYPES = {
    "A": {
        "Query": {"a": "Int", "s": "String!", "f": "Float", "fn": "Float!", "b": "Boolean", "o": "Obj",
                  "on": "Obj!", "l": "[Int]", "ln": "[Int!]!", "lf": "[Float]", "lo": "[Obj!]",
                  "lol": "[[Obj]]", "e": "Color", "arg": "Int", "argn": "Int!", "echo": "Float", "sum": "Float", "pick": "Int",
                  "t": "Trim", "tn": "Trim!", "tl": "[Trim!]", "tln": "[Trim!]!", "st": "Strict"},
        "Obj": {"a": "Int", "s": "String!", "f": "Float", "o": "Obj", "on": "Obj!", "ln": "[Int!]",
                "id": "ID!", "lo": "[Obj]", "tn": "Trim!", "tl": "[Trim!]"},
        "Mutation": {"set": "Int", "fail": "Int!", "mo": "Obj"},
    },
    "B": {
        "Query": {"node": "Node", "nodes": "[Node]!", "any": "Any", "me": "User!", "anys": "[Any!]"},
        "User": {"id": "ID!", "name": "String", "friends": "[Node!]!", "best": "Node", "nick": "Trim!",
                 "tags": "[Trim!]!"},
        "Bot": {"id": "ID!", "model": "String!", "owner": "User"},
        "Node": {"id": "ID!"},
        "Any": {},
    },
}
POSSIBLE = {"B": {"Node": ["User", "Bot"], "Any": ["User", "Bot"]}}
ARGS = {"A": {("Query", "arg"): "(x: 1)", ("Query", "argn"): "(x: 2)", ("Query", "echo"): "(f: 1.5)",
              ("Mutation", "set"): "(x: 3)"},
        "B": {("Query", "node"): '(id: "n1")'}}
SCALARS = {"Int", "Float", "String", "Boolean", "ID", "Color", "Trim", "Strict"}


# custom scalars: Trim's serializer maps blank text to None (a non-null Python value that serialises
# to null), Strict's raises on designated values (ScalarSerializationError -> RuntimeError)
def _trim_serialize(v):
    return str(v).strip() or None


def _strict_serialize(v):
    if v == "bad":
        raise ValueError("Strict cannot represent %r" % (v,))
    return v


def custom_scalars():
    from py_gql.schema import ScalarType
    return [ScalarType("Trim", serialize=_trim_serialize, parse=lambda v: v),
            ScalarType("Strict", serialize=_strict_serialize, parse=lambda v: v)]


def parse_type(t):
    """'[Int!]!' -> ('nn', ('list', ('nn', ('named', 'Int'))))"""
    t = t.strip()
    if t.endswith("!"):
        return ("nn", parse_type(t[:-1]))
    if t.startswith("["):
        return ("list", parse_type(t[1:-1]))
    return ("named", t)


def named_of(pt):
    while pt[0] != "named":
        pt = pt[1]
    return pt[1]


def field_type(sname, tname, fname):
    """declared type of tname.fname (abstract types: any possible type that has it)"""
    if fname == "__typename":
        return ("nn", ("named", "String"))
    tbl = TYPES[sname]
    if fname in tbl.get(tname, {}):
        return parse_type(tbl[tname][fname])
    for pt in POSSIBLE.get(sname, {}).get(tname, []):
        if fname in tbl[pt]:
            return parse_type(tbl[pt][fname])
    return None


# ------------------------------------------------------------------ resolvers
def path_key(path):
    return "/".join(str(p) for p in path)


def decode_value(v):
    """world values are JSON-able; non-finite floats are spelt {"$float": "inf"}"""
    if isinstance(v, dict) and "$float" in v:
        return float(v["$float"])
    if isinstance(v, list):
        return [decode_value(x) for x in v]
    if isinstance(v, dict):
        return {k: decode_value(x) for k, x in v.items()}
    return v


def _default_for(sname, gql_type, depth=0):
    from py_gql.schema import EnumType, InterfaceType, ListType, NonNullType, ObjectType, ScalarType, UnionType
    t = gql_type
    if isinstance(t, NonNullType):
        t = t.type
    if isinstance(t, ListType):
        return [_default_for(sname, t.type, depth + 1), _default_for(sname, t.type, depth + 1)]
    if isinstance(t, ScalarType):
        return {"Int": 7, "Float": 1.5, "String": "str", "Boolean": True, "ID": "id1",
                "Trim": "  padded ", "Strict": "fine"}[t.name]
    if isinstance(t, EnumType):
        return "GREEN"
    if isinstance(t, ObjectType):
        return {"__typename__": t.name}
    if isinstance(t, (InterfaceType, UnionType)):
        return {"__typename__": POSSIBLE[sname][t.name][depth % 2]}
    raise TypeError(t)


def _flat_floats(v, out):
    if isinstance(v, (list, tuple)):
        for x in v:
            _flat_floats(x, out)
    elif v is not None:
        out.append(v)


def _fits(value, gql_type):
    """a planted value is used only where it has the shape of the field's type (a mutant may have
    put another field under the planted path; an ill-shaped value is a resolver bug, which this
    property does not cover)"""
    from py_gql.schema import ListType, NonNullType, ScalarType
    t = gql_type.type if isinstance(gql_type, NonNullType) else gql_type
    if value is None:
        return True
    if isinstance(t, ListType):
        return isinstance(value, list) and all(_fits(v, t.type) for v in value)
    if isinstance(t, ScalarType):
        if t.name == "Float" and isinstance(value, str):
            try:
                float(value)        # numeric text (incl. "inf", "nan", "1e999") is something float() takes
                return True
            except ValueError:
                return False
        if t.name in ("Int", "Float"):
            return isinstance(value, (int, float)) and not isinstance(value, bool)
        return not isinstance(value, (list, dict))
    return isinstance(value, dict)


_SHARED = {}


# ---- the family of error classes resolvers raise (all are the library's ResolverError)
class CodedError(ResolverError):
    """one-argument constructor; extensions fixed by the class"""

    def __init__(self, message):
        super().__init__(message, extensions={"code": "CODED"})


class NotFound(ResolverError):
    """two required positional arguments; message and extensions computed in __init__"""

    def __init__(self, kind, ident):
        super().__init__("%s %r not found" % (kind, ident), extensions={"kind": kind, "id": ident})
        self.kind, self.ident = kind, ident


class Denied(ResolverError):
    """required keyword-only argument"""

    def __init__(self, *, action, reason="policy"):
        super().__init__("%s denied (%s)" % (action, reason), extensions={"action": action, "reason": reason})
        self.action = action


class Throttled(ResolverError):
    """three positional arguments; `extensions` is a property computed from other attributes"""

    def __init__(self, message, retry_after, scope):
        self.retry_after, self.scope = retry_after, scope
        super().__init__(message)

    @property
    def extensions(self):
        return {"retry_after": self.retry_after, "scope": self.scope}

    @extensions.setter
    def extensions(self, _value):
        pass


class Quiet(ResolverError):
    """positional + keyword-only arguments, no extensions at all"""

    def __init__(self, what, where, *, level):
        super().__init__("%s at %s [%s]" % (what, where, level))


ERROR_FAMILY = {
    "ResolverError": lambda a, k: ResolverError(*a, **k),
    "CodedError": lambda a, k: CodedError(*a, **k),
    "NotFound": lambda a, k: NotFound(*a, **k),
    "Denied": lambda a, k: Denied(*a, **k),
    "Throttled": lambda a, k: Throttled(*a, **k),
    "Quiet": lambda a, k: Quiet(*a, **k),
}

# (class, args, kwargs) samples
ERROR_SAMPLES = [
    ["ResolverError", ["plain"], {}],
    ["ResolverError", ["with ext"], {"extensions": {"code": 1}}],
    ["ResolverError", [""], {"extensions": {}}],
    ["CodedError", ["coded"], {}],
    ["NotFound", ["user", 42], {}],
    ["NotFound", ["doc", "x/y"], {}],
    ["Denied", [], {"action": "read"}],
    ["Denied", [], {"action": "write", "reason": "quota"}],
    ["Throttled", ["slow down", 1.5, "ip"], {}],
    ["Quiet", ["glitch", "edge"], {"level": "warn"}],
]


def make_error(act):
    """act = ["raise_cls", class name, args, kwargs, shared]"""
    _k, name, args, kwargs, shared = act
    if shared:
        key = repr((name, args, sorted(kwargs.items())))
        if key not in _SHARED:
            _SHARED[key] = ERROR_FAMILY[name](args, kwargs)
        return _SHARED[key]
    return ERROR_FAMILY[name](args, kwargs)


def _log_raise(ctx, info, err, expected="read"):
    """expected extensions of the error rendered for this position: what the raised object exposes at
    raise time, or -- when the case itself states the mapping's content -- that plain content (so that the
    expectation does not depend on an object the library or the caller may have touched)"""
    ctx["raised"].append(list(info.path))
    if expected == "read":
        ext = err.extensions
        expected = dict(ext) if ext else None
    ctx.setdefault("raised_ext", []).append([list(info.path), expected or None, type(err).__name__])


# ---- extensions handed to ResolverError as Mappings that are not plain dicts
class OrderedSub(collections.OrderedDict):
    """an OrderedDict subclass (json.dumps accepts it; it is not plain data)"""


class FrozenMap(collections.abc.Mapping):
    """a custom read-only Mapping"""

    def __init__(self, d):
        self._d = dict(d)

    def __getitem__(self, k):
        return self._d[k]

    def __iter__(self):
        return iter(self._d)

    def __len__(self):
        return len(self._d)


MAPPING_KINDS = ["dict", "ordered", "ordered_sub", "proxy", "chain", "custom"]


def make_mapping(kind, d):
    d = decode_value(d)
    if kind == "dict":
        return dict(d)
    if kind == "ordered":
        return collections.OrderedDict(d)
    if kind == "ordered_sub":
        return OrderedSub(d)
    if kind == "proxy":
        return types.MappingProxyType(dict(d))
    if kind == "chain":
        items = list(d.items())
        return collections.ChainMap(dict(items[:1]), dict(items[1:]))
    return FrozenMap(d)


def _non_finite_in(v, out, where):
    if isinstance(v, float) and not math.isfinite(v):
        out.append([where, repr(v)])
    elif isinstance(v, (list, tuple)):
        for i, x in enumerate(v):
            _non_finite_in(x, out, "%s[%d]" % (where, i))
    elif isinstance(v, dict):
        for k, x in v.items():
            _non_finite_in(x, out, "%s.%s" % (where, k))


def _resolve(sname, ctx, info, args):
    from py_gql.schema import unwrap_type
    key = path_key(info.path)
    # Float input coercion must never hand a non-finite number to a resolver
    _non_finite_in(args, ctx.setdefault("nonfinite_args", []), path_key(info.path))
    act = ctx["world"].get(key)
    if act is not None and act[0] == "raise_cls":
        err = make_error(act)
        _log_raise(ctx, info, err)
        raise err
    if act is not None and act[0] == "raise_map":
        # ["raise_map", message, extensions content, mapping kind, shared instance?]
        _k, msg, content, kind, shared = act
        if shared:
            k = repr(("map", msg, content, kind))
            if k not in _SHARED:
                m = make_mapping(kind, content)
                _SHARED[k] = ResolverError(msg, extensions=m)
            err = _SHARED[k]
        else:
            err = ResolverError(msg, extensions=make_mapping(kind, content))
        ctx.setdefault("mappings", []).append(err.extensions)
        _log_raise(ctx, info, err, expected=dict(make_mapping("dict", content)))
        raise err
    if act is not None and act[0] == "raise_shared":
        # one exception instance per (message, extensions), reused by every field and request
        k = repr((act[1], act[2]))
        if k not in _SHARED:
            # (the instance gets its own copy: the case's data stays what the expectation is read from)
            _SHARED[k] = (ResolverError(act[1], extensions=copy.deepcopy(act[2])) if act[2] is not None
                          else ResolverError(act[1]))
        _log_raise(ctx, info, _SHARED[k], expected=copy.deepcopy(act[2]))
        raise _SHARED[k]
    if act is not None and act[0] == "raise":
        err = ResolverError(act[1], extensions=act[2]) if act[2] is not None else ResolverError(act[1])
        _log_raise(ctx, info, err)
        raise err
    if act is not None and act[0] == "null":
        value = None
    elif act is not None and act[0] == "value" and _fits(decode_value(act[1]), info.field_definition.type):
        value = decode_value(act[1])
    elif info.field_definition.name == "echo":
        value = args.get("f")
    else:
        value = _default_for(sname, info.field_definition.type)
    if unwrap_type(info.field_definition.type).name == "Float":
        _flat_floats(value, ctx["floats"])
    if unwrap_type(info.field_definition.type).name == "Strict" and value == "bad":
        ctx.setdefault("unserialisable", []).append(list(info.path))
    return value


def make_resolvers(sname):
    def sync_resolver(root, ctx, info, **args):
        return _resolve(sname, ctx, info, args)

    async def async_resolver(root, ctx, info, **args):
        await asyncio.sleep(0)
        return _resolve(sname, ctx, info, args)

    return sync_resolver, async_resolver


def _resolve_type_b(value, ctx, info):
    """resolve_type of schema B's abstract types: the value names its type; a value carrying
    "__rt_raise__": [message, extensions] makes type resolution raise the library's error
    (a completion-time failure of the field being completed)"""
    if isinstance(value, dict) and value.get("__rt_raise__"):
        msg, ext = value["__rt_raise__"]
        err = ResolverError(msg, extensions=ext) if ext is not None else ResolverError(msg)
        _log_raise(ctx, info, err)
        raise err
    return value.get("__typename__") if isinstance(value, dict) else None


_SCHEMA_CACHE = {}


def get_schema(sname, flavour):
    """flavour 'sync': the generic resolver is the schema default resolver and is
    also registered on some fields (so pooled runtimes submit it); 'async':
    those fields get the coroutine version."""
    k = (sname, flavour)
    if k not in _SCHEMA_CACHE:
        schema = build_schema(SDL[sname], additional_types=[
            s_ for s_ in custom_scalars() if ("scalar " + s_.name) in SDL[sname]])
        sync_r, async_r = make_resolvers(sname)
        schema.default_resolver = sync_r
        reg = {"A": [("Query", "o"), ("Query", "a"), ("Obj", "a"), ("Query", "lo"), ("Obj", "s"), ("Query", "f")],
               "B": [("Query", "me"), ("User", "name"), ("Query", "nodes")]}[sname]
        for tn, fn in reg:
            schema.register_resolver(tn, fn, async_r if flavour == "async" else sync_r)
        if sname == "B":
            for abstract in ("Node", "Any"):
                schema.get_type(abstract).resolve_type = _resolve_type_b
        schema.validate()
        _SCHEMA_CACHE[k] = schema
    return _SCHEMA_CACHE[k]


# ------------------------------------------------------------------ operations
class Sel(object):
    __slots__ = ("key", "name", "ptype", "args", "children", "parent_type", "wrap", "directive")

    def __init__(self, key, name, ptype, args, children, parent_type):
        self.key, self.name, self.ptype, self.args = key, name, ptype, args
        self.children, self.parent_type = children, parent_type
        self.wrap = None
        self.directive = ""


def gen_selection(rng, sname, tname, depth, budget):
    tbl = TYPES[sname]
    out, used = [], set()
    concrete = [tname] if tname in tbl and tbl[tname] and tname not in POSSIBLE.get(sname, {}) else \
        POSSIBLE[sname][tname]
    n = rng.randint(1, 4)
    for _ in range(n):
        if budget[0] <= 0 and out:
            break
        budget[0] -= 1
        on_type = rng.choice(concrete)
        names = sorted(tbl[on_type])
        if tname in POSSIBLE.get(sname, {}) and rng.random() < 0.3 and tbl.get(tname):
            on_type, names = tname, sorted(tbl[tname])
        fname = rng.choice(names + ["__typename"] if rng.random() < 0.15 else names)
        ptype = field_type(sname, on_type, fname)
        inner = named_of(ptype)
        key = fname if rng.random() < 0.75 else rng.choice(["x", "y", "k1", "k2"])
        if key in used:
            continue
        children = []
        if inner not in SCALARS:
            if depth <= 0:
                continue
            children = gen_selection(rng, sname, inner, depth - 1, budget)
        used.add(key)
        s = Sel(key, fname, ptype, ARGS.get(sname, {}).get((on_type, fname), ""), children, on_type)
        r = rng.random()
        if on_type != tname:
            s.wrap = "inline"          # field of a concrete type under an abstract one
        elif r < 0.12:
            s.wrap = "inline"
        elif r < 0.2:
            s.wrap = "named"
        if rng.random() < 0.1:
            s.directive = rng.choice([" @include(if: true)", " @skip(if: false)", " @skip(if: $no)",
                                      " @include(if: false)"])
        out.append(s)
        # the same response key selected again (directly / through an inline fragment / a named
        # fragment): errors at that position then carry several field nodes
        if not children and on_type == tname and not s.directive and rng.random() < 0.2:
            for _ in range(rng.choice([1, 1, 2])):
                dup = Sel(key, fname, ptype, s.args, [], on_type)
                dup.wrap = rng.choice([None, "inline", "named"])
                out.append(dup)
    if not out:
        fname = "id" if "id" in tbl.get(concrete[0], {}) else sorted(tbl[concrete[0]])[0]
        ptype = field_type(sname, concrete[0], fname)
        if named_of(ptype) in SCALARS:
            s = Sel(fname, fname, ptype, ARGS.get(sname, {}).get((concrete[0], fname), ""), [], concrete[0])
            if concrete[0] != tname:
                s.wrap = "inline"
            out.append(s)
        else:
            out.append(Sel("__typename", "__typename", ("nn", ("named", "String")), "", [], tname))
    return out


def render(sels, frags, uses_no):
    parts = []
    for s in sels:
        alias = "" if s.key == s.name else s.key + ": "
        body = "%s%s%s%s" % (alias, s.name, s.args, s.directive)
        if "$no" in s.directive:
            uses_no[0] = True
        if s.children:
            body += " { %s }" % render(s.children, frags, uses_no)
        if s.wrap == "inline":
            body = "... on %s { %s }" % (s.parent_type, body)
        elif s.wrap == "named":
            fn = "F%d" % len(frags)
            frags.append("fragment %s on %s { %s }" % (fn, s.parent_type, body))
            body = "...%s" % fn
        parts.append(body)
    return " ".join(parts)


def enumerate_paths(sels, prefix, out):
    """candidate response paths with their parsed types (lists have 2 items)"""
    for s in sels:
        if "false" in s.directive and "include" in s.directive:
            continue
        p = prefix + [s.key]

        def walk(pt, p):
            out.append((p, pt))
            t = pt[1] if pt[0] == "nn" else pt
            if t[0] == "list":
                for i in (0, 1):
                    walk(t[1], p + [i])
            elif s.children:
                enumerate_paths(s.children, p, out)
        walk(s.ptype, p)


EXTS = [None, None, {"code": "E1"}, {"code": 7, "detail": {"retry": True, "after": 1.5, "tags": ["a", None]}},
        {}, {"k": [1, 2, {"z": None}]}]
MSGS = ["boom", "", "failed \"badly\"\n", u"défaut   \U0001f600"]


def gen_world(rng, paths, nfail):
    world = {}
    for p, pt in rng.sample(paths, min(nfail, len(paths))):
        t = pt[1] if pt[0] == "nn" else pt
        r = rng.random()
        if named_of(t) == "Trim" and r < 0.6:
            act = ["value", rng.choice([["a", " "], ["", "  ", "b"], [" x "]]) if t[0] == "list"
                   else rng.choice(["   ", "", " ok "])]
        elif r < 0.08:
            act = ["raise_shared", rng.choice(["not found", "denied"]), rng.choice([None, {"code": 404}])]
        elif r < 0.16:
            act = ["raise_map", "mapped", rng.choice([{"code": 1}, {"a": 1, "b": [1, {"c": None}], "z": "t"}]),
                   rng.choice(MAPPING_KINDS), rng.random() < 0.3]
        elif r < 0.3:
            smp = rng.choice(ERROR_SAMPLES)
            act = ["raise_cls", smp[0], smp[1], smp[2], rng.random() < 0.3]
        elif r < 0.45:
            act = ["raise", rng.choice(MSGS), rng.choice(EXTS)]
        elif r < 0.75:
            act = ["null"]
        elif named_of(t) == "Trim" and t[0] == "list":
            act = ["value", rng.choice([["a", " "], ["", "  ", "b"], [" x ", "y"], []])]
        elif named_of(t) == "Trim":
            act = ["value", rng.choice(["   ", "", "\t\n", " ok "])]
        elif t[0] == "list" and named_of(t) in ("Int", "Float"):
            act = ["value", rng.choice([[1, None], [None, None], [], [None, 2, 3]])]
        elif t[0] == "list":
            act = ["value", rng.choice([[], [None], [None, {"__typename__": "Obj"}]])]
            if named_of(t) not in ("Obj",):
                act = ["null"]
        else:
            act = ["null"]
        world[path_key(p)] = act
    return world


def gen_valid(rng, sname=None, kind="query"):
    """-> dict(schema, text, variables, operation_name, world) for a valid request"""
    sname = sname or rng.choice(["A", "A", "B"])
    root = "Query"
    if kind == "mutation" and sname == "A":
        root = "Mutation"
    budget = [rng.randint(2, 14)]
    sels = gen_selection(rng, sname, root, rng.randint(0, 3), budget)
    frags, uses_no = [], [False]
    body = render(sels, frags, uses_no)
    header = ""
    named = rng.random() < 0.5 or uses_no[0] or root == "Mutation"
    variables = {}
    if named:
        vd = "($no: Boolean = false)" if uses_no[0] else ""
        header = "%s Op%s " % ("mutation" if root == "Mutation" else "query", vd)
    text = "%s{ %s }" % (header, body)
    if frags:
        rng.shuffle(frags)
        text = text + "\n" + "\n".join(frags)
    if rng.random() < 0.3:
        text = text.replace(" { ", " {\n  ", 2).replace(" } ", "\n}\r\n", 1)
    paths = []
    enumerate_paths(sels, [], paths)
    world = gen_world(rng, paths, rng.choice([0, 1, 1, 2, 3, 5]))
    return {"schema": sname, "text": text, "variables": variables, "operation_name": None, "world": world}


# ------------------------------------------------------------------ other streams
TRUNCATION_SEEDS = [
    'query Q($v: Int = 3, $s: String = "a\\u00e9\\n\\"q") {\n  arg(x: $v, y: [1, 2], inp: {a: 1, b: [{a: 2}]})\r\n  # comment \\ "\n  o { ...F, k: s }\n}\nfragment F on Obj @include(if: true) { id on { a } }',
    '{ s x: echo(f: -1.25e+3) e ... on Query { b } lo { id ln } }',
    'query A { a } query B { s, """block \\""" string""" }',
    '{ arg(x: 1, inp: {a: 1, f: 0.5}) ﻿ o { s @skip(if: false) } }',
    'mutation M { set(x: 1) fail mo { id } }',
    '{ me { id name friends { id ... on Bot { model } } } any { __typename } }',
    '"\\u12af \\\\ \\/ \\b" { a }',
]

INVALID_DOCS = {
    "A": [
        "{ zzz }", "{ a { b } }", "{ o }", "{ arg }", "{ arg(x: \"s\") }", "{ arg(x: 1, q: 2) }",
        "query Q($x: Int) { a }", "query Q { a } query Q { s }", "{ a } { s }", "{ ...Nope }",
        "fragment F on Obj { id }", "{ o { ...F } } fragment F on Obj { o { ...F } }",
        "{ a @nope }", "{ a @skip }", "query Q($x: Obj) { a }", "{ arg(x: $undefined) }",
        "{ o { id } o: on { id s } x: a x: s }", "{ e(x: 1) }", "{ arg(x: 1, inp: {b: []}) }",
        "{ arg(x: 1, inp: {a: 1, a: 2}) }", "{ echo(f: \"x\") }", "{ echo(f: 1e999) }",
        "subscription { a }", "query Q($x: Int!, $x: Int) { arg(x: $x) }", "{ ... on Color { a } }",
        "{ lo { zz } }\n\n{ zz }", "{\n  a\n  zzz\r\n  yyy }", "{ ...F } fragment F on Nope { a }",
        "type X { a: Int }", "{ a } type X { a: Int }", "query Q($x: [Int!] = [1, null]) { l }",
    ],
    "B": [
        "{ node { name } }", "{ any { id } }", "{ me { friends } }", "{ nodes { ... on Query { me { id } } } }",
        "{ me { id { x } } }", "{ node(id: [1]) { id } }",
    ],
}

VARIABLE_CASES = [
    # (text, payloads)
    ("query Q($x: Int!) { arg(x: $x) }",
     [{}, {"x": None}, {"x": "abc"}, {"x": 1.5}, {"x": 2 ** 40}, {"x": [1]}, {"x": {"a": 1}}, {"x": 5}, {"x": True},
      {"x": {"$float": "inf"}}, {"x": {"$float": "-inf"}}, {"x": {"$float": "nan"}}, {"x": 1e300}, {"x": 3.0}]),
    ("query Q($i: Inp) { arg(x: 1, inp: $i) }",
     [{"i": {}}, {"i": {"a": "x"}}, {"i": {"a": 1, "b": [{"a": None}, {"zz": 1}]}}, {"i": 3},
      {"i": {"a": 1, "zzz": 2}}, {"i": {"a": 1, "f": {"$float": "inf"}}}, {"i": {"a": 1}}, {"i": None}]),
    ("query Q($f: Float) { echo(f: $f) }",
     [{"f": {"$float": "inf"}}, {"f": {"$float": "nan"}}, {"f": {"$float": "-inf"}}, {"f": "1e999"},
      {"f": "x"}, {"f": 2.5}, {"f": 1}, {"f": 1e308}]),
    ("query Q($l: [Int!]) { arg(x: 1, y: $l) }",
     [{"l": [1, None]}, {"l": ["a", "b", 3]}, {"l": 1}, {"l": [[1]]}, {"l": [1, 2]}]),
    ("query Q($a: Int!, $b: String!, $c: Nope, $d: Obj) { arg(x: $a) }",
     [{}, {"a": 1}, {"a": "z", "b": None}]),
    ("query Q($x: Int = \"s\") { arg(x: 1) }", [{}]),
]

# @skip / @include driven by nullable variables (with and without defaults): (schema, text, payloads)
DIRECTIVE_VARIABLE_CASES = [
    ("A", "query ($s: Boolean = true) { a @skip(if: $s) s }", [{"s": None}, {}, {"s": False}, {"s": True}]),
    ("A", "query Q($s: Boolean = false) { a s @include(if: $s) }", [{"s": None}, {}, {"s": True}]),
    ("A", "query Q($s: Boolean = true) { s o { a @include(if: $s) id } }", [{"s": None}, {}, {"s": False}]),
    ("A", "query Q($s: Boolean = true) { s on { a id @skip(if: $s) } }", [{"s": None}, {}, {"s": False}]),
    ("A", "query Q($s: Boolean = true) { lo { id o { a @skip(if: $s) } } a }", [{"s": False}, {"s": None}, {"s": None}]),
    ("A", "query Q($s: Boolean = true) { s ... @include(if: $s) { a } }", [{"s": None}, {}, {"s": False}]),
    ("A", "query Q($s: Boolean = true) { s ...F @skip(if: $s) }\nfragment F on Query { a }", [{"s": None}, {"s": True}]),
    ("A", "query Q($s: Boolean = true) { o { ...G } }\nfragment G on Obj { id a @include(if: $s) }", [{"s": None}, {"s": True}]),
    ("A", "query Q($s: Boolean = true, $t: Boolean = false) { a @skip(if: $s) o { id @include(if: $t) } }",
     [{"s": None}, {"t": None}, {"s": None, "t": None}, {"s": False, "t": True}]),
    ("A", "query Q($s: Boolean! = true) { a @skip(if: $s) s }", [{"s": None}, {}, {"s": False}]),
    ("A", "query Q($s: Boolean) { a @skip(if: $s) s }", [{"s": None}, {}, {"s": True}]),          # rejected by validation
    ("A", "mutation M($s: Boolean = true) { set(x: 1) @skip(if: $s) mo { id @include(if: $s) } }", [{"s": None}, {}]),
    ("A", "{ a @skip(if: true) s @include(if: false) o @skip(if: false) { id } }", [{}]),
    ("B", "query Q($s: Boolean = true) { me { id friends { id @skip(if: $s) } } }", [{"s": None}, {"s": False}]),
    ("B", "query Q($s: Boolean = true) { nodes { id ... on User { name @include(if: $s) } } }", [{"s": None}, {"s": True}]),
]

# completion-time ResolverError from resolve_type (schema B): (text, world)
RESOLVE_TYPE_CASES = [
    ("{ node(id: \"n1\") { id } me { id } }",
     {"node": ["value", {"__typename__": "User", "__rt_raise__": ["cannot tell", {"code": "RT"}]}]}),
    ("{ any { __typename } me { id } }", {"any": ["value", {"__rt_raise__": ["no type", None]}]}),
    ("{ nodes { id } }", {"nodes": ["value", [{"__typename__": "Bot"}, {"__rt_raise__": ["bad item", {"i": 1}]}]]}),
    ("{ anys { ... on User { id } } me { best { id } } }",
     {"anys": ["value", [{"__rt_raise__": ["x", None]}]], "me/best": ["value", {"__rt_raise__": ["y", {"k": [1]}]}]}),
    ("{ me { friends { id } name } }", {"me/friends": ["value", [{"__typename__": "User"}, {"__rt_raise__": ["f", None]}]]}),
]

# structurally wrong JSON of every kind at every leaf position of a variable (and leaf values at composite
# positions): whatever is supplied, the response is well formed (a coercion error or an accepted value)
JSON_KINDS = [[], [1], [[1]], ["RED"], {}, {"a": 1}, {"x": [1]}, True, False, 0, 7, 1.5, "str", "RED", "", None]


def wrong_kind_variable_cases():
    out = []
    leaf = [("Color", "c"), ("Int", "n"), ("Float", "f"), ("String", "s"), ("Boolean", "b"), ("ID", "i"), ("Trim", "t"),
            ("Color!", "c"), ("Int!", "n")]
    for tname, arg in leaf:
        text = "query Q($v: %s) { pick(%s: $v) }" % (tname, arg)
        out.append((text, [{"v": p} for p in JSON_KINDS]))
    out.append(("query Q($v: [Color!]) { pick(cs: $v) }",
                [{"v": p} for p in JSON_KINDS] + [{"v": [p]} for p in JSON_KINDS] + [{"v": ["RED", p, "GREEN"]} for p in JSON_KINDS]))
    out.append(("query Q($v: [Int]) { pick(ns: $v) }", [{"v": p} for p in JSON_KINDS] + [{"v": [1, p]} for p in JSON_KINDS]))
    out.append(("query Q($v: Inp) { pick(inp: $v) }",
                [{"v": p} for p in JSON_KINDS] + [{"v": {"a": 1, "c": p}} for p in JSON_KINDS]
                + [{"v": {"a": p}} for p in JSON_KINDS] + [{"v": {"a": 1, "f": p}} for p in JSON_KINDS]
                + [{"v": {"a": 1, "b": [{"a": p, "zz": p}]}} for p in JSON_KINDS] + [{"v": {"a": 1, "b": p}} for p in JSON_KINDS]))
    out.append(("query Q($v: Inp!, $w: [Color!]!) { pick(inp: $v, cs: $w) }",
                [{"v": {"a": 1, "c": p}, "w": [p]} for p in JSON_KINDS]))
    return out


OPNAME_CASES = [
    ("query A { a } query B { s }", [None, "A", "B", "C", ""]),
    ("query A { a }", [None, "A", "Z"]),
    ("{ a }", [None, "A"]),
    ("fragment F on Obj { id }", [None, "F"]),
    ("mutation M { set(x: 1) } query Q { a }", ["M", "Q", None, "m"]),
]

BIG_INT = "9" * 400

# non-finite numbers spelled as text.  (text, variables, stages at which the request must be contained)
NONFINITE_LITERAL_CASES = [
    ("{ echo(f: 1e999) }", {}, ["validation"]),
    ("{ echo(f: -1.5E+4000) }", {}, ["validation"]),
    ("{ echo(f: %s) }" % BIG_INT, {}, ["validation"]),
    ("{ arg(x: 1, inp: {a: 1, f: 1e999}) }", {}, ["validation"]),
    ("{ sum(xs: [1.0, -1e999, 2]) }", {}, ["validation"]),
    ("{ sum(inp: {a: 1, b: [], f: %s.5}) }" % BIG_INT, {}, ["validation"]),
    ("{ o { a } x: echo(f: 1E+999) }", {}, ["validation"]),
    ("query Q($f: Float = 1e999) { echo(f: $f) }", {}, ["validation", "variable-coercion"]),
    ("query Q($i: Inp = {a: 1, f: -1e999}) { arg(x: 1, inp: $i) }", {}, ["validation", "variable-coercion"]),
]
NONFINITE_VARIABLE_CASES = [
    ("query Q($f: Float) { echo(f: $f) }", [{"f": s} for s in
                                            ["Infinity", "-inf", "nan", "1e999", "+inf", " inf ", "-1E+4000", "NaN", "infinity"]]),
    ("query Q($f: Float!) { echo(f: $f) }", [{"f": "inf"}, {"f": {"$float": "inf"}}, {"f": 10 ** 400}]),
    ("query Q($i: Inp) { arg(x: 1, inp: $i) }", [{"i": {"a": 1, "f": "inf"}}, {"i": {"a": 1, "f": "1e999"}},
                                                {"i": {"a": 1, "f": {"$float": "nan"}}}]),
    ("query Q($xs: [Float!]) { sum(xs: $xs) }", [{"xs": [1.0, "nan"]}, {"xs": ["1e999"]}, {"xs": "-Infinity"},
                                                {"xs": [{"$float": "-inf"}, 2.0]}]),
    ("query Q($i: Inp!) { sum(inp: $i) }", [{"i": {"a": 1, "b": [], "f": "Infinity"}}]),
]
# valid neighbours: numeric text / big-but-finite values must keep working
FINITE_TEXT_CASES = [
    ("query Q($f: Float) { echo(f: $f) }", [{"f": "1.5"}, {"f": "1e308"}, {"f": "-0.0"}, {"f": 7}]),
    ("query Q($xs: [Float!]) { sum(xs: $xs) }", [{"xs": ["2.5", 1]}, {"xs": 3}]),
    ("{ echo(f: 1e308) x: echo(f: 12345678901234567890) sum(xs: [1, 2.5e-300]) }", [{}]),
]

FLOAT_RETURN_CASES = [
    # a resolver returning a non-finite number as text
    ("A", "{ f }", {"f": ["value", "inf"]}),
    ("A", "{ fn }", {"fn": ["value", "nan"]}),
    ("A", "{ f }", {"f": ["value", "1e999"]}),
    ("A", "{ o { f } }", {"o/f": ["value", "-Infinity"]}),
    ("A", "{ lf }", {"lf": ["value", [1.5, "NaN", 2]]}),
    ("A", "{ f x: fn }", {"f": ["value", "2.5"], "x": ["value", "1e308"]}),
    # (schema, text, world)
    ("A", "{ f }", {"f": ["value", {"$float": "inf"}]}),
    ("A", "{ f }", {"f": ["value", {"$float": "nan"}]}),
    ("A", "{ fn }", {"fn": ["value", {"$float": "-inf"}]}),
    ("A", "{ o { f } }", {"o/f": ["value", {"$float": "inf"}]}),
    ("A", "{ lf }", {"lf": ["value", [1.5, {"$float": "inf"}]]}),
    ("A", "{ lf }", {"lf": ["value", [1.5, None, 2.5e-7]]}),
    ("A", "{ f }", {"f": ["value", 1e308]}),
    ("A", "{ f x: fn }", {"f": ["value", 3]}),
    ("A", "{ echo(f: 1e308) }", {}),
]

def _family_corpus():
    out = []
    for smp in ERROR_SAMPLES:
        act = ["raise_cls", smp[0], smp[1], smp[2], False]
        out.append(("A", "{ a s o { a on { s } } lo { id a } }",
                    {"a": act, "o/on/s": act, "lo/1/a": act, "lo/0/id": act}))
    for smp in (ERROR_SAMPLES[4], ERROR_SAMPLES[6], ERROR_SAMPLES[8]):
        act = ["raise_cls", smp[0], smp[1], smp[2], True]
        out.append(("A", "{\n  a\n  o {\n      a\n  }\n  lo { a }\n}", {"a": act, "o/a": act, "lo/0/a": act, "lo/1/a": act}))
    out.append(("B", "{ me { id name friends { id } } }",
                {"me/name": ["raise_cls", "NotFound", ["name", 1], {}, False],
                 "me/friends/0/id": ["raise_cls", "Denied", [], {"action": "see"}, False]}))
    return out


# errors carrying several nodes: one response key selected two or three times (directly, through inline
# fragments, through spreads) at positions that fail; (schema, text, world)
MULTI_NODE_CORPUS = [
    ("A", "{ s s ... on Query { s } ...F }\nfragment F on Query { s }", {"s": ["null"]}),
    ("A", "{ a\n  a\n  x: argn(x: 2) x: argn(x: 2) }", {"a": ["raise", "twice", {"n": 2}], "x": ["null"]}),
    ("A", "{ o { s } o { s id } on { id } ... { on { s } } }", {"o/s": ["null"], "on": ["null"]}),
    ("A", "{ lo { id } lo { id s } ...L }\nfragment L on Query { lo { s tn } }",
     {"lo/0/s": ["null"], "lo/1/id": ["raise", "item", None], "lo/1/tn": ["value", " "]}),
    ("A", "{ ln ln tln tln }", {"ln": ["value", [1, None]], "tln": ["value", ["a", ""]]}),
    ("B", "{ me { id id ... on User { id nick } nick } nodes { id ... on Node { id } } }",
     {"me/id": ["null"], "me/nick": ["value", ""], "nodes": ["value", [{"__typename__": "Bot"}]], "nodes/0/id": ["null"]}),
    ("A", "mutation M { fail fail ... on Mutation { fail } }", {"fail": ["null"]}),
]
# validation / coercion errors with several nodes
MULTI_NODE_INVALID = [
    ("A", "{ x: a x: s }", {}),
    ("A", "{ o { k: id } o { k: s } x: a ... { x: b } }", {}),
    ("A", "query Q($v: Int) { arg(x: $v) a: arg(x: $v) ...F }\nfragment F on Query { argn(x: $v) }", {"v": 1}),
    ("A", "query Q($v: String) { arg(x: $v) argn(x: $v) }", {"v": "s"}),
    ("A", "{ ...A ...A }\nfragment A on Query { ...B }\nfragment B on Query { ...A a }", {}),
    ("A", "{ a a @skip(if: true) }\nfragment U on Query { a }\nfragment V on Query { s }", {}),
]

MAP_CONTENT = {"code": "E42", "retry": True, "detail": {"after": 1.5, "tags": ["a", None]}}


def _mapping_corpus():
    out = []
    for kind in MAPPING_KINDS:
        act = ["raise_map", "mapped " + kind, MAP_CONTENT, kind, False]
        out.append(("A", "{ a o { a s } lo { id a } }", {"a": act, "o/s": act, "lo/1/a": act}))
    return out


MAPPING_CORPUS = _mapping_corpus()

CUSTOM_SCALAR_CORPUS = [
    # a serializer returning None for a non-null value: null at T!, [T!], [T!]! and nested, one error each
    ("A", "{ tn t tl tln o { tn tl } lo { tn } }",
     {"tn": ["value", "   "], "t": ["value", ""], "tl": ["value", ["a", " "]], "tln": ["value", [" ", "b", ""]],
      "o/tn": ["value", "\t"], "o/tl": ["value", [" "]], "lo/1/tn": ["value", ""]}),
    ("A", "{ x: tn tln }", {"x": ["value", " kept "], "tln": ["value", []]}),
    ("A", "mutation M { mo { tn tl } }", {"mo/tn": ["value", " "], "mo/tl": ["value", ["", "z"]]}),
    ("B", "{ me { id nick tags friends { ... on User { nick } } } }",
     {"me/nick": ["value", "  "], "me/tags": ["value", ["t", " "]], "me/friends/0/nick": ["value", ""]}),
    # a serializer that raises: RuntimeError, like any unserialisable resolver value
    ("A", "{ st a }", {"st": ["value", "bad"]}),
    ("A", "{ st }", {"st": ["value", "good"]}),
]

EXEC_CORPUS = CUSTOM_SCALAR_CORPUS + _family_corpus() + [
    # one ResolverError instance raised by several fields, then again by a later, shorter request
    ("A", "{\n  a\n  s\n  o {\n         a\n  }\n}", {"a": ["raise_shared", "not found", {"code": 404}],
                                                        "s": ["raise_shared", "not found", {"code": 404}],
                                                        "o/a": ["raise_shared", "not found", {"code": 404}]}),
    # (schema, text, world) witnesses of the repaired defects and basic shapes
    ("A", "{ a }", {"a": ["raise", "", None]}),                       # empty message kept
    ("A", "{ a s o { s on { id } } }", {"a": ["raise", "x", {"code": 1}], "s": ["null"], "o/s": ["null"],
                                          "o/on": ["null"]}),
    ("A", "{ ln lo { id ln } }", {"ln": ["value", [1, None]], "lo/1/ln": ["value", [None, None]],
                                   "lo/0/id": ["null"]}),
    ("A", "{ on { on { s } } }", {"on": ["null"]}),
    ("A", "{ argn }", {}),
    ("A", "{ arg(x: 1, inp: {a: 1}) k: argn(x: 9) }", {"k": ["raise", "no", {}]}),
    ("A", "mutation M { set(x: 1) fail mo { id s } }", {"fail": ["null"], "mo/s": ["raise", "e", {"a": [1]}]}),
    ("B", "{ me { id name friends { id ... on Bot { model } } } nodes { id } }",
     {"me/friends/1/id": ["null"], "nodes": ["value", [None, {"__typename__": "Bot"}]], "me/name": ["raise", "n", None]}),
    ("A", "{ lol { id } }", {"lol": ["value", [[None, {"__typename__": "Obj"}], None]], "lol/0/1/id": ["null"]}),
]


def mutate_text(rng, text):
    ops = rng.randint(1, 2)
    chars = list(text)
    pool = list('{}()[]:!$@."\\\n\r #,=|&') + ["...", "on", "query", "0", "-", "e", "é", "\t", "\x00"]
    for _ in range(ops):
        if not chars:
            break
        i = rng.randrange(len(chars))
        r = rng.random()
        if r < 0.35:
            del chars[i]
        elif r < 0.7:
            chars.insert(i, rng.choice(pool))
        elif r < 0.85 and i + 1 < len(chars):
            chars[i], chars[i + 1] = chars[i + 1], chars[i]
        else:
            chars[i] = rng.choice(pool)
    return "".join(chars)


def rename_mutant(rng, text):
    """replace one identifier by another one: mostly schema-invalid documents"""
    import re
    ids = list(re.finditer(r"[A-Za-z_][A-Za-z_0-9]*", text))
    if not ids:
        return text
    m = rng.choice(ids)
    # (type names unknown to the schema are left out: an unknown type condition crashes
    # validation with UnknownType in the unchanged tree -- DESIGN section 6 row 16, C05's fix)
    new = rng.choice(["a", "s", "o", "id", "zzz", "Query", "on", "true", "null", "fragment", "x"])
    return text[:m.start()] + new + text[m.end():]


CONFIGS = ["blocking", "default", "asyncio", "threadpool"]


def is_finite_number(x):
    return not isinstance(x, float) or math.isfinite(x)
