# -*- coding: utf-8 -*-
"""Python values / abstract errors -> Coq terms of Exec/ResponseModel.v
(json, path, gql_error).  Terms are written for a file with N_scope open."""
import math

from .ser import cbool, clist, cstr, cz


def cnatlit(n):
    return "(N.to_nat %d)" % n


def cjnum(f):
    if math.isnan(f):
        return "NNan"
    if math.isinf(f):
        return "NPosInf" if f > 0 else "NNegInf"
    return "(NFinite %s)" % cstr(repr(f))


def cjson(v):
    if v is None:
        return "JNull"
    if v is True or v is False:
        return "(JBool %s)" % cbool(v)
    if isinstance(v, int):
        return "(JInt %s)" % cz(v)
    if isinstance(v, float):
        return "(JNum %s)" % cjnum(v)
    if isinstance(v, str):
        return "(JStr %s)" % cstr(v)
    if isinstance(v, (list, tuple)):
        return "(JArr %s)" % clist(v, cjson)
    if isinstance(v, dict):
        for k in v:
            if not isinstance(k, str):
                raise TypeError("non-string key %r" % (k,))
        return "(JObj %s)" % ckvs(v)
    raise TypeError("cjson: %r" % (v,))


def ckvs(d):
    return clist(list(d.items()), lambda kv: "(%s, %s)" % (cstr(kv[0]), cjson(kv[1])))


def cpseg(p):
    if isinstance(p, int) and not isinstance(p, bool):
        return "(PIdx %s)" % cnatlit(p)
    return "(PKey %s)" % cstr(p)


def cpath(p):
    return clist(p, cpseg)


def cnode(n):
    loc, has_source = n
    l = "None" if loc is None else "(Some (%s, %s))" % (cnatlit(loc[0]), cnatlit(loc[1]))
    return "(NodeRef %s %s)" % (l, cbool(has_source))


def cerr(e):
    fam = e["fam"]
    if fam == "syntax":
        return "(ESyntax %s %s)" % (cstr(e["msg"]), cnatlit(max(0, e["pos"])))
    if fam == "execution":
        return "(EExecution %s)" % cstr(e["msg"])
    pth = "None" if e["path"] is None else "(Some %s)" % cpath(e["path"])
    if fam == "located":
        return "(ELocated %s %s %s)" % (cstr(e["msg"]), clist(e["nodes"], cnode), pth)
    if fam == "resolver":
        ext = "None" if e["ext"] is None else "(Some %s)" % ckvs(e["ext"])
        return "(EResolver %s %s %s %s)" % (cstr(e["msg"]), clist(e["nodes"], cnode), pth, ext)
    raise TypeError("cerr: %r" % (e,))


def encode_floats(v):
    """JSON-able copy of a Python value in which non-finite floats are spelt
    {"$float": "inf"} (replay files are strict JSON)."""
    if isinstance(v, float) and not math.isfinite(v):
        return {"$float": repr(v)}
    if isinstance(v, (list, tuple)):
        return [encode_floats(x) for x in v]
    if isinstance(v, dict):
        return {k: encode_floats(x) for k, x in v.items()}
    return v


def decode_floats(v):
    if isinstance(v, dict) and set(v) == {"$float"}:
        return float(v["$float"])
    if isinstance(v, list):
        return [decode_floats(x) for x in v]
    if isinstance(v, dict):
        return {k: decode_floats(x) for k, x in v.items()}
    return v
