# -*- coding: utf-8 -*-
"""Schema-free generator of executable documents (text), used by C19/C18/C03.
All randomness comes from the rng passed in."""

FIELDS = ["a", "b", "c", "d", "hero", "friends"]
ALIASES = ["x", "y", "a", "b"]


def gen_directives(rng, varnames, p=0.25):
    out = []
    if rng.random() < p:
        for dn in rng.sample(["skip", "include"], rng.choice([1, 1, 2])):
            r = rng.random()
            if r < 0.4 or not varnames:
                val = rng.choice(["true", "false"])
            else:
                val = "$" + rng.choice(varnames)
            out.append("@%s(if: %s)" % (dn, val))
    return (" " + " ".join(out)) if out else ""


def gen_selections(rng, depth, frag_names, varnames, budget, pdir=0.25):
    """Returns text of a selection list (without braces)."""
    n = rng.randint(1, 3)
    parts = []
    for _ in range(n):
        if budget[0] <= 0:
            break
        budget[0] -= 1
        r = rng.random()
        if r < 0.15 and frag_names:
            fn = rng.choice(frag_names)
            parts.append("...%s%s" % (fn, gen_directives(rng, varnames, max(pdir, 0.5))))
            if rng.random() < 0.4:
                # the same fragment spread again in the same scope (seen-set handling),
                # possibly after another selection, with independent directives
                if rng.random() < 0.5:
                    parts.append(rng.choice(FIELDS))
                parts.append("...%s%s" % (fn, gen_directives(rng, varnames, max(pdir, 0.5))))
        elif r < 0.30 and depth > 0:
            tc = rng.choice(["", " on T", " on U"])
            parts.append("...%s%s { %s }" % (
                tc, gen_directives(rng, varnames, pdir),
                gen_selections(rng, depth - 1, frag_names, varnames, budget, pdir)))
        else:
            name = rng.choice(FIELDS)
            alias = (rng.choice(ALIASES) + ": ") if rng.random() < 0.2 else ""
            args = "(n: 1)" if rng.random() < 0.1 else ""
            sub = ""
            if depth > 0 and rng.random() < 0.6:
                sub = " { %s }" % gen_selections(rng, depth - 1, frag_names, varnames, budget, pdir)
            parts.append("%s%s%s%s%s" % (alias, name, args, gen_directives(rng, varnames, pdir), sub))
    if not parts:
        parts.append(rng.choice(FIELDS))
    return " ".join(parts)


def gen_document(rng, max_depth=5, nfrags=None, nops=None, pdir=0.25, opnames=None):
    """Acyclic by construction: fragment Fi only spreads Fj with j > i."""
    nfrags = rng.randint(0, 4) if nfrags is None else nfrags
    nops = rng.randint(1, 3) if nops is None else nops
    varnames = ["v%d" % i for i in range(rng.randint(0, 2))]
    frag_names = ["F%d" % i for i in range(nfrags)]
    defs = []
    for i in range(nops):
        header = ""
        vd = ""
        if varnames:
            # declared defaults never apply here: the rule is given the raw variable values
            vd = "(" + ", ".join(
                "$%s: %s" % (v, rng.choice(["Boolean!", "Boolean!", "Boolean = true", "Boolean = false", "Boolean! = true"]))
                for v in varnames) + ")"
        if nops > 1 or rng.random() < 0.5 or vd:
            header = "%s %s%s " % (rng.choice(["query", "query", "mutation"]),
                                   opnames[i] if opnames else "Op%d" % i, vd)
        budget = [rng.randint(1, 14)]
        defs.append("%s{ %s }" % (header, gen_selections(
            rng, rng.randint(0, max_depth), frag_names, varnames, budget, pdir)))
    for i, fn in enumerate(frag_names):
        budget = [rng.randint(1, 8)]
        defs.append("fragment %s on T%s { %s }" % (
            fn, gen_directives(rng, [], 0.0),
            gen_selections(rng, rng.randint(0, 3), frag_names[i + 1:], varnames, budget, pdir)))
    rng.shuffle(defs)
    variables = {v: rng.choice([True, False]) for v in varnames}
    return "\n".join(defs), variables
