# -*- coding: utf-8 -*-
"""C18 -- AST visitors reach every node once with balanced enter/leave; edits stay local."""
import collections
import copy

from py_gql.lang import ast as A
from py_gql.lang import parse
from py_gql.lang.visitor import ASTVisitor, ChainedVisitor, DispatchingVisitor, SkipNode
from py_gql.lang import visitor as _visitor_mod
from py_gql.utilities import ast_transforms
from py_gql._string_utils import camelcase_to_snakecase, snakecase_to_camelcase

from .. import gen_docs_full as G
from .. import gen_exec, ser

PROP = "C18"
THEOREMS = ["C18_refines", "C18_balanced", "C18_once", "C18_identity", "C18_delete", "C18_replace",
            "C18_skip", "C18_list_local", "C18_chain", "C18_dispatch_total",
            "C18_coverage_partial", "C18_coverage_exact", "C18_coverage_refuted",
            "C18_terminates", "C18_keep_total",
            "C18_deep", "C18_local", "C18_quiet_unchanged", "C18_quiet_chain",
            "C18_member_delete", "C18_member_skip", "C18_member_replace",
            "C18_no_crash", "C18_edit_total", "C18_transforms_total", "C18_crash_conditions_needed",
            "C18_replace_other_class",
            "C18_oracle_reflects", "C18_oracle_sound"]
AXIOMS_OK = []
RUN_MODULE = "Run.C18run Lang.VisitorModel"
# fixes/C18-03 (replacement of another class) is applied: enter once on the original, the replacement's own
# children, leave once on the replacement -- for every class the slot admits
FIXED_C18_03 = True
AGREE = "agree_C18"
CASE_TYPE = "case_C18"
SHARD = 30
LEVEL_NOTE = ("Theorems are about the Gallina model Lang/VisitorModel.v of lang/visitor.py "
              "(_visit_method, every _visit_*, map_and_filter, the class tables, ChainedVisitor) and "
              "utilities/ast_transforms.py; the model is tied to /repo by running both on the same "
              "generated documents, visitor chains and edit actions on every run. A visitor is "
              "modelled by its decision function on (class, loc) plus logging; replacements of another "
              "class and deletions of required (non-list, non-optional) children are outside the "
              "property and only compared as 'tree no longer well-formed'.")
RULE = ("documents from harness/gen_docs_full.py (executable + type-system, every node class) and "
        "gen_exec.py; per document: an all-keep pass (plain, dispatching, chains of 2-3), and for node "
        "positions (3 random in quick, every position in thorough) one delete, one replace by a fresh "
        "node of the same class, one skip, and (value / type / selection positions) one replace by a "
        "fresh node of ANOTHER class of the slot family, also in chains with recorders around the "
        "transformer; chains of 1-3 recording visitors with independent rule "
        "tables; the three ast_transforms visitors; class tables probed per class. non-trivial = the "
        "case edits or skips a node, or uses a chain/dispatching visitor; distinct = distinct "
        "(text, chain rules); a location-erased stream (every node loc = None as after parse(no_location=True) "
        "or programmatic construction; node identity tracked in a side table) over documents with repeated "
        "structurally equal members in every kind of child list, every position edited; chains of 2-4 "
        "positions in which one visitor instance stands at several positions, flat and nested ChainedVisitors; "
        "ChainedVisitor subclasses that assign visitors after the base initialiser; histories: one chain "
        "object visits a fresh parse of the document several times, its visitors attribute appended to / "
        "re-assigned / reversed / truncated in between, every visit compared with the model run on the "
        "then-current visitor list")

KINDS = ["Document", "OperationDefinition", "FragmentDefinition", "VariableDefinition", "Variable",
         "SelectionSet", "Field", "Argument", "FragmentSpread", "InlineFragment", "IntValue",
         "FloatValue", "StringValue", "BooleanValue", "NullValue", "EnumValue", "ListValue",
         "ObjectValue", "ObjectField", "Directive", "NamedType", "ListType", "NonNullType",
         "SchemaDefinition", "OperationTypeDefinition", "ScalarTypeDefinition", "ObjectTypeDefinition",
         "FieldDefinition", "InputValueDefinition", "InterfaceTypeDefinition", "UnionTypeDefinition",
         "EnumTypeDefinition", "EnumValueDefinition", "InputObjectTypeDefinition", "SchemaExtension",
         "ScalarTypeExtension", "ObjectTypeExtension", "InterfaceTypeExtension", "UnionTypeExtension",
         "EnumTypeExtension", "InputObjectTypeExtension", "DirectiveDefinition", "Name"]


# ------------------------------------------------------------------ AST helpers
def walk(node, out=None):
    """all Node objects below (and including) node, generic over __slots__"""
    out = [] if out is None else out
    if isinstance(node, A.Node):
        out.append(node)
        for a in node.__slots__:
            if a not in ("source", "loc"):
                walk(getattr(node, a), out)
    elif isinstance(node, list):
        for x in node:
            walk(x, out)
    return out


def index_nodes(doc):
    return {(type(n).__name__, tuple(n.loc) if n.loc else None): n for n in walk(doc)}


def cnode(n):
    """serialise any (non-Name) node as a Coq [node]"""
    if n is None:
        raise TypeError("cnode(None)")
    if isinstance(n, A.Document):
        return "(NDoc %s)" % ser.cdoc(n)
    if isinstance(n, (A.Definition,)) and not isinstance(
            n, (A.FieldDefinition, A.InputValueDefinition, A.EnumValueDefinition,
                A.OperationTypeDefinition)):
        return "(NDef %s)" % ser.cdef(n)
    if isinstance(n, A.VariableDefinition):
        return "(NVarDef %s)" % ser.cvardef(n)
    if isinstance(n, A.SelectionSet):
        return "(NSelSet (%s, %s))" % (ser.cloc(n.loc), ser.clist(n.selections, ser.csel))
    if isinstance(n, (A.Field, A.FragmentSpread, A.InlineFragment)):
        return "(NSel %s)" % ser.csel(n)
    if isinstance(n, A.Argument):
        return "(NArg %s)" % ser.carg(n)
    if isinstance(n, A.Directive):
        return "(NDir %s)" % ser.cdir(n)
    if isinstance(n, (A.Value, A.Variable)):
        return "(NVal %s)" % ser.cvalue(n)
    if isinstance(n, A.ObjectField):
        return "(NObjField (%s, %s, %s))" % (ser.cname(n.name), ser.cvalue(n.value), ser.cloc(n.loc))
    if isinstance(n, A.Type):
        return "(NType %s)" % ser.ctype(n)
    if isinstance(n, A.OperationTypeDefinition):
        return "(NOpType %s)" % ser.cotdef(n)
    if isinstance(n, A.FieldDefinition):
        return "(NFieldDef %s)" % ser.cfdef(n)
    if isinstance(n, A.InputValueDefinition):
        return "(NIVDef %s)" % ser.civdef(n)
    if isinstance(n, A.EnumValueDefinition):
        return "(NEVDef %s)" % ser.cevdef(n)
    raise TypeError("cnode: %r" % (n,))


def make_replacement(node, salt):
    """a fresh node of the same class: a changed deep copy with a fresh loc"""
    r = copy.deepcopy(node)
    r.loc = (100000 + salt, 100001 + salt)
    nm = getattr(r, "name", None)
    if isinstance(nm, A.Name):
        nm.value = "repl%d" % (salt % 7)
    for attr in ("selections", "arguments", "values", "fields", "directives", "definitions", "types"):
        lst = getattr(r, attr, None)
        if isinstance(lst, list) and len(lst) > 1:
            lst.pop()
            break
    if isinstance(r, (A.IntValue,)):
        r.value = "99"
    if isinstance(r, A.StringValue):
        r.value = r.value + "!"
    if isinstance(r, A.BooleanValue):
        r.value = not r.value
    return r


# replacements of ANOTHER class, within the classes the parent's slot admits (seeded C18-f)
XFAM = [
    ["IntValue", "FloatValue", "StringValue", "BooleanValue", "NullValue", "EnumValue", "ListValue",
     "ObjectValue", "Variable"],
    ["NamedType", "ListType", "NonNullType"],
    ["Field", "FragmentSpread", "InlineFragment"],
]
XSRC = {"IntValue": "42", "FloatValue": "4.5", "StringValue": '"s"', "BooleanValue": "true", "NullValue": "null",
        "EnumValue": "E", "ListValue": "[1, $w, [2]]", "ObjectValue": "{k: 7, j: $w, l: [3]}", "Variable": "$x",
        "NamedType": "T", "ListType": "[T]", "NonNullType": "T!",
        "Field": "fx(a: 1) @dx { gx }", "FragmentSpread": "...Fx @dx(a: 2)",
        "InlineFragment": "... on T @dx { gx hx }"}
# the body of the original class's method reads an attribute the replacement does not have
XCRASH = set() if FIXED_C18_03 else {("Field", "FragmentSpread"), ("Field", "InlineFragment"),
                                     ("InlineFragment", "FragmentSpread")}


def xfamily(k):
    for fam in XFAM:
        if k in fam:
            return fam
    return None


def xoptions(k):
    """the other classes of the slot family that the code handles without raising"""
    return [c for c in (xfamily(k) or []) if c != k and (k, c) not in XCRASH]


def make_xreplacement(salt, cls):
    """a fresh node of class cls with fresh locations (20000 + 40 * salt + i; small numbers: locations are unary in the model)"""
    src = XSRC[cls]
    if cls in XFAM[0]:
        r = parse("{ q(a: %s) }" % src, **G.PARSE_KW).definitions[0].selection_set.selections[0].arguments[0].value
    elif cls in XFAM[1]:
        r = parse("query ($a: %s) { q }" % src, **G.PARSE_KW).definitions[0].variable_definitions[0].type
    else:
        r = parse("{ %s }" % src, **G.PARSE_KW).definitions[0].selection_set.selections[0]
    assert type(r).__name__ == cls, (cls, r)
    for i, n in enumerate(walk(r)):
        n.loc = (20000 + 40 * salt + i, 20001 + 40 * salt + i)
    return r


def _replacement_for(idx, chain, k, key, loc, act, salt):
    if act.startswith("xreplace:"):
        return make_xreplacement(salt, act.split(":", 1)[1])
    target = idx.get(key)
    if target is None:
        # rule keyed on a fresh loc introduced by an earlier visitor's replacement
        base = idx.get((k, tuple(chain["fresh"][str(loc[0])])))
        target = make_replacement(base, loc[0] - 100000)
    return make_replacement(target, salt)


# ------------------------------------------------------------------ recording visitors
def _loc_of(self, node):
    """the node's location; in the location-erased stream the location the node
    had when parsed / built, looked up by object identity"""
    side = getattr(self, "side", None)
    if side is not None:
        ent = side.get(id(node))
        return ent[1] if ent is not None else None
    return node.loc


def _decide(self, node):
    loc = _loc_of(self, node)
    key = (type(node).__name__, tuple(loc) if loc else None)
    self.log.append([self.idx, True, key[0], list(key[1]) if key[1] else None])
    rule = self.rules.get(key)
    if rule is None:
        return node
    if rule[0] == "delete":
        return None
    if rule[0] == "skip":
        raise SkipNode()
    return rule[1]


def _left(self, node):
    loc = _loc_of(self, node)
    self.log.append([self.idx, False, type(node).__name__, list(loc) if loc else None])


class Rec(ASTVisitor):
    def __init__(self, idx, rules, log):
        self.idx, self.rules, self.log = idx, rules, log

    enter = _decide
    leave = _left


class RecD(DispatchingVisitor):
    def __init__(self, idx, rules, log):
        self.idx, self.rules, self.log = idx, rules, log


for _m in dir(DispatchingVisitor):
    if _m.startswith("enter_"):
        setattr(RecD, _m, _decide)
    elif _m.startswith("leave_"):
        setattr(RecD, _m, _left)


class LateChain(ChainedVisitor):
    """a ChainedVisitor subclass that runs the base initialiser first and assigns [visitors] afterwards"""

    def __init__(self, *visitors):
        super().__init__()
        self.visitors = tuple(visitors)


def build_chain(doc, chain, log):
    mk_chain = LateChain if chain.get("late") else ChainedVisitor
    idx = index_nodes(doc)
    vs = []
    for i, spec in enumerate(chain["visitors"]):
        rules = {}
        for k, loc, act, salt in spec["rules"]:
            key = (k, tuple(loc) if loc else None)
            if act == "replace" or act.startswith("xreplace:"):
                rules.setdefault(key, ("replace", _replacement_for(idx, chain, k, key, loc, act, salt)))
            else:
                rules.setdefault(key, (act,))
        vs.append((RecD if spec["disp"] else Rec)(i, rules, log))
    if "positions" in chain:
        # a chain is a sequence of positions; one instance may stand at several of them
        seq = [vs[p] for p in chain["positions"]]

        def nested(struct):
            parts = [seq[x] if isinstance(x, int) else nested(x) for x in struct]
            return mk_chain(*parts)
        return nested(chain.get("nest") or list(range(len(seq)))), vs
    if chain["chained"]:
        return mk_chain(*vs), vs
    return vs[0], vs


def erase_locations(doc, vs):
    """Location-erased stream: every node of the document and of the prepared
    replacements gets loc = None (what parse(no_location=True) / programmatic
    construction gives), so that repeated members of a list are structurally
    equal (Node.__eq__). Identity is kept in a side table id -> (node, loc) that
    the recording visitors use to find their rules and to log, and that
    restores the locations afterwards so the result can be compared by position."""
    side = {}
    roots = [doc]
    for v in vs:
        for rule in v.rules.values():
            if rule[0] == "replace":
                roots.append(rule[1])
    for r in roots:
        for n in walk(r):
            side[id(n)] = (n, n.loc)
    for n, _loc in side.values():
        n.loc = None
    for v in vs:
        v.side = side
    return side


def restore_locations(side):
    for n, loc in side.values():
        n.loc = loc


def coq_chain(doc, chain):
    idx = index_nodes(doc)
    out = []
    for spec in chain["visitors"]:
        rs = []
        for k, loc, act, salt in spec["rules"]:
            key = (k, tuple(loc) if loc else None)
            if act == "replace" or act.startswith("xreplace:"):
                a = "(Replace %s)" % cnode(_replacement_for(idx, chain, k, key, loc, act, salt))
            else:
                a = {"delete": "Delete", "skip": "Skip"}[act]
            rs.append("(K%s, %s, %s)" % (k, ser.cloc(key[1]), a))
        out.append("(%s, [%s])" % (ser.cbool(spec["disp"]), "; ".join(rs)))
    if "positions" in chain:
        out = [out[p] for p in chain["positions"]]     # the model's chain: one entry per position
    return "[" + "; ".join(out) + "]"


# ------------------------------------------------------------------ cases
def keep_chain(disp=False, n=1, chained=None):
    return {"chained": (n > 1) if chained is None else chained, "fresh": {},
            "visitors": [{"disp": disp, "rules": []} for _ in range(n)]}


def shared_chain(ninst, positions, nest=None, disp=None):
    """a chain whose positions are occupied by [ninst] visitor instances, some of them repeatedly"""
    ch = {"chained": True, "fresh": {}, "positions": list(positions),
          "visitors": [{"disp": bool(disp and disp[i]), "rules": []} for i in range(ninst)]}
    if nest is not None:
        ch["nest"] = nest
    return ch


SHARED_SHAPES = [
    (1, [0, 0], None), (1, [0, 0, 0], None), (2, [0, 1, 0], None), (2, [1, 0, 1], None),
    (2, [0, 1, 1, 0], None), (2, [0, 1, 0, 1], None), (3, [0, 1, 2, 0], None), (2, [0, 0, 1], None),
    (2, [0, 1, 0], [0, [1, 2]]), (2, [0, 1, 0], [[0, 1], 2]), (2, [0, 1, 1, 0], [[0, 1], [2, 3]]),
    (3, [0, 1, 2], [0, [1, [2]]]), (1, [0, 0], [[0], [1]]), (2, [1, 0, 1], [0, [1], 2]),
]


def positions(text):
    doc = parse(text, **G.PARSE_KW)
    log = []
    Rec(0, {}, log).visit(doc)
    return [(e[2], e[3]) for e in log if e[1]]


def visit_case(text, chain, noloc=False):
    c = {"kind": "visit", "text": text, "chain": chain}
    if noloc:
        c["noloc"] = True
    return c


def corpus():
    out = []
    for t in G.KITCHEN:
        out.append(visit_case(t, keep_chain()))
        out.append(visit_case(t, keep_chain(disp=True)))
        out.append(visit_case(t, keep_chain(n=3)))
    # witness of fixes/C18-01: a chained visitor's deletion / replacement must take effect,
    # later visitors must not be left without having entered
    t = "{ foo, bar, baz }"
    ps = positions(t)
    fields = [p for p in ps if p[0] == "Field"]
    for act in ("delete", "replace", "skip"):
        for who in (0, 1):
            ch = keep_chain(n=2)
            ch["visitors"][who]["rules"].append([fields[1][0], fields[1][1], act, 5])
            out.append(visit_case(t, ch))
    # witness of fixes/C18-02: an edit of an argument-definition default must be kept
    t = "type A { f(x: Int = 1, y: [Int] = [1, 2]): Int } directive @d(a: String = \"s\") on FIELD input I { a: Int = 3 }"
    for p in positions(t):
        if p[0] in ("IntValue", "ListValue", "StringValue"):
            for act in ("delete", "replace"):
                ch = keep_chain()
                ch["visitors"][0]["rules"].append([p[0], p[1], act, 3])
                out.append(visit_case(t, ch))
    # seeded C18-a: edits must find their target by position, not by equality
    # (location-erased trees, repeated structurally equal members)
    for t in G.DUP_WITNESSES:
        out.append(visit_case(t, keep_chain(), noloc=True))
        for k, p in enumerate(positions(t)):
            for act in ("delete", "replace"):
                ch = keep_chain()
                ch["visitors"][0]["rules"].append([p[0], p[1], act, 11 + k])
                out.append(visit_case(t, ch, noloc=True))
    # seeded C18-c: a chain is a sequence of positions, also when one visitor instance
    # stands at several of them (recorders around a rewriter, the same rewriter twice)
    t = "{ foo, bar, baz }"
    fields = [p for p in positions(t) if p[0] == "Field"]
    for ninst, pos, nest in SHARED_SHAPES:
        out.append(visit_case(t, shared_chain(ninst, pos, nest)))
        for act in ("delete", "replace", "skip"):
            ch = shared_chain(ninst, pos, nest)
            ch["visitors"][ninst - 1]["rules"].append([fields[1][0], fields[1][1], act, 7])
            out.append(visit_case(t, ch))
    ch = shared_chain(1, [0, 0])      # the same rewriter twice: rewrites its own replacement again
    ch["visitors"][0]["rules"].append([fields[0][0], fields[0][1], "replace", 3])
    ch["fresh"][str(100003)] = fields[0][1]
    ch["visitors"][0]["rules"].append([fields[0][0], [100003, 100004], "replace", 4])
    out.append(visit_case(t, ch))
    # seeded C18-f: enter returning a node of ANOTHER class (admissible in the slot): enter is called once,
    # on the original; the body of the original's method runs on the replacement; leave sees the replacement.
    # witness: ChainedVisitor(InlineVariables({"v": "42"}), Recorder()) over { f(a: $v, b: [1, $v]) { g } }
    t = "{ f(a: $v, b: [1, $v]) { g } }"
    vars_ = [p for p in positions(t) if p[0] == "Variable"]
    for n, who in ((1, 0), (2, 0), (2, 1), (3, 1)):
        ch = keep_chain(n=n)
        for j, p in enumerate(vars_):
            ch["visitors"][who]["rules"].append([p[0], p[1], "xreplace:IntValue", 3 + j])
        out.append(visit_case(t, ch))
        out.append(visit_case(t, ch, noloc=True))
    t = ("query Q($a: T = 1, $b: [T]!, $c: T!) { f(a: $v, l: [1, $v, \"s\"], o: {k: $v, j: 2.5, e: E, n: null, b: true}) "
         "@d(x: [1]) { g ...F ... on T { h } } ...G @d } type A { f(x: [Int] = [1]): T! }")
    for k, (cls, loc) in enumerate(positions(t)):
        fam = xfamily(cls)
        if not fam:
            continue
        for new in fam:
            if new == cls:
                continue
            for n, disp in ((1, False), (2, True)):
                ch = keep_chain(n=n, disp=disp)
                ch["visitors"][0]["rules"].append([cls, loc, "xreplace:" + new, 10 + k])
                out.append(visit_case(t, ch))
    # seeded C18-g: a chain is a function of the CURRENT [visitors] tuple at each visit.
    # (a) a ChainedVisitor subclass that calls super().__init__() and assigns [visitors] afterwards
    t = "{ foo, bar { x }, baz }"
    fields = [p for p in positions(t) if p[0] == "Field"]
    for n in (1, 2, 3):
        ch = keep_chain(n=n, chained=True)
        ch["late"] = True
        out.append(visit_case(t, ch))
        for act in ("delete", "skip", "replace"):
            ch = keep_chain(n=n, chained=True)
            ch["late"] = True
            ch["visitors"][n - 1]["rules"].append([fields[1][0], fields[1][1], act, 9])
            out.append(visit_case(t, ch))
    for ninst, pos, nest in SHARED_SHAPES[:6]:
        ch = shared_chain(ninst, pos, nest)
        ch["late"] = True
        out.append(visit_case(t, ch))
    # (b) a chain that already visited a document is extended / re-assigned / reordered / truncated and reused
    rec = {"disp": False, "rules": []}
    dele = {"disp": False, "rules": [[fields[1][0], fields[1][1], "delete", 9]]}
    skp = {"disp": True, "rules": [[fields[2][0], fields[2][1], "skip", 9]]}
    for late in (False, True):
        for steps in (
            [{"positions": [0]}, {"op": "append", "positions": [0, 1]}],
            [{"positions": [0, 1]}, {"op": "append", "positions": [0, 1, 2]}, {"op": "append", "positions": [0, 1, 2, 0]}],
            [{"positions": [0, 1]}, {"op": "assign", "positions": [2]}],
            [{"positions": [0, 1, 2]}, {"op": "reverse", "positions": [2, 1, 0]}],
            [{"positions": [0, 1, 2]}, {"op": "truncate", "positions": [0]}, {"op": "assign", "positions": [1, 2]}],
            [{"positions": []}, {"op": "assign", "positions": [0, 1]}],
            [{"positions": [0]}, {"op": "list", "positions": [1, 0]}, {"op": "assign", "positions": [0]}],
        ):
            for visitors in ([rec, rec, rec], [rec, dele, skp], [dele, rec, rec]):
                c = {"kind": "vhist", "text": t, "visitors": copy.deepcopy(visitors), "steps": steps}
                if late:
                    c["late"] = True
                out.append(c)
    # every gap witness (known findings)
    for t in GAP_WITNESSES.values():
        out.append(visit_case(t, keep_chain()))
    out.append({"kind": "transform", "which": 0, "text": "{ a: b c: d { e: f } g }"})
    out.append({"kind": "transform", "which": 1, "text": "{ fooBar { bazQux_x aB: cD } }"})
    out.append({"kind": "transform", "which": 2, "text": "{ foo_bar { baz_qux_X _a__b_ } }"})
    for k in KINDS:
        out.append({"kind": "dispatch", "cls": k})
    for nm in ["", "_", "__", "a", "_a_", "foo_bar2baz", "fooBar_bazQux", "a__b", "A", "_A", "foo_Bar",
               "x_1a", "aB", "ABC", "a_", "_1", "a1b_c2d", "__typename", "__foo__Bar_"]:
        if nm:
            out.append({"kind": "case", "which": 1, "name": nm})
        out.append({"kind": "case", "which": 2, "name": nm})
    return out


GAP_WITNESSES = {
    "gap-inner-type": "type A { f: [T!] }",
    "gap-type-condition": "fragment F on T { a ... on U { b } }",
    "gap-vardef-variable": "query ($v: Int) { a }",
    "gap-vardef-directives": "query ($v: Int @d) { a }",
    "gap-fragment-vardefs": "fragment F($v: Int) on T { a }",
    "order-default-before-type": "query ($v: Int = 1) { a }",
    "order-type-before-arguments": "type A { f(x: Int): T }",
    "order-optypes-before-directives": "schema @d { query: Q }",
    "gap-description": "\"d\" type A { \"e\" f(\"g\" x: Int): T } enum E { \"h\" V }",
}


def _random_rules(rng, ps, n, salt0, allow_delete_any=False):
    rules, seen = [], set()
    for j in range(n):
        k, loc = rng.choice(ps)
        if (k, tuple(loc) if loc else None) in seen:
            continue
        seen.add((k, tuple(loc) if loc else None))
        if xoptions(k) and rng.random() < 0.3:
            act = "xreplace:" + rng.choice(xoptions(k))
        else:
            act = rng.choice(["delete", "replace", "skip"])
        rules.append([k, loc, act, salt0 + j])
    return rules


def generate(rng, tier):
    cases = []
    ndocs = 70 if tier == "quick" else 260
    for di in range(ndocs):
        r = rng.random()
        exhaustive = tier == "thorough" and di < 72
        if exhaustive and di < 12:
            text = G.KITCHEN[di]
        elif exhaustive:
            text = G.gen_document(rng, strings="none", max_depth=1, max_defs=2)
        elif r < 0.15:
            text = gen_exec.gen_document(rng)[0]
        else:
            text = G.gen_document(rng, strings=rng.choice(["none", "none", "some"]),
                                  max_depth=2 if tier == "thorough" else 3)
        try:
            ps = positions(text)
        except Exception:
            continue
        cases.append(visit_case(text, keep_chain(disp=rng.random() < 0.5)))
        cases.append(visit_case(text, keep_chain(n=rng.choice([2, 3]), disp=rng.random() < 0.5)))
        cases.append(visit_case(text, keep_chain(n=1, chained=True)))
        if tier == "quick":
            chosen = [rng.choice(ps) for _ in range(3)]
        else:
            chosen = ps if exhaustive else [rng.choice(ps) for _ in range(6)]
        salt = 0
        for k, loc in chosen:
            xs = ["xreplace:" + rng.choice(xoptions(k))] if xoptions(k) else []
            for act in ["delete", "replace", "skip"] + xs:
                salt += 1
                ch = keep_chain(disp=rng.random() < 0.3)
                ch["visitors"][0]["rules"].append([k, loc, act, salt])
                cases.append(visit_case(text, ch))
        # several simultaneous edits, chains of 1-3 with independent tables
        for _ in range(2 if tier == "quick" else 4):
            n = rng.choice([1, 2, 2, 3])
            ch = keep_chain(n=n, chained=True if n > 1 else rng.random() < 0.5)
            for i in range(n):
                ch["visitors"][i]["disp"] = rng.random() < 0.4
                ch["visitors"][i]["rules"] = _random_rules(rng, ps, rng.randint(0, 3), 100 * (i + 1))
            # a later visitor reacting to an earlier visitor's replacement (fresh loc)
            if n > 1:
                for (k, loc, act, s) in list(ch["visitors"][0]["rules"]):
                    if act == "replace" and rng.random() < 0.6 and loc:
                        ch["fresh"][str(100000 + s)] = loc
                        ch["visitors"][1]["rules"].append(
                            [k, [100000 + s, 100001 + s], rng.choice(["skip", "delete", "replace"]), 900 + s])
            cases.append(visit_case(text, ch, noloc=rng.random() < 0.4))
        # shared instances / nested chains
        for _ in range(1 if tier == "quick" else 3):
            ninst, pos, nest = rng.choice(SHARED_SHAPES)
            ch = shared_chain(ninst, pos, nest, disp=[rng.random() < 0.4 for _ in range(ninst)])
            for i in range(ninst):
                if rng.random() < 0.6:
                    ch["visitors"][i]["rules"] = _random_rules(rng, ps, rng.randint(1, 2), 500 + 10 * i)
            cases.append(visit_case(text, ch, noloc=rng.random() < 0.3))
        # a reused chain whose [visitors] is changed between visits; subclass with late assignment
        if rng.random() < (0.5 if tier == "quick" else 0.8):
            ninst = rng.randint(1, 3)
            fps = [p for p in ps if p[0] == "Field"] or ps
            visitors = []
            for i in range(ninst):
                rules = []
                if rng.random() < 0.5:
                    k, loc = rng.choice(fps)
                    if k == "Field":
                        rules.append([k, loc, rng.choice(["delete", "skip"]), 40 + i])
                visitors.append({"disp": rng.random() < 0.3, "rules": rules})
            cur = [rng.randrange(ninst) for _ in range(rng.randint(0, 3))]
            steps = [{"positions": list(cur)}]
            for _ in range(rng.randint(1, 3)):
                op = rng.choice(["append", "assign", "reverse", "truncate", "list"])
                if op == "append":
                    cur = cur + [rng.randrange(ninst)]
                elif op == "reverse":
                    cur = cur[::-1]
                elif op == "truncate":
                    cur = cur[:rng.randint(0, len(cur))]
                else:
                    cur = [rng.randrange(ninst) for _ in range(rng.randint(0, 4))]
                steps.append({"op": op, "positions": list(cur)})
            c = {"kind": "vhist", "text": text, "visitors": visitors, "steps": steps}
            if rng.random() < 0.5:
                c["late"] = True
            cases.append(c)
        if rng.random() < 0.3:
            ch = keep_chain(n=rng.choice([1, 2, 3]), chained=True, disp=rng.random() < 0.3)
            ch["late"] = True
            if rng.random() < 0.6:
                ch["visitors"][-1]["rules"] = _random_rules(rng, ps, rng.randint(1, 2), 60)
            cases.append(visit_case(text, ch))
        if "{" in text and rng.random() < 0.5:
            cases.append({"kind": "transform", "which": rng.choice([0, 1, 2]), "text": text})
    kinds = sorted(G.DUP_KINDS)
    for rep in range(1 if tier == "quick" else 6):
        for kind in kinds:
            text = G.gen_dup_document(rng, kind)
            try:
                ps = positions(text)
            except Exception:
                continue
            cases.append(visit_case(text, keep_chain(disp=rng.random() < 0.5), noloc=True))
            for k, (cls, loc) in enumerate(ps):
                for act in (("delete", "replace") if tier == "quick" else ("delete", "replace", "skip")):
                    ch = keep_chain(disp=rng.random() < 0.3, n=rng.choice([1, 1, 2]))
                    ch["visitors"][rng.randrange(len(ch["visitors"]))]["rules"].append([cls, loc, act, 21 + k])
                    cases.append(visit_case(text, ch, noloc=True))
            # several simultaneous edits on duplicates
            for _ in range(3):
                ch = keep_chain(n=1)
                ch["visitors"][0]["rules"] = _random_rules(rng, ps, rng.randint(2, 4), 300)
                cases.append(visit_case(text, ch, noloc=True))
    for _ in range(40 if tier == "quick" else 400):
        text = gen_exec.gen_document(rng)[0].replace("friends", rng.choice(["bestFriends", "best_friends", "a_bC"]))
        cases.append({"kind": "transform", "which": rng.choice([0, 1, 2]), "text": text})
    alphabet = "abAB_1"
    for _ in range(60 if tier == "quick" else 1500):
        nm = "".join(rng.choice(alphabet) for _ in range(rng.randint(1, 7)))
        if nm[0] == "1":
            nm = "a" + nm
        cases.append({"kind": "case", "which": rng.choice([1, 2]), "name": nm})
    return cases


# ------------------------------------------------------------------ implementation driver
def _ser_result(res):
    if res is None:
        return None
    try:
        return cnode(res)
    except (AttributeError, TypeError):
        return "ILLFORMED"


def hist_chain(case, step):
    """the chain description (by position) standing in [visitors] at that step"""
    return {"chained": True, "fresh": {}, "visitors": case["visitors"], "positions": step["positions"]}


def run_hist(case):
    """one chain object, several visits of a fresh parse of the same text, [visitors] changed in between"""
    log = []
    doc = parse(case["text"], **G.PARSE_KW)
    _top, vs = build_chain(doc, {"chained": True, "fresh": {}, "visitors": case["visitors"]}, log)
    first = [vs[p] for p in case["steps"][0]["positions"]]
    top = (LateChain if case.get("late") else ChainedVisitor)(*first)
    out = []
    for k, step in enumerate(case["steps"]):
        want = [vs[p] for p in step["positions"]]
        if k > 0:
            op = step.get("op", "assign")
            if op == "append":
                top.visitors += (want[-1],)
            elif op == "truncate":
                top.visitors = top.visitors[:len(want)]
            elif op == "reverse":
                top.visitors = top.visitors[::-1]
            elif op == "list":
                top.visitors = list(want)
            else:
                top.visitors = tuple(want)
        assert [id(v) for v in top.visitors] == [id(v) for v in want], "history step %d ill-formed" % k
        start = len(log)
        res = top.visit(parse(case["text"], **G.PARSE_KW))
        out.append({"events": log[start:], "result": _ser_result(res)})
    return {"hist": out}


def run_impl(case):
    k = case["kind"]
    if k == "vhist":
        try:
            return run_hist(case)
        except AssertionError:
            raise
        except Exception as e:  # noqa
            return {"crash": type(e).__name__, "msg": str(e)[:100]}
    if k == "visit":
        doc = parse(case["text"], **G.PARSE_KW)
        log = []
        top, vs = build_chain(doc, case["chain"], log)
        side = erase_locations(doc, vs) if case.get("noloc") else None
        try:
            res = top.visit(doc)
        except TypeError as e:
            return {"crash": "TypeError", "msg": str(e)[:100]}
        except Exception as e:  # noqa
            return {"crash": type(e).__name__, "msg": str(e)[:100]}
        finally:
            if side is not None:
                restore_locations(side)
        return {"events": log, "result": _ser_result(res)}
    if k == "transform":
        doc = parse(case["text"], **G.PARSE_KW)
        cls = [ast_transforms.RemoveFieldAliasesVisitor, ast_transforms.CamelCaseToSnakeCaseVisitor,
               ast_transforms.SnakeCaseToCamelCaseVisitor][case["which"]]
        try:
            res = cls().visit(doc)
        except Exception as e:  # noqa
            return {"crash": type(e).__name__, "msg": str(e)[:100]}
        return {"result": _ser_result(res)}
    if k == "dispatch":
        cls = getattr(A, case["cls"])
        obj = cls.__new__(cls)

        def probe(fn):
            try:
                fn(obj)
            except TypeError as e:
                if e.args and e.args[0] is cls:
                    return False
                return True
            except Exception:  # noqa
                return True
            return True
        return {"dispatch": [probe(ASTVisitor().visit), probe(ASTVisitor()._visit_definition),
                             probe(DispatchingVisitor().enter), probe(DispatchingVisitor().leave)]}
    if k == "case":
        fn = camelcase_to_snakecase if case["which"] == 1 else snakecase_to_camelcase
        try:
            return {"str": fn(case["name"])}
        except IndexError:
            return {"str": None}
    raise ValueError(k)


def _cevents(evs):
    return ser.clist(evs, lambda e: "(%s, %s, K%s, %s)" % (
        ser.cnat(e[0]), ser.cbool(e[1]), e[2], ser.cloc(e[3])))


def _cin(case):
    k = case["kind"]
    if k == "vhist":
        doc = parse(case["text"], **G.PARSE_KW)
        steps = ["(%s, %s)" % (coq_chain(doc, hist_chain(case, st)), ser.clist(st["positions"], ser.cnat))
                 for st in case["steps"]]
        return "(CVisitHist [%s] %s)" % ("; ".join(steps), cnode(doc))
    if k == "visit":
        doc = parse(case["text"], **G.PARSE_KW)
        if "positions" in case["chain"]:
            return "(CVisitPos %s %s %s)" % (
                coq_chain(doc, case["chain"]),
                ser.clist(case["chain"]["positions"], ser.cnat), cnode(doc))
        return "(CVisit %s %s)" % (coq_chain(doc, case["chain"]), cnode(doc))
    if k == "transform":
        doc = parse(case["text"], **G.PARSE_KW)
        return "(CTransform %d %s)" % (case["which"], ser.cdoc(doc))
    if k == "dispatch":
        return "(CDispatch K%s)" % case["cls"]
    return "(CCase %d %s)" % (case["which"], ser.cstr(case["name"]))


def to_coq(case, obs):
    if "crash" in obs:
        o = "OCrash"
    elif obs.get("result") == "ILLFORMED":
        o = "OIllFormed"
    elif "hist" in obs:
        if any(h["result"] == "ILLFORMED" for h in obs["hist"]):
            o = "OIllFormed"
        else:
            o = "(OHist [%s])" % "; ".join(
                "(%s, %s)" % (_cevents(h["events"]), "None" if h["result"] is None else "(Some %s)" % h["result"])
                for h in obs["hist"])
    elif "events" in obs:
        o = "(OVisit %s %s)" % (_cevents(obs["events"]),
                                "None" if obs["result"] is None else "(Some %s)" % obs["result"])
    elif "dispatch" in obs:
        o = "(ODispatch %s)" % " ".join(ser.cbool(b) for b in obs["dispatch"])
    elif "str" in obs:
        o = "(OStr %s)" % ser.copt(obs["str"], ser.cstr)
    else:
        o = "(OTree %s)" % ("None" if obs["result"] is None else "(Some %s)" % obs["result"])
    return "(%s, %s)" % (_cin(case), o)


def show_expr(case, obs):
    return "model_C18 %s" % _cin(case)


def nontrivial(case, obs):
    if case["kind"] == "vhist":
        return True
    if case["kind"] != "visit":
        return case["kind"] == "transform"
    ch = case["chain"]
    return ch["chained"] or any(v["disp"] or v["rules"] for v in ch["visitors"])


def canonical(case):
    import json
    return json.dumps(case, sort_keys=True)


def classify(case, obs):
    k = case["kind"]
    if k == "vhist":
        return "events-and-result-tree-of-every-visit-of-a-reused-chain", None
    if k == "visit":
        return "events-and-result-tree-of-visit", None
    if k == "transform":
        return "ast_transforms-result-tree", None
    if k == "dispatch":
        return "class-tables-total", None
    return "case-conversion", None


# ------------------------------------------------------------------ coverage gaps (model-free)
# every non-name child node in source order
IDEAL = {
    "Document": ["definitions"],
    "OperationDefinition": ["variable_definitions", "directives", "selection_set"],
    "FragmentDefinition": ["variable_definitions", "type_condition", "directives", "selection_set"],
    "VariableDefinition": ["variable", "type", "default_value", "directives"],
    "SelectionSet": ["selections"],
    "Field": ["arguments", "directives", "selection_set"],
    "Argument": ["value"],
    "FragmentSpread": ["directives"],
    "InlineFragment": ["type_condition", "directives", "selection_set"],
    "ListValue": ["values"], "ObjectValue": ["fields"], "ObjectField": ["value"],
    "Directive": ["arguments"], "ListType": ["type"], "NonNullType": ["type"],
    "SchemaDefinition": ["directives", "operation_types"],
    "SchemaExtension": ["directives", "operation_types"],
    "OperationTypeDefinition": ["type"],
    "ScalarTypeDefinition": ["description", "directives"],
    "ScalarTypeExtension": ["directives"],
    "ObjectTypeDefinition": ["description", "interfaces", "directives", "fields"],
    "ObjectTypeExtension": ["interfaces", "directives", "fields"],
    "FieldDefinition": ["description", "arguments", "type", "directives"],
    "InputValueDefinition": ["description", "type", "default_value", "directives"],
    "InterfaceTypeDefinition": ["description", "directives", "fields"],
    "InterfaceTypeExtension": ["directives", "fields"],
    "UnionTypeDefinition": ["description", "directives", "types"],
    "UnionTypeExtension": ["directives", "types"],
    "EnumTypeDefinition": ["description", "directives", "values"],
    "EnumTypeExtension": ["directives", "values"],
    "EnumValueDefinition": ["description", "directives"],
    "InputObjectTypeDefinition": ["description", "directives", "fields"],
    "InputObjectTypeExtension": ["directives", "fields"],
    "DirectiveDefinition": ["description", "arguments"],
}

# the known deviations, each with its finding key: (class, attribute dropped) and reorderings
DROPPED = {
    ("ListType", "type"): "gap-inner-type", ("NonNullType", "type"): "gap-inner-type",
    ("FragmentDefinition", "type_condition"): "gap-type-condition",
    ("InlineFragment", "type_condition"): "gap-type-condition",
    ("VariableDefinition", "variable"): "gap-vardef-variable",
    ("VariableDefinition", "directives"): "gap-vardef-directives",
    ("FragmentDefinition", "variable_definitions"): "gap-fragment-vardefs",
}
REORDER = {
    "VariableDefinition": (("default_value", "type"), "order-default-before-type"),
    "FieldDefinition": (("type", "arguments"), "order-type-before-arguments"),
    "SchemaDefinition": (("operation_types", "directives"), "order-optypes-before-directives"),
    "SchemaExtension": (("operation_types", "directives"), "order-optypes-before-directives"),
}


def _kids(node, attrs):
    out = []
    for a in attrs:
        v = getattr(node, a, None)
        if v is None:
            continue
        for c in (v if isinstance(v, list) else [v]):
            out.append((a, (type(c).__name__, tuple(c.loc) if c.loc else None)))
    return out


def _bracket_children(events):
    """children (class, loc) sequences per entered node, from a keep-all trace"""
    stack, kids = [], collections.OrderedDict()
    for _i, ent, k, loc in events:
        key = (k, tuple(loc) if loc else None)
        if ent:
            if stack:
                kids[stack[-1]].append(key)
            kids.setdefault(key, [])
            stack.append(key)
        else:
            if not stack or stack[-1] != key:
                return None
            stack.pop()
    return kids if not stack else None


def direct_checks(case, obs):
    if case["kind"] == "vhist" and "hist" in obs:
        for k, h in enumerate(obs["hist"]):
            if _bracket_children(h["events"]) is None and not any(v["rules"] for v in case["visitors"]):
                return [("balanced-enter-leave (visit %d of the history)" % k, None)]
        return []
    if case["kind"] != "visit" or "events" not in obs:
        if "crash" in obs and case["kind"] == "visit":
            for v in case["chain"]["visitors"]:
                for (k, _loc, act, _s) in v["rules"]:
                    if act.startswith("xreplace:") and (k, act.split(":", 1)[1]) in XCRASH \
                            and obs["crash"] == "AttributeError":
                        return [("visit-raises-AttributeError", "replace-other-class")]
            return [("visit-raises-%s" % obs["crash"], None)]
        return []
    ch = case["chain"]
    if ch["chained"] or len(ch["visitors"]) != 1 or ch["visitors"][0]["rules"]:
        return []
    kids = _bracket_children(obs["events"])
    if kids is None:
        return [("balanced-enter-leave", None)]
    doc = parse(case["text"], **G.PARSE_KW)
    idx = index_nodes(doc)
    out = []
    for key, actual in kids.items():
        node = idx[key]
        cls = key[0]
        ideal = _kids(node, IDEAL.get(cls, []))
        if [c for _a, c in ideal] == actual:
            continue
        used = []
        exp = []
        for a, c in ideal:
            if (cls, a) in DROPPED:
                used.append(DROPPED[(cls, a)])
            elif a == "description":
                used.append("gap-description")
            else:
                exp.append((a, c))
        if cls in REORDER:
            (first, second), rkey = REORDER[cls]
            f = [x for x in exp if x[0] == first]
            s2 = [x for x in exp if x[0] == second]
            if f and s2:
                new = []
                placed = False
                for x in exp:
                    if x[0] in (first, second):
                        if not placed:
                            new.extend(f + s2)
                            placed = True
                    else:
                        new.append(x)
                if new != exp:
                    used.append(rkey)
                exp = new
        if [c for _a, c in exp] == actual and used:
            for u in sorted(set(used)):
                out.append(("every-non-name-node-in-source-order", u))
        else:
            out.append(("every-non-name-node-in-source-order: %s children %r, traversal ideal %r"
                        % (cls, actual, [c for _a, c in ideal]), None))
    # de-duplicate
    seen, res = set(), []
    for c in out:
        if c not in seen:
            seen.add(c)
            res.append(c)
    return res


def shrink(case, is_bad):
    if case["kind"] == "vhist":
        st = case["steps"]
        for i in range(len(st)):
            for j in range(i + 1, len(st)):
                cand = dict(case, steps=[dict(st[i], op="assign"), dict(st[j], op="assign")])
                try:
                    if is_bad(cand):
                        return cand
                except Exception:  # noqa
                    continue
        return case
    if case["kind"] != "visit":
        return case
    ch = copy.deepcopy(case["chain"])
    changed = True
    while changed:
        changed = False
        for v in ch["visitors"]:
            for i in range(len(v["rules"])):
                cand = copy.deepcopy(ch)
                vv = cand["visitors"][ch["visitors"].index(v)]
                del vv["rules"][i]
                c2 = dict(case, chain=cand)
                if not cand["chained"] and not any(x["rules"] for x in cand["visitors"]):
                    continue  # keep-all cases carry the known-gap direct checks; not a shrink target
                try:
                    if is_bad(c2):
                        ch = cand
                        changed = True
                        break
                except Exception:
                    pass
            if changed:
                break
    return dict(case, chain=ch)


def extra_evidence(cases, obss):
    kinds = collections.Counter()
    acts = collections.Counter()
    chains = collections.Counter()
    classes = collections.Counter()
    for c, o in zip(cases, obss):
        kinds[c["kind"]] += 1
        if c["kind"] == "visit":
            if "positions" in c["chain"]:
                chains["shared-%d-instances-%d-positions%s" % (
                    len(c["chain"]["visitors"]), len(c["chain"]["positions"]),
                    "-nested" if c["chain"].get("nest") else "")] += 1
            else:
                chains["%s%d" % ("chain" if c["chain"]["chained"] else "plain", len(c["chain"]["visitors"]))] += 1
            for v in c["chain"]["visitors"]:
                for r in v["rules"]:
                    acts[r[2]] += 1
                    classes[r[0]] += 1
            if o.get("result") == "ILLFORMED":
                acts["required-child-deleted"] += 1
    return {"distribution": {"location_erased_cases": sum(1 for c in cases if c.get("noloc")),
                             "case_kinds": dict(kinds), "actions": dict(acts), "chains": dict(chains),
                             "edited_classes": len(classes),
                             "edited_class_histogram": dict(classes.most_common())}}
