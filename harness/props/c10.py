# -*- coding: utf-8 -*-
"""C10 -- every outcome is a well-formed, serialisable response; failures stay
contained."""
import asyncio
import collections
import collections.abc
import json
import math

from py_gql import graphql, graphql_blocking, process_graphql_query
from py_gql._string_utils import index_to_loc, loc_to_index
from py_gql.exc import (
    ExecutionError,
    GraphQLLocatedError,
    GraphQLSyntaxError,
    ResolverError,
    VariablesCoercionError,
)
from py_gql.execution.get_operation import get_operation_with_type
from py_gql.execution.runtime import ThreadPoolRuntime
from py_gql.execution.wrappers import _UNSET
from py_gql.lang import ast as A
from py_gql.lang import parse
from py_gql.schema.scalars import coerce_float
from py_gql.exc import CoercionError
from py_gql.utilities import coerce_variable_values, collect_fields
from py_gql.validation import validate_ast

from .. import gen_requests as G
from .. import ser
from ..ser_json import cerr, cjnum, cjson, cpath, decode_floats, encode_floats

PROP = "C10"
THEOREMS = ["C10_loc", "C10_loc_total", "C10_wf_refuted_columne", "C10_wf_partial", "C10_total",
            "C10_data_presence", "C10_data_null_when_aborted", "C10_null_error_match", "C10_extensions_passthrough",
            "C10_no_extensions_invented", "C10_finite", "C10_checkers_decide_spec",
            "C10_runtime_independent", "C10_wf_every_runtime",
            "C10_exec_errors_are_obligations", "C10_null_error_match_exec", "C10_wf_exec"]
AXIOMS_OK = []
RUN_MODULE = "Run.C10run Lang.LocModel Exec.ResponseModel Spec.ResponseSpec Exec.ResponseCheck"
AGREE = "agree_C10"
CASE_TYPE = "case_C10"
SHARD = 60
LEVEL_NOTE = ("Theorems are about the Gallina model (Lang/LocModel.v, Exec/ResponseModel.v) of "
              "index_to_loc/loc_to_index, the to_dict methods of exc.py, GraphQLResult.response and the stage "
              "order of process_graphql_query, with the outcome of each stage as an input (the executor is "
              "C04's); the model is tied to /repo by running both on the same generated requests under the four "
              "entry-point configurations on every run, and the Coq wf_response/null_error_match checkers "
              "(proved to decide the Spec) are evaluated on the implementation's real responses.")
RULE = ("requests over two fixed schemas (objects, lists, non-null, enum, input objects; interface/union) with "
        "resolvers failing on demand (a family of error classes: ResolverError with/without extensions and with "
        "empty message, a module-level instance raised by several fields, subclasses with one-argument, multi-positional "
        "and keyword-only constructors computing message/extensions, a subclass exposing extensions as a property; at root "
        "fields, nested fields and below list items; null in "
        "non-null positions, null list items, custom scalars whose serializer returns None for non-null values at "
        "T!, [T!], [T!]! and nested positions or raises, non-finite floats as numbers and as text); non-finite numbers spelled as "
        "text in literals (arguments, input-object fields, list items, variable defaults), in variable payloads and in "
        "resolver outputs, with the stage at which each must be contained: generated valid operations (aliases, inline and "
        "named fragments, @skip/@include, mutations), every prefix of 7 seed documents, character and "
        "identifier mutants, hand-written schema-invalid documents, failing variable payloads, unknown operation "
        "names; structurally wrong JSON of every kind (list, dict, nested list, bool, number, string, null) at every leaf "
        "position of variables (scalars, enum, custom scalar; list items; input-object fields) and leaf values at composite "
        "positions; a share of all of them handed over as pre-parsed Documents with and without node locations, one response "
        "key selected two or three times (several nodes per error); each under graphql_blocking / process_graphql_query default / graphql (asyncio) / ThreadPoolRuntime; "
        "plus index_to_loc / loc_to_index on generated texts with LF, CR, CRLF and out-of-range arguments, and "
        "coerce_float on finite/non-finite inputs; non-trivial = the response has errors or a planted failure, or "
        "the text has a line break; distinct = distinct canonical case")


# ---------------------------------------------------------------- corpus
def _resp_case(schema, text, world=None, variables=None, operation_name=None, config="blocking", label=""):
    return {"kind": "resp", "schema": schema, "text": text, "world": world or {},
            "variables": variables or {}, "operation_name": operation_name, "config": config, "label": label}


def corpus():
    out = []
    # DESIGN section 6 row 6: request truncated inside an escape sequence (IndexError before the fix)
    for i, t in enumerate(['{ a(x: "\\', '{ a(x: "\\u12', '"\\', '{ a(x: "\\u', '{ a "', '"""\\', ""]):
        out.append(_resp_case("A", t, config=G.CONFIGS[i % 4], label="truncated-escape"))
    # row 24: the "columne" key (open finding)
    out.append(_resp_case("A", "query Q {{ a }", label="columne"))
    # row 25: non-finite floats
    for i, (sn, t, w) in enumerate(G.FLOAT_RETURN_CASES):
        out.append(_resp_case(sn, t, w, config=G.CONFIGS[i % 4], label="float-return"))
    # non-finite numbers spelled as text (seeded C10-c): literal / variable routes must be contained before
    # execution; the resolver-output route is among FLOAT_RETURN_CASES above
    for text, variables, expect in G.NONFINITE_LITERAL_CASES:
        for cfg in G.CONFIGS:
            c = _resp_case("A", text, {}, variables, None, cfg, "non-finite-literal")
            c["expect"] = expect
            out.append(c)
    for text, payloads in G.NONFINITE_VARIABLE_CASES:
        for i, pl in enumerate(payloads):
            c = _resp_case("A", text, {}, pl, None, G.CONFIGS[i % 4], "non-finite-variable")
            c["expect"] = ["variable-coercion"]
            out.append(c)
    for text, payloads in G.FINITE_TEXT_CASES:
        for i, pl in enumerate(payloads):
            c = _resp_case("A", text, {}, pl, None, G.CONFIGS[i % 4], "finite-text")
            c["expect"] = ["execution"]
            out.append(c)
    # empty ResolverError message, extensions, nulls in non-null positions
    for i, (sn, t, w) in enumerate(G.EXEC_CORPUS):
        for cfg in G.CONFIGS:
            out.append(_resp_case(sn, t, w, config=cfg, label="exec-corpus"))
    # errors with several nodes, requests handed over as pre-parsed Documents with and without locations
    # (seeded C10-f: sorting nodes by loc breaks on two nodes without location)
    for sn, text, w in G.MULTI_NODE_CORPUS:
        for i, asdoc in enumerate([None, "loc", "noloc"]):
            for cfg in (G.CONFIGS if asdoc == "noloc" else [G.CONFIGS[i]]):
                c = _resp_case(sn, text, w, config=cfg, label="multi-node-error")
                c["as_document"] = asdoc
                out.append(c)
    for sn, text, variables in G.MULTI_NODE_INVALID:
        for i, asdoc in enumerate([None, "loc", "noloc", "noloc"]):
            c = _resp_case(sn, text, {}, variables, None, G.CONFIGS[i], "multi-node-invalid")
            c["as_document"] = asdoc
            out.append(c)
    # extensions handed over as Mappings that are not plain dicts (seeded C10-g): every kind at a root
    # field, a nested field and below a list item
    for i, (sn, text, w) in enumerate(G.MAPPING_CORPUS):
        for cfg in G.CONFIGS:
            out.append(_resp_case(sn, text, w, config=cfg, label="mapping-extensions"))
    # history: one shared error instance raised in two consecutive requests, the caller editing the first
    # rendered response in between: the second response shows the extensions as the resolver gave them
    for i, kind in enumerate(["dict", "ordered", "ordered_sub", "chain", "proxy", "custom"]):
        act = ["raise_map", "shared " + kind, G.MAP_CONTENT, kind, True]
        c = _resp_case("A", "{ a o { a } }", {"a": act, "o/a": act}, config=G.CONFIGS[i % 4],
                       label="mapping-extensions-history")
        c["prelude"] = [["{ s a }", {"a": act}, "mutate"], ["{ o { a } }", {"o/a": act}, "mutate"]]
        out.append(c)
    shared_plain = ["raise_shared", "not found", {"code": 404, "hint": "x"}]
    for cfg in G.CONFIGS:
        c = _resp_case("A", "{ a }", {"a": shared_plain}, config=cfg, label="mapping-extensions-history")
        c["prelude"] = [["{ a s }", {"a": shared_plain}, "mutate"]]
        out.append(c)
    # unhashable JSON (array / object) where an enum is expected (seeded C10-i): enum variable, item of a
    # list-of-enum variable, enum field of an input-object variable
    for i, (text, pl) in enumerate([
            ("query Q($v: Color) { pick(c: $v) }", {"v": []}),
            ("query Q($v: Color) { pick(c: $v) }", {"v": {"a": 1}}),
            ("query Q($v: [Color!]) { pick(cs: $v) }", {"v": ["RED", [1], "GREEN"]}),
            ("query Q($v: [Color!]) { pick(cs: $v) }", {"v": [{}]}),
            ("query Q($v: Inp) { pick(inp: $v) }", {"v": {"a": 1, "c": ["RED"]}}),
            ("query Q($v: Inp) { pick(inp: $v) }", {"v": {"a": 1, "c": {"x": [1]}}})]):
        for cfg in G.CONFIGS:
            out.append(_resp_case("A", text, {}, pl, None, cfg, "wrong-kind-variable"))
    # one ResolverError instance raised in an earlier, longer request and again in this one
    long_doc = "{\n  s\n  b\n  o {\n           a\n  }\n}"
    shared = ["raise_shared", "not found", {"code": 404}]
    for cfg in G.CONFIGS:
        c = _resp_case("A", "{ a }", {"a": shared}, config=cfg, label="shared-instance-across-requests")
        c["prelude"] = [[long_doc, {"o/a": shared}]]
        out.append(c)
    # fixed 5d4e174: invalid @skip/@include arguments at execution time (nullable variable with a
    # default supplied as null) escaped the entry points as CoercionError
    for sname, text, payloads in G.DIRECTIVE_VARIABLE_CASES[:9]:
        pl = [p for p in payloads if None in p.values()][0]
        for cfg in G.CONFIGS:
            out.append(_resp_case(sname, text, {}, pl, None, cfg, "directive-argument-coercion"))
    # ... after an earlier list item already registered an error (it stays, below the nulled field)
    for cfg in G.CONFIGS:
        out.append(_resp_case("A", "query Q($s: Boolean = true) { lo { id o { a @skip(if: $s) } } a }",
                              {"lo/0/id": ["raise", "item error first", {"k": 1}]}, {"s": None}, None, cfg,
                              "directive-argument-coercion"))
    for i, (text, world) in enumerate(G.RESOLVE_TYPE_CASES):
        for cfg in G.CONFIGS:
            out.append(_resp_case("B", text, world, {}, None, cfg, "resolve-type-error"))
    # row 9 (named operation without source: its errors carry no location)
    out.append(_resp_case("A", "query Q { a } query Q { s }", label="row9"))
    out.append({"kind": "loc", "body": "a\n", "p": 2})
    out.append({"kind": "locinv", "body": "a\n", "l": 2, "c": 1})
    out.append({"kind": "loc", "body": "", "p": 0})
    out.append({"kind": "loc", "body": "", "p": 42})
    out.append({"kind": "locinv", "body": "ab\ncd\ne", "l": 6, "c": 7})
    out.append({"kind": "loc", "body": "a\r\nb\rc", "p": 5})
    for v in ["inf", "-inf", "nan", "1.5", "0.0"]:
        out.append({"kind": "float", "value": {"$float": v}})
    return out


# ---------------------------------------------------------------- generator
def generate(rng, tier):
    quick = tier == "quick"
    cases = []
    # valid operations with planted failures, all four configurations
    for i in range(70 if quick else 900):
        req = G.gen_valid(rng, kind="mutation" if i % 9 == 0 else "query")
        cfgs = G.CONFIGS if (quick and i % 3 == 0) or not quick else [G.CONFIGS[i % 4]]
        for cfg in cfgs:
            cases.append(_resp_case(req["schema"], req["text"], req["world"], req["variables"],
                                    req["operation_name"], cfg, "valid"))
    # a share of the requests is handed over as a pre-parsed Document (with / without node locations)
    for k, c in enumerate(cases):
        if k % 3 == 1:
            c["as_document"] = "noloc"
        elif k % 3 == 2 and k % 2 == 0:
            c["as_document"] = "loc"
    # every prefix of the seed documents (+ of a few generated ones)
    seeds = list(G.TRUNCATION_SEEDS)
    for _ in range(1 if quick else 8):
        seeds.append(G.gen_valid(rng)["text"])
    n = 0
    for sd in seeds:
        sname = "B" if "friends" in sd else "A"
        step = 1
        for k in range(0, len(sd) + 1, step):
            cases.append(_resp_case(sname, sd[:k], {}, {}, None, G.CONFIGS[n % 4], "prefix"))
            n += 1
    # mutants
    for i in range(60 if quick else 1500):
        req = G.gen_valid(rng)
        text = G.mutate_text(rng, req["text"]) if i % 2 == 0 else G.rename_mutant(rng, req["text"])
        cases.append(_resp_case(req["schema"], text, req["world"], {}, None, G.CONFIGS[i % 4], "mutant"))
    # schema-invalid documents
    n = 0
    for sname, docs in sorted(G.INVALID_DOCS.items()):
        for d in docs:
            for cfg in (G.CONFIGS if not quick else [G.CONFIGS[n % 4], G.CONFIGS[(n + 1) % 4]]):
                cases.append(_resp_case(sname, d, {}, {}, None, cfg, "invalid"))
            n += 1
    # variable payloads
    n = 0
    for text, payloads in G.VARIABLE_CASES:
        for pl in payloads:
            for cfg in (G.CONFIGS if not quick else [G.CONFIGS[n % 4]]):
                cases.append(_resp_case("A", text, {}, pl, None, cfg, "variables"))
            n += 1
    # @skip / @include with nullable variables: null / missing / valid, root and nested
    n = 0
    for sname, text, payloads in G.DIRECTIVE_VARIABLE_CASES:
        for pl in payloads:
            for cfg in (G.CONFIGS if not quick else [G.CONFIGS[n % 4], G.CONFIGS[(n + 2) % 4]]):
                world = {}
                if n % 3 == 1:
                    # incl. an error registered for an earlier list item before the enclosing field is nulled
                    world = {"o/id": ["raise", "also fails", {"k": 1}], "s": ["null"],
                             "lo/0/id": ["raise", "item error first", None], "me/friends/0/id": ["null"]}
                cases.append(_resp_case(sname, text, world, pl, None, cfg, "directive-variables"))
            n += 1
    # structurally wrong JSON at every variable position
    n = 0
    for text, payloads in G.wrong_kind_variable_cases():
        for pl in payloads:
            for cfg in ([G.CONFIGS[n % 4]] if quick else [G.CONFIGS[n % 4], G.CONFIGS[(n + 1) % 4]]):
                c = _resp_case("A", text, {}, pl, None, cfg, "wrong-kind-variable")
                if n % 5 == 0:
                    c["as_document"] = "noloc" if n % 10 == 0 else "loc"
                cases.append(c)
            n += 1
    # operation names
    n = 0
    for text, names in G.OPNAME_CASES:
        for nm in names:
            for cfg in (G.CONFIGS if not quick else [G.CONFIGS[n % 4]]):
                cases.append(_resp_case("A", text, {}, {}, nm, cfg, "opname"))
            n += 1
    # invalid + unknown operation + bad variables at once: stage order
    for cfg in G.CONFIGS:
        cases.append(_resp_case("A", "query A($x: Int!) { zzz } query B { a }", {}, {"x": "s"}, "C", cfg, "order"))
        cases.append(_resp_case("A", "query A($x: Int!) { arg(x: $x) } query B { a }", {}, {"x": "s"}, "C", cfg, "order"))
        cases.append(_resp_case("A", "query A($x: Int!) { arg(x: $x) } query B { a }", {}, {"x": "s"}, "A", cfg, "order"))
        cases.append(_resp_case("A", "query A($x: Int!) { arg(x: $x) } query B { a", {}, {"x": "s"}, "C", cfg, "order"))
    # invalid documents, variable and directive cases as Documents too
    for k, c in enumerate(cases):
        if c.get("label") in ("invalid", "variables", "directive-variables", "opname", "order", "mutant") \
                and "as_document" not in c and k % 4 == 0:
            c["as_document"] = "noloc" if k % 8 == 0 else "loc"
    # index_to_loc / loc_to_index
    alphabet = ["a", "b", " ", "\n", "\n", "\r", "\r\n", "é", "\U0001f600", "\t"]
    for i in range(150 if quick else 3000):
        body = "".join(rng.choice(alphabet) for _ in range(rng.randint(0, 14)))
        p = rng.randint(0, len(body) + 2)
        cases.append({"kind": "loc", "body": body, "p": p})
        cases.append({"kind": "locinv", "body": body, "l": rng.randint(0, 5), "c": rng.randint(1, 6)})
    if not quick:
        import itertools
        for n_ in range(0, 5):
            for tup in itertools.product("a\n\r", repeat=n_):
                body = "".join(tup)
                for p in range(0, len(body) + 2):
                    cases.append({"kind": "loc", "body": body, "p": p})
                for l in range(0, 4):
                    for c in range(1, 4):
                        cases.append({"kind": "locinv", "body": body, "l": l, "c": c})
    for v in ["inf", "-inf", "nan", "1e308", "-0.0", "2.5e-320", "123456789.125"]:
        cases.append({"kind": "float", "value": {"$float": v}})
    return cases


# ---------------------------------------------------------------- implementation driver
_LOOP = None
_POOL = None


def _loop():
    global _LOOP
    if _LOOP is None:
        _LOOP = asyncio.new_event_loop()
        asyncio.set_event_loop(_LOOP)
    return _LOOP


def _pool():
    global _POOL
    if _POOL is None:
        _POOL = ThreadPoolRuntime(max_workers=4)
    return _POOL


def _safe_str(e):
    try:
        return str(e)
    except Exception:  # noqa  (rendering itself is what row 6 is about)
        return getattr(e, "message", "")


def abstract_error(e):
    if isinstance(e, GraphQLSyntaxError):
        return {"fam": "syntax", "msg": _safe_str(e), "pos": e.position}
    if isinstance(e, GraphQLLocatedError):
        nodes = [[list(n.loc) if n.loc else None, bool(n.source)] for n in e.nodes]
        d = {"fam": "located", "msg": _safe_str(e), "nodes": nodes,
             "path": list(e.path) if e.path is not None else None}
        if isinstance(e, ResolverError):
            d["fam"] = "resolver"
            d["ext"] = dict(e.extensions) if e.extensions is not None else None
        return d
    if isinstance(e, ExecutionError):
        return {"fam": "execution", "msg": _safe_str(e)}
    return {"fam": "other", "type": type(e).__name__}


def _same(a, b):
    """structural equality that does not identify 1 / 1.0 / True or tuples and lists"""
    if type(a) is not type(b) and not (isinstance(a, dict) and isinstance(b, dict)):
        return False
    if isinstance(a, dict):
        return list(a.keys()) == list(b.keys()) and all(_same(a[k], b[k]) for k in a)
    if isinstance(a, list):
        return len(a) == len(b) and all(_same(x, y) for x, y in zip(a, b))
    if isinstance(a, float):
        return a == b or (math.isnan(a) and math.isnan(b))
    return a == b


_PLAIN_TYPES = (dict, collections.OrderedDict, list, str, int, float, bool, type(None))


def _non_plain(v, where):
    """response() must be plain data all the way down: exactly dict (or the OrderedDict the executor
    builds), list, str, int, float, bool, None"""
    if type(v) not in _PLAIN_TYPES:
        return ["%s: %s" % (where, type(v).__name__)]
    out = []
    if isinstance(v, dict):
        for k, x in v.items():
            if type(k) is not str:
                out.append("%s: key %r" % (where, k))
            out.extend(_non_plain(x, "%s.%s" % (where, k)))
    elif isinstance(v, list):
        for i, x in enumerate(v):
            out.extend(_non_plain(x, "%s[%d]" % (where, i)))
    return out


def _plain(v):
    """OrderedDict -> dict (recursively); everything else untouched"""
    if isinstance(v, dict):
        return {k: _plain(x) for k, x in v.items()}
    if isinstance(v, (list, tuple)):
        return [_plain(x) for x in v]
    return v


def _stage_verdicts(schema, case):
    st = {"parse": None, "validation": [], "opselect": None, "varcoercion": [], "rootcoercion": []}
    try:
        doc = parse(case["text"], no_location=case.get("as_document") == "noloc")
    except GraphQLSyntaxError as e:
        # (a text that does not parse cannot be handed over as a Document: it is submitted as text)
        st["parse"] = {"msg": _safe_str(e), "pos": e.position}
        return st, None, None
    try:
        st["validation"] = [abstract_error(e) for e in validate_ast(schema, doc).errors]
    except Exception as e:  # noqa  validation itself crashed: the entry point will too (reported)
        st["validation_crashed"] = type(e).__name__
        return st, doc, None
    op = None
    try:
        op, _root = get_operation_with_type(schema, doc, case["operation_name"])
    except ExecutionError as e:
        st["opselect"] = _safe_str(e)
    if op is not None and not st["validation"]:
        try:
            coerced = coerce_variable_values(schema, op, decode_floats(case["variables"]))
        except VariablesCoercionError as e:
            st["varcoercion"] = [abstract_error(x) for x in e.errors]
        except Exception as e:  # noqa  variable coercion itself crashed: the entry point will too (reported)
            st["varcoercion_crashed"] = type(e).__name__
        else:
            # @skip / @include arguments of the root selection set (collected before execution starts)
            try:
                collect_fields(schema, _root, op.selection_set.selections, doc.fragments, coerced)
            except CoercionError as e:
                st["rootcoercion"] = [abstract_error(e)]
    elif op is not None:
        try:
            coerce_variable_values(schema, op, decode_floats(case["variables"]))
        except VariablesCoercionError as e:
            st["varcoercion"] = [abstract_error(x) for x in e.errors]
        except Exception as e:  # noqa
            st["varcoercion_crashed"] = type(e).__name__
    return st, doc, op


def _request_document(case):
    """the request as the entry point receives it: the text, or -- for as_document cases whose text
    parses -- a pre-parsed Document, with or without node locations"""
    if case.get("as_document"):
        try:
            return parse(case["text"], no_location=case["as_document"] == "noloc")
        except GraphQLSyntaxError:
            pass
    return case["text"]


def _run_entry(schema, case, ctx):
    kw = dict(variables=decode_floats(case["variables"]), operation_name=case["operation_name"], context=ctx)
    cfg = case["config"]
    request = _request_document(case)
    if cfg == "blocking":
        return graphql_blocking(schema, request, **kw)
    if cfg == "default":
        return process_graphql_query(schema, request, **kw)
    if cfg == "asyncio":
        return _loop().run_until_complete(graphql(schema, request, **kw))
    if cfg == "threadpool":
        return process_graphql_query(schema, request, runtime=_pool(), **kw).result(timeout=60)
    raise ValueError(cfg)


def _null_paths(v, prefix, out):
    if v is None:
        out.append(prefix)
    elif isinstance(v, dict):
        for k, x in v.items():
            _null_paths(x, prefix + [k], out)
    elif isinstance(v, list):
        for i, x in enumerate(v):
            _null_paths(x, prefix + [i], out)


def _collect(sels, key, frags, seen):
    for s_ in sels:
        if isinstance(s_, A.Field):
            if (s_.alias.value if s_.alias else s_.name.value) == key:
                yield s_
        elif isinstance(s_, A.InlineFragment):
            for f in _collect(s_.selection_set.selections, key, frags, seen):
                yield f
        elif isinstance(s_, A.FragmentSpread):
            n = s_.name.value
            if n in frags and n not in seen:
                for f in _collect(frags[n].selection_set.selections, key, frags, seen | {n}):
                    yield f


def type_at(sname, doc, op, path):
    """declared type of the response position [path], from the harness's own type tables"""
    frags = {d.name.value: d for d in doc.definitions if isinstance(d, A.FragmentDefinition)}
    cur = ("named", {"query": "Query", "mutation": "Mutation"}[op.operation])
    sels = list(op.selection_set.selections)
    for seg in path:
        t = cur[1] if cur[0] == "nn" else cur
        if isinstance(seg, int):
            if t[0] != "list":
                return None
            cur = t[1]
            continue
        if t[0] != "named":
            return None
        fields = list(_collect(sels, seg, frags, frozenset()))
        if not fields:
            return None
        ft = None
        for f in fields:
            ft = G.field_type(sname, t[1], f.name.value)
            if ft is not None:
                break
        if ft is None:
            return None
        cur = ft
        sels = [x for f in fields if f.selection_set for x in f.selection_set.selections]
    return cur


def run_impl(case):
    kind = case["kind"]
    if kind == "loc":
        try:
            l, c = index_to_loc(case["body"], case["p"])
            return {"loc": [l, c]}
        except IndexError:
            return {"exc": "IndexError"}
        except Exception as e:  # noqa
            return {"exc": type(e).__name__}
    if kind == "locinv":
        try:
            return {"idx": loc_to_index(case["body"], (case["l"], case["c"]))}
        except IndexError:
            return {"exc": "IndexError"}
        except Exception as e:  # noqa
            return {"exc": type(e).__name__}
    if kind == "float":
        x = decode_floats(case["value"])
        try:
            r = coerce_float(x)
            return {"accepted": True, "finite": math.isfinite(r)}
        except ValueError:
            return {"accepted": False}

    sname = case["schema"]
    schema = G.get_schema(sname, "async" if case["config"] == "asyncio" else "sync")
    # every case starts from fresh shared exception instances; earlier requests of the same
    # "session" (prelude) are replayed first so that what they leave behind is part of the case
    G._SHARED.clear()
    for entry in case.get("prelude", []):
        ptext, pworld = entry[0], entry[1]
        try:
            pres = _run_entry(schema, dict(case, text=ptext, world=pworld, variables={}, operation_name=None),
                              {"world": pworld, "raised": [], "floats": []})
            if len(entry) > 2 and entry[2] == "mutate":
                # the caller edits the response it was given (drops a key, stamps a request id)
                rendered = pres.response()
                for e in rendered.get("errors", []):
                    ext = e.get("extensions")
                    try:
                        for k in list(ext)[:1]:
                            ext.pop(k)
                        ext["request_id"] = "r-1"
                    except Exception:  # noqa  (read-only or absent)
                        pass
                    e["message"] = "edited by the caller"
        except Exception:  # noqa
            pass
    stages, doc, op = _stage_verdicts(schema, case)
    ctx = {"world": case["world"], "raised": [], "floats": [], "raised_ext": [], "mappings": []}
    obs = {"stages": stages}
    try:
        result = _run_entry(schema, case, ctx)
    except Exception as e:  # noqa
        obs.update(kind="raised", cls=type(e).__name__, msg=str(e)[:300])
        obs["floats"] = encode_floats(ctx["floats"])
        obs["nonfinite_args"] = ctx.get("nonfinite_args", [])
        obs["unserialisable"] = ctx.get("unserialisable", [])
        return obs
    obs["floats"] = encode_floats(ctx["floats"])
    obs["nonfinite_args"] = ctx.get("nonfinite_args", [])
    obs["unserialisable"] = ctx.get("unserialisable", [])
    obs["raised_paths"] = ctx["raised"]
    obs["raised_ext"] = encode_floats(ctx["raised_ext"])
    try:
        resp = result.response()
    except Exception as e:  # noqa
        obs.update(kind="raised", cls=type(e).__name__, msg="response(): " + str(e)[:300])
        return obs
    obs["non_plain"] = _non_plain(resp, "response")[:5]
    try:
        text = json.dumps(resp, allow_nan=False)
    except (ValueError, TypeError) as e:
        obs.update(kind="notjson", msg=str(e)[:300], raw=repr(resp)[:600])
        return obs
    back = json.loads(text)
    obs.update(kind="response", resp=back, strict_roundtrip=_same(_plain(resp), back))
    # the GraphQLResult's own attributes (abstract execution result)
    obs["result_data_unset"] = result.data is _UNSET
    obs["result_data"] = None if result.data is _UNSET else encode_floats(_plain(result.data))
    obs["result_errors"] = [abstract_error(e) for e in result.errors]
    # obligations: nulls at non-null positions + positions whose resolver raised
    obligated, unknown = [], 0
    if isinstance(back.get("data"), dict) and doc is not None and op is not None and op.operation in ("query", "mutation"):
        nulls = []
        _null_paths(back["data"], [], nulls)
        for p in nulls:
            try:
                t = type_at(sname, doc, op, p)
            except Exception:  # noqa
                t = None
            if t is None:
                unknown += 1
            elif t[0] == "nn":
                obligated.append(p)
    for p in ctx["raised"]:
        if p not in obligated:
            obligated.append(p)
    obs["obligated"] = obligated
    obs["untyped_nulls"] = unknown
    # the resolver's side edits the mappings it handed to ResolverError after the response was rendered:
    # the rendered response must not change
    for m in ctx.get("mappings", []):
        try:
            m["__late__"] = "edited after rendering"
        except Exception:  # noqa  read-only mapping
            pass
    obs["rendered_changed"] = not _same(_plain(resp), back)
    return obs


# ---------------------------------------------------------------- serialisation
def _stages_term(case, obs):
    st = obs["stages"]
    early = (st["parse"] is not None or st["validation"] or st["opselect"] is not None or st["varcoercion"]
             or st.get("rootcoercion"))
    if obs.get("kind") == "response" and not early:
        data = decode_floats(obs["result_data"])
        ex = "(%s, %s)" % (cjson(data), ser.clist(obs["result_errors"], cerr))
    else:
        ex = "(JNull, [])"
    parse_t = "None" if st["parse"] is None else "(Some (%s, %s))" % (
        ser.cstr(st["parse"]["msg"]), "(N.to_nat %d)" % max(0, st["parse"]["pos"]))
    return "(Stages %s %s %s %s %s %s %s)" % (
        parse_t, ser.clist(st["validation"], cerr),
        "None" if st["opselect"] is None else "(Some %s)" % ser.cstr(st["opselect"]),
        ser.clist(st["varcoercion"], cerr),
        ser.clist(st.get("rootcoercion", []), cerr),
        # values a resolver returned for a Float field; a value returned for the custom scalar Strict that
        # its serializer rejects is logged as one more unserialisable (NaN) entry: the stage machine's
        # crash criterion is "some returned value is rejected by its serializer"
        ser.clist(decode_floats(obs.get("floats", [])) + [float("nan")] * len(obs.get("unserialisable", [])),
                  lambda f: cjnum(_as_float(f))),
        ex)


def _as_float(x):
    try:
        return float(x)
    except OverflowError:
        return float("inf")


def to_coq(case, obs):
    kind = case["kind"]
    if kind == "loc":
        o = "(LocOk %d %d)" % tuple(obs["loc"]) if "loc" in obs else (
            "LocIndexError" if obs["exc"] == "IndexError" else "LocOther")
        return "(CLoc %s %d %s)" % (ser.cstr(case["body"]), case["p"], o)
    if kind == "locinv":
        if "idx" in obs:
            o = "(IdxOk %d)" % obs["idx"] if obs["idx"] >= 0 else "IdxOther"
        else:
            o = "IdxIndexError" if obs["exc"] == "IndexError" else "IdxOther"
        return "(CLocInv %s %d %d %s)" % (ser.cstr(case["body"]), case["l"], case["c"], o)
    if kind == "float":
        return "(CFloat %s %s)" % (cjnum(decode_floats(case["value"])), ser.cbool(obs["accepted"]))
    if obs["kind"] == "response":
        o = "(ObsResponse %s %s)" % (cjson(obs["resp"]), ser.cbool(obs["strict_roundtrip"]))
    elif obs["kind"] == "notjson":
        o = "ObsNotJson"
    else:
        o = "(ObsRaised %s)" % ser.cstr(obs["cls"])
    return "(CResp %s %s %s %s)" % (ser.cstr(case["text"]), _stages_term(case, obs),
                                    ser.clist(obs.get("obligated", []), cpath), o)


def show_expr(case, obs):
    """[stage outcomes wf; strict round trip; wf_response; data presence; null/error match; equals model], model"""
    return "diagnose_C10 %s" % to_coq(case, obs)


# ---------------------------------------------------------------- verdict helpers
def nontrivial(case, obs):
    if case["kind"] in ("loc", "locinv"):
        return "\n" in case["body"]
    if case["kind"] == "float":
        return True
    return obs.get("kind") != "response" or "errors" in obs["resp"] or bool(case["world"])


def canonical(case):
    return json.dumps(case, sort_keys=True)


def _stage_name(obs):
    st = obs.get("stages") or {}
    if st.get("parse") is not None:
        return "syntax-error"
    if st.get("validation_crashed"):
        return "validation (validate_ast itself raised %s)" % st["validation_crashed"]
    if st.get("validation"):
        return "validation"
    if st.get("opselect") is not None:
        return "operation-selection"
    if st.get("varcoercion_crashed"):
        return "variable-coercion (coerce_variable_values itself raised %s)" % st["varcoercion_crashed"]
    if st.get("varcoercion"):
        return "variable-coercion"
    if st.get("rootcoercion"):
        return "root directive-argument coercion"
    return "execution"


def classify(case, obs):
    if case["kind"] in ("loc", "locinv"):
        return "index_to_loc/loc_to_index agree with the model", None
    if case["kind"] == "float":
        return "Float accepts exactly finite values", None
    if obs.get("kind") == "raised":
        return "entry point returns a result (%s stage): raised %s" % (_stage_name(obs), obs.get("cls")), None
    if obs.get("kind") == "notjson":
        return "response serialises to strict JSON (%s stage)" % _stage_name(obs), None
    return "well-formed response matching the model (%s stage)" % _stage_name(obs), None


def _has_columne(obs):
    if obs.get("kind") != "response" or _stage_name(obs) != "syntax-error":
        return False
    errs = obs["resp"].get("errors") or []
    for e in errs:
        for l in (e.get("locations") or []) if isinstance(e, dict) else []:
            if isinstance(l, dict) and "columne" in l and "column" not in l:
                return True
    return False


def direct_checks(case, obs):
    out = []
    if case["kind"] != "resp":
        if case["kind"] == "float" and obs.get("accepted") and not obs.get("finite"):
            out.append(("Float accepted a non-finite value", None))
        return out
    if _has_columne(obs):
        out.append(("syntax-error location spells the column key 'columne'", "columne-key"))
    # model-free twin of the Coq null_error_match: every obligated position that is null in "data"
    # has exactly one error with that path
    if obs.get("kind") == "response" and isinstance(obs["resp"].get("data"), dict):
        errs = [e for e in (obs["resp"].get("errors") or []) if isinstance(e, dict)]
        for pth in obs.get("obligated", []):
            cur, present = obs["resp"]["data"], True
            for seg in pth:
                try:
                    cur = cur[seg]
                except (KeyError, IndexError, TypeError):
                    present = False
                    break
            if present and cur is None:
                n = sum(1 for e in errs if e.get("path") == pth)
                if n != 1:
                    out.append(("null at %s (non-nullable position or failed field) has %d errors with that path"
                                % (pth, n), None))
    for w in obs.get("non_plain", []):
        out.append(("response() is not plain dict/list/str/int/float/bool/None data: %s" % w, None))
    if obs.get("rendered_changed"):
        out.append(("a response already rendered changed when the mapping handed to ResolverError was edited "
                    "afterwards (extensions are aliased, not copied)", None))
    for where, val in obs.get("nonfinite_args", []):
        out.append(("Float input coercion handed the non-finite number %s to the resolver at %s" % (val, where), None))
    if case.get("expect") and _stage_name(obs) not in case["expect"]:
        out.append(("a non-finite number spelled as text must be contained at the %s stage, reached: %s (%s)"
                    % ("/".join(case["expect"]), _stage_name(obs), obs.get("kind")), None))
    if obs.get("kind") == "raised" and obs.get("cls") != "RuntimeError":
        out.append(("an exception escaped the entry point instead of a response: %s" % obs.get("cls"), None))
    # extensions as the raised error object exposed them (attribute or property), per raising position
    if obs.get("kind") == "response":
        errs = [e for e in (obs["resp"].get("errors") or []) if isinstance(e, dict)]
        for path, ext, cls in obs.get("raised_ext", []):
            for e in errs:
                if e.get("path") == path and e.get("extensions") != ext:
                    out.append(("extensions of the %s raised at %s are not passed through" % (cls, path), None))
    for e in obs.get("result_errors", []):
        if e["fam"] == "other":
            out.append(("result carries an error outside the response error families: %s" % e["type"], None))
    return out


def _parses(text):
    try:
        parse(text)
        return True
    except GraphQLSyntaxError:
        return False


def shrink(case, is_bad0):
    if case["kind"] != "resp":
        return case
    parses = _parses(case["text"])

    def is_bad(c):
        # stay at the same side of the parser (the runner's is_bad also fires on the recorded
        # 'columne' finding, which every syntax error shows)
        return _parses(c["text"]) == parses and is_bad0(c)
    # drop world entries, then trailing characters / lines
    world = dict(case["world"])
    for k in list(world):
        w2 = dict(world)
        del w2[k]
        if is_bad(dict(case, world=w2)):
            world = w2
    case = dict(case, world=world)
    lines = case["text"].split("\n")
    changed = True
    rounds = 0
    while changed and len(lines) > 1 and rounds < 6:
        changed = False
        rounds += 1
        for i in range(len(lines)):
            cand = dict(case, text="\n".join(lines[:i] + lines[i + 1:]))
            if is_bad(cand):
                lines = lines[:i] + lines[i + 1:]
                changed = True
                break
    return dict(case, text="\n".join(lines))


def extra_evidence(cases, obss):
    dist, stages, kinds, cfgs = {}, {}, {}, {}
    obligated = raised = nulls_unknown = ext = 0
    for c, o in zip(cases, obss):
        dist[c.get("label", c["kind"])] = dist.get(c.get("label", c["kind"]), 0) + 1
        if c["kind"] != "resp":
            continue
        cfgs[c["config"]] = cfgs.get(c["config"], 0) + 1
        stages[_stage_name(o)] = stages.get(_stage_name(o), 0) + 1
        kinds[o.get("kind")] = kinds.get(o.get("kind"), 0) + 1
        obligated += len(o.get("obligated", []))
        raised += len(o.get("raised_paths", []))
        nulls_unknown += o.get("untyped_nulls", 0)
        ext += sum(1 for e in o.get("result_errors", []) if e.get("ext"))
    return {"distribution": {"streams": dist, "stage_reached": stages, "observable_kinds": kinds,
                             "configurations": cfgs, "obligated_null_positions": obligated,
                             "resolver_errors_raised": raised, "errors_with_extensions": ext,
                             "nulls_whose_type_the_harness_could_not_determine": nulls_unknown}}
