# -*- coding: utf-8 -*-
"""C14 -- extending, cloning and transforming schemas keeps them closed and intact."""
import copy
import json
import random
import traceback

from py_gql import build_schema, graphql_blocking
from py_gql.exc import ExtensionError, GraphQLError, SchemaError, SDLError
from py_gql.schema import (
    Argument, EnumType, EnumValue, Field, InputField, InputObjectType, InterfaceType, ObjectType,
    ScalarType, UnionType, unwrap_type, ListType, NonNullType,
)
from py_gql.schema.transforms import CamelCaseSchemaTransform, VisibilitySchemaTransform, transform_schema
from py_gql.sdl import SchemaDirective, apply_schema_directives, extend_schema
from py_gql._string_utils import snakecase_to_camelcase
from py_gql.utilities import coerce_value, introspection_query

from .. import gen_store, ser, ser_store

PROP = "C14"
THEOREMS = ["C14_build_closed", "C14_heal_closed", "C14_replace_closed", "C14_clone_disjoint",
            "C14_source_untouched", "C14_in_place_frame", "C14_visibility_partial", "C14_preserved_partial",
            "C14_heal_terminates", "C14_source_untouched_observe", "C14_extend_closed",
            "C14_extend_source_untouched", "C14_extend_preserved", "C14_visibility_types",
            "C14_visibility_members", "C14_clone_preserved", "C14_vis_preserved", "C14_camel_preserved",
            "C14_camel_complete", "C14_visibility_complete", "C14_clone_observe_equal", "C14_clone_repeatable",
            "C14_repeatable", "C14_repeatable_vis", "C14_repeatable_camel", "C14_build_order_stable"]
AXIOMS_OK = []
RUN_MODULE = "Run.C14run Schema.StoreModel Schema.StoreExtend"
AGREE = "agree_C14"
CASE_TYPE = "case_C14"
SHARD = 8
LEVEL_NOTE = ("Theorems are about the Gallina object-heap model Schema/StoreModel.v of Schema.__init__/"
              "_build_type_map/clone/_replace_types_and_directives, SchemaVisitor, _HealSchemaVisitor, "
              "VisibilitySchemaTransform, CamelCaseSchemaTransform and the schema-directive driver (after "
              "fixes C14-01..03); the model is tied to /repo by running both on the same generated histories "
              "on every run. extend_schema is modelled too (Schema/StoreExtend.v, strict mode; its final "
              "validate() is not).")
RULE = ("histories of 1-6 operations (clone / transform_schema with visibility predicates (deny-lists and allow-lists over all type names incl. specified scalars and introspection types) over types, fields, "
        "input fields, arguments, enum values, directives / camel-casing / apply_schema_directives with "
        "@rename and @remove / extend_schema with generated documents / _replace_types_and_directives with "
        "rebuilt and identical entries / inline swap of registry entries followed by fix_type_references), clone-based on the source or an earlier result or in place on an "
        "earlier result, over generated SDL schemas decorated with resolvers, subscription resolvers, "
        "default resolvers, type resolvers and python names; non-trivial = at least one step changed the "
        "dump of its result w.r.t. its target; distinct = distinct (sdl, decoration seed, steps)")


# ----------------------------------------------------------------- source
def _unwrapped(t):
    while isinstance(t, (ListType, NonNullType)):
        t = t.type
    return t


class Canned(dict):
    """object value handed to child resolvers; default resolution by python name"""

    def __init__(self, typename):
        super().__init__()
        self.tn = typename

    def get(self, k, d=None):
        if k == "__typename__":
            return self.tn
        return "v:" + k


def _canned(info, tag, kw):
    def of(t):
        if isinstance(t, NonNullType):
            return of(t.type)
        if isinstance(t, ListType):
            return [of(t.type)]
        if isinstance(t, ObjectType):
            return Canned(t.name)
        if isinstance(t, (InterfaceType, UnionType)):
            names = [x.name for x in info.schema.get_possible_types(t)]
            return Canned(min(names)) if names else None
        if isinstance(t, EnumType):
            return t.values[0].value
        n = t.name
        if n in ("String", "ID"):
            return tag + ":" + json.dumps(kw, sort_keys=True, default=str)
        if n == "Int":
            return int(tag[1:])
        if n == "Float":
            return 1.5
        if n == "Boolean":
            return True
        return "sc"
    return of(info.field_definition.type)


def make_resolver(i):
    def resolver(root, ctx, info, **kw):
        return _canned(info, "r%d" % i, kw)
    resolver.c14_id = i
    return resolver


def make_default_resolver(i):
    def dres(root, ctx, info, **kw):
        return "d%d:%s" % (i, info.field_definition.python_name)
    dres.c14_id = i
    return dres


def make_type_resolver(i):
    def rt(value, ctx, info):
        return value.get("__typename__")
    rt.c14_id = i
    return rt


def _plain_string(t):
    return (isinstance(t, ScalarType) and t.name == "String") or (
        isinstance(t, NonNullType) and isinstance(t.type, ScalarType) and t.type.name == "String")


def build_source(case):
    schema = build_schema(case["sdl"])
    rng = random.Random(case["decor_seed"])
    n = [10]

    def nid():
        n[0] += 1
        return n[0]
    for name, t in schema.types.items():
        if name.startswith("__") or name in ser_store.BUILTIN:
            continue
        if isinstance(t, ObjectType) and rng.random() < 0.5:
            t.default_resolver = make_default_resolver(nid())
        if isinstance(t, (InterfaceType, UnionType)) and rng.random() < 0.6:
            t.resolve_type = make_type_resolver(nid())
        if isinstance(t, (ObjectType, InterfaceType)):
            for f in t.fields:
                if not _plain_string(f.type) or rng.random() < 0.6:
                    f.resolver = make_resolver(nid())
                if rng.random() < 0.3:
                    f.subscription_resolver = make_resolver(nid())
                if rng.random() < 0.4:
                    f.python_name = "py_" + f.name
                for a in f.arguments:
                    if rng.random() < 0.4:
                        a.python_name = "py_" + a.name
        if isinstance(t, InputObjectType):
            for f in t.fields:
                if rng.random() < 0.4:
                    f.python_name = "py_" + f.name
    for name, d in schema.directives.items():
        if name in ("meta", "other"):
            for a in d.arguments:
                if rng.random() < 0.4:
                    a.python_name = "py_" + a.name
    _rekey_defaults(schema)
    return schema


def _rekey_value(value, type_):
    """Coerced input-object values are keyed by python_name: after renaming
    python names of input fields, re-key the defaults that were coerced
    before the renaming so that the source schema stays self-consistent."""
    from py_gql.schema import ListType, NonNullType
    while isinstance(type_, NonNullType):
        type_ = type_.type
    if value is None:
        return value
    if isinstance(type_, ListType):
        if isinstance(value, (list, tuple)):
            return [_rekey_value(v, type_.type) for v in value]
        return _rekey_value(value, type_.type)
    if isinstance(type_, InputObjectType) and isinstance(value, dict):
        out = {}
        for f in type_.fields:
            for key in (f.python_name, f.name):
                if key in value:
                    out[f.python_name] = _rekey_value(value[key], f.type)
                    break
        return out
    return value


def _rekey_defaults(schema):
    def fix(iv):
        if iv.has_default_value:
            iv._default_value = _rekey_value(iv._default_value, iv.type)
    for t in schema.types.values():
        if isinstance(t, (ObjectType, InterfaceType)):
            for f in t.fields:
                for a in f.arguments:
                    fix(a)
        if isinstance(t, InputObjectType):
            for f in t.fields:
                fix(f)
    for d in schema.directives.values():
        for a in d.arguments:
            fix(a)


# ----------------------------------------------------------------- operations
def make_visibility(step):
    ht, hd = set(step["types"]), set(step["directives"])
    hf = set(map(tuple, step["fields"]))
    hi = set(map(tuple, step["input_fields"]))
    ha, hv = set(step["args"]), set(step["enum_values"])

    class Vis(VisibilitySchemaTransform):
        def is_type_visible(self, name):
            return name not in ht

        def is_directive_visible(self, name):
            return name not in hd

        def is_field_visible(self, typename, fieldname):
            return (typename, fieldname) not in hf

        def is_input_field_visible(self, typename, fieldname):
            return (typename, fieldname) not in hi

        def on_argument(self, arg):
            return None if arg.name in ha else super().on_argument(arg)

        def on_enum_value(self, ev):
            return None if ev.name in hv else super().on_enum_value(ev)

    return Vis()


class Rename(SchemaDirective):
    definition = "rename"

    def on_field(self, f):
        return Field(self.args["to"], f.type, args=f.arguments, description=f.description,
                     deprecation_reason=f.deprecation_reason, resolver=f.resolver,
                     subscription_resolver=f.subscription_resolver, node=f.node, python_name=f.python_name)

    def on_argument(self, a):
        return Argument(self.args["to"], a.type, default_value=a._default_value, description=a.description,
                        node=a.node, python_name=a.python_name)

    def on_input_field(self, a):
        return InputField(self.args["to"], a.type, default_value=a._default_value, description=a.description,
                          node=a.node, python_name=a.python_name)

    def on_enum_value(self, v):
        return EnumValue(self.args["to"], v.value, deprecation_reason=v.deprecation_reason,
                         description=v.description, node=v.node)


class Remove(SchemaDirective):
    definition = "remove"

    def _none(self, _x):
        return None

    on_field = on_argument = on_input_field = on_enum_value = _none
    on_object = on_interface = on_union = on_enum = on_scalar = on_input_object = _none


def _rebuilt(t):
    """a new type object of the same kind sharing the member objects (as the
    unit tests of _replace_types_and_directives do)"""
    if isinstance(t, ObjectType):
        return ObjectType(t.name, list(t.fields), interfaces=list(t.interfaces),
                          default_resolver=t.default_resolver, description=t.description, nodes=t.nodes)
    if isinstance(t, InterfaceType):
        return InterfaceType(t.name, list(t.fields), resolve_type=t.resolve_type,
                             description=t.description, nodes=t.nodes)
    if isinstance(t, UnionType):
        return UnionType(t.name, list(t.types), resolve_type=t.resolve_type, description=t.description,
                         nodes=t.nodes)
    if isinstance(t, EnumType):
        return EnumType(t.name, list(t.values), description=t.description, nodes=t.nodes)
    if isinstance(t, InputObjectType):
        return InputObjectType(t.name, list(t.fields), description=t.description, nodes=t.nodes)
    return ScalarType(t.name, t._serialize, t._parse, t._parse_literal, description=t.description, nodes=t.nodes)


LIB_ERRORS = (GraphQLError,)


def apply_step(step, target):
    """returns (status, schema|None, err). status: ok | invalid (transform_schema's
    final validate() refused the result) | rejected (library error) | crash"""
    op = step["op"]
    inplace = step.get("inplace", False)
    try:
        if op == "clone":
            return "ok", target.clone(), None
        if op in ("vis", "camel"):
            t = make_visibility(step) if op == "vis" else CamelCaseSchemaTransform()
            if inplace:
                t.on_schema(target)
                return "ok", None, None
            try:
                return "ok", transform_schema(target, t), None
            except SchemaError as e:
                # decide whether the refusal comes from the final validate()
                c = target.clone()
                c = t.on_schema(c) if op == "camel" else make_visibility(step).on_schema(c)
                try:
                    c.validate()
                except SchemaError:
                    return "invalid", c, str(e)[:200]
                return "crash", None, "transform_schema raised but manual clone+on_schema validates: %s" % e
        if op == "sdir":
            s = target if inplace else target.clone()
            r = apply_schema_directives(s, [Rename, Remove])
            return "ok", (None if inplace else r), None
        if op == "extend":
            try:
                return "ok", extend_schema(target, step["doc"]), None
            except SchemaError as e:
                # Schema(...) / validate() refused the extended schema: not predicted by the model
                return "invalid", None, "SchemaError: %s" % str(e)[:200]
        if op == "replace":
            c = target.clone()
            mapping = {}
            for n in step["rebuild"]:
                if n in c.types:
                    mapping[n] = _rebuilt(c.types[n])
            for n in step["same"]:
                if n in c.types:
                    mapping[n] = c.types[n]
            c._replace_types_and_directives(mapping)
            return "ok", c, None
        if op == "swap":
            # "modifying a schema inline where a type may have swapped out", then fix_type_references
            c = target.clone()
            ser_store.dump_schema(c)           # fills the possible-types cache before the swap
            for n in step["names"]:
                if n in c.types:
                    c.types[n] = _rebuilt(c.types[n])
            from py_gql.schema.fix_type_references import fix_type_references
            return "ok", fix_type_references(c), None
        raise ValueError(op)
    except LIB_ERRORS as e:
        return "rejected", None, "%s: %s" % (type(e).__name__, str(e)[:200])
    except Exception:  # noqa
        return "crash", None, traceback.format_exc()[-1500:]


# ----------------------------------------------------------------- probes
def _is_valid(schema):
    try:
        schema._is_valid = None
        schema.validate()
        return True
    except SchemaError:
        return False


def query_for(dump, depth=2):
    """(query text, expected data) over the identity-free dump"""
    tmap = {t["name"]: t for t in dump["types"]}
    poss = {n: [x["name"] for x in ts] for n, ts in dump["poss"]}
    root = dump["roots"][0]
    if root is None or root["name"] not in tmap:
        return None, None

    def sel_object(tname, d):
        t = tmap[tname]
        parts, exp = [], {}
        for f in t["fields"]:
            r = value(f, t, d)
            if r is None:
                continue
            parts.append(f["name"] + r[0])
            exp[f["name"]] = r[1]
        if not parts:
            return "{ __typename }", {"__typename": tname}
        return "{ " + " ".join(parts) + " }", exp

    def value(f, parent, d):
        ref = f["type"]
        base = tmap.get(ref["name"])
        if base is None and ref["name"] in ser_store.BUILTIN:
            base = {"name": ref["name"], "kind": "scalar"}
        if base is None:
            return None
        kw = {a["py"]: a["default"][0] for a in f["args"] if a["default"]}
        if f["res"] is None:
            if not (base["name"] == "String" and ref["w"] in ([], ["NN"])):
                return None
            v = ("d%d:%s" % (parent["res"], f["py"])) if parent["kind"] == "object" and parent["res"] is not None \
                else "v:" + f["py"]
            return "", v
        tag = "r%d" % f["res"]
        k = base["kind"]
        sub = ""
        if k == "scalar":
            n = base["name"]
            if n in ("String", "ID"):
                v = tag + ":" + json.dumps(kw, sort_keys=True, default=str)
            elif n == "Int":
                v = f["res"]
            elif n == "Float":
                v = 1.5
            elif n == "Boolean":
                v = True
            else:
                v = "sc"
        elif k == "enum":
            if not base["values"]:
                return None
            v = base["values"][0]["name"]
        elif k == "object":
            if d <= 0:
                return None
            sub, v = sel_object(base["name"], d - 1)
            sub = " " + sub
        elif k in ("interface", "union"):
            names = poss.get(base["name"]) or []
            if not names or d <= 0:
                return None
            chosen = min(names)
            if chosen not in tmap:
                return None
            s2, v2 = sel_object(chosen, d - 1)
            sub = " { __typename ... on %s %s }" % (chosen, s2)
            v = dict({"__typename": chosen}, **v2)
        else:
            return None
        for w in reversed(ref["w"]):
            if w == "L":
                v = [v]
        return sub, v

    text, exp = sel_object(root["name"], depth)
    return "query " + text, exp


def _run_query(schema, dump, validate=True):
    q, exp = query_for(dump)
    if q is None:
        return {"skipped": True}
    try:
        troot = Canned(dump["roots"][0]["name"])
        res = graphql_blocking(schema, q, root=troot, **({} if validate else {"validators": []}))
        resp = res.response()
    except Exception:  # noqa
        return {"query": q, "exc": traceback.format_exc()[-800:]}
    ok = resp.get("data") == exp and not resp.get("errors")
    out = {"ok": ok, "n_fields": q.count(" ")}
    if not ok:
        out.update({"query": q, "expected": exp, "got": json.loads(json.dumps(resp, default=str))})
    return out


_INTROSPECTION_DOC = None


def _introspection_names(schema):
    global _INTROSPECTION_DOC
    if _INTROSPECTION_DOC is None:
        from py_gql.lang import parse
        _INTROSPECTION_DOC = parse(introspection_query())
    res = graphql_blocking(schema, _INTROSPECTION_DOC, validators=[])
    resp = res.response()
    if resp.get("errors"):
        return {"errors": json.loads(json.dumps(resp["errors"], default=str))[:3]}
    out = {}
    for t in resp["data"]["__schema"]["types"]:
        if t["name"].startswith("__"):
            continue
        members = []
        for f in t.get("fields") or []:
            members.append([f["name"], sorted(a["name"] for a in f["args"])])
        for f in t.get("inputFields") or []:
            members.append([f["name"], []])
        for v in t.get("enumValues") or []:
            members.append([v["name"], []])
        for p in t.get("possibleTypes") or []:
            members.append(["|" + p["name"], []])
        for p in t.get("interfaces") or []:
            members.append(["&" + p["name"], []])
        out[t["name"]] = sorted(members)
    dirs = sorted(d["name"] for d in resp["data"]["__schema"]["directives"]
                  if d["name"] not in ("include", "skip", "deprecated"))
    return {"types": out, "directives": dirs}


def _expected_introspection(dump):
    poss = {n: [x["name"] for x in ts] for n, ts in dump["poss"]}
    out = {n: [] for n in ser_store.BUILTIN}
    for t in dump["types"]:
        members = []
        if t["kind"] in ("object", "interface"):
            for f in t["fields"]:
                members.append([f["name"], sorted(a["name"] for a in f["args"])])
        if t["kind"] == "input":
            members.extend([f["name"], []] for f in t["fields"])
        if t["kind"] == "enum":
            members.extend([v["name"], []] for v in t["values"])
        if t["kind"] in ("interface", "union"):
            members.extend(["|" + n, []] for n in poss.get(t["name"], []))
        if t["kind"] == "object":
            members.extend(["&" + r["name"], []] for r in t["refs"])
        out[t["name"]] = sorted(members)
    return {"types": out, "directives": sorted(d["name"] for d in dump["directives"])}


def probe(schema, dump, validate=True):
    """to_string / introspection / execution on one schema"""
    p = {}
    try:
        p["sdl"] = schema.to_string(include_custom_schema_directives=False)
    except Exception:  # noqa
        p["to_string_exc"] = traceback.format_exc()[-800:]
    p["sdl_custom"] = _custom_sdl(schema)
    p["valid"] = _is_valid(schema)
    if p["valid"]:
        try:
            got = _introspection_names(schema)
            want = _expected_introspection(dump)
            p["introspection_ok"] = got == want
            if got != want:
                p["introspection"] = {"got": got, "want": want}
        except Exception:  # noqa
            p["introspection_ok"] = False
            p["introspection"] = {"exc": traceback.format_exc()[-800:]}
        p["exec"] = _run_query(schema, dump, validate)
    return p


def _custom_sdl(schema):
    """to_string(include_custom_schema_directives=True): what the custom-directive printer reads from
    the `nodes` of every element; an exception is recorded by class"""
    try:
        return schema.to_string(include_custom_schema_directives=True)
    except Exception as e:  # noqa
        return "EXC %s" % type(e).__name__


def _nodes_snapshot(schema):
    """identity and contents of the mutable `nodes` lists of a schema and of its registered types
    (the AST definition / extension nodes an element remembers: they carry its applied schema
    directives): label -> (id of the list, ids of its items)"""
    out = {}
    ns = getattr(schema, "nodes", None)
    if isinstance(ns, list):
        out["schema"] = (id(ns), tuple(id(x) for x in ns))
    for n, t in schema.types.items():
        if n.startswith("__") or n in ser_store.BUILTIN:
            continue
        ns = getattr(t, "nodes", None)
        if isinstance(ns, list):
            out["type %s" % n] = (id(ns), tuple(id(x) for x in ns))
    return out


def _nodes_changes(before, schema):
    """elements of `schema` whose nodes list is no longer the list object with the items recorded in
    `before` (a snapshot of the same schema)"""
    now = _nodes_snapshot(schema)
    bad = []
    for k, (lid, items) in before.items():
        if k not in now:
            continue
        lid2, items2 = now[k]
        if lid2 == lid and items2 != items:
            bad.append("%s: nodes list mutated in place (%d -> %d nodes)" % (k, len(items), len(items2)))
        elif lid2 != lid and items2 != items:
            bad.append("%s: nodes replaced (%d -> %d nodes)" % (k, len(items), len(items2)))
    return bad


# ---- pre-parsed documents kept alive across the steps of a history (seeded C14-i: the memo behind
# Schema.get_type_from_literal is keyed by the identity of AST type nodes)
_POOL = []          # [(text, Document)]


def _tstr(ws, name):
    if not ws:
        return name
    inner = _tstr(ws[1:], name)
    return "[%s]" % inner if ws[0] == "L" else inner + "!"


def make_pool(dump):
    """documents over the source: variables of input / enum types (used as arguments of root fields
    and unused), inline and named fragments on object / interface types"""
    from py_gql.lang import parse
    kinds = {t["name"]: t["kind"] for t in dump["types"]}
    texts = []
    root = dump["roots"][0]["name"] if dump["roots"][0] else None
    rt = next((t for t in dump["types"] if t["name"] == root), None)
    comp = [t["name"] for t in dump["types"] if t["kind"] in ("object", "interface")][:4]
    n = 0
    for f in (rt.get("fields", []) if rt else []):
        sel = " { __typename }" if kinds.get(f["type"]["name"]) in ("object", "interface", "union") else ""
        vs = [a for a in f["args"] if kinds.get(a["type"]["name"]) in ("input", "enum")]
        if vs and n < 1:
            n += 1
            texts.append("query A%d(%s) { %s(%s)%s }" % (
                n, ", ".join("$v_%s: %s" % (a["name"], _tstr(a["type"]["w"], a["type"]["name"])) for a in vs),
                f["name"], ", ".join("%s: $v_%s" % (a["name"], a["name"]) for a in vs), sel))
        if sel and not f["args"] and comp and not any(t.startswith("query C_") for t in texts):
            texts.append("query C_%s { %s { __typename %s ...F0 } }\nfragment F0 on %s { __typename }" % (
                f["name"], f["name"], " ".join("... on %s { __typename }" % c for c in comp), comp[0]))
    ins = [t["name"] for t in dump["types"] if t["kind"] in ("input", "enum")][:6]
    if ins:
        texts.append("query B(%s) { __typename }" % ", ".join("$x%d: %s" % (i, t) for i, t in enumerate(ins)))
    pool = []
    for t in texts[:3]:
        try:
            pool.append((t, parse(t)))
        except Exception:  # noqa
            pass
    return pool


def _run_doc(schema, doc, root_name, execute=True):
    """verdict of validate_ast and (optionally) response of graphql_blocking for one Document object"""
    from py_gql.validation import validate_ast
    out = {}
    try:
        out["validation"] = sorted(str(e) for e in validate_ast(schema, doc).errors)
    except Exception as e:  # noqa
        out["validation"] = "EXC %s" % type(e).__name__
    if not execute:
        return out
    try:
        res = graphql_blocking(schema, doc, root=Canned(root_name), variables={})
        out["response"] = json.loads(json.dumps(res.response(), default=str, sort_keys=True))
    except Exception as e:  # noqa
        out["response"] = "EXC %s" % type(e).__name__
    return out


def _type_nodes(doc):
    from py_gql.lang import ast as A
    out = []

    def sels(ss):
        for x in (ss.selections if ss is not None else []):
            if isinstance(x, A.InlineFragment):
                if x.type_condition is not None:
                    out.append(x.type_condition)
                sels(x.selection_set)
            elif isinstance(x, A.Field):
                sels(x.selection_set)
    for d in doc.definitions:
        if isinstance(d, A.OperationDefinition):
            for vd in d.variable_definitions or []:
                out.append(vd.type)
            sels(d.selection_set)
        elif isinstance(d, A.FragmentDefinition):
            out.append(d.type_condition)
            sels(d.selection_set)
    return out


def _docs_bad(schema, root_name, metamorphic=True):
    """(1) every type node of the pooled documents resolves to the object registered under its name in
    this schema; (2) validating + executing a pooled Document object gives what a freshly parsed copy of
    its text gives"""
    from py_gql.lang import parse
    from py_gql.exc import UnknownType
    bad = []
    for text, doc in _POOL:
        for node in _type_nodes(doc):
            try:
                t = schema.get_type_from_literal(node)
            except UnknownType:
                continue
            except Exception as e:  # noqa
                bad.append("get_type_from_literal raised %s" % type(e).__name__)
                continue
            inner = _unwrapped(t)
            if schema.types.get(inner.name) is not inner:
                bad.append("get_type_from_literal(%s) is not the registered %s" % (node, inner.name))
        if not metamorphic:
            continue
        ex = text.startswith("query A")
        old, new = _run_doc(schema, doc, root_name, ex), _run_doc(schema, parse(text), root_name, ex)
        if old != new:
            bad.append("document %r: the kept Document object gives %s, a fresh parse %s"
                       % (text[:50], str(old)[:160], str(new)[:160]))
    return bad[:6]


def _use(schema):
    """what using a schema does before it is cloned / transformed: coerce a variable of every input
    object type (reads InputObjectType.field_map) and read the derived maps of the other elements"""
    for n, t in list(schema.types.items()):
        if n.startswith("__"):
            continue
        if isinstance(t, InputObjectType):
            t.field_map
            try:
                coerce_value({}, t)
            except Exception:  # noqa
                pass
        elif isinstance(t, (ObjectType, InterfaceType)):
            t.field_map
            for f in t.fields:
                getattr(f, "argument_map", None)
    for d in schema.directives.values():
        getattr(d, "argument_map", None)
    for n, t in list(schema.types.items()):
        if isinstance(t, (InterfaceType, UnionType)) and not n.startswith("__"):
            schema.get_possible_types(t)
    rn = schema.query_type.name if schema.query_type is not None else "Query"
    for _text, doc in _POOL:
        _run_doc(schema, doc, rn)                 # validate + execute the same Document objects again


def _derived_bad(schema):
    """the derived `field_map` of every object / interface / input object type must list exactly the
    entries of `.fields`, each value being that very object, and refer to types registered in THIS schema"""
    bad = []
    for n, t in schema.types.items():
        if n.startswith("__") or not isinstance(t, (ObjectType, InterfaceType, InputObjectType)):
            continue
        fields = list(t.fields)
        fm = t.field_map
        names = [f.name for f in fields]
        if list(fm.keys()) != list(dict.fromkeys(names)):
            bad.append("field_map of %s lists %s but .fields are %s" % (n, list(fm.keys())[:6], names[:6]))
        last = {f.name: f for f in fields}           # duplicate names (an invalid result): dict semantics
        for k, f in last.items():
            if fm.get(k) is not f:
                bad.append("field_map[%s.%s] is not the object in .fields" % (n, k))
        for k, f in fm.items():
            inner = _unwrapped(f.type)
            if schema.types.get(inner.name) is not inner:
                bad.append("field_map[%s.%s] refers to a %s that is not the registered object" % (n, k, inner.name))
    return bad[:8]


def _hidden_accepted(step, res):
    """after hiding input fields: a value supplying a hidden field must be refused by coerce_value"""
    acc, inconclusive = [], 0
    for tn, fn in step.get("input_fields", []):
        t = res.types.get(tn)
        if not isinstance(t, InputObjectType) or fn in [f.name for f in t.fields]:
            continue
        try:
            coerce_value({fn: None}, t)
            acc.append("%s.%s" % (tn, fn))
        except Exception as e:  # noqa
            if "is not defined by type" not in str(e):
                inconclusive += 1
    return acc, inconclusive


def _sdir_on_fresh_clone(source):
    """apply_schema_directives (with the removing / renaming directives of the harness) on a fresh
    clone of the source: the dump of the result, or the class of the library error"""
    try:
        r = apply_schema_directives(source.clone(), [Rename, Remove])
        return {"dump": ser_store.dump_schema(r), "sdl_custom": _custom_sdl(r)}
    except LIB_ERRORS as e:
        return {"rejected": type(e).__name__}
    except Exception:  # noqa
        return {"crash": traceback.format_exc()[-800:]}


# ----------------------------------------------------------------- run
def run_impl(case):
    source = build_source(case)
    heap = ser_store.Heap(10)
    init_rec = heap.add_schema(source)
    init = {"objs": heap.objs, "schema": init_rec}
    dump0 = ser_store.dump_schema(source)
    probe0 = probe(source, dump0)
    sdir0 = _sdir_on_fresh_clone(source)
    _POOL[:] = make_pool(dump0)
    inplaced = set()
    root_name = dump0["roots"][0]["name"] if dump0["roots"][0] else "Query"
    schemas = [source]
    snaps = {0: (_nodes_snapshot(source), probe0.get("sdl_custom"))}      # live schemas: nodes lists, custom SDL
    steps_obs = []
    for i, step in enumerate(case["steps"]):
        so = {"status": "skipped", "dumps": [], "import": None}
        on = step["on"]
        target = schemas[on] if on < len(schemas) else None
        if target is None or (step.get("inplace") and on == 0):
            schemas.append(None)
            steps_obs.append(so)
            continue
        if step.get("use"):
            _use(target)
        status, res, err = apply_step(step, target)
        so["status"], so["err"] = status, err
        keep = res if status == "ok" else None
        schemas.append(keep)
        # observe: source, target, result (also of a transform refused by validate())
        idxs = [0] + ([on] if on != 0 else [])
        for k in idxs:
            so["dumps"].append([k, ser_store.dump_schema(schemas[k])])
        if res is not None:
            so["dumps"].append([i + 1, ser_store.dump_schema(res)])
            so["result_probe"] = probe(res, so["dumps"][-1][1])
        so["source_probe"] = probe(source, so["dumps"][0][1], validate=False)
        # repeat the same clone-based operation on the same target
        if not step.get("inplace") and status in ("ok", "invalid", "rejected"):
            st2, res2, err2 = apply_step(step, target)
            rep = {"status": st2, "err": err2}
            if res2 is not None and res is not None:
                rep["same_dump"] = ser_store.dump_schema(res2) == so["dumps"][-1][1]
            so["repeat"] = rep
        if res is not None and not step.get("inplace") and step["op"] != "extend":
            so["shared_members"] = _shared_members(target, res)
        derived = []
        for k in ([0] + ([on] if on != 0 else [])):
            derived += ["schema %d: %s" % (k, x) for x in _derived_bad(schemas[k])]
        if res is not None:
            derived += ["result: %s" % x for x in _derived_bad(res)]
            if step["op"] == "vis":
                acc, inc = _hidden_accepted(step, res)
                so["hidden_accepted"], so["hidden_inconclusive"] = acc, inc
        so["derived_bad"] = derived[:8]
        docs_bad = []
        if step.get("inplace"):
            inplaced.add(on)
        # the metamorphic comparison only where an in-place operation may have left a stale memo
        docs_bad += ["schema %d: %s" % (on, x) for x in _docs_bad(schemas[on], root_name, on in inplaced)]
        if res is not None:
            docs_bad += ["result: %s" % x for x in _docs_bad(res, root_name, False)]
        so["docs_bad"] = docs_bad[:6]
        if res is not None and step["op"] == "clone":
            # hypothesis of C14_clone_observe_equal: Schema(...) over a schema's own types lists them in
            # the same order
            so["clone_order_same"] = ([n for n in res.types if not n.startswith("__")]
                                      == [n for n in target.types if not n.startswith("__")]
                                      and list(res.directives) == list(target.directives))
        # the `nodes` lists (applied schema directives) of every other live schema: same list, same items,
        # same custom-directive SDL as when the schema was produced
        touched = on if step.get("inplace") else None
        nodes_bad = []
        for k, (snap, sdlc) in snaps.items():
            if k == touched or schemas[k] is None:
                continue
            for msg in _nodes_changes(snap, schemas[k]):
                nodes_bad.append("schema %d, %s" % (k, msg))
            if _custom_sdl(schemas[k]) != sdlc:
                nodes_bad.append("schema %d: to_string(include_custom_schema_directives=True) changed" % k)
        so["nodes_bad"] = nodes_bad[:8]
        if touched is not None and schemas[touched] is not None:
            snaps[touched] = (_nodes_snapshot(schemas[touched]), _custom_sdl(schemas[touched]))
        if keep is not None:
            snaps[i + 1] = (_nodes_snapshot(keep), _custom_sdl(keep))
            src_lists = {v[0] for v in snaps[0][0].values()}
            so["shared_nodes_lists"] = sum(1 for v in snaps[i + 1][0].values() if v[0] in src_lists)
        steps_obs.append(so)
    names = set()
    for d in [dump0] + [d for so in steps_obs for _k, d in so["dumps"]]:
        for t in d["types"]:
            for f in t.get("fields", []):
                names.add(f["name"])
                names.update(a["name"] for a in f.get("args", []))
        for x in d["directives"]:
            names.update(a["name"] for a in x["args"])
    camel = sorted([n, snakecase_to_camelcase(n)] for n in names)
    sdir1 = _sdir_on_fresh_clone(source)
    return {"init": init, "dump0": dump0, "probe0": probe0, "camel": camel, "steps": steps_obs,
            "sdir_fresh_same": sdir0 == sdir1,
            "sdir_fresh": None if sdir0 == sdir1 else {"before": str(sdir0)[:300], "after": str(sdir1)[:300]}}


def _member_ids(schema):
    out = {}
    for n, t in schema.types.items():
        if n.startswith("__") or n in ser_store.BUILTIN:
            continue
        out[id(t)] = "type %s" % n
        if isinstance(t, (ObjectType, InterfaceType)):
            for f in t.fields:
                out[id(f)] = "field %s.%s" % (n, f.name)
                for a in f.arguments:
                    out[id(a)] = "arg %s.%s.%s" % (n, f.name, a.name)
        if isinstance(t, InputObjectType):
            for f in t.fields:
                out[id(f)] = "input field %s.%s" % (n, f.name)
        if isinstance(t, EnumType):
            for v in t.values:
                out[id(v)] = "enum value %s.%s" % (n, v.name)
    for n, d in schema.directives.items():
        if n in ("include", "skip", "deprecated"):
            continue
        out[id(d)] = "directive %s" % n
        for a in d.arguments:
            out[id(a)] = "directive arg %s.%s" % (n, a.name)
    return out


def _shared_members(a, b):
    ia, ib = _member_ids(a), _member_ids(b)
    return sorted(ia[k] for k in ia if k in ib)[:10]


# ----------------------------------------------------------------- direct checks
def _unregistered(dump):
    bad = []
    names = {t["name"] for t in dump["types"]} | set(ser_store.BUILTIN)

    def ref(where, r):
        if not r["ok"] or r["name"] not in names:
            bad.append(where + " -> " + r["name"])
    for k, r in zip(("query", "mutation", "subscription"), dump["roots"]):
        if r is not None:
            ref("root " + k, r)
    for t in dump["types"]:
        if t["kind"] in ("object", "interface"):
            for f in t["fields"]:
                ref("%s.%s" % (t["name"], f["name"]), f["type"])
                for a in f["args"]:
                    ref("%s.%s(%s)" % (t["name"], f["name"], a["name"]), a["type"])
        if t["kind"] == "input":
            for f in t["fields"]:
                ref("%s.%s" % (t["name"], f["name"]), f["type"])
        for r in t["refs"]:
            ref("%s member/interface" % t["name"], r)
    for d in dump["directives"]:
        for a in d["args"]:
            ref("@%s(%s)" % (d["name"], a["name"]), a["type"])
    for n, ts in dump["impls"]:
        for r in ts:
            ref("implementations[%s]" % n, r)
    for n, ts in dump["poss"]:
        for r in ts:
            ref("possible_types[%s]" % n, r)
    return bad


def _hidden_present(step, dump):
    bad = []
    tmap = {t["name"]: t for t in dump["types"]}
    for n in step["types"]:
        if n in tmap:
            bad.append("type " + n)
    for tn, fn in step["fields"] + step["input_fields"]:
        if tn in tmap and any(f["name"] == fn for f in tmap[tn].get("fields", [])):
            bad.append("field %s.%s" % (tn, fn))
    for d in dump["directives"]:
        if d["name"] in step["directives"]:
            bad.append("directive " + d["name"])
        bad.extend("arg @%s(%s)" % (d["name"], a["name"]) for a in d["args"] if a["name"] in step["args"])
    for t in dump["types"]:
        for f in t.get("fields", []):
            for a in f.get("args", []):
                if a["name"] in step["args"]:
                    bad.append("arg %s.%s(%s)" % (t["name"], f["name"], a["name"]))
        for v in t.get("values", []):
            if v["name"] in step["enum_values"]:
                bad.append("enum value %s.%s" % (t["name"], v["name"]))
    return bad


def _only_protected(step):
    return (bool(step["types"]) and all(t in ser_store.BUILTIN or t.startswith("__") for t in step["types"])
            and not (step["fields"] or step["input_fields"] or step["args"] or step["enum_values"]
                     or step["directives"]))


def _extension_losses(target_dump, res_dump, doc):
    """elements of the target that the extension document does not mention
    must be carried over unchanged"""
    bad = []
    rmap = {t["name"]: t for t in res_dump["types"]}
    for t in target_dump["types"]:
        r = rmap.get(t["name"])
        if r is None:
            bad.append("type %s dropped" % t["name"])
            continue
        if ("extend type %s " % t["name"] in doc or "extend interface %s " % t["name"] in doc
                or "extend enum %s " % t["name"] in doc or "extend input %s " % t["name"] in doc
                or "extend union %s " % t["name"] in doc or "extend scalar %s " % t["name"] in doc):
            # extended: every old member must still be there, unchanged
            old = t.get("fields") or t.get("values") or []
            new = r.get("fields") or r.get("values") or []
            if new[:len(old)] != old:
                bad.append("members of extended type %s changed" % t["name"])
            for k in ("desc", "res", "kind"):
                if t[k] != r[k]:
                    bad.append("%s of extended type %s changed" % (k, t["name"]))
            if r["refs"][:len(t["refs"])] != t["refs"]:
                bad.append("interfaces/members of extended type %s changed" % t["name"])
            if r.get("sdirs", [])[:len(t.get("sdirs", []))] != t.get("sdirs", []):
                bad.append("applied directives of extended type %s changed" % t["name"])
        elif {k: v for k, v in t.items()} != {k: v for k, v in r.items()}:
            bad.append("untouched type %s changed" % t["name"])
    rd = {d["name"]: d for d in res_dump["directives"]}
    for d in target_dump["directives"]:
        if rd.get(d["name"]) != d:
            bad.append("directive %s changed" % d["name"])
    return bad


def direct_checks(case, obs):
    out = []
    if "harness_error" in obs:
        return out
    d0, p0 = obs["dump0"], obs["probe0"]
    if _unregistered(d0):
        out.append(("closed: freshly built source has unregistered references %s" % _unregistered(d0)[:3], None))
    if p0.get("valid") and not (p0.get("exec", {}).get("ok") or p0.get("exec", {}).get("skipped")):
        out.append(("harness-self-check: expected response of the source is wrong", None))
    if p0.get("valid") and not p0.get("introspection_ok"):
        out.append(("harness-self-check: expected introspection of the source is wrong", None))
    for i, (step, so) in enumerate(zip(case["steps"], obs["steps"])):
        tag = "step %d (%s%s on %d)" % (i + 1, step["op"], " in place" if step.get("inplace") else "", step["on"])
        if so["status"] == "skipped":
            continue
        if so["status"] == "crash":
            out.append(("no-crash: %s raised a non-library exception" % tag, None))
        dumps = dict((k, d) for k, d in so["dumps"])
        for k, d in so["dumps"]:
            bad = _unregistered(d)
            if bad:
                out.append(("closed: after %s schema %d holds references that are not the registered "
                            "object: %s" % (tag, k, bad[:4]), None))
        if dumps.get(0) != d0:
            out.append(("source-untouched: %s changed the observable dump of the source" % tag, None))
        sp = so.get("source_probe", {})
        if sp.get("sdl") != p0.get("sdl") or "to_string_exc" in sp:
            out.append(("source-untouched: %s changed to_string() of the source" % tag, None))
        if sp.get("sdl_custom") != p0.get("sdl_custom"):
            out.append(("source-untouched: %s changed to_string(include_custom_schema_directives=True) of the "
                        "source" % tag, None))
        if so.get("derived_bad"):
            out.append(("closed: after %s a derived field_map is out of step with .fields / the registry: %s"
                        % (tag, so["derived_bad"][:4]), None))
        if so.get("docs_bad"):
            out.append(("closed: after %s a pre-parsed document no longer resolves its type nodes to the registered "
                        "objects / behaves differently from a fresh parse of its text: %s" % (tag, so["docs_bad"][:3]), None))
        if so.get("hidden_accepted"):
            out.append(("removed-unreachable: after %s coerce_value still accepts the hidden input fields %s"
                        % (tag, so["hidden_accepted"][:4]), None))
        if so.get("nodes_bad"):
            out.append(("source-untouched: %s changed the AST nodes / applied schema directives another schema "
                        "remembers: %s" % (tag, so["nodes_bad"][:4]), None))
        if p0.get("valid") and not (sp.get("valid") and sp.get("introspection_ok")
                                    and (sp.get("exec", {}).get("ok") or sp.get("exec", {}).get("skipped"))):
            out.append(("source-untouched: after %s the source can no longer be validated / introspected / "
                        "queried as before" % tag, None))
        res_dump = dumps.get(i + 1)
        if res_dump is not None:
            rp = so.get("result_probe", {})
            # to_string() of a *result* is probed but not demanded by C14 (printing is C12; camel-cased
            # input-object defaults hit DESIGN section 6 row 40); failures are counted in the evidence.
            if rp.get("valid"):
                if not rp.get("introspection_ok"):
                    out.append(("removed-unreachable: introspection of the result of %s does not report "
                                "exactly the registered elements" % tag, None))
                ex = rp.get("exec", {})
                if not (ex.get("ok") or ex.get("skipped")):
                    out.append(("preserved: executing the all-fields query on the result of %s does not give "
                                "the response determined by resolvers, python names and defaults" % tag, None))
            if step["op"] == "vis":
                hp = _hidden_present(step, res_dump)
                if hp:
                    out.append(("removed-unreachable: %s left hidden elements in place: %s" % (tag, hp[:4]), None))
            if step["op"] == "vis" and _only_protected(step) and res_dump != dumps.get(step["on"]):
                out.append(("preserved: %s rejects only specified scalars / introspection types, which cannot "
                            "be hidden, yet the result differs from its target" % tag, None))
            if step["op"] == "clone" and res_dump != dumps.get(step["on"]):
                out.append(("preserved: the clone differs from its source (%s)" % tag, None))
            if step["op"] == "extend":
                losses = _extension_losses(dumps[step["on"]], res_dump, step["doc"])
                if losses:
                    out.append(("preserved: %s lost or changed untouched elements: %s" % (tag, losses[:4]), None))
        if so.get("shared_members"):
            out.append(("clone-disjoint: the result of %s shares member objects with its target: %s"
                        % (tag, so["shared_members"][:4]), None))
        rep = so.get("repeat")
        if rep is not None:
            if rep["status"] != so["status"]:
                out.append(("repeatable: repeating %s gave %s instead of %s (%s)"
                            % (tag, rep["status"], so["status"], (rep.get("err") or "")[:120]), None))
            elif rep.get("same_dump") is False:
                out.append(("repeatable: repeating %s gave a different result" % tag, None))
    if obs.get("sdir_fresh_same") is False:
        out.append(("source-untouched: after the history, applying schema directives to a fresh clone of the "
                    "source no longer gives what it gave before: %s" % obs.get("sdir_fresh"), None))
    return out


# ----------------------------------------------------------------- Coq side
def c_step(step, so):
    on = step["on"]
    inpl = "true" if step.get("inplace") else "false"
    op = step["op"]
    if so["status"] == "skipped":
        return "SSkip"
    if op == "clone":
        return "(SClone %d)" % on
    if op == "vis":
        pair = lambda p: "(%s,%s)" % (ser.cstr(p[0]), ser.cstr(p[1]))  # noqa
        return "(SVis %d %s %s %s %s %s %s %s)" % (
            on, inpl, ser.clist(step["types"], ser.cstr), ser.clist(step["fields"], pair),
            ser.clist(step["input_fields"], pair), ser.clist(step["args"], ser.cstr),
            ser.clist(step["enum_values"], ser.cstr), ser.clist(step["directives"], ser.cstr))
    if op == "camel":
        return "(SCamel %d %s)" % (on, inpl)
    if op == "sdir":
        return "(SSdir %d %s)" % (on, inpl)
    if op == "extend":
        return "(SExtend %d %s)" % (on, ser_store.c_extdoc(step["doc"]))
    if op == "swap":
        return "(SSwap %d %s)" % (on, ser.clist(step["names"], ser.cstr))
    if op == "replace":
        return "(SReplace %d %s %s)" % (on, ser.clist(step["rebuild"], ser.cstr), ser.clist(step["same"], ser.cstr))
    raise ValueError(op)


STATUS = {"ok": "StOk", "invalid": "StInvalid", "rejected": "StRejected", "crash": "StCrash", "skipped": "StSkipped"}


def to_coq(case, obs):
    steps = []
    for step, so in zip(case["steps"], obs["steps"]):
        dumps = ser.clist(so["dumps"], lambda kd: "(%d,\n %s)" % (kd[0], ser_store.sx_dump(kd[1])))
        steps.append("(%s, %s, %s)" % (c_step(step, so), STATUS[so["status"]], dumps))
    camel = ser.clist(obs["camel"], lambda p: "(%s,%s)" % (ser.cstr(p[0]), ser.cstr(p[1])))
    return "(%s,\n %s,\n %s,\n %s,\n [%s])" % (
        ser_store.c_heap(obs["init"]["objs"]), ser_store.c_schema(obs["init"]["schema"]), camel,
        ser_store.sx_dump(obs["dump0"]), ";\n ".join(steps))


def show_expr(case, obs):
    return "show_C14 %s" % to_coq(case, obs)


# ----------------------------------------------------------------- cases
def _case(sdl, steps, decor_seed=1):
    return {"sdl": sdl, "decor_seed": decor_seed, "steps": steps}


W32 = """
directive @rename(to: String!) on FIELD_DEFINITION
directive @remove on FIELD_DEFINITION
interface Node { id: ID }
type Foo implements Node { id: ID, bar(a: Int = 3, snake_arg: In): Bar, other_field: E }
type Bar implements Node { id: ID, foo: Foo }
type Orphan implements Node { id: ID }
union U = Foo | Bar
"desc V" union V = Foo
enum E { A B }
enum OnlyDir { P Q }
directive @meta(e: OnlyDir = P, n: Int = 3) on FIELD
input In { x: Int = 1, y_z: [In2] }
input In2 { q: E = A }
type Query { foo: Foo, u: U, node: Node, v: V }
"""

_NOVIS = {"types": [], "fields": [], "input_fields": [], "args": [], "enum_values": [], "directives": []}


def corpus():
    out = []
    # row 32: the second transform of the same schema raised 'Duplicate type'; healing rewired the source
    out.append(_case(W32, [{"op": "camel", "on": 0}, {"op": "camel", "on": 0}]))
    out.append(_case(W32, [{"op": "clone", "on": 0}, {"op": "clone", "on": 0}, dict(_NOVIS, op="vis", on=0, types=["Bar"])]))
    # clone dropped types unreachable from the roots and directive-only argument types
    out.append(_case(W32, [{"op": "clone", "on": 0}, dict(_NOVIS, op="vis", on=1, fields=[["Foo", "bar"]])]))
    # row 33: busted_cache overwritten by a trailing identical entry
    out.append(_case(W32, [{"op": "replace", "on": 0, "rebuild": ["Foo"], "same": ["Bar"]}]))
    out.append(_case(W32, [{"op": "replace", "on": 0, "rebuild": ["Node", "E"], "same": ["In"]}]))
    # fix_type_references after an inline swap left implementations / possible types stale (fix C14-04)
    out.append(_case(W32, [{"op": "swap", "on": 0, "names": ["Foo"]}]))
    out.append(_case(W32, [{"op": "swap", "on": 0, "names": ["Node", "Bar", "Query"]}, {"op": "camel", "on": 1}]))
    # rows 27/28 (extension side, repaired by fixes C11-03/C11-04)
    out.append(_case(W32, [{"op": "extend", "on": 0, "doc": "extend type Bar { z: Int }"}], decor_seed=3))
    out.append(_case(W32, [{"op": "extend", "on": 0, "doc": "extend type Bar { z: Int }"},
                           {"op": "camel", "on": 1}, {"op": "extend", "on": 2, "doc": "extend enum E { C }"}],
                     decor_seed=4))
    # extension documents: a type / directive defined twice in the document is an ExtensionError
    # (fix C11-09; it used to replace the first definition silently) -> rejected, later steps skipped
    out.append(_case(W32, [{"op": "extend", "on": 0, "doc":
                            "input NewIn { a_b: Int = 2, c: String }\ndirective @added(x: NewIn, y_z: Int) on FIELD\n"
                            "input NewIn { a_b: Int = 2, c: In2 }\ndirective @added(x: NewIn) on QUERY\n"
                            "type NewMut { do_it(v: Int = 1): Foo }\nextend schema { mutation: NewMut }\n"
                            "extend union U = Orphan\nextend enum E { \"added\" C @deprecated }"},
                           {"op": "camel", "on": 1}, {"op": "clone", "on": 0}], decor_seed=5))
    # the same document without the repeated definitions: accepted
    out.append(_case(W32, [{"op": "extend", "on": 0, "doc":
                            "input NewIn { a_b: Int = 2, c: In2 }\ndirective @added(x: NewIn, y_z: Int) on FIELD | QUERY\n"
                            "type NewMut { do_it(v: Int = 1): Foo }\nextend schema { mutation: NewMut }\n"
                            "extend union U = Orphan\nextend enum E { \"added\" C @deprecated }"},
                           {"op": "camel", "on": 1}, {"op": "clone", "on": 0}], decor_seed=5))
    # camel-casing two members onto the same name: both reappear, transform_schema's validate() refuses
    out.append(_case(W32.replace("other_field: E", "other_field: E, otherField: Int")
                        .replace("bar(a: Int = 3, snake_arg: In)", "bar(a: Int = 3, snake_arg: In, snakeArg: Int)"),
                     [{"op": "camel", "on": 0}, {"op": "clone", "on": 0}]))
    # visibility: hiding a type drops fields, arguments, input fields, members referring to it
    out.append(_case(W32, [dict(_NOVIS, op="vis", on=0, types=["In2", "Bar"]),
                           dict(_NOVIS, op="vis", on=1, types=["E"], inplace=True),
                           {"op": "camel", "on": 1, "inplace": True}]))
    # seeded C14-b: a predicate answering False for specified scalars / introspection types must not
    # hide anything (_is_type_visible short-circuits; on_input_field judges the *referenced* type)
    out.append(_case(W32, [dict(_NOVIS, op="vis", on=0, types=["Int", "String", "__Type"])]))
    out.append(_case(W32, [dict(_NOVIS, op="vis", on=0, types=["Int", "ID", "Boolean", "Float", "__Schema", "Orphan"]),
                           dict(_NOVIS, op="vis", on=1, types=["String", "E"], inplace=True)]))
    out.append(_case(W32, [dict(_NOVIS, op="vis", on=0, args=["a"], enum_values=["B"], directives=["meta"],
                                input_fields=[["In", "x"]])]))
    out.append(_case(W32.replace("bar(a: Int = 3", 'bar(a: Int = 3 @rename(to: "renamed_a")')
                     .replace("other_field: E", 'other_field: E @rename(to: "o_f") @remove')
                     .replace("on FIELD_DEFINITION", "on FIELD_DEFINITION | ARGUMENT_DEFINITION"),
                     [{"op": "sdir", "on": 0}, {"op": "sdir", "on": 1, "inplace": True}, {"op": "camel", "on": 1}]))
    # seeded C14-e: extending a clone / a transform with type extensions that carry schema directives must
    # not record the extension nodes (and their directives) on the source or on its other clones: the
    # `nodes` lists are shared by clone() and the visitor rebuilds
    W32E = W32.replace("directive @remove on FIELD_DEFINITION",
                       "directive @remove on FIELD_DEFINITION | OBJECT | INTERFACE | UNION | ENUM | INPUT_OBJECT | SCALAR"
                       "\nscalar Sc")
    EXT = ('extend type Foo @remove { secret: String }\nextend interface Node @remove { extra_n: Int }\n'
           'extend enum E @remove { C }\nextend input In2 @remove { r: Int }\nextend union U @remove = Orphan\n'
           'extend scalar Sc @remove')
    out.append(_case(W32E, [{"op": "clone", "on": 0}, {"op": "extend", "on": 1, "doc": EXT},
                            {"op": "sdir", "on": 0}, {"op": "extend", "on": 0, "doc": "extend type Bar { n: Int }"},
                            {"op": "sdir", "on": 4}]))
    # seeded C14-h: a derived map (InputObjectType.field_map) filled by using the source before it is
    # cloned / transformed must not survive into the derived schema
    out.append(_case(W32, [dict(_NOVIS, op="vis", on=0, input_fields=[["In", "x"], ["In2", "q"]], use=True),
                           dict(_NOVIS, op="clone", on=0, use=True),
                           dict(_NOVIS, op="vis", on=2, input_fields=[["In", "y_z"]], use=True)]))
    # seeded C14-i: the same Document objects are validated / executed before and after IN-PLACE transforms
    # that rebuild types named in them (the memo of get_type_from_literal is keyed by node identity)
    W32Q = W32.replace("type Query { foo: Foo, u: U, node: Node, v: V }",
                       "type Query { foo: Foo, u: U, node: Node, v: V, find(flt: In, e: E = A): Foo }")
    out.append(_case(W32Q, [dict(_NOVIS, op="clone", on=0, use=True),
                            dict(_NOVIS, op="vis", on=1, input_fields=[["In", "x"]], fields=[["Foo", "other_field"]],
                                 inplace=True, use=True),
                            {"op": "camel", "on": 1, "inplace": True, "use": True},
                            {"op": "sdir", "on": 1, "inplace": True, "use": True}]))
    # seeded C14-g: an explicit `= null` default (has_default_value, value None) of a field argument, an
    # input field or a directive argument must survive extend_schema -- an unrelated and a related extension
    W32N = (W32.replace("bar(a: Int = 3, snake_arg: In)", "bar(a: Int = null, snake_arg: In = null, l: [Int] = null, en: E = null)")
               .replace("input In { x: Int = 1, y_z: [In2] }", "input In { x: Int = null, y_z: [In2] = null, s: String = null }")
               .replace("directive @meta(e: OnlyDir = P, n: Int = 3)", "directive @meta(e: OnlyDir = null, n: Int = null)"))
    out.append(_case(W32N, [{"op": "extend", "on": 0, "doc": "extend type Query { version: Int }"},
                            {"op": "extend", "on": 0, "doc": "extend type Foo { z(q: [Int] = null, w: Int): Int }\n"
                                                              "extend input In { extra: Int = null }"},
                            {"op": "clone", "on": 1}, {"op": "camel", "on": 2}]))
    out.append(_case(W32E, [dict(_NOVIS, op="vis", on=0, types=["Orphan"]), {"op": "camel", "on": 0},
                            {"op": "extend", "on": 1, "doc": "extend type Foo @remove { secret: String }"},
                            {"op": "extend", "on": 2, "doc": "extend enum E @remove { C }"},
                            {"op": "sdir", "on": 1}, {"op": "clone", "on": 0}]))
    return out


def generate(rng, tier):
    n = 75 if tier == "quick" else 900
    cases = []
    for _ in range(n):
        sdl = gen_store.gen_schema_sdl(rng)
        case = {"sdl": sdl, "decor_seed": rng.randint(0, 10 ** 6), "steps": []}
        try:
            src = build_source(case)
        except GraphQLError:
            continue
        dump = ser_store.dump_schema(src)
        case["steps"] = gen_store.gen_steps(rng, dump)
        cases.append(case)
    return cases


def nontrivial(case, obs):
    for step, so in zip(case["steps"], obs["steps"]):
        d = dict((k, v) for k, v in so["dumps"])
        if so["status"] in ("ok", "invalid") and len(so["dumps"]) >= 2:
            if so["dumps"][-1][1] != d.get(step["on"], None) or step.get("inplace"):
                return True
    return False


def canonical(case):
    return json.dumps(case, sort_keys=True)


def classify(case, obs):
    return "model-agreement: observe dumps of source / target / result after every step", None


def shrink(case, is_bad):
    steps = list(case["steps"])
    changed = True
    while changed and len(steps) > 1:
        changed = False
        for i in range(len(steps) - 1, -1, -1):
            # dropping step i shifts later references
            cand = []
            ok = True
            for j, s in enumerate(steps):
                if j == i:
                    continue
                s = dict(s)
                if s["on"] == i + 1:
                    ok = False
                    break
                if s["on"] > i + 1:
                    s["on"] -= 1
                cand.append(s)
            if not ok:
                continue
            c2 = dict(case, steps=cand)
            if is_bad(c2):
                steps = cand
                changed = True
                break
    return dict(case, steps=steps)


def extra_evidence(cases, obss):
    ops, statuses, inplace, lens = {}, {}, 0, {}
    for c, o in zip(cases, obss):
        lens[len(c["steps"])] = lens.get(len(c["steps"]), 0) + 1
        for s, so in zip(c["steps"], o.get("steps", [])):
            ops[s["op"]] = ops.get(s["op"], 0) + 1
            statuses[so["status"]] = statuses.get(so["status"], 0) + 1
            inplace += 1 if s.get("inplace") else 0
    ts_fail = sum(1 for o in obss for so in o.get("steps", []) if "to_string_exc" in so.get("result_probe", {}))
    order = [sum(1 for o in obss for so in o.get("steps", []) if so.get("clone_order_same") is True),
             sum(1 for o in obss for so in o.get("steps", []) if "clone_order_same" in so)]
    shared = sum(1 for o in obss for so in o.get("steps", []) if so.get("shared_nodes_lists"))
    with_res = sum(1 for o in obss for so in o.get("steps", []) if "shared_nodes_lists" in so)
    return {"result_to_string_failures_not_demanded_by_C14": ts_fail,
            "results_sharing_nodes_list_objects_with_the_source_not_a_violation": [shared, with_res],
            "clones_listing_types_and_directives_in_the_order_of_their_source": order,
            "distribution": {"operations": ops, "step_status": statuses, "in_place_steps": inplace,
                             "history_lengths": lens,
                             "heap_objects_mean": round(sum(len(o["init"]["objs"]) for o in obss if "init" in o)
                                                        / max(1, len(obss)), 1)}}
