# -*- coding: utf-8 -*-
"""C13 -- schema validation accepts valid schemas and rejects each rule violation."""
import collections
import copy
import itertools
import json
import re

from py_gql import schema as S
from py_gql.exc import SchemaError, SchemaValidationError, UnknownType
from py_gql.schema.validation import SchemaValidator, validate_schema

from .. import ser
from .. import gen_schema_full as G

PROP = "C13"
THEOREMS = ["C13_subtype", "C13_signature", "C13_memo", "C13_perm", "C13_verdict", "C13_all_reported_partial",
            "C13_all_reported", "C13_structural_mode", "C13_errors_sound",
            "C13_verdict_member_order", "C13_errors_sound_by_label", "C13_claims_reported"]
AXIOMS_OK = []
RUN_MODULE = "Run.C13run Schema.SchemaFull Schema.SchemaValidateModel Spec.SchemaValidSpec"
AGREE = "agree_C13"
CASE_TYPE = "case_C13"
SHARD = 80
LEVEL_NOTE = ("Theorems are about the Gallina model Schema/SchemaValidateModel.v of schema/validation.py, "
              "Schema.is_subtype/is_possible_type and the _is_valid memo (after fixes C13-01..04) over the "
              "by-name schema model Schema/SchemaFull.v; the model is tied to /repo by running both on "
              "generated schemas, histories, type pairs and resolver signatures on every run. "
              "Direct validate_schema(.., enable_resolver_validation=b) calls are part of the histories. "
              "inspect.signature is trusted to describe a callable; assignment to Schema.default_resolver "
              "is a history operation (it resets the memo after fix C13-05).")
RULE = ("valid generated schemas over all six kinds (code- and SDL-built, wrappers to depth 3) with 0-4 "
        "labelled rule violations from 33 invalidators, each schema validated in default and in structural mode,  type-order permutations, resolvers from the "
        "signature grid on fields / object defaults; register/validate histories incl. direct "
        "validate_schema calls with enable_resolver_validation on and off; is_subtype on all type "
        "pairs of bounded depth over a 7-type schema; resolver signatures x argument sets with every "
        "allowed call shape performed; non-trivial = schema/history case that reached the validator; "
        "distinct = distinct case JSON")

_P = lambda s: s.split(".")  # noqa: E731
# message -> (label, subject); kept in step with the label comments of
# coq/Schema/SchemaValidateModel.v. An unmapped message is reported.
MESSAGES = [
    (r'Must provide Query type', "LMustProvideQuery", lambda m: []),
    (r'Query must be ObjectType but got "(.*)"', "LQueryNotObject", lambda m: [m[1]]),
    (r'Mutation must be ObjectType but got "(.*)"', "LMutationNotObject", lambda m: [m[1]]),
    (r'Subscription must be ObjectType but got "(.*)"', "LSubscriptionNotObject", lambda m: [m[1]]),
    (r'Invalid type name "(.*)"', "LInvalidTypeName", lambda m: [m[1]]),
    (r'Invalid name "(.*)"\.', "LInvalidName", lambda m: [m[1]]),
    (r'Type "(.*)" must define at least one field', "LNoFields", lambda m: [m[1]]),
    (r'Duplicate field "(.*)" on "(.*)"', "LDuplicateField", lambda m: [m[2], m[1]]),
    (r'Expected output type for field "(.*)" on "(.*)" but got "(.*)"', "LFieldNotOutput", lambda m: [m[2], m[1]]),
    (r'Duplicate argument "(.*)" on directive "@(.*)"', "LDirDuplicateArg", lambda m: [m[2], m[1]]),
    (r'Duplicate argument "(.*)" on "(.*)"', "LDuplicateArg", lambda m: _P(m[2]) + [m[1]]),
    (r'Expected input type for argument "(.*)" on directive "@(.*)" but got "(.*)"', "LDirArgNotInput",
     lambda m: [m[2], m[1]]),
    (r'Expected input type for argument "(.*)" on "(.*)" but got "(.*)"', "LArgNotInput",
     lambda m: _P(m[2]) + [m[1]]),
    (r'Expected input type for field "(.*)" on "(.*)" but got "(.*)"', "LInputFieldNotInput", lambda m: [m[2], m[1]]),
    (r'Missing resolver parameter for argument "(.*)" on "(.*)"', "LResMissing", lambda m: _P(m[2]) + [m[1]]),
    (r'Resolver parameter for argument "(.*)" on "(.*)" must not be positional only', "LResPosOnly",
     lambda m: _P(m[2]) + [m[1]]),
    (r'Resolver parameter for optional argument "(.*)" on "(.*)" must have a default', "LResNeedsDefault",
     lambda m: _P(m[2]) + [m[1]]),
    (r'Resolver for "(.*)" must accept 3 positional parameters, found \((.*)\)', "LResPositional",
     lambda m: _P(m[1])),
    (r'Required resolver parameter "(.*)" on "(.*)" does not match any known argument or expected '
     r'positional parameter', "LResExtraRequired", lambda m: _P(m[2]) + [m[1]]),
    (r'Type "(.*)" mut only implement interface "(.*)" once', "LInterfaceTwice", lambda m: [m[1], m[2]]),
    (r'Type "(.*)" can only implement interface types but got "(.*)"', "LNotInterface", lambda m: [m[1], m[2]]),
    (r'Interface field "(.*)" is not implemented by type "(.*)"', "LIfaceFieldMissing", lambda m: [m[2]] + _P(m[1])),
    (r'Interface field "(.*)" expects type "(.*)" but "(.*)" is type "(.*)"', "LIfaceFieldType",
     lambda m: [_P(m[3])[0]] + _P(m[1])),
    (r'Interface field argument "(.*)" is not provided by "(.*)"', "LIfaceArgMissing",
     lambda m: [_P(m[2])[0]] + _P(m[1])),
    (r'Interface field argument "(.*)" expects type "(.*)" but "(.*)" is type "(.*)"', "LIfaceArgType",
     lambda m: [_P(m[3])[0]] + _P(m[1])),
    (r'Object field argument "(.*)" is of required type "(.*)" but is not provided by interface field "(.*)"',
     "LIfaceExtraRequiredArg", lambda m: [_P(m[1])[0]] + _P(m[3]) + [_P(m[1])[2]]),
    (r'UnionType "(.*)" must at least define one member', "LUnionEmpty", lambda m: [m[1]]),
    (r'UnionType "(.*)" expects object types but got "(.*)"', "LUnionMemberNotObject", lambda m: [m[1], m[2]]),
    (r'UnionType "(.*)" can only include type "(.*)" once', "LUnionMemberTwice", lambda m: [m[1], m[2]]),
    (r'EnumType "(.*)" must at least define one value', "LEnumEmpty", lambda m: [m[1]]),
]
MESSAGES = [(re.compile("^" + r + "$", re.S), l, f) for r, l, f in MESSAGES]


def label_of(msg):
    for rx, label, subj in MESSAGES:
        m = rx.match(msg)
        if m:
            return [label, subj(m)]
    return ["UNMAPPED", [msg[:200]]]


def _errors(errs):
    return sorted(label_of(str(e)) for e in errs)


def _validate(sch, **kw):
    """(observable of validate_schema on the current state)"""
    try:
        validate_schema(sch, **kw)
        return {"accept": True}
    except SchemaValidationError as e:
        return {"errors": _errors(e.errors)}
    except Exception as e:  # noqa
        return {"exc": type(e).__name__, "msg": str(e)[:300]}


# ------------------------------------------------------------------ the subtype schema
SUB_SPEC = {
    "types": [
        {"kind": "object", "name": "Query", "interfaces": [], "default_resolver": None, "fields": [
            {"name": "a", "type": G.N("A"), "args": [], "depr": None, "resolver": None},
            {"name": "b", "type": G.N("B"), "args": [], "depr": None, "resolver": None},
            {"name": "u", "type": G.N("U"), "args": [], "depr": None, "resolver": None},
            {"name": "e", "type": G.N("E"), "args": [], "depr": None, "resolver": None}]},
        {"kind": "interface", "name": "I", "fields": [
            {"name": "x", "type": G.N("Int"), "args": [], "depr": None, "resolver": None}]},
        {"kind": "interface", "name": "J", "fields": [
            {"name": "x", "type": G.N("Int"), "args": [], "depr": None, "resolver": None}]},
        {"kind": "object", "name": "A", "interfaces": ["I"], "default_resolver": None, "fields": [
            {"name": "x", "type": G.N("Int"), "args": [], "depr": None, "resolver": None}]},
        {"kind": "object", "name": "B", "interfaces": ["I", "J"], "default_resolver": None, "fields": [
            {"name": "x", "type": G.N("Int"), "args": [], "depr": None, "resolver": None}]},
        {"kind": "union", "name": "U", "members": ["B"]},
        {"kind": "enum", "name": "E", "values": [{"name": "V", "depr": None}]},
    ],
    "directives": [], "query": "Query", "mutation": None, "subscription": None,
    "default_resolver": None, "via": "code"}
SUB_NAMES = ["A", "B", "I", "J", "U", "E", "Int"]
_SUB = {}


def _sub_schema():
    if "s" not in _SUB:
        _SUB["s"] = G.build_code(SUB_SPEC)
    return _SUB["s"]


def _sub_type(t):
    sch = _sub_schema()
    if t[0] == "N":
        return sch.types[t[1]]
    return (S.ListType if t[0] == "L" else S.NonNullType)(_sub_type(t[1]))


def _header():
    sch = _sub_schema()
    return G.coq_header() + "Definition sub_types : list type_def := s_types %s.\n" % G.cschema(sch)


EXTRA_HEADER = _header()


# ------------------------------------------------------------------ cases
def _sig_schema(sig, args):
    """one field Query.f(args): Int carrying the resolver"""
    return {"types": [{"kind": "object", "name": "Query", "interfaces": [], "default_resolver": None, "fields": [
        {"name": "f", "type": G.N("Int"), "depr": None, "resolver": sig,
         "args": [{"name": a[0], "type": G.parse_type(a[1]), "default": a[2], "pyname": (a[3] if len(a) > 3 else None)}
                  for a in args]}]}],
        "directives": [], "query": "Query", "mutation": None, "subscription": None,
        "default_resolver": None, "via": "code"}


def _mini(types, via="code", **kw):
    sp = {"types": types, "directives": [], "query": "Query", "mutation": None, "subscription": None,
          "default_resolver": None, "via": via}
    sp.update(kw)
    return sp


def _obj(name, fields, interfaces=(), dr=None):
    return {"kind": "object", "name": name, "interfaces": list(interfaces), "default_resolver": dr,
            "fields": [{"name": n, "type": (G.parse_type(t) if isinstance(t, str) else t), "depr": None, "resolver": r,
                        "args": [{"name": a, "type": G.parse_type(at), "default": None} for a, at in args]}
                       for n, t, args, r in fields]}


R3 = [["root", "PK", False], ["ctx", "PK", False], ["info", "PK", False]]


def corpus():
    out = []
    q = _obj("Query", [("a", "Int", [], None)])
    # row 39 / fix C13-01: input object field names
    out.append({"kind": "schema", "injected": [["LInvalidName", ["bad-name"]]], "spec": _mini([
        _obj("Query", [("a", "Int", [("x", "I")], None)]),
        {"kind": "input", "name": "I", "fields": [{"name": "bad-name", "type": G.N("Int"), "default": None}]}])})
    # row 29 / fix C13-02: implements a scalar / an object / a union
    for other in ({"kind": "scalar", "name": "Sc"}, _obj("Other", [("a", "Int", [], None)]),
                  {"kind": "union", "name": "Un", "members": ["Query"]}):
        out.append({"kind": "schema", "injected": [["LNotInterface", ["Query", other["name"]]]],
                    "spec": _mini([_obj("Query", [("a", "Int", [], None)], interfaces=[other["name"]]), other])})
    out.append({"kind": "schema", "injected": [["LNotInterface", ["Query", "Sc"]]],
                "spec": _mini([_obj("Query", [("a", "Int", [], None)], interfaces=["Sc"]),
                               {"kind": "scalar", "name": "Sc"}], via="sdl")})
    # fix C13-04: names ending in a newline
    out.append({"kind": "schema", "injected": [["LInvalidName", ["a\n"]]],
                "spec": _mini([_obj("Query", [("a\n", "Int", [], None)])])})
    out.append({"kind": "schema", "injected": [["LInvalidTypeName", ["T\n"]]],
                "spec": _mini([_obj("Query", [("a", ["N", "T\n"], [], None)]), _obj("T\n", [("a", "Int", [], None)])])})
    # seeded C13-f: \w in the name pattern is Unicode-aware; these are not GraphQL names
    for nm in ("caf\u00e9", "size\u0663", "a\uff3fb", "e\u0301x"):
        out.append({"kind": "schema", "injected": [["LInvalidName", [nm]]], "single": True,
                    "spec": _mini([_obj("Query", [(nm, "Int", [("x", "Int")], None)])])})
        out.append({"kind": "schema", "injected": [["LInvalidName", [nm]]], "single": True,
                    "spec": _mini([_obj("Query", [("a", "Int", [(nm, "Int")], None)])])})
    out.append({"kind": "schema", "injected": [["LInvalidTypeName", ["Typ\u00e9"]]], "single": True,
                "spec": _mini([_obj("Query", [("a", ["N", "Typ\u00e9"], [], None)]),
                               _obj("Typ\u00e9", [("a", "Int", [], None)])])})
    # fix C13-03: resolver signatures the unrepaired check got wrong
    for sig, args in [
        ([["root", "PK", False], ["ctx", "PK", False], ["info", "PK", False], ["x", "VP", False]], [["x", "Int!", None]]),
        ([["root", "PK", False], ["ctx", "PK", False], ["info", "PK", False], ["kwargs", "VK", False]], [["kwargs", "Int", None]]),
        ([["root", "PK", False], ["ctx", "PK", False], ["x", "PK", False], ["info", "PK", False]], [["x", "Int!", None]]),
        ([["x", "PK", False], ["a", "VP", False]], [["x", "Int!", None]]),
        ([["a", "VP", False], ["extra", "KO", False]], []),
        ([["root", "PK", False], ["a", "VP", False], ["k1", "KO", False], ["k2", "KO", False], ["k3", "KO", False]], []),
        (R3, []), (R3 + [["kw", "VK", False]], [["a", "Int", None]]),
        # round j (C13-j): the python name, not the GraphQL name, is what must not collide with root/ctx/info
        (R3, [["pageSize", "Int!", None, "info"]]), (R3, [["pageSize", "Int", None, "ctx"]]),
        (R3 + [["kw", "VK", False]], [["pageSize", "Int!", None, "root"]]),
        (R3 + [["page_size", "PK", False]], [["pageSize", "Int!", None, "page_size"]]),
        (R3 + [["page_size", "PK", False]], [["info", "Int!", None, "page_size"]]),
        (R3 + [["kw", "VK", False]], [["ctx", "Int", None, "context"]]),
        (R3 + [["pageSize", "PK", False]], [["pageSize", "Int!", None, "page_size"]]),
    ]:
        out.append({"kind": "sig", "sig": sig, "args": args})
    # memo: resolver reassigned between validate() calls
    bad = [["root", "PK", False]]
    sp = _mini([_obj("Query", [("a", "Int", [("x", "Int")], None)])])
    out.append({"kind": "history", "spec": sp, "ops": [
        ["validate"], ["resolver", "Query", "a", bad, False], ["validate"],
        ["resolver", "Query", "a", R3 + [["x", "PK", True]], True], ["validate"],
        ["default", "Query", bad, False], ["validate"], ["resolver", "Query", "*", R3, False],
        ["subscription", "Query", "a", False], ["validate"], ["resolver", "Nope", "a", R3, False],
        ["resolver", "Query", "nope", R3, False], ["validate"]]})
    # a structural-only validate_schema must not make the next validate() accept a bad resolver
    out.append({"kind": "history", "spec": sp, "ops": [
        ["resolver", "Query", "a", bad, True], ["validate_schema", False], ["validate"],
        ["validate_schema", True], ["validate"]]})
    out.append({"kind": "history", "spec": sp, "ops": [
        ["validate"], ["default", "Query", bad, True], ["validate_schema", False], ["validate"]]})
    # seeded C13-i: an ill-formed field name must not stop the other checks of that field
    inp_i = {"kind": "input", "name": "In", "fields": [{"name": "a", "type": G.N("Int"), "default": None}]}
    q_i = _obj("Query", [("ok", "Int", [], None), ("bad-name", "In", [("__a", "Query")], [["root", "PK", False]]),
                         ("bad-name", "Int", [], None)])
    out.append({"kind": "schema", "stacked": ["field", "type", "argname", "argtype", "resolver", "dup"],
                "injected": [["LInvalidName", ["bad-name"]], ["LFieldNotOutput", ["Query", "bad-name"]],
                             ["LInvalidName", ["__a"]], ["LArgNotInput", ["Query", "bad-name", "__a"]],
                             ["LResPositional", ["Query", "bad-name"]], ["LDuplicateField", ["Query", "bad-name"]]],
                "spec": _mini([q_i, inp_i])})
    out.append({"kind": "schema", "stacked": ["field", "dup"],
                "injected": [["LInvalidName", ["__f"]], ["LDuplicateField", ["Query", "__f"]]],
                "spec": _mini([_obj("Query", [("__f", "Int", [], None), ("__f", "Int", [], None)])])})
    # seeded C13-h: the validator must see through functools.wraps pass-through decorators
    badw = [["root", "PK", False], ["ctx", "PK", False], ["info", "PK", False]]       # lacks the argument x
    for shape in ("wrapped", "wrapped2"):
        out.append({"kind": "sig", "sig": badw, "args": [["x", "Int!", None]], "shape": shape})
        out.append({"kind": "history", "spec": dict(sp, shape_seed=_seed_for(badw, shape)), "ops": [
            ["resolver", "Query", "a", R3 + [["x", "PK", True]], False], ["validate"],
            ["resolver", "Query", "a", badw, True], ["validate"],
            ["default", "Query", badw, False], ["validate"]]})
    # DESIGN section 6 row 39, second half / fix C13-05: schema.default_resolver = f
    out.append({"kind": "history", "spec": sp, "ops": [
        ["validate"], ["assign_default", bad], ["validate"], ["assign_default", R3 + [["kw", "VK", False]]],
        ["validate"]]})
    return out


def _seed_for(sig, shape):
    """a shape seed under which [sig] is presented as [shape]"""
    for seed in range(1, len(G.SHAPES) + 1):
        if G.shape_for(sig, seed) == shape:
            return seed
    raise ValueError(shape)


def _with_resolvers(rng, spec):
    """attach resolvers from the grid to some fields / object defaults; most of the time the
    callables are presented in other shapes than bare functions (functools.wraps pass-through
    decorators, partial, bound / class / static methods, callable objects, lambdas)"""
    sp = copy.deepcopy(spec)
    if rng.random() < 0.7:
        sp["shape_seed"] = rng.randint(1, 10 ** 6)
    for td in sp["types"]:
        if td["kind"] not in ("object", "interface"):
            continue
        for f in td["fields"]:
            if rng.random() < 0.3:
                f["resolver"] = _good_or_random_sig(rng, f["args"])
        if td["kind"] == "object" and rng.random() < 0.2:
            td["default_resolver"] = rng.choice([R3 + [["kw", "VK", False]], R3, G.gen_sig(rng, [])])
    if rng.random() < 0.1:
        sp["default_resolver"] = rng.choice([R3 + [["kw", "VK", False]], R3, [["a", "VP", False], ["k", "VK", False]]])
    return sp


def _good_or_random_sig(rng, args):
    names = [a["name"] for a in args]
    plain = len(set(names)) == len(names) and all(
        n.isascii() and n.isidentifier() and n not in ("root", "ctx", "info") for n in names)
    if not plain:
        return list(R3) + [["kwargs", "VK", False]] if rng.random() < 0.7 else list(R3)
    if rng.random() < 0.5:
        sig = list(R3)
        order = list(args)
        rng.shuffle(order)
        style = rng.choice(["PK", "KO", "VK"])
        if style == "VK":
            return sig + [["kwargs", "VK", False]]
        req = [a for a in order if a["default"] is not None or a["type"][0] == "NN"]
        opt = [a for a in order if a not in req]
        return sig + [[a["name"], style, False] for a in req] + [[a["name"], style, True] for a in opt]
    return G.gen_sig(rng, names)


def _history(rng, spec):
    objs = [t for t in spec["types"] if t["kind"] == "object"]
    others = [t["name"] for t in spec["types"] if t["kind"] != "object"]
    ops = []
    for _ in range(rng.randint(3, 9)):
        r = rng.random()
        td = rng.choice(objs)
        tn = td["name"] if rng.random() < 0.85 else rng.choice(others + ["Nope"])
        fnames = [f["name"] for f in td["fields"]]
        fn = rng.choice(fnames) if fnames and rng.random() < 0.85 else rng.choice(["*", "nope"])
        f = next((x for x in td["fields"] if x["name"] == fn), None)
        allow = rng.random() < 0.6
        if r < 0.25:
            ops.append(["validate"])
        elif r < 0.40:
            # direct validate_schema calls, mostly structural-only, usually followed by validate()
            ops.append(["validate_schema", rng.random() < 0.3])
            if rng.random() < 0.7:
                ops.append(["validate"])
        elif r < 0.46:
            ops.append(["assign_default", rng.choice([R3 + [["kw", "VK", False]], R3, [["root", "PK", False]], None])])
        elif r < 0.75:
            sig = _good_or_random_sig(rng, f["args"] if f else [])
            ops.append(["resolver", tn, fn, sig, allow])
        elif r < 0.9:
            ops.append(["default", tn, rng.choice([R3 + [["kw", "VK", False]], R3, [["root", "PK", False]]]), allow])
        else:
            ops.append(["subscription", tn, fn if fn != "*" else "nope", allow])
    ops.append(["validate"])
    return ops


def _buildable(spec):
    try:
        G.build(spec)
        return True
    except Exception:
        return False


def generate(rng, tier):
    quick = tier == "quick"
    cases = []
    n_base = 60 if quick else 400
    for i in range(n_base):
        via = "code" if i % 3 else "sdl"
        base = G.gen_valid_spec(rng, via)
        if not _buildable(base):
            continue
        cases.append({"kind": "schema", "spec": base, "injected": []})
        cases.append({"kind": "schema", "spec": G.permute_types(rng, base), "injected": []})
        code = dict(base, via="code")
        # resolvers
        cases.append({"kind": "schema", "spec": _with_resolvers(rng, code), "injected": []})
        # single and multiple labelled violations
        for _ in range(4 if quick else 6):
            n = 1 if rng.random() < 0.6 else rng.randint(2, 4)
            cur, inj = (code if rng.random() < 0.8 else base), []
            for _ in range(n):
                kind = rng.choice(G.INVALIDATORS)
                if cur.get("via") == "sdl" and kind.startswith("bad_"):
                    continue    # names are re-tokenised by the SDL parser ("ok\n" is the name "ok")
                r = G.invalidate(rng, cur, kind)
                if r is not None:
                    cur, lab = r
                    inj.append(lab)
            if not inj or not _buildable(cur):
                continue
            if rng.random() < 0.3:
                cur = G.permute_types(rng, cur)
            if rng.random() < 0.2:
                cur = _with_resolvers(rng, cur)
            cases.append({"kind": "schema", "spec": cur, "injected": inj, "single": n == 1 and len(inj) == 1})
        # histories
        if i % 2 == 0:
            sp = _with_resolvers(rng, code) if rng.random() < 0.4 else (
                dict(code, shape_seed=rng.randint(1, 10 ** 6)) if rng.random() < 0.6 else code)
            cases.append({"kind": "history", "spec": sp, "ops": _history(rng, sp)})
    # a resolver only the signature rule rejects, then a structural-only validate_schema, then validate()
    bad_sigs = [[["root", "PK", False]], R3 + [["extra", "PK", False]], [["ctx", "KO", False]]]
    for i in range(8 if quick else 60):
        base = dict(G.gen_valid_spec(rng, "code"), via="code")
        if not _buildable(base):
            continue
        objs = [t for t in base["types"] if t["kind"] == "object" and t["fields"]]
        td = rng.choice(objs)
        pre = [["validate"]] if i % 2 else []
        reg = (["resolver", td["name"], rng.choice(td["fields"])["name"], rng.choice(bad_sigs), True]
               if i % 3 else ["default", td["name"], rng.choice(bad_sigs), True])
        cases.append({"kind": "history", "spec": base, "ops": pre + [
            reg, ["validate_schema", False], ["validate"], ["validate_schema", True], ["validate"]]})
    # schema-wide default resolver reassigned between validate() calls
    for i in range(6 if quick else 40):
        base = dict(G.gen_valid_spec(rng, "code"), via="code")
        if not _buildable(base):
            continue
        good, badr = R3 + [["kw", "VK", False]], rng.choice([[["root", "PK", False]], R3])
        cases.append({"kind": "history", "spec": base, "ops": [
            ["validate"], ["assign_default", badr], ["validate"], ["assign_default", good], ["validate"],
            ["assign_default", None], ["validate"]][(i % 2):]})
    # names that start like a name and go on with a non-ASCII letter / digit / connector, at every
    # name position (type, field, argument, input field, enum value, directive, directive argument)
    name_kinds = [k for k in G.INVALIDATORS if k.startswith("bad_")]
    for k in name_kinds:
        pool = [n for n in (G.BAD_TYPE_NAMES if k == "bad_type_name" else G.UNICODE_BAD_NAMES)
                if any(ord(c) > 127 for c in n)]
        for nm in (pool if not quick else rng.sample(pool, min(3, len(pool)))):
            for _ in range(40):
                base = G.gen_valid_spec(rng, "code")
                r = G.invalidate(rng, base, k, name=nm)
                if r is None or not _buildable(r[0]):
                    continue
                cases.append({"kind": "schema", "spec": r[0], "injected": [r[1]], "single": True})
                break
    # several violations stacked on ONE member, one of them its ill-formed name: everything must be
    # reported together (a bad name masks nothing)
    subsets = [list(c) for r in range(1, len(G.FIELD_STACK) + 1) for c in itertools.combinations(G.FIELD_STACK, r)]
    plan = [("field", sub) for sub in (subsets if not quick else rng.sample(subsets, 12))]
    for tgt in ("input_field", "arg", "dir_arg"):
        plan += [(tgt, sub) for sub in (["type"], ["dup"], ["type", "dup"])]
    plan += [("enum_value", []), ("enum_value", ["x"]), ("field", [])]
    for tgt, sub in plan * (1 if quick else 4):
        for _ in range(40):
            base = G.gen_valid_spec(rng, "code")
            r = G.stack_on_member(rng, base, tgt, sub)
            if r is None or not _buildable(r[0]):
                continue
            cases.append({"kind": "schema", "spec": r[0], "injected": r[1], "stacked": [tgt] + sub})
            break
    # every invalidator a few times on its own
    for k in G.INVALIDATORS:
        got = 0
        for _ in range(80):
            if got >= (2 if quick else 10):
                break
            base = G.gen_valid_spec(rng, "code")
            r = G.invalidate(rng, base, k)
            if r is None or not _buildable(r[0]):
                continue
            cases.append({"kind": "schema", "spec": r[0], "injected": [r[1]], "single": True})
            got += 1
    # covariance through nestings: interface field type x object field type, all pairs of bounded depth
    depth = 2 if quick else 3
    allw = [w for nme in SUB_NAMES for w in G.all_wrappings(nme, depth)]
    pairs = [(t, u) for t in allw for u in allw]
    if quick:
        pairs = rng.sample(pairs, 500) + [(t, u) for t in allw for u in allw
                                           if G.tbase(t) in ("A", "B") and G.tbase(u) in ("I", "U", "J")][:300]
    for t, u in pairs:
        cases.append({"kind": "subtype", "t": t, "u": u})
    # resolver signatures
    sigs = G.core_sig_grid()
    if quick:
        sigs = rng.sample(sigs, 120)
    for sig in sigs:
        for args in (G.ARG_SETS[:4] if quick else G.ARG_SETS):
            cases.append({"kind": "sig", "sig": sig, "args": args})
    for _ in range(300 if quick else 4000):
        args = rng.choice(G.ARG_SETS)
        if rng.random() < 0.5:
            sig = G.gen_sig(rng, [a[0] for a in args])
        else:   # near-misses of a signature that fits the arguments
            sig = _good_or_random_sig(rng, [{"name": a[0], "type": G.parse_type(a[1]), "default": a[2]} for a in args])
            r = rng.random()
            if r < 0.2 and len(sig) > 3:
                sig = sig[:3] + [[p[0], p[1], not p[2]] if i == 0 and p[1] in ("PK", "KO") else p
                                 for i, p in enumerate(sig[3:])]
            elif r < 0.3:
                sig = sig[1:]
            elif r < 0.4 and sig:
                sig = [sig[0]] + [["extra", "PK", False]] + sig[1:]
            if not G.sig_valid_python(sig):
                sig = G.gen_sig(rng, [a[0] for a in args])
        cases.append({"kind": "sig", "sig": sig, "args": args})
    # every signature case is presented in one of the resolver shapes
    k = 0
    for c in cases:
        if c["kind"] == "sig":
            c["shape"] = G.SHAPES[k % len(G.SHAPES)]
            k += 1
    # good -> bad -> good registrations of a field resolver and of a type default resolver, the bad one
    # (and the good ones) in every shape
    goodr = R3 + [["x", "PK", True]]
    for shape in G.SHAPES:
        for badr in ([["root", "PK", False], ["ctx", "PK", False], ["info", "PK", False]], [["root", "PK", False]]):
            sp = dict(_mini([_obj("Query", [("a", "Int", [("x", "Int")], None)])]), shape_seed=_seed_for(badr, shape))
            cases.append({"kind": "history", "spec": sp, "ops": [
                ["resolver", "Query", "a", goodr, False], ["validate"], ["resolver", "Query", "a", badr, True],
                ["validate"], ["resolver", "Query", "a", goodr, True], ["validate"],
                ["default", "Query", badr, False], ["validate"], ["resolver", "Query", "a", badr, True], ["validate"],
                ["default", "Query", R3 + [["kw", "VK", False]], True], ["resolver", "Query", "a", goodr, True], ["validate"]]})
    return cases


# ------------------------------------------------------------------ implementation side
def _apply_op(sch, op, seed=0):
    try:
        if op[0] == "validate":
            try:
                sch.validate()
                res = ["accepted"]
            except SchemaValidationError as e:
                res = ["invalid", _errors(e.errors)]
            # the verdict a fresh validator gives on the current state
            v = SchemaValidator(sch)
            v()
            return res + [["fresh", _errors(v.errors)]]
        if op[0] == "validate_schema":
            # the module function, called directly (not through the memo)
            try:
                validate_schema(sch, enable_resolver_validation=op[1])
                return ["direct_accepted"]
            except SchemaValidationError as e:
                return ["direct_invalid", _errors(e.errors)]
        if op[0] == "assign_default":
            sch.default_resolver = G.make_shaped(op[1], seed)     # plain attribute assignment
            return ["done"]
        if op[0] == "resolver":
            sch.register_resolver(op[1], op[2], G.make_shaped(op[3], seed), allow_override=op[4])
        elif op[0] == "default":
            sch.register_default_resolver(op[1], G.make_shaped(op[2], seed), allow_override=op[3])
        elif op[0] == "subscription":
            sch.register_subscription(op[1], op[2], _SUBSCRIBER, allow_override=op[3])
        return ["done"]
    except UnknownType:
        return ["UnknownType"]
    except SchemaError:
        return ["SchemaError"]
    except ValueError:
        return ["ValueError"]
    except Exception as e:  # noqa
        return ["exc", type(e).__name__, str(e)[:200]]


def _SUBSCRIBER(root, ctx, info, **kw):
    return None


def _call_shapes(args):
    py = [(a[3] if len(a) > 3 and a[3] else a[0]) for a in args]     # the executor passes python names
    always = [n for n, a in zip(py, args) if a[2] is not None or a[1].endswith("!")]
    optional = [n for n in py if n not in always]
    for k in range(len(optional) + 1):
        for sub in itertools.combinations(optional, k):
            yield always + list(sub)


def _sig_build(case):
    """Query.f(args): Int whose resolver has the signature, presented in the case's shape"""
    sch = G.build(_sig_schema(None, case["args"]))
    sch.types["Query"].fields[0].resolver = G.make_fn(case["sig"], case.get("shape", "bare"))
    return sch


def _vis(sig, seed):
    """the parameter list the validator sees for this resolver of the case (inspect.signature,
    following __wrapped__), read from the real callable"""
    return G.sig_of(G.make_shaped(sig, seed))


def run_impl(case):
    k = case["kind"]
    if k == "schema":
        sch = G.build(case["spec"])
        obs = _validate(sch)
        # the same schema in structural mode (everything but the resolver signatures)
        obs["structural"] = _validate(sch, enable_resolver_validation=False)
        return obs
    if k == "history":
        sch = G.build(case["spec"])
        seed = case["spec"].get("shape_seed", 0)
        return {"steps": [_apply_op(sch, op, seed) for op in case["ops"]]}
    if k == "subtype":
        sch = _sub_schema()
        return {"subtype": bool(sch.is_subtype(_sub_type(case["t"]), _sub_type(case["u"])))}
    if k == "sig":
        sch = _sig_build(case)
        obs = _validate(sch)
        fn = G.make_fn(case["sig"], case.get("shape", "bare"))
        fails, shapes = [], []
        for names in _call_shapes(case["args"]):
            try:
                fn(object(), object(), object(), **{n: 1 for n in names})
                shapes.append([names, True])
            except TypeError as e:
                fails.append([names, str(e)[:120]])
                shapes.append([names, False])
        obs["calls"] = len(shapes)
        obs["shapes"] = shapes
        obs["type_errors"] = fails
        return obs
    raise ValueError(k)


def _cverr(e):
    return "(mkErr %s %s)" % (e[0] if e[0] != "UNMAPPED" else "LMustProvideQuery", ser.clist(e[1], ser.cstr))


def _csig(sig):
    return ser.clist(sig, lambda p: "(mkParam %s %s %s)" % (
        ser.cstr(p[0]), {"PO": "PosOnly", "PK": "PosOrKw", "VP": "VarPos", "KO": "KwOnly", "VK": "VarKw"}[p[1]],
        ser.cbool(p[2])))


def _cty(t):
    if t[0] == "N":
        return "(TyNamed %s)" % ser.cstr(t[1])
    return "(%s %s)" % ("TyList" if t[0] == "L" else "TyNonNull", _cty(t[1]))


def _cop(op, seed=0):
    if op[0] == "validate":
        return "OpValidate"
    if op[0] == "validate_schema":
        return "(OpValidateSchema %s)" % ser.cbool(op[1])
    if op[0] == "assign_default":
        return "(OpAssignDefault %s)" % ("None" if op[1] is None else "(Some %s)" % _csig(_vis(op[1], seed)))
    if op[0] == "resolver":
        return "(OpRegisterResolver %s %s %s %s)" % (ser.cstr(op[1]), ser.cstr(op[2]), _csig(_vis(op[3], seed)),
                                                     ser.cbool(op[4]))
    if op[0] == "default":
        return "(OpRegisterDefault %s %s %s)" % (ser.cstr(op[1]), _csig(_vis(op[2], seed)), ser.cbool(op[3]))
    return "(OpRegisterSubscription %s %s %s)" % (ser.cstr(op[1]), ser.cstr(op[2]), ser.cbool(op[3]))


def _cstep(r):
    if r[0] in ("accepted", "direct_accepted"):
        return "RAccepted"
    if r[0] in ("invalid", "direct_invalid"):
        return "(RInvalid %s)" % ser.clist(r[1], _cverr)
    return {"done": "RDone", "ValueError": "RValueError", "UnknownType": "RUnknownType",
            "SchemaError": "RSchemaError"}.get(r[0], "RDone")


def _cobs(obs):
    if obs.get("accept"):
        return "ObsAccept"
    if "errors" in obs:
        return "(ObsErrors %s)" % ser.clist(obs["errors"], _cverr)
    return "ObsCrash"


def to_coq(case, obs):
    k = case["kind"]
    if k == "schema":
        return "(CaseSchema %s %s %s)" % (G.cschema(G.build(case["spec"])), _cobs(obs), _cobs(obs["structural"]))
    if k == "history":
        seed = case["spec"].get("shape_seed", 0)
        return "(CaseHistory %s %s %s)" % (G.cschema(G.build(case["spec"])),
                                           ser.clist(case["ops"], lambda op: _cop(op, seed)),
                                           ser.clist(obs["steps"], _cstep))
    if k == "subtype":
        return "(CaseSubtype sub_types %s %s %s)" % (_cty(case["t"]), _cty(case["u"]), ser.cbool(obs["subtype"]))
    sch = _sig_build(case)
    args = list(sch.types["Query"].fields[0].arguments)
    return "(CaseSig %s %s %s %s)" % (
        _csig(G.sig_of(sch.types["Query"].fields[0].resolver)), ser.clist(args, G.carg),
        ser.clist(obs.get("errors", []), _cverr),
        ser.clist(obs["shapes"], lambda c: "(%s, %s)" % (ser.clist(c[0], ser.cstr), ser.cbool(c[1]))))


def show_expr(case, obs):
    k = case["kind"]
    if k == "schema":
        t = G.cschema(G.build(case["spec"]))
        return "(model_C13 %s, validate_structural %s)" % (t, t)
    if k == "history":
        seed = case["spec"].get("shape_seed", 0)
        return "run (initial %s) %s" % (G.cschema(G.build(case["spec"])),
                                        ser.clist(case["ops"], lambda op: _cop(op, seed)))
    if k == "subtype":
        return "is_subtype_model sub_types %s %s" % (_cty(case["t"]), _cty(case["u"]))
    sch = _sig_build(case)
    return "resolver_errors [s \"Query\"; s \"f\"] %s %s" % (
        _csig(G.sig_of(sch.types["Query"].fields[0].resolver)),
        ser.clist(list(sch.types["Query"].fields[0].arguments), G.carg))


def nontrivial(case, obs):
    return case["kind"] in ("schema", "history") and "exc" not in obs


def canonical(case):
    return json.dumps(case, sort_keys=True)


def _stale_only_after_assignment(case, obs):
    """every validate() step that differs from the fresh verdict is an
    `accepted` that follows an assignment to schema.default_resolver with no
    registration / successful re-validation in between (the memo survived the
    assignment) -- exactly the finding `default-resolver-assignment`"""
    if case["kind"] != "history":
        return False
    stale, since_assign = 0, False
    for op, st in zip(case["ops"], obs["steps"]):
        if op[0] == "assign_default":
            since_assign = True
        elif op[0] in ("resolver", "default", "subscription") and st[0] == "done":
            since_assign = False
        elif op[0] == "validate":
            fresh = st[-1][1]
            ok = (st[0] == "accepted") == (fresh == []) and (st[0] != "invalid" or st[1] == fresh)
            if not ok:
                if not (st[0] == "accepted" and since_assign):
                    return False
                stale += 1
        if st[0] == "exc":
            return False
    return stale > 0


def classify(case, obs):
    if "exc" in obs:
        return "raises-only-schema-errors", None
    if _stale_only_after_assignment(case, obs):
        return "memo-recomputed", "default-resolver-assignment"
    return {"schema": "verdict-and-violations", "history": "memo-recomputed",
            "subtype": "covariance", "sig": "resolver-signature"}[case["kind"]], None


def _all_errors(obs):
    if "errors" in obs or "structural" in obs:
        return obs.get("errors", []) + obs.get("structural", {}).get("errors", [])
    out = []
    for st in obs.get("steps", []):
        if st[0] in ("invalid", "direct_invalid"):
            out += st[1]
    return out


RESOLVER_LABELS = ("LResMissing", "LResPosOnly", "LResNeedsDefault", "LResPositional", "LResExtraRequired")


def direct_checks(case, obs):
    out = []
    k = case["kind"]
    st = obs.get("structural")
    if st is not None:
        if "exc" in st:
            return [("raises-only-schema-errors (structural mode): %s %s" % (st["exc"], st.get("msg", "")[:80]), None)]
        # structural mode = default mode minus the resolver-signature errors (C13_structural_mode)
        if "exc" not in obs:
            want = sorted(e for e in obs.get("errors", []) if e[0] not in RESOLVER_LABELS)
            if sorted(st.get("errors", [])) != want:
                out.append(("structural-mode-is-default-mode-minus-resolver-rule", None))
    if "exc" in obs:
        return [("raises-only-schema-errors: %s %s" % (obs["exc"], obs.get("msg", "")[:80]), None)]
    for e in _all_errors(obs):
        if e[0] == "UNMAPPED":
            out.append(("unmapped-message: %s" % e[1][0][:100], None))
            return out
    if k == "schema":
        inj = case.get("injected", [])
        if not inj and not obs.get("accept") and not _has_resolvers(case["spec"]):
            out.append(("accepts-valid-schema", None))
        if inj and obs.get("accept"):
            out.append(("rejects-violation: %s" % inj[0][0], None))
        if case.get("single") and "errors" in obs and inj[0] not in obs["errors"]:
            out.append(("reports-violation: %s %s" % (inj[0][0], inj[0][1]), None))
        if case.get("stacked") and "errors" in obs:
            missing = [x for x in inj if x not in obs["errors"]]
            if missing:
                out.append(("reports-all-violations-together: %s lacks %s" % (case["stacked"], missing[:3]), None))
    if k == "history":
        for st in obs["steps"]:
            if st[0] in ("accepted", "invalid"):
                fresh = st[-1][1]
                if (st[0] == "accepted") != (fresh == []) or (st[0] == "invalid" and st[1] != fresh):
                    out.append(("memo-recomputed", "default-resolver-assignment"
                                if _stale_only_after_assignment(case, obs) else None))
                    break
            if st[0] == "exc":
                out.append(("raises-only-schema-errors: %s" % st[1], None))
                break
    if k == "sig":
        accepted = bool(obs.get("accept"))
        po_named = any(p[1] == "PO" and p[0] in [a[0] for a in case["args"]] for p in case["sig"])
        if accepted and obs["type_errors"]:
            out.append(("accepted-resolver-binds: %s" % obs["type_errors"][0], None))
        if not accepted and not obs["type_errors"] and not po_named:
            out.append(("rejected-resolver-can-fail", None))
    return out


def _has_resolvers(spec):
    if spec.get("default_resolver"):
        return True
    for td in spec["types"]:
        if td.get("default_resolver"):
            return True
        for f in td.get("fields", []):
            if f.get("resolver"):
                return True
    return False


def shrink(case, is_bad):
    if case["kind"] not in ("schema", "history"):
        return case
    cur = case
    changed = True
    while changed:
        changed = False
        for td in list(cur["spec"]["types"]):
            if td["name"] == "Query":
                continue
            cand = dict(cur, spec=dict(cur["spec"], types=[t for t in cur["spec"]["types"] if t != td]))
            try:
                G.build(cand["spec"])
            except Exception:
                continue
            if is_bad(cand):
                cur, changed = cand, True
                break
    return cur


def extra_evidence(cases, obss):
    kinds = collections.Counter()
    labels = collections.Counter()
    injected = collections.Counter()
    steps = collections.Counter()
    for c, o in zip(cases, obss):
        kinds[c["kind"]] += 1
        if c["kind"] == "schema":
            kinds["schema:" + ("accept" if o.get("accept") else "reject" if "errors" in o else "exc")] += 1
            kinds["schema:via-" + c["spec"].get("via", "code")] += 1
            for lab in c.get("injected", []):
                injected[lab[0]] += 1
        if c["kind"] == "sig":
            kinds["sig:" + ("accept" if o.get("accept") else "reject")] += 1
            kinds["sig:calls"] += o.get("calls", 0)
        for e in _all_errors(o):
            labels[e[0]] += 1
        for st in o.get("steps", []):
            steps[st[0]] += 1
    return {"distribution": {"cases": dict(kinds), "error_labels_seen": dict(labels),
                             "injected_violations": dict(injected), "history_steps": dict(steps)}}
