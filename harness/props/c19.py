# -*- coding: utf-8 -*-
"""C19 -- depth limiting flags exactly the operations deeper than the limit."""
import itertools
import re

from py_gql.exc import CoercionError, GraphQLError
from py_gql.lang import parse
from py_gql.utilities import MaxDepthValidationRule

from .. import gen_exec, ser

PROP = "C19"
THEOREMS = ["C19_exact", "C19_flagged_iff", "C19_wrap_inline", "C19_wrap_named", "C19_total", "C19_terminates"]
AXIOMS_OK = []
RUN_MODULE = "Run.C19run Exec.Depth"
AGREE = "agree_C19"
CASE_TYPE = "case_C19"
LEVEL_NOTE = ("Theorems are about the Gallina model Exec/Depth.v + Exec/Collect.v of "
              "utilities/max_depth.py and collect_fields_untyped; the model is tied to /repo by "
              "running both on the same generated documents on every run. Fragment cycles "
              "(invalid documents, RecursionError) are outside the quantifier.")
RULE = ("documents from the grammar-directed generator (acyclic fragments, @skip/@include with "
        "literals and provided Boolean variables, aliases, same-key merges, 1-3 operations) plus "
        "all distributions of a nested chain over inline/named fragments; limits -1..6; name filters; "
        "non-trivial = at least one operation is measured and the document has a fragment, directive "
        "or merged key; distinct = distinct (text, variables, limit, filter)")


def corpus():
    out = []
    # witnesses of the defects repaired by the fix: commit (DESIGN.md section 6 row 37)
    for text, vs in [("query Q($off: Boolean!) { hero { ...F @skip(if: $off) ...F } } fragment F on T { a { b { c } } }", {"off": True}),
                     ("{ hero { ...F @include(if: false) x ...F } } fragment F on T { a { b { c } } }", {}),
                     ("{ ...G ...F } fragment G on T { ...F @skip(if: true) } fragment F on T { a { b } }", {})]:
        for limit in (-2, 0, 1, 2):
            out.append({"text": text, "vars": vs, "limit": limit, "filter": None})
    out.append({"text": "query Q($full: Boolean = false, $brief: Boolean = true) { a { b @include(if: $full) { c { d { a } } } x @skip(if: $brief) { y } } }",
                "calls": [{"full": True, "brief": True}, {"full": False, "brief": False}, {"full": True, "brief": False}],
                "vars": {"full": True, "brief": True}, "limit": 3, "filter": None})
    out.append({"text": "query Q($deep: Boolean!) { hero { name ... on T @include(if: $deep) { friends { friends { friends { name } } } } } }",
                "calls": [{"deep": False}, {"deep": True}, {"deep": False}], "vars": {"deep": False}, "limit": 2, "filter": None})
    # seed C19-f: the first of several same-key fields comes from a shared fragment and a deeper direct
    # selection follows; a second consumer of the fragment is measured afterwards
    out.append({"text": "query Deep { ...F a { b { c { d } } } } query Shallow { ...F } fragment F on T { a { b } }",
                "vars": {}, "limit": 1, "filter": None})
    out.append({"text": "query Q { ...F a { b { c { d } } } } fragment F on T { a { b } }",
                "calls": [{}, {}], "vars": {}, "limit": 2, "filter": None})
    for text in ["{ a }", "{ a b c }", "query Q { ...F } fragment F on T { a { b { c } } }",
                 "{ a { b } a { b { c { d } } } }", "{ ... { a { b { c } } } }",
                 "{ x: a { b } x: a { c { d { a } } } }",
                 "query A { a } query B { a { b { c } } }"]:
        for limit in (0, 1, 2):
            out.append({"text": text, "vars": {}, "limit": limit, "filter": None})
    out.append({"text": "query A { a { b } } query B { a { b { c } } }", "vars": {}, "limit": 0, "filter": "B"})
    out.append({"text": "query A { a { b } } query B { a { b { c } } }", "vars": {}, "limit": 0, "filter": ""})
    out.append({"text": "query A { a { b } } query B { a { b { c } } }", "vars": {}, "limit": 0, "filter": "Z"})
    # seed C19-h: an anonymous operation is not the operation the filter names
    for text in ["{ a { b { c { d } } } }", "{ ...F } fragment F on T { a { b { c { d } } } }",
                 "query { a { b { c } } } query Named { a }", "{ a { b } } { a { b { c } } }"]:
        for flt in ("Named", "Other", "", "<ANONYMOUS>"):
            out.append({"text": text, "vars": {}, "limit": 0, "filter": flt})
    # seed C19-g: the filter restricts the check to the operation of exactly that name
    for flt in ("HeroDetails", "Hero", "Her", "HeroDetailsX", "hero"):
        out.append({"text": "query Hero { a { b { c { d } } } } query HeroDetails { a } query Her { a { b { c } } }",
                    "vars": {}, "limit": 1, "filter": flt})
    return out


_NAME_FAMILY = ["Hero", "HeroDetails", "Her", "ero", "H", "hero", "HeroHero", "Details", "A", "AB", "ABC", "B"]


def _distributions(maxd):
    """every way of wrapping each level of a chain of depth d in nothing / an
    inline fragment / a named fragment / both"""
    for d in range(1, maxd + 1):
        for combo in itertools.product(range(4), repeat=d):
            frags = []
            inner = "leaf"
            for lvl in range(d - 1, -1, -1):
                body = "f%d { %s }" % (lvl, inner)
                w = combo[lvl]
                if w & 1:
                    body = "... on T { %s }" % body
                if w & 2:
                    frags.append("fragment W%d on T { %s }" % (lvl, body))
                    body = "...W%d" % lvl
                inner = body
            yield "query Q { %s }\n%s" % (inner, "\n".join(frags)), d


def generate(rng, tier):
    n = 300 if tier == "quick" else 5000
    cases = []
    for _ in range(n):
        if rng.random() < 0.3:
            # operation names that are substrings / prefixes / case variants of one another, and a filter
            # drawn among them and their neighbours (seed C19-g: `name in filter` instead of `==`)
            names = rng.sample(_NAME_FAMILY, 3)
            text, variables = gen_exec.gen_document(rng, opnames=names)
            flt = rng.choice(names + _NAME_FAMILY + [names[0] + names[1], names[1] + "x", names[0].lower()])
        else:
            text, variables = gen_exec.gen_document(rng)
            flt = rng.choice([None, None, None, "Op0", "Op1", "Nope", "", "Op10", "Op", "p1", "op0"])
        cases.append({"text": text, "vars": variables, "limit": rng.randint(-1, 6), "filter": flt})
        # limit -2 flags every measured operation, exposing each measured depth
        cases.append({"text": text, "vars": variables, "limit": -2, "filter": None})
        # the name filter against every operation (also anonymous ones, seed C19-h): with limit -2 every
        # operation the filter lets through is reported
        if rng.random() < 0.35:
            if rng.random() < 0.4:
                # make one operation anonymous (several operations, one of them anonymous, still parse)
                text = re.sub(r"\bquery \w+ \{", "{", text, count=1)
            cases.append({"text": text, "vars": variables, "limit": -2,
                          "filter": rng.choice(["Op0", "Op1", "Nope", "Hero", "A", "query", "ANONYMOUS", "<ANONYMOUS>"])})
    # histories: ONE rule instance and ONE parsed document called with several variable
    # assignments (same keys, different values steering @skip/@include across the limit)
    nh = 60 if tier == "quick" else 800
    made = 0
    while made < nh:
        text, variables = gen_exec.gen_document(rng, pdir=0.6)
        if not variables:
            continue
        calls = [dict(variables)]
        for _ in range(rng.randint(1, 3)):
            calls.append({k: rng.choice([True, False]) for k in variables})
        cases.append({"text": text, "calls": calls, "vars": calls[0],
                      "limit": rng.choice([-2, -2, 0, 1, 2]), "filter": None})
        made += 1
    # malformed / unusual directive arguments (a separate stream): missing `if`, non-Boolean literals,
    # null, undefined variables, repeated arguments and repeated directives, raw variable values of any
    # kind (the rule is handed the raw values): CoercionError or truthiness, as directive_arguments decides
    nm = 80 if tier == "quick" else 1500
    for _ in range(nm):
        text, variables = gen_exec.gen_document(rng, pdir=0.5)
        text = _mangle_directives(rng, text)
        raw = {k: rng.choice([True, False, None, 0, 1, "", "x", [], [0], 0.0, 2.5]) for k in variables}
        if raw and rng.random() < 0.3:
            raw.pop(rng.choice(sorted(raw)))
        cases.append({"text": text, "vars": raw, "limit": rng.choice([-2, -2, 0, 1, 2]), "filter": None})
    maxd = 3 if tier == "quick" else 5
    for text, d in _distributions(maxd):
        for limit in ((d - 1, d) if tier == "quick" else range(0, d + 2)):
            cases.append({"text": text, "vars": {}, "limit": limit, "filter": None})
    return cases


_MANGLED = ["@skip", "@include", "@skip(if: 1)", "@include(if: 0)", '@skip(if: "true")', "@include(if: null)",
            "@skip(if: $undef)", "@skip(if: true, if: false)", "@include(if: false, if: true)",
            "@skip(if: false) @skip(if: true)", "@include(if: true) @include(if: false)", "@skip(if: [true])",
            "@skip(if: {a: true})", "@skip(if: TRUE)", "@skip(unless: true)", "@skip(if: true, unless: 1)",
            "@other(if: false)", "@include(if: 1.0)"]


def _mangle_directives(rng, text):
    """replace some of the directives of a generated document (or add one to a field) by an unusual form"""
    def sub(m):
        return rng.choice(_MANGLED) if rng.random() < 0.5 else m.group(0)
    out = re.sub(r"@(?:skip|include)\(if: [^)]*\)", sub, text)
    if out == text:
        out = re.sub(r"\b(hero|friends|a|b|c|d)\b(?![:(])", lambda m: m.group(0) + " " + rng.choice(_MANGLED), text, count=1)
    return out


def _calls(case):
    """a case is one call, or a history: the same rule instance and the same parsed
    document object called with a sequence of variable assignments"""
    return case["calls"] if "calls" in case else [case["vars"]]


def _one_call(rule, doc, variables):
    try:
        errors = rule(None, doc, variables)
    except CoercionError:
        return {"exc": "CoercionError"}
    except Exception as e:  # noqa
        return {"exc": "other", "type": type(e).__name__, "msg": str(e)[:200]}
    flagged = []
    for e in errors:
        idx = [i for i, d in enumerate(doc.definitions) if d is e.nodes[0]][0]
        m = re.search(r"depth \((-?\d+)\) exceeds", e.message)
        flagged.append([idx, int(m.group(1))])
    return {"flagged": flagged}


def run_impl(case):
    doc = parse(case["text"])
    kw = {}
    if case["filter"] is not None:
        kw["operation_name"] = case["filter"]
    rule = MaxDepthValidationRule(case["limit"], **kw)
    before = ser.cdoc(doc)
    outs = [_one_call(rule, doc, v) for v in _calls(case)]
    if ser.cdoc(doc) != before:
        # measuring must not rewrite the document it is given (seed C19-f merged sub-selections in place)
        outs[-1] = dict(outs[-1], mutated=True)
    if "calls" in case:
        return {"history": outs}
    return outs[0]


def _cobs(obs):
    if "flagged" in obs:
        return "(ObsFlagged %s)" % ser.clist(obs["flagged"], lambda p: "(%d, %s)" % (p[0], ser.cz(p[1])))
    if obs["exc"] == "CoercionError":
        return "ObsCoercionError"
    return "ObsOther"


def to_coq(case, obs):
    doc = ser.cdoc(parse(case["text"]))
    outs = obs["history"] if "history" in obs else [obs]
    calls = []
    for v, o in zip(_calls(case), outs):
        calls.append("((%s, %s, %s, %s), %s)" % (
            doc, ser.cvars(v), ser.cz(case["limit"]), ser.copt(case["filter"], ser.cstr), _cobs(o)))
    return "[" + "; ".join(calls) + "]"


def show_expr(case, obs):
    doc = ser.cdoc(parse(case["text"]))
    return "map model_C19 [%s]" % "; ".join(
        "(%s, %s, %s, %s)" % (doc, ser.cvars(v), ser.cz(case["limit"]), ser.copt(case["filter"], ser.cstr))
        for v in _calls(case))


def _outs(obs):
    return obs["history"] if "history" in obs else [obs]


def nontrivial(case, obs):
    t = case["text"]
    return all("flagged" in o for o in _outs(obs)) and ("..." in t or "@" in t or ":" in t)


def canonical(case):
    return (case["text"], tuple(tuple(sorted(v.items())) for v in _calls(case)), case["limit"], case["filter"])


def classify(case, obs):
    if any(o.get("exc") == "other" for o in _outs(obs)):
        return "raises-nothing", None
    if "calls" in case:
        return "flags-exactly-deeper-operations (same rule instance called repeatedly)", None
    return "flags-exactly-deeper-operations", None


def direct_checks(case, obs):
    out = [("raises-nothing: %s" % o.get("type"), None) for o in _outs(obs) if o.get("exc") == "other"]
    if any(o.get("mutated") for o in _outs(obs)):
        out.append(("input-document-left-unchanged", None))
    return out


def shrink(case, is_bad):
    """drop whole definitions / lines while the disagreement persists"""
    lines = case["text"].split("\n")
    changed = True
    while changed and len(lines) > 1:
        changed = False
        for i in range(len(lines)):
            cand = dict(case, text="\n".join(lines[:i] + lines[i + 1:]))
            try:
                parse(cand["text"])
            except GraphQLError:
                continue
            if is_bad(cand):
                lines = lines[:i] + lines[i + 1:]
                changed = True
                break
    return dict(case, text="\n".join(lines))


def extra_evidence(cases, obss):
    flagged = sum(1 for o in obss if any(x.get("flagged") for x in _outs(o)))
    return {"distribution": {
        "cases_with_flagged_operation": flagged,
        "history_cases_same_rule_instance": sum(1 for c in cases if "calls" in c),
        "cases_with_fragments": sum(1 for c in cases if "fragment" in c["text"]),
        "cases_with_directives": sum(1 for c in cases if "@" in c["text"]),
        "coercion_errors": sum(1 for o in obss if any(x.get("exc") == "CoercionError" for x in _outs(o))),
        "limits": sorted({c["limit"] for c in cases}),
    }}
