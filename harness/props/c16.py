# -*- coding: utf-8 -*-
"""C16 -- instrumentation and middlewares see every field exactly once,
properly nested.

Recording Instrumentation subclasses (stacked 1-3 through MultiInstrumentation,
also nested, ApolloTracer alongside), 0-3 recording middlewares (sync, and
awaiting ones under asyncio), every request outcome class, document as text
and as parsed AST, four configurations (BlockingExecutor; Executor +
BlockingRuntime; AsyncIORuntime; ThreadPoolRuntime) and -- for the two
deferred runtimes -- all completion orders of the deferred resolver calls of
small operations, driven by harness/sched.py. The recorded event list is
judged in Coq by `trace_ok` (membership in the specified set: independent
interleavings never alarm) and its stage word is compared with the model's.
"""
import inspect
import json
import random

from py_gql import build_schema, process_graphql_query
from py_gql.exc import ResolverError
from py_gql.execution import BlockingExecutor, Instrumentation, MultiInstrumentation
from py_gql.lang import parse
from py_gql.tracers import ApolloTracer

from .. import sched

PROP = "C16"
THEOREMS = ["C16_checker_decides", "C16_stage_bracket", "C16_middleware", "C16_middleware_cache",
            "C16_multi", "C16_multi_stack", "C16_field_once_blocking", "C16_interleave",
            "C16_machine_linearises", "C16_field_once_deferred", "C16_apollo",
            "C16_lift_preserves", "C16_argerr_erase", "C16_field_once_deferred_full", "C16_stage_and_fields",
            "C16_list_fields_end_before_delivery", "C16_operation_hooks_before_execution_end",
            "C16_list_items_after_failure_not_started", "C16_list_field_error_once",
            "C16_deferred_words_exact"]
AXIOMS_OK = []
RUN_MODULE = "Run.C16run Spec.TraceSpec Exec.TraceModel Exec.RuntimeMachine Exec.TraceDeferred Exec.TraceLift Exec.TraceRequest Exec.TraceListModel"
AGREE = "agree_C16"
CASE_TYPE = "case_C16"
SHARD = 45
LEVEL_NOTE = ("Theorems are about the Gallina model Exec/TraceModel.v of process_graphql_query's hook "
              "sequencing, MultiInstrumentation, apply_middlewares + the resolver cache and the two "
              "sequential resolve_field variants, against Spec/TraceSpec.v; C16_interleave shows that every "
              "order-preserving interleaving of per-field words is accepted by the checker trace_ok, and the "
              "deferred runtimes are covered by evaluating that checker (proved to decide the spec) on the "
              "implementation's recorded traces under enumerated completion orders. Exceptions other than "
              "ResolverError / coercion errors raised by resolvers (crashes) are outside the quantifier.")
RULE = ("requests over a fixed schema: generated selections (depth <= 3, aliases, lists, non-null fields, "
        "shared base resolvers), worlds assigning value/null/ResolverError/argument error per path, plus "
        "syntax / validation / unknown-operation / variable-coercion failures, as text and as AST; k=1..3 "
        "recorders (plain, Multi, nested Multi, +ApolloTracer), n=0..3 middlewares; 4 configurations; all "
        "completion orders of deferred calls up to the tier's cap (sampled beyond). non-trivial = executed "
        "request resolving >= 2 fields, or a failing request; distinct = distinct case JSON")

SDL = """
interface I { a: Int  b: Int!  c: Int }
type T implements I { a: Int  b: Int!  c: Int }
type Query { a: Int  b: Int!  c: Int  o: Obj  p: Obj  n: Obj!  l: [Obj]  x(i: Int!): Int  i: I
             li: [I]  lni: [I!]!  lli: [[I]]  llni: [[I]!]  llnn: [[I!]!]! }
type Obj { a: Int  b: Int!  c: Int  o: Obj  l: [Obj]  x(i: Int!): Int  i: I
           li: [I]  lni: [I!]!  lli: [[I]]  llni: [[I]!]  llnn: [[I!]!]! }
type Mutation { a: Int  b: Int  o: Obj }
"""
COMPOSITE = ("Obj", "T")
# field -> (result type name, is list)
FIELDS = {
    "Query": {"a": ("Int", 0), "b": ("Int", 0), "c": ("Int", 0), "o": ("Obj", 0), "p": ("Obj", 0),
              "n": ("Obj", 0), "l": ("Obj", 1), "x": ("Int", 0), "i": ("T", 0)},
    "Obj": {"a": ("Int", 0), "b": ("Int", 0), "c": ("Int", 0), "o": ("Obj", 0), "l": ("Obj", 1),
            "x": ("Int", 0), "i": ("T", 0)},
    "T": {"a": ("Int", 0), "b": ("Int", 0), "c": ("Int", 0)},
    "Mutation": {"a": ("Int", 0), "b": ("Int", 0), "o": ("Obj", 0)},
}
# lists (depth 1 and 2, nullable / non-null wrappers) of the abstract type I: completing an item calls
# I.resolve_type, which raises ResolverError for the items designated "bad" in case["items"]
for _t in ("Query", "Obj"):
    FIELDS[_t].update({"li": ("T", 1), "lni": ("T", 1), "lli": ("T", 2), "llni": ("T", 2), "llnn": ("T", 2)})
ABSTRACT_LISTS = ("li", "lni", "lli", "llni", "llnn")
# the `__typename` meta field is an ordinary resolved field of every composite type: resolve_field is
# called with TYPE_NAME_INTROSPECTION_FIELD, so the field hooks fire and the middlewares wrap its resolver
META = "__typename"
for _t in FIELDS.values():
    _t[META] = ("String", 0)
CONFIGS = ("blocking", "generic", "asyncio", "threadpool")
DEFERRED_CFG = ("asyncio", "threadpool")


# ------------------------------------------------------------------ recording
class _Run:
    """state of the run in progress (consulted by resolvers / hooks)"""
    ev = None
    world = None
    lens = None
    items = None
    ctl = None


def _pkey(path):
    return "/".join(str(x) for x in path)


class Rec(Instrumentation):
    def __init__(self, i):
        self.i = i

    def on_query_start(self):
        _Run.ev.append(["Q+", self.i])

    def on_query_end(self):
        _Run.ev.append(["Q-", self.i])

    def on_parsing_start(self):
        _Run.ev.append(["P+", self.i])

    def on_parsing_end(self):
        _Run.ev.append(["P-", self.i])

    def on_validation_start(self):
        _Run.ev.append(["V+", self.i])

    def on_validation_end(self):
        _Run.ev.append(["V-", self.i])

    def on_execution_start(self):
        _Run.ev.append(["E+", self.i])

    def on_execution_end(self):
        _Run.ev.append(["E-", self.i])

    def on_field_start(self, root, ctx, info):
        _Run.ev.append(["F+", self.i, list(info.path)])

    def on_field_end(self, root, ctx, info):
        _Run.ev.append(["F-", self.i, list(info.path)])


class RecCollecting(Rec):
    """a recorder that is a container of what it has recorded: empty, hence falsy, when the request starts"""
    def __len__(self):
        return len(_Run.ev or ())


class RecNever(Rec):
    def __bool__(self):
        return False


import dataclasses


@dataclasses.dataclass(eq=True, unsafe_hash=True)
class RecEq(Rec):
    """a recorder that is a value object: equality and hash by configuration only; two instances with the
    same configuration are EQUAL but distinct objects, each reporting under its own stack position"""
    name: str = "recorder"
    i: int = dataclasses.field(default=0, compare=False)


class RecShared(Instrumentation):
    """ONE recorder object listed at several positions of the stack: it is notified once per listing.
    Events are attributed to positions by the order of the calls within a bracket: start hooks reach the
    listings first to last, end hooks last to first."""
    def __init__(self, positions):
        self.positions = list(positions)
        self.seen = {}

    def _pos(self, key, start):
        j = self.seen.get(key, 0)
        self.seen[key] = j + 1
        order = self.positions if start else self.positions[::-1]
        return order[j % len(order)]

    def on_query_start(self):
        _Run.ev.append(["Q+", self._pos("Q+", True)])

    def on_query_end(self):
        _Run.ev.append(["Q-", self._pos("Q-", False)])

    def on_parsing_start(self):
        _Run.ev.append(["P+", self._pos("P+", True)])

    def on_parsing_end(self):
        _Run.ev.append(["P-", self._pos("P-", False)])

    def on_validation_start(self):
        _Run.ev.append(["V+", self._pos("V+", True)])

    def on_validation_end(self):
        _Run.ev.append(["V-", self._pos("V-", False)])

    def on_execution_start(self):
        _Run.ev.append(["E+", self._pos("E+", True)])

    def on_execution_end(self):
        _Run.ev.append(["E-", self._pos("E-", False)])

    def on_field_start(self, root, ctx, info):
        p = list(info.path)
        _Run.ev.append(["F+", self._pos("F+" + _pkey(p), True), p])

    def on_field_end(self, root, ctx, info):
        p = list(info.path)
        _Run.ev.append(["F-", self._pos("F-" + _pkey(p), False), p])


STACKINGS_EQ = ("eq", "eq_sep", "same", "same_mixed", "deep")


def _make_rec(i, kind):
    return {"len": RecCollecting, "bool": RecNever}.get(kind, Rec)(i)


def _mw(i):
    def m(next_, root, ctx, info, **kw):
        _Run.ev.append(["M+", i, list(info.path)])
        try:
            return next_(root, ctx, info, **kw)
        finally:
            _Run.ev.append(["M-", i, list(info.path)])
    return m


class _MwObject:
    """a middleware that is a callable object"""
    def __init__(self, i):
        self.i = i
        self.calls = []

    def __call__(self, next_, root, ctx, info, **kw):
        _Run.ev.append(["M+", self.i, list(info.path)])
        self.calls.append(list(info.path))
        try:
            return next_(root, ctx, info, **kw)
        finally:
            _Run.ev.append(["M-", self.i, list(info.path)])

    def handle(self, next_, root, ctx, info, **kw):      # used as a bound method
        return self(next_, root, ctx, info, **kw)


class _MwCollecting(_MwObject):
    """... that is also a container of what it has seen: empty, hence falsy, when the executor is built"""
    def __len__(self):
        return len(self.calls)


class _MwNever(_MwObject):
    def __bool__(self):
        return False


class _AMwCollecting(_MwCollecting):
    async def __call__(self, next_, root, ctx, info, **kw):
        _Run.ev.append(["M+", self.i, list(info.path)])
        self.calls.append(list(info.path))
        try:
            r = next_(root, ctx, info, **kw)
            if inspect.isawaitable(r):
                r = await r
            return r
        finally:
            _Run.ev.append(["M-", self.i, list(info.path)])


def _mw_generic(mw_index_, next_, root, ctx, info, **kw):     # (field arguments arrive in **kw: no clash)
    _Run.ev.append(["M+", mw_index_, list(info.path)])
    try:
        return next_(root, ctx, info, **kw)
    finally:
        _Run.ev.append(["M-", mw_index_, list(info.path)])


MW_KINDS = ("function", "object", "len", "bool", "partial", "method")


def _make_mw(i, kind, awaiting):
    if awaiting:
        return _AMwCollecting(i) if kind in ("len", "object", "bool") else _amw(i)
    if kind == "object":
        return _MwObject(i)
    if kind == "len":
        return _MwCollecting(i)
    if kind == "bool":
        return _MwNever(i)
    if kind == "partial":
        import functools
        return functools.partial(_mw_generic, i)
    if kind == "method":
        return _MwObject(i).handle
    return _mw(i)


def _amw(i):
    async def m(next_, root, ctx, info, **kw):
        _Run.ev.append(["M+", i, list(info.path)])
        try:
            r = next_(root, ctx, info, **kw)
            if inspect.isawaitable(r):
                r = await r
            return r
        finally:
            _Run.ev.append(["M-", i, list(info.path)])
    return m


def _body(info):
    path = list(info.path)
    w = _Run.world.get(_pkey(path), "val")
    if w == "err":
        _Run.ev.append(["Raise", path])
        raise ResolverError("boom at %s" % _pkey(path))
    _Run.ev.append(["Ret", path])
    if w == "null":
        return None
    parent = info.parent_type.name
    tname, depth = FIELDS[parent][info.field_definition.name]
    if tname in COMPOSITE:
        if not depth:
            return {}
        spec = _list_rows({"items": _Run.items, "lens": _Run.lens}, path, depth)
        rows = [_row_value(row) for row in spec if row != "raise"]
        if depth == 1:
            return rows[0]
        return _raising_iter(rows[:spec.index("raise")]) if "raise" in spec else rows
    return 1


def _raising_iter(values):
    """an iterable that raises ResolverError once its values are consumed"""
    for v in values:
        yield v
    raise ResolverError("the iterable failed part-way")


def _row_value(row):
    vals = []
    for it in row:
        if it == "raise":
            return _raising_iter(vals)
        vals.append({"bad": True} if it == "bad" else {})
    return vals


FAILS = ("bad", "raise")     # an item that cannot be completed / the iterable raising at that position


def _list_rows(case, path, depth):
    """the items of the list field at path as rows of "ok" / "bad" / "raise" (a depth-1 list is one row;
    at depth 2 a row can also be the string "raise": the outer iterable raises there)"""
    spec = case.get("items", {}).get(_pkey(path))
    if spec is None:
        if depth == 2:
            return [["ok"], ["ok"]]
        return [["ok"] * case.get("lens", {}).get(_pkey(path), 2)]
    return spec if depth == 2 else [spec]


def _resolve_type_I(value, ctx, info):
    # "cerr": completing the resolved value fails with a ResolverError
    if _Run.world.get(_pkey(info.path)) == "cerr":
        raise ResolverError("cannot tell the type at %s" % _pkey(info.path))
    if isinstance(value, dict) and value.get("bad"):
        raise ResolverError("cannot tell the type of an item of %s" % _pkey(info.path))
    return "T"


def _default_resolver(root, ctx, info, **kw):
    _Run.ev.append(["Inv", list(info.path)])
    return _body(info)


def _shared_1(root, ctx, info, **kw):      # two distinct base resolvers, each shared by many fields
    _Run.ev.append(["Inv", list(info.path)])
    return _body(info)


def _shared_2(root, ctx, info, **kw):
    _Run.ev.append(["Inv", list(info.path)])
    return _body(info)


async def _aio_1(root, ctx, info, **kw):
    _Run.ev.append(["Inv", list(info.path)])
    await _Run.ctl.gate((tuple(info.path), 0))
    return _body(info)


async def _aio_2(root, ctx, info, **kw):
    _Run.ev.append(["Inv", list(info.path)])
    await _Run.ctl.gate((tuple(info.path), 0))
    return _body(info)


def _instrument_meta_field():
    """record Invoke / Return around the library's own resolver of `__typename`
    (a module level Field object shared by all schemas)"""
    from py_gql.schema.introspection import TYPE_NAME_INTROSPECTION_FIELD as f
    orig = f.resolver
    if getattr(orig, "_c16_recording", False):
        return

    def typename_resolver(root, ctx, info, **kw):
        rec = _Run.ev is not None
        if rec:
            _Run.ev.append(["Inv", list(info.path)])
        r = orig(root, ctx, info, **kw)
        if rec:
            _Run.ev.append(["Ret", list(info.path)])
        return r

    typename_resolver._c16_recording = True
    f.resolver = typename_resolver


_instrument_meta_field()


def is_deferred_field(case, parent_type, name):
    """is the resolver of this field handed to the runtime (parked by the controller)?"""
    if case["config"] not in DEFERRED_CFG:
        return False
    if name == META:
        # not the default resolver, so ThreadPoolRuntime.wrap_callable submits it; a plain function under
        # the controller's AsyncIORuntime (no thread offloading) is called inline
        return case["config"] == "threadpool"
    return ("%s.%s" % (parent_type, name)) in set(case["deferred"])


_SCHEMAS = {}


def _schema(config, deferred):
    key = (config, tuple(sorted(deferred)))
    if key not in _SCHEMAS:
        sc = build_schema(SDL)
        sc.default_resolver = _default_resolver
        sc.get_type("I").resolve_type = _resolve_type_I
        fns = (_aio_1, _aio_2) if config == "asyncio" else (_shared_1, _shared_2)
        for j, d in enumerate(sorted(deferred)):
            t, f = d.split(".")
            sc.register_resolver(t, f, fns[j % 2])
        sc.validate()
        _SCHEMAS[key] = sc
    return _SCHEMAS[key]


def _instrumentation(case):
    k, st = case["k"], case["stacking"]
    recs = [_make_rec(i, case.get("inst_kind")) for i in range(k)]
    tracer = None
    if st == "plain":
        assert k == 1
        return recs[0], None
    if st == "multi":
        return MultiInstrumentation(*recs), None
    if st == "tracer":
        tracer = ApolloTracer()
        return MultiInstrumentation(*(recs + [tracer])), tracer
    if st == "nested":
        if k == 1:
            return MultiInstrumentation(MultiInstrumentation(recs[0])), None
        return MultiInstrumentation(MultiInstrumentation(*recs[:-1]), MultiInstrumentation(), recs[-1]), None
    # the stack AS GIVEN has k entries; entry j reports as position j
    if st == "eq":            # k distinct recorder objects that all compare equal
        return MultiInstrumentation(*[RecEq(i=i) for i in range(k)]), None
    if st == "eq_sep":        # two equal-but-distinct recorders separated by other entries
        return MultiInstrumentation(*([RecEq(i=0)] + [Rec(i) for i in range(1, k - 1)] + [RecEq(i=k - 1)])), None
    if st == "same":          # the SAME object listed k times
        sh = RecShared(range(k))
        return MultiInstrumentation(*([sh] * k)), None
    if st == "same_mixed":    # the same object first and last, other recorders in between
        sh = RecShared([0, k - 1])
        return MultiInstrumentation(*([sh] + [Rec(i) for i in range(1, k - 1)] + [sh])), None
    if st == "deep":          # MultiInstrumentation inside MultiInstrumentation inside MultiInstrumentation
        inner = MultiInstrumentation(MultiInstrumentation(*recs[:1]), MultiInstrumentation(*recs[1:2]))
        return MultiInstrumentation(MultiInstrumentation(inner), *recs[2:]), None
    raise ValueError(st)


# ------------------------------------------------------------------ documents
def _render_sel(sel, parent_type="Query", frag=None, frags=None):
    """frag: None | "inline" | "spread": how the sub-selections of composite fields are written
    (`{ .. }`, `{ ... on T { .. } }`, `{ ...Fn }` + fragment definitions); the resolved fields are the same"""
    out = []
    for alias, name, arg, sub in sel:
        s = ("%s: %s" % (alias, name)) if alias else name
        if arg is not None:
            s += "(i: %s)" % arg
        if sub:
            tname = FIELDS[parent_type][name][0]
            inner = _render_sel(sub, tname, frag, frags)
            if frag == "inline":
                inner = "... on %s { %s }" % (tname, inner)
            elif frag == "spread":
                fname = "F%d" % len(frags)
                frags.append("fragment %s on %s { %s }" % (fname, tname, inner))
                inner = "...%s" % fname
            s += " { %s }" % inner
        out.append(s)
    return " ".join(out)


def doc_text(case):
    if case["kind"] != "exec":
        return case["doc"]
    mut = case["op"] == "mutation"
    frags = []
    body = _render_sel(case["sel"], "Mutation" if mut else "Query", case.get("frag"), frags)
    return "%s{ %s }%s" % ("mutation " if mut else "", body, "".join(" " + f for f in frags))


def build_tree(case):
    """the fields that the property expects to be resolved, as
    [rel_path, outcome, deferred, kids] (outcome of sub-fields only matters when
    the field returns a value; the Coq side prunes)."""
    if case["kind"] != "exec":
        return []
    # awaiting middlewares turn every resolver call (also the synchronously resolved ones) into a coroutine
    every_field_awaited = case["config"] == "asyncio" and case.get("mw_async") and case["n"] > 0

    def go(parent_type, prefix_rel, path, sel):
        nodes = []
        for alias, name, arg, sub in sel:
            key = alias or name
            p = path + [key]
            tname, is_list = FIELDS[parent_type][name]     # is_list: list depth (0, 1, 2)
            if arg is not None and not str(arg).lstrip("-").isdigit():
                out = "argerr"
            else:
                out = case["world"].get(_pkey(p), "val")
            kids = []
            if tname in COMPOSITE and out == "val":
                if is_list:
                    # complete_list_value: the items of a row are started in order up to the first one
                    # that cannot be completed; such a failure stops the enclosing loop over the rows as
                    # well, unless it only surfaces once deferred values of earlier items are there
                    for r, row in enumerate(_list_rows(case, p, is_list)):
                        if row == "raise":
                            break
                        failed = row_deferred = False
                        for c, it in enumerate(row):
                            if it in FAILS:
                                failed = True
                                break
                            pref = [c] if is_list == 1 else [r, c]
                            item_nodes = go(tname, pref, p + pref, sub)
                            kids.extend(item_nodes)
                            row_deferred = row_deferred or _count_deferred(item_nodes) > 0 or every_field_awaited
                        if failed and (is_list == 1 or not row_deferred):
                            break
                else:
                    kids = go(tname, [], p, sub)
            nodes.append([prefix_rel + [key], out, is_deferred_field(case, parent_type, name), kids])
        return nodes

    return go("Mutation" if case["op"] == "mutation" else "Query", [], [], case["sel"])


def _count_deferred(tree):
    return sum((1 if d else 0) + _count_deferred(kids) for _r, _o, d, kids in tree)


def _count_nodes(tree):
    return sum(1 + _count_nodes(kids) for _r, _o, _d, kids in tree)


# ------------------------------------------------------------------ driving the implementation
def _one_run(case, choose):
    """one request under one completion order; returns (events, has_data, tracer_obs, schedule)"""
    if case["kind"] == "deep":
        # ./check raises the recursion limit for its own needs; the deeply nested document is meant to
        # exhaust CPython's default budget inside parse()
        import sys
        old = sys.getrecursionlimit()
        sys.setrecursionlimit(1000)
        try:
            return _one_run_inner(case, choose)
        finally:
            sys.setrecursionlimit(old)
    return _one_run_inner(case, choose)


def _one_run_inner(case, choose):
    config = case["config"]
    sc = _schema(config, case["deferred"] if case["kind"] == "exec" else [])
    inst, tracer = _instrumentation(case)
    _Run.ev = ev = []
    _Run.world = case.get("world", {})
    _Run.lens = case.get("lens", {})
    _Run.items = case.get("items", {})
    text = doc_text(case)
    document = text if case["as_text"] else parse(text)
    asyncmw = config == "asyncio" and case.get("mw_async", False)
    kinds = case.get("mw_kinds") or []
    mws = [_make_mw(i, kinds[i] if i < len(kinds) else "function", asyncmw) for i in range(case["n"])]
    kw = dict(instrumentation=inst, middlewares=mws, variables=case.get("variables"),
              operation_name=case.get("operation_name"))
    if case.get("novalidate"):
        kw["validators"] = []
    schedule = []
    result = None
    crashed = None
    if config in ("blocking", "generic"):
        if config == "blocking":
            kw["executor_cls"] = BlockingExecutor
        try:
            result = process_graphql_query(sc, document, **kw)
        except Exception as e:  # noqa
            crashed = type(e).__name__
    else:
        ctl = sched.PoolController() if config == "threadpool" else sched.LoopController()
        _Run.ctl = ctl
        try:
            with sched.watchdog(20):
                ctl.start(lambda: process_graphql_query(sc, document, runtime=ctl.runtime, **kw))
                schedule = sched.drive(ctl, choose)
                st, val = ctl.outcome()
            if st == "ok":
                result = val
            else:
                crashed = st if st == "pending" else type(val).__name__
        finally:
            ctl.close()
            _Run.ctl = None
    has_data = result is not None and result.response().get("data") is not None
    tobs = None
    if tracer is not None:
        pl = tracer.payload()
        res = (pl["execution"] or {}).get("resolvers", [])
        tobs = {
            "paths": [list(r["path"]) for r in res],
            "all_ended": all(r["duration"] is not None for r in res),
            "parsing": pl["parsing"] is not None and pl["parsing"]["duration"] is not None,
            "validation": pl["validation"] is not None and pl["validation"]["duration"] is not None,
            "end": pl["endTime"] is not None and pl["duration"] is not None,
        }
    return {"events": ev, "has_data": has_data, "tracer": tobs, "crashed": crashed,
            "schedule": [[list(lb[0]), lb[1]] for lb in schedule]}


def _replay_choose(labels_seq):
    it = iter(labels_seq)

    def choose(labels):
        want = next(it, None)
        if want is not None:
            want = (tuple(want[0]), want[1])
            if want in labels:
                return want
        return labels[0]
    return choose


def enumerate_runs(case):
    """all runs of the case: one for the blocking configurations, one per
    completion order (up to the cap, random samples beyond) otherwise"""
    if case["config"] not in DEFERRED_CFG:
        return [_one_run(case, None)], True
    if case.get("schedules") is not None:
        return [_one_run(case, _replay_choose(s)) for s in case["schedules"]], False
    rng = random.Random(case.get("seed", 0))
    cap = case.get("max_orders", 120)
    return sched.explore(lambda choose: _one_run(case, choose), cap, rng, samples=min(cap, case.get("samples", 200)))


def run_impl(case):
    pre = _PRECOMPUTED.pop(canonical(case), None) if case.get("schedules") is not None else None
    runs, exhaustive = (pre, False) if pre is not None else enumerate_runs(case)
    seen, distinct = set(), []
    for r in runs:
        key = json.dumps([r["events"], r["has_data"], r["tracer"], r["crashed"]])
        if key not in seen:
            seen.add(key)
            distinct.append(r)
    return {"runs": distinct, "n_runs": len(runs), "exhaustive": exhaustive}


# ------------------------------------------------------------------ serialisation
class _Enc:
    def __init__(self, case):
        self.keys = {}
        if case["kind"] == "exec":
            self._walk(case["sel"])

    def _walk(self, sel):
        for alias, name, _arg, sub in sel:
            self.key(alias or name)
            self._walk(sub)

    def key(self, k):
        if k not in self.keys:
            self.keys[k] = len(self.keys)
        return self.keys[k]

    def elem(self, x):
        # list index i -> i (as in Exec/RuntimeMachine.v), response key number j -> 1000 + j
        return x if isinstance(x, int) else 1000 + self.key(x)

    def path(self, p):
        return "[" + ";".join(str(self.elem(x)) for x in p) + "]"


_STAGE = {"Q": "SQ", "P": "SP", "V": "SV", "E": "SE"}
_OUT = {"val": "OVal", "null": "ONull", "err": "OErr", "argerr": "OArgErr",
        # a ResolverError raised while completing the returned value (resolve_type): the resolver
        # returned, no sub-field is resolved -- the same field word as a null
        "cerr": "ONull"}
# "deep": a document nested beyond the interpreter's recursion budget; the property expects a syntax-error
# outcome (stages Q+ P+ P- Q-)
_CLASS = {"deep": "OCSyntax", "syntax": "OCSyntax", "validation": "OCValidation", "unknown_op": "OCUnknownOp",
          "var_error": "OCVarError", "dir_error": "OCDirective"}


def _cevent(enc, e):
    t = e[0]
    if t[0] in _STAGE and len(t) == 2 and t[1] in "+-":
        return "%s %s %d%%nat" % ("StageStart" if t[1] == "+" else "StageEnd", _STAGE[t[0]], e[1])
    if t in ("F+", "F-", "M+", "M-"):
        c = {"F+": "FieldStart", "F-": "FieldEnd", "M+": "MwEnter", "M-": "MwExit"}[t]
        return "%s %d%%nat %s" % (c, e[1], enc.path(e[2]))
    c = {"Inv": "Invoke", "Ret": "Return", "Raise": "Raise"}[t]
    return "%s %s" % (c, enc.path(e[1]))


def _ctree(enc, tree):
    return "[" + "; ".join(
        "FNode %s %s %s %s" % (enc.path(rel), _OUT[o], "true" if d else "false", _ctree(enc, kids))
        for rel, o, d, kids in tree) + "]"


def oclass(case):
    if case["kind"] != "exec":
        return _CLASS[case["kind"]]
    t = build_tree(case)

    def bad(tr):
        return any(o != "val" or bad(k) for _r, o, _d, k in tr)
    return "OCPartial" if bad(t) else "OCSuccess"


def mw_awaits(case):
    if case["config"] == "threadpool":
        return False
    if case["config"] == "asyncio":
        return bool(case.get("mw_async", False))
    return True


def machine_applies(case):
    """the run can be replayed on the composed deferred model: a deferred runtime
    and -- under asyncio -- no awaiting middlewares (they turn every field,
    also the synchronously resolved ones, into a coroutine the controller does
    not gate)"""
    if case["kind"] != "exec" or case["config"] not in DEFERRED_CFG:
        return False
    # the C08/C09 machine has neither nested lists nor items that cannot be completed
    doc = doc_text(case)
    if any(f in doc for f in ("lli", "llni", "llnn")) or any(f in json.dumps(case.get("items", {})) for f in FAILS):
        return False
    if case["config"] == "asyncio" and case["n"] > 0 and case.get("mw_async"):
        return False
    return True


def _cprog(enc, case, argerr):
    deferred = set(case["deferred"])

    def flds(parent_type, path, sel):
        out = "FNil"
        for alias, name, arg, sub in reversed(sel):
            key = alias or name
            p = path + [key]
            tname, is_list = FIELDS[parent_type][name]
            w = case["world"].get(_pkey(p), "val")
            if arg is not None and not str(arg).lstrip("-").isdigit():
                # argument coercion fails: for the executor a resolver that fails at once, never submitted
                argerr.append(p)
                out = "(FCons (Fld %d None false BErr) %s)" % (enc.elem(key), out)
                continue
            if w == "err":
                body = "BErr"
            elif w in ("null", "cerr"):
                body = "BNull"
            elif tname not in COMPOSITE:
                body = "(BInt 1%Z)"
            elif is_list:
                items = "INil"
                for idx in reversed(range(len(_list_rows(case, p, 1)[0]))):
                    items = "(ICons (ItObj %s) %s)" % (flds(tname, p + [idx], sub), items)
                body = "(BList false %s)" % items
            else:
                body = "(BObj %s)" % flds(tname, p, sub)
            dfr = "(Some (O, O))" if is_deferred_field(case, parent_type, name) else "None"
            out = "(FCons (Fld %d %s false %s) %s)" % (enc.elem(key), dfr, body, out)
        return out

    mut = case["op"] == "mutation"
    return "(Prog %s %s)" % ("true" if mut else "false",
                             flds("Mutation" if mut else "Query", [], case["sel"]))


def has_lists(case):
    if case["kind"] != "exec":
        return False

    def go(parent, sel):
        return any(FIELDS[parent][name][1] or (sub and go(FIELDS[parent][name][0], sub))
                   for _a, name, _arg, sub in sel)
    return go("Mutation" if case["op"] == "mutation" else "Query", case["sel"])


def _clprog(enc, case):
    """the operation for the completion model Exec/TraceListModel.v"""
    awaited = case["config"] == "asyncio" and case.get("mw_async") and case["n"] > 0

    def flds(parent_type, path, sel):
        out = "LFNil"
        for alias, name, arg, sub in reversed(sel):
            key = alias or name
            p = path + [key]
            tname, depth = FIELDS[parent_type][name]
            w = case["world"].get(_pkey(p), "val")
            if arg is not None and not str(arg).lstrip("-").isdigit():
                w = "null"
            if w == "cerr":
                v = "LBad"
            elif w != "val" or tname not in COMPOSITE:
                v = "LLeaf"
            elif not depth:
                v = "(LObj %s)" % flds(tname, p, sub)
            else:
                def row(r, items):
                    o = "LVNil"
                    for c in reversed(range(len(items))):
                        pref = [c] if depth == 1 else [r, c]
                        it = "LBad" if items[c] in FAILS else "(LObj %s)" % flds(tname, p + pref, sub)
                        o = "(LVCons %s %s)" % (it, o)
                    return "(LList false %s)" % o
                rows = _list_rows(case, p, depth)
                if depth == 1:
                    v = row(0, rows[0])
                else:
                    o = "LVNil"
                    for r in reversed(range(len(rows))):
                        o = "(LVCons %s %s)" % ("LBad" if rows[r] == "raise" else row(r, rows[r]), o)
                    v = "(LList true %s)" % o
            dfr = awaited or is_deferred_field(case, parent_type, name)
            out = "(LFCons %d %s %s %s)" % (enc.elem(key), "true" if dfr else "false", v, out)
        return out

    mut = case["op"] == "mutation"
    return flds("Mutation" if mut else "Query", [], case["sel"])


def _creq(enc, case):
    argerr = []
    prog = "(Some %s)" % _cprog(enc, case, argerr) if machine_applies(case) else "None"
    lprog = "(Some %s)" % _clprog(enc, case) if has_lists(case) else "None"
    return "(mkReq %d%%nat %d%%nat %s %s %s %s %s [%s] %s %s)" % (
        case["k"], case["n"], "true" if case["as_text"] else "false", oclass(case),
        "true" if mw_awaits(case) else "false", _ctree(enc, build_tree(case)), prog,
        "; ".join(enc.path(p) for p in argerr),
        "true" if case["config"] == "asyncio" else "false", lprog)


def _crun(enc, r):
    tr = "[" + "; ".join(_cevent(enc, e) for e in r["events"]) + "]"
    if r["tracer"] is None:
        to = "None"
    else:
        t = r["tracer"]
        to = "(Some (mkTracer [%s] %s %s %s %s))" % (
            "; ".join(enc.path(p) for p in t["paths"]),
            *("true" if t[x] else "false" for x in ("all_ended", "parsing", "validation", "end")))
    sched = "[" + "; ".join("(%s, %d%%nat)" % (enc.path(lb[0]), lb[1]) for lb in r["schedule"]) + "]"
    return "(mkRun %s %s %s %s)" % (tr, "true" if r["has_data"] else "false", to, sched)


def to_coq(case, obs):
    enc = _Enc(case)
    return "(%s, [%s])" % (_creq(enc, case), "; ".join(_crun(enc, r) for r in obs["runs"]))


def show_expr(case, obs):
    return "diag_C16 %s" % to_coq(case, obs)


# ------------------------------------------------------------------ cases
def _base(config, **kw):
    c = {"kind": "exec", "config": config, "as_text": True, "k": 1, "stacking": "plain", "n": 0,
         "mw_async": False, "op": "query", "sel": [], "world": {}, "lens": {}, "items": {}, "deferred": [],
         "max_orders": 120, "seed": 0}
    c.update(kw)
    return c


FAILING = [
    ("syntax", {"doc": "{ a "}),
    ("syntax", {"doc": "query { a("}),
    ("syntax", {"doc": "{ a } }"}),
    ("syntax", {"doc": ""}),
    ("syntax", {"doc": '{ x(i: "\\q") }'}),
    ("validation", {"doc": "{ zz }"}),
    ("validation", {"doc": "{ a { b } }"}),
    ("validation", {"doc": "{ o }"}),
    ("validation", {"doc": "{ x }"}),
    ("validation", {"doc": "query Q($v: Int) { a }"}),
    ("unknown_op", {"doc": "query A { a } query B { b }", "operation_name": "C"}),
    ("unknown_op", {"doc": "query A { a } query B { b }"}),
    ("unknown_op", {"doc": "{ a }", "operation_name": "Nope"}),
    ("var_error", {"doc": "query Q($v: Int!) { x(i: $v) }", "variables": {}}),
    ("var_error", {"doc": "query Q($v: Int!) { x(i: $v) }", "variables": {"v": "s"}}),
    ("var_error", {"doc": "query Q($v: Int!) { x(i: $v) }", "variables": {"v": None}}),
    # @skip / @include arguments of the root selection that cannot be coerced (nullable variable with a
    # default, explicit null supplied): the request is aborted before the execution stage starts
    ("dir_error", {"doc": "query Q($s: Boolean = true) { a @skip(if: $s) }", "variables": {"s": None}}),
    ("dir_error", {"doc": "query Q($s: Boolean = true) { a o @include(if: $s) { b } }", "variables": {"s": None}}),
    ("dir_error", {"doc": "mutation M($s: Boolean = false) { a @skip(if: $s) b }", "variables": {"s": None}}),
]

SEL_NESTED = [[None, "a", None, []], [None, "o", None, [[None, "a", None, []], [None, "b", None, []]]],
              [None, "b", None, []]]


def corpus():
    out = []
    # DESIGN.md section 6 row 35 (repaired by fixes/C16-01): syntax error, every configuration
    for config in CONFIGS:
        out.append(_base(config, kind="syntax", doc="{ a "))
        out.append(_base(config, kind="syntax", doc="{ a ", k=3, stacking="multi"))
        out.append(_base(config, kind="syntax", doc="{ a ", k=2, stacking="tracer"))
    # one witness per mechanism
    for config in CONFIGS:
        defer = ["Query.o", "Obj.a", "Query.a"] if config in DEFERRED_CFG else []
        out.append(_base(config, sel=SEL_NESTED, world={"o/a": "err", "b": "null"}, n=2, k=2,
                         stacking="multi", deferred=defer))
        out.append(_base(config, sel=SEL_NESTED, world={"o": "null"}, n=1, k=1, stacking="tracer",
                         deferred=defer, mw_async=True))
        out.append(_base(config, sel=[[None, "x", '"s"', []], [None, "a", None, []]], novalidate=True, n=1,
                         k=2, stacking="nested", deferred=defer[2:]))
        out.append(_base(config, sel=[[None, "l", None, [[None, "a", None, []], ["z", "a", None, []]]]],
                         lens={"l": 2}, world={"l/1/z": "err"}, n=3, k=3, stacking="multi",
                         deferred=["Obj.a"] if config in DEFERRED_CFG else []))
        if config != "blocking":
            # fixes/C16-02: resolve_type raises ResolverError after the resolver returned
            out.append(_base(config, sel=[[None, "i", None, [[None, "a", None, []]]], [None, "a", None, []]],
                             world={"i": "cerr"}, n=1, k=2, stacking="tracer",
                             deferred=["Query.i"] if config in DEFERRED_CFG else []))
        # seeded C16-i / open finding deep-nesting-recursion-leaves-query-open: a document nested beyond the
        # recursion budget (C01's open finding): whatever happens, the stage hooks must nest
        out.append(_base(config, kind="deep", doc=DEEP_DOC, k=1, stacking="plain"))
        out.append(_base(config, kind="deep", doc=DEEP_DOC, k=2, stacking="multi", n=1))
        # seeded C16-h: the stack as given -- equal-but-distinct recorder objects, the same object listed
        # several times, MultiInstrumentation nested three deep -- every entry is notified, in order / reverse
        for st, kk in (("eq", 2), ("eq", 3), ("eq_sep", 3), ("same", 2), ("same", 3), ("same_mixed", 3), ("deep", 3)):
            out.append(_base(config, sel=SEL_NESTED, k=kk, stacking=st, n=1, world={"o/a": "err"},
                             deferred=["Query.o"] if config in DEFERRED_CFG else []))
        out.append(_base(config, kind="syntax", doc="{ a ", k=2, stacking="eq"))
        out.append(_base(config, kind="validation", doc="{ zz }", k=3, stacking="same", as_text=False))
        # seeded C16-g: callable middlewares whose truth value is False when the executor is built must not
        # be dropped; fixes/C16-03: a falsy Instrumentation passed alone must not be replaced by the no-op one
        defr = ["Query.o"] if config in DEFERRED_CFG else []
        out.append(_base(config, sel=SEL_NESTED, n=3, mw_kinds=["len", "function", "bool"], deferred=defr))
        out.append(_base(config, sel=SEL_NESTED, n=2, mw_kinds=["partial", "len"], mw_async=True, k=2,
                         stacking="multi", deferred=defr))
        out.append(_base(config, sel=SEL_NESTED, n=2, mw_kinds=["method", "object"], k=1, stacking="plain",
                         inst_kind="len", world={"o/a": "err"}, deferred=defr))
        out.append(_base(config, sel=[[None, "a", None, []]], k=1, stacking="plain", inst_kind="bool"))
        out.append(_base(config, kind="syntax", doc="{ a ", k=1, stacking="plain", inst_kind="len"))
        out.append(_base(config, sel=SEL_NESTED, k=2, stacking="tracer", inst_kind="len", n=1, mw_kinds=["len"],
                         deferred=defr))
        # seeded C16-f / commit 60b475c: a list item that cannot be completed (resolve_type raises) must not
        # end the request while sub-fields of earlier items / sibling rows are still resolving
        dfr = ["T.a"] if config in DEFERRED_CFG else []
        sub_a = [[None, "a", None, []]]
        for fname, spec in (("li", ["ok", "bad", "ok"]), ("lni", ["ok", "ok", "bad"]),
                            ("lli", [["ok", "bad"], ["ok"]]), ("llni", [["ok", "bad"], ["ok"]]),
                            ("llnn", [["ok"], ["ok", "bad", "ok"], ["ok"]]), ("llni", [["bad"], ["ok"]])):
            out.append(_base(config, sel=[[None, fname, None, sub_a], [None, "b", None, []]],
                             items={fname: spec}, deferred=dfr, k=2, stacking="multi", n=1))
        # commit 75abc69: the iterable itself raises ResolverError part-way
        for fname, spec in (("li", ["ok", "raise"]), ("lni", ["ok", "ok", "raise", "ok"]),
                            ("llni", [["ok", "raise"], ["ok"]]), ("lli", [["ok"], "raise", ["ok"]])):
            out.append(_base(config, sel=[[None, fname, None, sub_a], [None, "b", None, []]],
                             items={fname: spec}, deferred=dfr, k=1, stacking="plain", n=1))
        out.append(_base(config, sel=[[None, "o", None, [[None, "llni", None, sub_a + [[None, "b", None, []]]]]]],
                         items={"o/llni": [["ok", "bad"], ["ok", "ok"]]}, deferred=dfr, k=1, stacking="tracer"))
        # seeded C16-e: a `__typename` hot path that bypasses resolve_field (no hooks, no middlewares):
        # plain and aliased, at the query / mutation root, in objects, on list items, under an abstract
        # type, written directly / through inline fragments / through fragment spreads
        tn_sel = [[None, META, None, []], ["tn1", META, None, []],
                  [None, "o", None, [[None, META, None, []], [None, "a", None, []]]],
                  [None, "l", None, [[None, META, None, []]]],
                  [None, "i", None, [["tn2", META, None, []], [None, "a", None, []]]]]
        for frag in (None, "inline", "spread"):
            out.append(_base(config, sel=tn_sel, lens={"l": 2}, n=1, k=2, stacking="tracer", frag=frag,
                             max_orders=20, samples=10, deferred=["Query.o"] if config in DEFERRED_CFG else []))
        out.append(_base(config, op="mutation", sel=[[None, META, None, []], [None, "a", None, []],
                                                     [None, "o", None, [[None, META, None, []]]]], n=2))
        out.append(_base(config, op="mutation", sel=[[None, "a", None, []], [None, "b", None, []]],
                         world={"a": "err"}, n=1, deferred=["Mutation.a", "Mutation.b"] if config in DEFERRED_CFG else []))
    return out


def _gen_sel(rng, parent, depth, budget):
    names = list(FIELDS[parent])
    nsel = rng.randint(1, 3 if depth else 4)
    sel, used = [], set()
    for _ in range(nsel):
        if budget[0] <= 0:
            break
        name = rng.choice(names)
        tname, _is_list = FIELDS[parent][name]
        if tname in COMPOSITE and depth >= 2:
            name = rng.choice(["a", "b", "c"] if parent != "Mutation" else ["a", "b"])
            tname = "Int"
        alias = None
        if name in used or rng.random() < 0.2:
            alias = "%s%d" % ("tn" if name == META else name, len(used) + rng.randint(1, 9) * 10)
        key = alias or name
        if key in used:
            continue
        used.add(key)
        budget[0] -= 1
        arg = None
        if name == "x":
            arg = str(rng.randint(0, 9))
        sub = _gen_sel(rng, tname, depth + 1, budget) if tname in COMPOSITE else []
        if tname in COMPOSITE and not sub:
            sub = [[None, "a", None, []]]
        sel.append([alias, name, arg, sub])
    return sel


def _paths(case):
    """all paths a field of the selection can have (for world generation)"""
    out = []

    def go(parent, path, sel):
        for alias, name, _arg, sub in sel:
            p = path + [alias or name]
            out.append((p, parent, name))
            tname, is_list = FIELDS[parent][name]
            if tname in COMPOSITE:
                if is_list:
                    for r, row in enumerate(_list_rows(case, p, is_list)):
                        if row == "raise":
                            break
                        for c, it in enumerate(row):
                            if it in FAILS:
                                break
                            go(tname, p + ([c] if is_list == 1 else [r, c]), sub)
                else:
                    go(tname, p, sub)
    go("Mutation" if case["op"] == "mutation" else "Query", [], case["sel"])
    return out


def _gen_exec(rng, config, max_deferred, max_orders):
    op = "mutation" if rng.random() < 0.12 else "query"
    sel = _gen_sel(rng, "Mutation" if op == "mutation" else "Query", 0, [rng.randint(2, 9)])
    if not sel:
        sel = [[None, "a", None, []]]
    k = rng.choice([1, 1, 2, 2, 3])
    stacking = rng.choice(["plain", "multi", "tracer"] if k == 1 else
                          ["multi", "multi", "tracer", "nested"] + list(STACKINGS_EQ))
    case = _base(config, op=op, sel=sel, k=k, stacking=stacking, n=rng.choice([0, 1, 1, 2, 3]),
                 as_text=rng.random() < 0.7, mw_async=rng.random() < 0.5, max_orders=max_orders,
                 seed=rng.randrange(1 << 30))
    for _pass in range(4):   # list lengths decide which deeper paths exist
        for p, parent, name in _paths(case):
            depth = FIELDS[parent][name][1]
            if name in ABSTRACT_LISTS and _pkey(p) not in case["items"]:
                def row():
                    return [rng.choice(["bad", "bad", "raise"]) if rng.random() < 0.27 else "ok"
                            for _ in range(rng.choice([1, 2, 2, 3]))]
                case["items"][_pkey(p)] = row() if depth == 1 else \
                    [("raise" if rng.random() < 0.08 else row()) for _ in range(rng.choice([1, 2, 3]))]
            elif depth and name not in ABSTRACT_LISTS and _pkey(p) not in case["lens"]:
                case["lens"][_pkey(p)] = rng.choice([0, 1, 2, 2])
    for p, _parent, name in _paths(case):
        r = rng.random()
        if name == META:
            continue      # the library's resolver always returns the type name
        if name == "i" and config != "blocking" and r < 0.3:
            # BlockingExecutor lets a completion-time ResolverError escape (a crash, outside C16)
            case["world"][_pkey(p)] = "cerr"
        elif r < 0.13:
            case["world"][_pkey(p)] = "err"
        elif r < 0.24:
            case["world"][_pkey(p)] = "null"
    if rng.random() < 0.08:
        # an argument that cannot be coerced (only reachable without validation)
        for s in case["sel"]:
            if s[1] == "x":
                s[2] = '"s"'
                case["novalidate"] = True
    # middlewares / instrumentations as objects, also ones whose truth value is False at request start
    case["mw_kinds"] = [rng.choice(MW_KINDS) for _ in range(case["n"])]
    if rng.random() < 0.35:
        case["inst_kind"] = rng.choice(["len", "bool"])
    used = sorted({"%s.%s" % (parent, name) for _p, parent, name in _paths(case) if name != META})
    if rng.random() < 0.3:
        case["frag"] = rng.choice(["inline", "spread"])
    if config in DEFERRED_CFG:
        rng.shuffle(used)
        chosen = []
        for d in used:
            case["deferred"] = sorted(chosen + [d])
            if _count_deferred(build_tree(case)) <= max_deferred:
                chosen.append(d)
        case["deferred"] = sorted(chosen)
    elif used and rng.random() < 0.6:
        case["deferred"] = sorted(rng.sample(used, rng.randint(1, len(used))))  # shared base resolvers
    return case


_PRECOMPUTED = {}   # canonical(chunk case) -> runs recorded while the chunk was enumerated


def _chunked(case, size):
    """split a many-orders case into explicit schedule chunks (the runs made
    while enumerating are kept, so that run_impl does not repeat them)"""
    runs, _ex = enumerate_runs(case)
    out = []
    for i in range(0, len(runs), size):
        part = runs[i:i + size]
        chunk = dict(case, schedules=[r["schedule"] for r in part])
        _PRECOMPUTED[canonical(chunk)] = part
        out.append(chunk)
    return out


def generate(rng, tier):
    quick = tier == "quick"
    cases = []
    # every failing outcome class x configuration x document form x stacking
    for kind, extra in FAILING:
        for config in CONFIGS:
            for as_text in ((True,) if kind == "syntax" else (True, False)):
                k = rng.choice([1, 2, 3])
                st = rng.choice(["plain", "tracer"] if k == 1 else ["multi", "tracer", "nested"] + list(STACKINGS_EQ))
                cases.append(_base(config, kind=kind, as_text=as_text, k=k, stacking=st,
                                   n=rng.choice([0, 2]), mw_async=rng.random() < 0.5,
                                   inst_kind=rng.choice([None, None, "len", "bool"]), **extra))
    n_block = 75 if quick else 900
    n_def = 40 if quick else 200
    for config in ("blocking", "generic"):
        for _ in range(n_block):
            cases.append(_gen_exec(rng, config, 0, 1))
    for config in DEFERRED_CFG:
        for _ in range(n_def):
            cases.append(dict(_gen_exec(rng, config, rng.choice([2, 3, 4, 5]), 40 if quick else 120),
                              samples=20 if quick else 200))
        # all orders of a few larger operations
        for _ in range(3 if quick else 6):
            cases.append(dict(_gen_exec(rng, config, 6, 120 if quick else 720), samples=30 if quick else 200))
    if not quick:
        flat6 = [[None, f, None, []] for f in ("a", "b", "c")] + [["a2", "a", None, []], ["b2", "b", None, []],
                                                                    ["c2", "c", None, []], ["a3", "a", None, []]]
        for config in DEFERRED_CFG:
            big = _base(config, sel=flat6, world={"b2": "err", "c": "null"}, n=1, k=2, stacking="multi",
                        deferred=["Query.a", "Query.b", "Query.c"], max_orders=5040)
            cases.extend(_chunked(big, 120))       # 7 independent deferred calls: 7! = 5040 orders
            deep = _base(config, sel=[[None, "o", None, [[None, "a", None, []], [None, "o", None, [[None, "a", None, []], [None, "b", None, []]]]]],
                                      [None, "p", None, [[None, "a", None, []], [None, "c", None, []]]], [None, "a", None, []]],
                         world={"o/o/a": "err", "p/c": "null"}, n=2, k=1, stacking="tracer", mw_async=config == "asyncio",
                         deferred=["Query.o", "Query.p", "Query.a", "Obj.a", "Obj.o", "Obj.b", "Obj.c"], max_orders=1500)
            cases.extend(_chunked(deep, 120))
    return cases


# ------------------------------------------------------------------ verdict helpers
def nontrivial(case, obs):
    if case["kind"] != "exec":
        return True
    return _count_nodes(build_tree(case)) >= 2


def canonical(case):
    c = dict(case)
    c.pop("seed", None)
    return json.dumps(c, sort_keys=True)


DEEP_DOC = "{" + "a{" * 1500 + "a" + "}" * 1501
KF_DEEP = "deep-nesting-recursion-leaves-query-open"


def _is_deep_recursion_finding(case, obs):
    """exactly C01's open finding `deep-nesting-recursion` seen from C16: parse() of a deeply nested
    document raises RecursionError, which escapes the entry point from the parsing stage: every stage that
    was opened is closed again except the query stage (Q+.. P+.. P-.. and nothing else). Anything else
    -- an end hook out of order, another stage left open, another exception -- is not this finding."""
    if case["kind"] != "deep":
        return False
    k = case["k"]
    expected = ([["Q+", i] for i in range(k)] + [["P+", i] for i in range(k)]
                + [["P-", i] for i in reversed(range(k))])
    runs = obs.get("runs", [])
    return bool(runs) and all(r.get("crashed") == "RecursionError" and r["events"] == expected for r in runs)


def classify(case, obs):
    if _is_deep_recursion_finding(case, obs):
        return "query-stage-closed-when-parsing-fails (deep nesting, %s)" % case["config"], KF_DEEP
    crashed = [r["crashed"] for r in obs.get("runs", []) if r.get("crashed")]
    if crashed:
        return "request-completes (%s, %s): %s" % (case["kind"], case["config"], crashed[0]), None
    if case["kind"] != "exec":
        return "stage-hooks-pair-and-nest (%s, %s)" % (case["kind"], case["config"]), None
    return "field-hooks-and-middlewares-exactly-once-nested (%s)" % case["config"], None


def shrink(case, is_bad):
    cur = case
    tries = 0

    def attempt(cand):
        nonlocal cur, tries
        if tries >= 14:
            return False
        tries += 1
        try:
            if is_bad(cand):
                cur = cand
                return True
        except Exception:  # noqa
            pass
        return False

    if cur["n"] > 0:
        attempt(dict(cur, n=0))
    if cur["k"] > 1 or cur["stacking"] != "plain":
        attempt(dict(cur, k=1, stacking="plain"))
    if cur["kind"] == "exec":
        i = 0
        while i < len(cur["sel"]) and len(cur["sel"]) > 1:
            if not attempt(dict(cur, sel=cur["sel"][:i] + cur["sel"][i + 1:])):
                i += 1
        for key in list(cur.get("world", {})):
            w = dict(cur["world"])
            del w[key]
            attempt(dict(cur, world=w))
    return cur


def _machine_replay(cases, obss):
    """second Coq pass: the C08/C09 executor machine run under each recorded
    schedule, decorated with the field hooks, against the recorded events"""
    from .. import common
    idx = [i for i, c in enumerate(cases) if (machine_applies(c) or has_lists(c)) and "runs" in obss[i]]
    if not idx:
        return {"cases": 0}
    cap = 60 if len(cases) > 1500 else 25    # runs replayed per case (every case is replayed; long run lists are truncated)
    terms = [to_coq(cases[i], dict(obss[i], runs=obss[i]["runs"][:cap])) for i in idx]
    bad, problems = common.run_cases(PROP + "m", RUN_MODULE, "machine_agree_C16", terms,
                                     shard=SHARD, case_type=CASE_TYPE)
    out = {"cases": len(idx), "runs": sum(min(cap, len(obss[i]["runs"])) for i in idx),
           "by_config": {cfg: sum(1 for i in idx if cases[i]["config"] == cfg) for cfg in CONFIGS},
           "machine_replayed_cases": sum(1 for i in idx if machine_applies(cases[i])),
           "completion_model_cases": sum(1 for i in idx if has_lists(cases[i])),
           "mismatching_cases": len(bad), "evaluation_problems": problems[:3]}
    if bad:
        out["first_mismatch"] = cases[idx[bad[0]]]
    return out


def extra_evidence(cases, obss):
    by = {}
    orders = {"exhaustive_cases": 0, "sampled_cases": 0, "runs": 0, "distinct_traces": 0, "max_runs_in_a_case": 0}
    outcomes = {}
    for c, o in zip(cases, obss):
        by[c["config"] + "/" + c["kind"]] = by.get(c["config"] + "/" + c["kind"], 0) + 1
        oc = oclass(c)
        outcomes[oc] = outcomes.get(oc, 0) + 1
        if c["config"] in DEFERRED_CFG and c["kind"] == "exec":
            orders["exhaustive_cases" if o.get("exhaustive") else "sampled_cases"] += 1
        orders["runs"] += o.get("n_runs", 0)
        orders["distinct_traces"] += len(o.get("runs", []))
        orders["max_runs_in_a_case"] = max(orders["max_runs_in_a_case"], o.get("n_runs", 0))
    return {"machine_model_agreement": _machine_replay(cases, obss), "distribution": {
        "cases_by_config_and_kind": by, "outcome_classes": outcomes, "completion_orders": orders,
        "as_ast": sum(1 for c in cases if not c["as_text"]),
        "stacking": {s: sum(1 for c in cases if c["stacking"] == s) for s in ("plain", "multi", "tracer", "nested") + STACKINGS_EQ},
        "middlewares": {str(n): sum(1 for c in cases if c["n"] == n) for n in range(4)},
        "awaiting_middlewares": sum(1 for c in cases if c["config"] == "asyncio" and c.get("mw_async") and c["n"]),
        "resolver_errors": sum(1 for c in cases if "err" in c.get("world", {}).values()),
        "nulls": sum(1 for c in cases if "null" in c.get("world", {}).values()),
        "argument_errors": sum(1 for c in cases if c.get("novalidate")),
        "mutations": sum(1 for c in cases if c.get("op") == "mutation" and c["kind"] == "exec"),
    }}
