# -*- coding: utf-8 -*-
"""C02 -- parsed trees mirror the source: structure, decoded values and spans."""
import copy
import json
import os

from py_gql.exc import GraphQLSyntaxError
from py_gql.lang import ast as A, parse
from py_gql.lang.parser import parse_type, parse_value

from .. import gen_source as G, ser
from . import c01

PROP = "C02"
THEOREMS = ["C02_block_string", "C02_escapes", "C02_block_body", "C02_numbers_verbatim", "C02_shape_value",
            "C02_shape_type", "C02_shape_document", "C02_shape_document_full",
            "C02_reparse_value", "C02_reparse_type", "C02_reparse_exec_definition", "C02_reparse_definition",
            "C02_reparse_span_definitions", "C02_reparse_subnodes_document",
            "C02_reparse_subnodes_value_type", "C02_utf8_roundtrip", "C02_bytes_like_text", "C02_segment_span_ok",
            "C02_spans_full_proved", "C02_spans_full_value_type", "C02_no_location", "C02_spans_partial"]
AXIOMS_OK = []
RUN_MODULE = "Run.C02run Lang.Parser"
AGREE = "agree_C02"
CASE_TYPE = "case_C02"
SHARD = 150
LEVEL_NOTE = ("Theorems are about the Gallina model Lang/Lexer.v, Lang/BlockString.v, Lang/Parser.v (after "
              "the proposed fixes C02-01/02 and C01-01..07); the model is tied to /repo by comparing, on every "
              "run, the complete tree (every node, every decoded literal, every loc) the implementation "
              "returns with the tree the model computes inside Coq for the same text. The re-parse of "
              "spanned text and the `source` attribute are checked on the implementation side only.")
RULE = ("accepted texts from the grammar-directed generator (executable, SDL and mixed documents, values, "
        "types; all 8 flag triples; random trivia; string pool with every escape, \\u forms, astral and "
        "U+0085/U+2028/U+00A0 characters, block strings with every indentation / blank-line pattern) plus "
        "accepted mutants; non-trivial = the tree has at least 4 nodes or contains a string literal; "
        "distinct = distinct (entry, flags, text, history); history cases first parse other texts and "
        "edit every list of the returned trees in place (append a foreign node / clear), then parse the "
        "case's text: its tree must still be the model's; on every case no list or node object may occur "
        "twice in a tree or be shared with a tree returned by any other parse of the process; entry lex: byte "
        "strings (valid UTF-8 at every length boundary, a table of ill-formed sequences in three contexts, "
        "mutated encodings, random bytes) whose bytes.decode(utf8) result must be the model's")


def case(entry, flags, text, origin):
    return {"entry": entry, "flags": list(flags), "text": text, "origin": origin}


def corpus():
    f0, ts = (False, False, False), (False, True, False)
    out = [
        # row 8: only LF / CR / CRLF terminate block string lines, only space / tab indent
        case("value", f0, '"""a   b\u0085 c\n  d\n  e"""', "corpus:row8"),
        case("value", f0, '"""\n    x     y\n    z\n    w\n"""', "corpus:row8"),
        case("value", f0, '"""\n  a\n  \n  b\n \n"""', "corpus:row8"),
        case("value", f0, '""" \n  a\n　"""', "corpus:row8"),
        case("value", f0, '"""\r\n  a\r  b\n\r\n c\r\n"""', "corpus:row8"),
        case("doc", ts, '"""\n  d1\u0085  d2\n  d3\n"""\ntype T { "f\\u00e9" a: Int }', "corpus:row8"),
        # row 9: source on named operations
        case("doc", f0, "query Q { a }", "corpus:row9"),
        case("doc", f0, "mutation M($a: Int = 1 @d) @e { a }", "corpus:row9"),
        # decoded literals
        case("value", f0, '"\\u00e9\\uD83D\\uDE00\\ud800 \\" \\\\ \\/ \\b\\f\\n\\r\\t \U0001f600"', "corpus:escapes"),
        case("value", f0, '[1e05, 1E+05, -0.0e-00, 0, -0, 12345678901234567890]', "corpus:numbers"),
        case("value", f0, '"""a \\""" b \\n \\u0041 \\\\ """', "corpus:block-escapes"),
        case("doc", (False, True, True),
             'fragment F($x: [Int!]! = [1] @a(b: {c: 2})) on T @z { ...G @q ... on U { a: b(c: [{d: $e}]) } ... { x } }',
             "corpus:kitchen"),
    ]
    # history dimension: a tree returned earlier is edited in place; later parses must not see the edit
    fx = (False, True, True)
    texts = [("doc", f0, "{ a }"), ("doc", f0, "{ a @d b { c @e(x: 1) } ...F ... @i { g } }"),
             ("doc", f0, "query Q @d { a } fragment F on T { b }"),
             ("doc", ts, "type T @d { f: Int @e g(x: Int @h): Int } scalar S enum E { A B @d } input N { x: Int }"),
             ("doc", ts, "schema { query: Q } extend scalar S @d union U directive @d on FIELD"),
             ("doc", fx, "fragment F on T { a @d }"),
             ("value", f0, "[[], {}, [1], {a: []}]"), ("value", f0, "{a: {b: []}}")]
    for how in ("append", "clear"):
        for ea, fa, ta in texts:
            for eb, fb, tb in texts:
                out.append(history_case(eb, fb, tb, [{"entry": ea, "flags": list(fa), "text": ta, "edit": how}],
                                        "history:corpus-" + how))
    return out


def history_case(entry, flags, text, history, origin):
    c = case(entry, flags, text, origin)
    c["history"] = history
    return c


def generate(rng, tier):
    quick = tier == "quick"
    out = []
    n = 330 if quick else 4000
    for i in range(n):
        flags = G.FLAG_TRIPLES[i % 8]
        g = G.Grammar(rng, fv=flags[2], budget=rng.choice([1, 2, 3, 4]))
        k = rng.randrange(10)
        if k < 5:
            dialect = rng.choice(["sdl", "mixed"]) if flags[1] else "exec"
            toks, entry = G.flatten(g.document(dialect)), "doc"
        elif k < 8:
            toks, entry = g.value(rng.random() < 0.3, 3), "value"
        else:
            toks, entry = g.type_(4), "type"
        text = G.render(toks, rng, rng.choice([0, 1, 2, 2, 2]))
        out.append(case(entry, flags, text, "valid:" + entry))
        mt, label = G.mutate_tokens(toks, rng)
        out.append(case(entry, flags, G.render(mt, rng, 2), "mutant:" + label))
        mtext, label = G.mutate_text(text, rng)
        out.append(case(entry, flags, mtext, "mutant:" + label))
    for _ in range(250 if quick else 3000):
        s = G.gen_string(rng)
        out.append(case("value", rng.choice(G.FLAG_TRIPLES), s, "valid:string"))
        ms, label = G.mutate_text(s, rng)
        out.append(case("value", (False, False, False), ms, "mutant:string-" + label))
    for _ in range(40 if quick else 1000):
        out.append(case("value", (False, False, False), G.string_with_break(rng), "mutant:string-linebreak"))
    if not quick:
        for s in G.unicode_escape_shapes():
            out.append(case("value", (False, False, False), s, "enum:unicode-escape"))
        for s in G.number_shapes(4):
            out.append(case("value", (False, False, False), s, "enum:number"))
    # the property quantifies over accepted texts only
    kept = []
    for c in out:
        try:
            _parse(c["entry"], c["flags"], c["text"])
        except GraphQLSyntaxError:
            continue
        except Exception:   # reported by C01; not a tree
            continue
        kept.append(c)
    kept += bytes_cases(rng, quick, kept)
    # history stream: parse A (any entry / flags), edit every list of its tree in place, then parse B
    # (B = A again every third time)
    docs = [c for c in kept if len(c["text"]) < 400 and c["entry"] != "lex"]
    for i in range(120 if quick else 3000):
        if not docs:
            break
        only = [c for c in docs if c["entry"] == "doc"] or docs
        a = rng.choice(only if rng.random() < 0.8 else docs)
        b = rng.choice(only if rng.random() < 0.8 else docs)
        if i % 3 == 0:
            b = a
        steps = [{"entry": a["entry"], "flags": a["flags"], "text": a["text"],
                  "edit": "append" if i % 4 else "clear"}]
        if i % 5 == 0:
            a2 = rng.choice(docs)
            steps.append({"entry": a2["entry"], "flags": a2["flags"], "text": a2["text"], "edit": "append"})
        kept.append(history_case(b["entry"], b["flags"], b["text"], steps, "history:" + b["origin"]))
    return kept


# ---- the decoding step of a bytes source (entry "lex": the text field holds the BYTES, one
# character per byte) ----
BAD_UTF8 = [b"\x80", b"\xbf", b"\xc0\x80", b"\xc1\xbf", b"\xc2", b"\xc2\x20", b"\xe0\x80\x80", b"\xe0\x9f\xbf",
            b"\xe0\xa0", b"\xed\xa0\x80", b"\xed\xbf\xbf", b"\xef\xbf", b"\xf0\x80\x80\x80", b"\xf0\x8f\xbf\xbf",
            b"\xf0\x90\x80", b"\xf4\x90\x80\x80", b"\xf5\x80\x80\x80", b"\xf8\x88\x80\x80\x80", b"\xff", b"\xfe",
            b"\xe2\x28\xa1", b"\xe2\x82\x28", b"\xf0\x28\x8c\xbc", b"\xf0\x90\x28\xbc", b"\xf0\x28\x8c\x28"]
GOOD_UTF8 = ["", "a", "\x7f", "\x80", "\u07ff", "\u0800", "\ud7ff", "\ue000", "\ufeff", "\uffff", "\U00010000",
             "\U0010ffff", "\ufeff{ a }", "é٣中\U0001f600", "\x00\x01"]


def _as_text(b):
    return "".join(chr(x) for x in b)


def bytes_cases(rng, quick, kept):
    f0 = [False, False, False]
    out = []
    for g in GOOD_UTF8:
        out.append(case("lex", f0, _as_text(g.encode("utf8")), "bytes:boundary"))
    for bad in BAD_UTF8:
        for pre, post in ((b"", b""), (b"{ a", b" }"), ("é".encode("utf8"), b"x")):
            out.append(case("lex", f0, _as_text(pre + bad + post), "bytes:invalid"))
    texts = [c["text"] for c in kept if any(ord(ch) > 127 for ch in c["text"])] or ["é"]
    for i in range(60 if quick else 1500):
        try:
            b = bytearray(rng.choice(texts)[:60].encode("utf8"))
        except UnicodeEncodeError:
            continue
        out.append(case("lex", f0, _as_text(b), "bytes:valid"))
        if b:
            k = rng.randrange(4)
            j = rng.randrange(len(b))
            if k == 0:
                b = b[:j]                                     # truncate (maybe inside a sequence)
            elif k == 1:
                b[j] = rng.randrange(256)                     # replace a byte
            elif k == 2:
                del b[j]                                      # delete a byte
            else:
                b[j:j] = bytes([rng.choice([0x80, 0xbf, 0xc0, 0xe0, 0xed, 0xf0, 0xf4, 0xf5, 0xff])])
            out.append(case("lex", f0, _as_text(b), "bytes:mutant"))
    for i in range(40 if quick else 1500):
        out.append(case("lex", f0, _as_text(bytes(rng.randrange(256) for _ in range(rng.randint(1, 6)))),
                        "bytes:random"))
    return out


def _run_bytes(c):
    b = bytes(ord(ch) for ch in c["text"])
    try:
        s = b.decode("utf8")
    except UnicodeDecodeError:
        s = None
    o = {"decoded": s, "node_counts": {}}
    problems = []
    # the library: Lexer(bytes) works on exactly that text, or raises UnicodeDecodeError
    from py_gql.lang.lexer import Lexer
    try:
        lx = Lexer(b)
        if s is None or lx._source != s:
            problems.append(["utf8-bytes", "Lexer(bytes)._source is not bytes.decode('utf8')"])
    except UnicodeDecodeError:
        if s is not None:
            problems.append(["utf8-bytes", "Lexer(bytes) raised UnicodeDecodeError on decodable bytes"])
    except Exception as e:  # noqa
        problems.append(["utf8-bytes", "Lexer(bytes) raised %s" % type(e).__name__])
    if s is not None and s.encode("utf8") != b:
        problems.append(["utf8-bytes", "decoding is not canonical"])
    if problems:
        o["problems"] = problems
    return o


def _kw(flags):
    return {"no_location": flags[0], "allow_type_system": flags[1],
            "experimental_fragment_variables": flags[2]}


def _parse(entry, flags, src):
    f = {"doc": parse, "value": parse_value, "type": parse_type}[entry]
    return f(src, **_kw(flags))


def _ser(entry, node):
    return {"doc": ser.cdoc, "value": ser.cvalue, "type": ser.ctype}[entry](node)


def _nodes(node):
    """every AST node below (and including) node"""
    out, stack = [], [node]
    while stack:
        x = stack.pop()
        if isinstance(x, A.Node):
            out.append(x)
            for s in x.__slots__:
                if s not in ("source", "loc"):
                    stack.append(getattr(x, s))
        elif isinstance(x, (list, tuple)):
            stack.extend(x)
    return out


def _shift(d, by):
    """to_dict() tree with every loc moved by -by"""
    if isinstance(d, dict):
        return {k: ((v[0] - by, v[1] - by) if k == "loc" and v is not None else _shift(v, by))
                for k, v in d.items()}
    if isinstance(d, (list, tuple)):
        return [_shift(x, by) for x in d]
    return d


def _norm(d):
    if isinstance(d, dict):
        return {k: (tuple(v) if k == "loc" and v is not None else _norm(v)) for k, v in d.items()}
    if isinstance(d, (list, tuple)):
        return [_norm(x) for x in d]
    return d


def _walk(tree):
    """(nodes, lists) below tree, as a TREE walk: an object reachable twice is listed twice;
    each with a short path"""
    nodes, lists, stack = [], [], [(tree, type(tree).__name__)]
    while stack:
        x, path = stack.pop()
        if isinstance(x, A.Node):
            nodes.append((x, path))
            for s in x.__slots__:
                if s not in ("source", "loc"):
                    stack.append((getattr(x, s), "%s.%s" % (path if len(path) < 60 else "..." + path[-50:], s)))
        elif isinstance(x, list):
            lists.append((x, path))
            for i, y in enumerate(x):
                stack.append((y, "%s[%d]" % (path, i)))
        elif isinstance(x, tuple):
            for i, y in enumerate(x):
                stack.append((y, "%s[%d]" % (path, i)))
    return nodes, lists


# every list / node object of every tree returned by a parse in this process, kept alive (so ids stay
# unique) with the text it came from
_EARLIER = {}


def _aliasing(tree, text, others):
    """model-free: no list / node object twice in the tree, none shared with `others` (trees of other
    parses of the same case) nor with any tree returned earlier in this process"""
    problems = []
    nodes, lists = _walk(tree)
    seen = {}
    for x, path in lists + nodes:
        kind = "list" if isinstance(x, list) else "node"
        if id(x) in seen:
            problems.append(["fresh-containers", "the same %s object is at %s and at %s of one tree"
                             % (kind, seen[id(x)], path)])
        else:
            seen[id(x)] = path
        if id(x) in _EARLIER and _EARLIER[id(x)][0] is x:
            problems.append(["fresh-containers", "the %s at %s is the object at %s of the tree an earlier "
                             "parse(%r) returned" % (kind, path, _EARLIER[id(x)][2], _EARLIER[id(x)][1][:60])])
    for label, other in others:
        on, ol = _walk(other)
        for y, path in ol + on:
            if id(y) in seen:
                problems.append(["fresh-containers", "the %s at %s is shared with %s of %s"
                                 % ("list" if isinstance(y, list) else "node", seen[id(y)], path, label)])
    for tr in [tree] + [o for _, o in others]:
        n2, l2 = _walk(tr)
        for x, path in l2 + n2:
            _EARLIER.setdefault(id(x), (x, text, path))
    return problems[:2]


_DONOR_TEXT = """
query zz($zz: zz @zz) @zz(zz: [zz], zz: {zz: zz}) { zz @zz ...zz @zz ... @zz { zz } }
fragment zz($zz: zz) on zz @zz { zz(zz: zz) }
schema @zz { query: zz } extend schema @zz { query: zz }
scalar zz @zz extend scalar zz @zz
type zz implements zz @zz { zz(zz: zz @zz): zz @zz } extend type zz implements zz @zz { zz: zz }
interface zz @zz { zz: zz } extend interface zz @zz { zz: zz }
union zz @zz = zz extend union zz @zz = zz
enum zz @zz { zz @zz } extend enum zz @zz { zz }
input zz @zz { zz: zz @zz } extend input zz @zz { zz: zz }
directive @zz(zz: zz) on FIELD
"""
_DONORS = {}


def _donor(node, slot, lst):
    """a foreign element of the right class for the list node.slot (every name in it is zz)"""
    if not _DONORS:
        tree = parse(_DONOR_TEXT, allow_type_system=True, experimental_fragment_variables=True)
        for x, _ in _walk(tree)[0]:
            for s in x.__slots__:
                v = getattr(x, s)
                if s not in ("source", "loc") and isinstance(v, list) and v:
                    _DONORS.setdefault((type(x).__name__, s), v[0])
    d = _DONORS.get((type(node).__name__, slot))
    if d is None and lst:
        d = lst[0]
    return copy.deepcopy(d) if d is not None else None


def _edit_in_place(tree, how):
    """an ordinary in-place edit of every list of a returned tree"""
    n = 0
    for x, _ in _walk(tree)[0]:
        for s in x.__slots__:
            v = getattr(x, s)
            if s in ("source", "loc") or not isinstance(v, list):
                continue
            if how == "clear":
                del v[:]
                n += 1
            else:
                d = _donor(x, s, v)
                if d is not None:
                    v.append(d)
                    n += 1
    return n


def run_impl(c):
    """history cases edit trees in place; if the library shares state between parses such an edit
    would stay in this process and change every later case (and make a replay in a fresh process
    differ).  They therefore run in a forked child each: the edit history of a case is exactly the
    one written in the case."""
    if c["entry"] == "lex":
        return _run_bytes(c)
    if "history" not in c or not hasattr(os, "fork"):
        return _run_case(c)
    r, w = os.pipe()
    pid = os.fork()
    if pid == 0:
        code = 0
        try:
            os.close(r)
            try:
                data = json.dumps(_run_case(c))
            except GraphQLSyntaxError:
                raise
            except BaseException as e:  # noqa
                data = json.dumps({"tree": None, "node_counts": {},
                                   "problems": [["history", "%s: %s" % (type(e).__name__, str(e)[:200])]]})
            with os.fdopen(w, "w") as f:
                f.write(data)
        except BaseException:  # noqa
            code = 1
        finally:
            os._exit(code)
    os.close(w)
    with os.fdopen(r) as f:
        data = f.read()
    os.waitpid(pid, 0)
    if not data:
        return {"tree": None, "node_counts": {}, "problems": [["history", "the child process died"]]}
    return json.loads(data)


def _run_case(c):
    text, flags = c["text"], c["flags"]
    edited = 0
    for step in c.get("history", []):
        try:
            earlier = _parse(step["entry"], step["flags"], step["text"])
        except Exception:  # noqa  (C01's business)
            continue
        edited += _edit_in_place(earlier, step["edit"])
    try:
        tree = _parse(c["entry"], flags, text)
    except GraphQLSyntaxError as e:
        return {"rejected": type(e).__name__}
    problems = []
    try:
        others = [("a second parse of the same text", _parse(c["entry"], flags, text))]
    except Exception as e:  # noqa
        others = []
        problems.append(["history", "a second parse of the same text raised %s" % type(e).__name__])
    problems += _aliasing(tree, text, others)
    nodes = _nodes(tree)
    # every node records the submitted text
    bad_src = sorted({type(x).__name__ for x in nodes if x.source != text})
    if bad_src:
        problems.append(["source-attribute", "node classes without the submitted text as source: %s" % bad_src])
    # spans: inside the text, and the spanned text parses back to an equal node
    counts = {}
    for x in nodes:
        counts[type(x).__name__] = counts.get(type(x).__name__, 0) + 1
        if flags[0]:
            if x.loc is not None:
                problems.append(["no-location", "%s has loc %r" % (type(x).__name__, x.loc)])
            continue
        if x.loc is None or not (0 <= x.loc[0] <= x.loc[1] <= len(text)):
            problems.append(["span-inside-text", "%s has loc %r" % (type(x).__name__, x.loc)])
            continue
        a, b = x.loc
        if isinstance(x, (A.Value, A.Variable)):
            f = parse_value
        elif isinstance(x, A.Type):
            f = parse_type
        elif isinstance(x, A.Definition):
            f = None
        else:
            continue
        try:
            if f is None:
                doc = parse(text[a:b], **_kw(flags))
                again = doc.definitions[0] if len(doc.definitions) == 1 else None
            else:
                again = f(text[a:b], **_kw(flags))
            ok = again is not None and _norm(again.to_dict()) == _norm(_shift(x.to_dict(), a))
        except Exception as e:  # noqa
            ok = False
        if not ok and len(problems) < 5:
            problems.append(["reparse-span", "%s spanning %r does not parse back to an equal node"
                             % (type(x).__name__, text[a:b][:80])])
    try:
        o = {"tree": _ser(c["entry"], tree), "node_counts": counts}
    except Exception as e:  # noqa  (a tree with foreign nodes where the grammar has none)
        o = {"tree": None, "node_counts": counts}
        problems.append(["tree-mirrors-source", "the tree cannot be serialised: %s: %s"
                         % (type(e).__name__, str(e)[:120])])
    if "history" in c:
        o["lists_edited"] = edited
    # UTF-8 bytes give the same tree
    try:
        b = text.encode("utf8")
    except UnicodeEncodeError:
        b = None
    if b is not None:
        try:
            tb = _parse(c["entry"], flags, b)
            problems += _aliasing(tb, text, [("the tree of the str input", tree)])
            if _ser(c["entry"], tb) != o["tree"]:
                problems.append(["utf8-bytes", "tree differs for the UTF-8 encoded text"])
            if any(x.source != text for x in _nodes(tb)):
                problems.append(["source-attribute", "bytes input: source is not the decoded text"])
        except Exception as e:  # noqa
            problems.append(["utf8-bytes", "bytes input raised %s" % type(e).__name__])
    if problems:
        fresh = [p for p in problems if p[0] == "fresh-containers"]
        o["problems"] = fresh[:2] + [p for p in problems if p[0] != "fresh-containers"]
    return o


def to_coq(c, obs):
    src = ser.cstr(c["text"]) if c["text"] else "[]"
    if c["entry"] == "lex":
        o = ("ObsRejected" if obs["decoded"] is None else
             "(ObsValue (VString %s false NL))" % (ser.cstr(obs["decoded"]) if obs["decoded"] else "[]"))
    elif "rejected" in obs or obs.get("tree") is None:
        o = "ObsRejected"
    else:
        o = "(%s %s)" % ({"doc": "ObsDoc", "value": "ObsValue", "type": "ObsType"}[c["entry"]], obs["tree"])
    return "((%s, %s, %s), %s)" % (c01.ENTRIES[c["entry"]], c01.cflags(c["flags"]), src, o)


def show_expr(c, obs):
    src = ser.cstr(c["text"]) if c["text"] else "[]"
    return "model_C02 %s %s %s" % (c01.ENTRIES[c["entry"]], c01.cflags(c["flags"]), src)


def nontrivial(c, obs):
    if c["entry"] == "lex":
        return len(c["text"]) >= 2 and any(ord(ch) > 127 for ch in c["text"])
    if not obs.get("tree"):
        return False
    n = sum(obs["node_counts"].values())
    return n >= 4 or "StringValue" in obs["node_counts"]


def canonical(c):
    return (c["entry"], tuple(c["flags"]), c["text"],
            tuple((h["entry"], tuple(h["flags"]), h["text"], h["edit"]) for h in c.get("history", [])))


def classify(c, obs):
    if c["entry"] == "lex":
        return "utf8-bytes (the decoding of a bytes source differs from the model Lang/Utf8.v)", None
    return "tree-mirrors-source (node kinds, order, decoded literals or spans differ from the model)", None


def direct_checks(c, obs):
    return [("%s: %s" % (k, msg), None) for k, msg in obs.get("problems", [])]


def _history_effect(c):
    """model-free: does the history change the tree returned for the case's text?"""
    return run_impl(c).get("tree") != run_impl(dict(c, history=[])).get("tree")


def shrink(c, is_bad):
    if "history" in c and not _history_effect(c):
        # the failure does not depend on the history
        if is_bad({k: v for k, v in c.items() if k != "history"}):
            c = {k: v for k, v in c.items() if k != "history"}
    elif "history" in c:
        # keep the failure one of the history: every candidate must still return a different tree
        # with the history than without it
        inner = is_bad
        is_bad = lambda k: _history_effect(k) and inner(k)   # noqa: E731
    if "history" in c:
        # shorten the history first, then the texts of the remaining steps, then the text itself
        hist = list(c["history"])
        i = 0
        while i < len(hist) and len(hist) > 1:
            cand = dict(c, history=hist[:i] + hist[i + 1:])
            if is_bad(cand):
                hist = cand["history"]
            else:
                i += 1
        c = dict(c, history=hist)
        for i in range(len(hist)):
            step = hist[i]
            small = c01.shrink({"entry": step["entry"], "text": step["text"]},
                               lambda k: is_bad(dict(c, history=hist[:i] + [dict(step, text=k["text"])]
                                                     + hist[i + 1:])))
            hist = hist[:i] + [dict(step, text=small["text"])] + hist[i + 1:]
            c = dict(c, history=hist)
    return c01.shrink(c, is_bad)


def extra_evidence(cases, obss):
    kinds, origins, entries = {}, {}, {}
    for c, o in zip(cases, obss):
        origins[c["origin"].split("+")[0]] = origins.get(c["origin"].split("+")[0], 0) + 1
        entries[c["entry"]] = entries.get(c["entry"], 0) + 1
        for k, v in o.get("node_counts", {}).items():
            kinds[k] = kinds.get(k, 0) + v
    blocks = sum(1 for c in cases if '"""' in c["text"])
    hist = [(c, o) for c, o in zip(cases, obss) if "history" in c]
    byts = [(c, o) for c, o in zip(cases, obss) if c["entry"] == "lex"]
    bytes_ev = {"cases": len(byts), "decodable": sum(1 for _, o in byts if o.get("decoded") is not None),
                "undecodable": sum(1 for _, o in byts if o.get("decoded") is None)}
    return {"bytes_decoding": bytes_ev, "history": {"cases": len(hist), "lists_edited_in_place": sum(o.get("lists_edited", 0) for _, o in hist),
                        "same_text_parsed_again": sum(1 for c, _ in hist
                                                      if any(h["text"] == c["text"] for h in c["history"])),
                        "objects_kept_alive_for_the_sharing_check": len(_EARLIER)},
            "distribution": {"node_kinds": kinds, "origins": origins, "entries": entries,
                             "texts_with_block_strings": blocks,
                             "texts_with_escapes": sum(1 for c in cases if "\\" in c["text"]),
                             "no_location_cases": sum(1 for c in cases if c["flags"][0]),
                             "non_ascii_texts": sum(1 for c in cases if any(ord(ch) > 127 for ch in c["text"]))}}
