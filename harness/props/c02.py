# -*- coding: utf-8 -*-
"""C02 -- parsed trees mirror the source: structure, decoded values and spans."""
from py_gql.exc import GraphQLSyntaxError
from py_gql.lang import ast as A, parse
from py_gql.lang.parser import parse_type, parse_value

from .. import gen_source as G, ser
from . import c01

PROP = "C02"
THEOREMS = ["C02_block_string", "C02_escapes", "C02_block_body", "C02_numbers_verbatim", "C02_shape_value",
            "C02_shape_type", "C02_shape_document", "C02_shape_document_full",
            "C02_reparse_value", "C02_reparse_type", "C02_reparse_exec_definition", "C02_segment_span_ok",
            "C02_spans_full_proved", "C02_spans_full_value_type", "C02_no_location", "C02_spans_partial"]
AXIOMS_OK = []
RUN_MODULE = "Run.C02run Lang.Parser"
AGREE = "agree_C02"
CASE_TYPE = "case_C02"
SHARD = 150
LEVEL_NOTE = ("Theorems are about the Gallina model Lang/Lexer.v, Lang/BlockString.v, Lang/Parser.v (after "
              "the proposed fixes C02-01/02 and C01-01..07); the model is tied to /repo by comparing, on every "
              "run, the complete tree (every node, every decoded literal, every loc) the implementation "
              "returns with the tree the model computes inside Coq for the same text. The re-parse of "
              "spanned text and the `source` attribute are checked on the implementation side only.")
RULE = ("accepted texts from the grammar-directed generator (executable, SDL and mixed documents, values, "
        "types; all 8 flag triples; random trivia; string pool with every escape, \\u forms, astral and "
        "U+0085/U+2028/U+00A0 characters, block strings with every indentation / blank-line pattern) plus "
        "accepted mutants; non-trivial = the tree has at least 4 nodes or contains a string literal; "
        "distinct = distinct (entry, flags, text)")


def case(entry, flags, text, origin):
    return {"entry": entry, "flags": list(flags), "text": text, "origin": origin}


def corpus():
    f0, ts = (False, False, False), (False, True, False)
    out = [
        # row 8: only LF / CR / CRLF terminate block string lines, only space / tab indent
        case("value", f0, '"""a   b\u0085 c\n  d\n  e"""', "corpus:row8"),
        case("value", f0, '"""\n    x     y\n    z\n    w\n"""', "corpus:row8"),
        case("value", f0, '"""\n  a\n  \n  b\n \n"""', "corpus:row8"),
        case("value", f0, '""" \n  a\n　"""', "corpus:row8"),
        case("value", f0, '"""\r\n  a\r  b\n\r\n c\r\n"""', "corpus:row8"),
        case("doc", ts, '"""\n  d1\u0085  d2\n  d3\n"""\ntype T { "f\\u00e9" a: Int }', "corpus:row8"),
        # row 9: source on named operations
        case("doc", f0, "query Q { a }", "corpus:row9"),
        case("doc", f0, "mutation M($a: Int = 1 @d) @e { a }", "corpus:row9"),
        # decoded literals
        case("value", f0, '"\\u00e9\\uD83D\\uDE00\\ud800 \\" \\\\ \\/ \\b\\f\\n\\r\\t \U0001f600"', "corpus:escapes"),
        case("value", f0, '[1e05, 1E+05, -0.0e-00, 0, -0, 12345678901234567890]', "corpus:numbers"),
        case("value", f0, '"""a \\""" b \\n \\u0041 \\\\ """', "corpus:block-escapes"),
        case("doc", (False, True, True),
             'fragment F($x: [Int!]! = [1] @a(b: {c: 2})) on T @z { ...G @q ... on U { a: b(c: [{d: $e}]) } ... { x } }',
             "corpus:kitchen"),
    ]
    return out


def generate(rng, tier):
    quick = tier == "quick"
    out = []
    n = 330 if quick else 4000
    for i in range(n):
        flags = G.FLAG_TRIPLES[i % 8]
        g = G.Grammar(rng, fv=flags[2], budget=rng.choice([1, 2, 3, 4]))
        k = rng.randrange(10)
        if k < 5:
            dialect = rng.choice(["sdl", "mixed"]) if flags[1] else "exec"
            toks, entry = G.flatten(g.document(dialect)), "doc"
        elif k < 8:
            toks, entry = g.value(rng.random() < 0.3, 3), "value"
        else:
            toks, entry = g.type_(4), "type"
        text = G.render(toks, rng, rng.choice([0, 1, 2, 2, 2]))
        out.append(case(entry, flags, text, "valid:" + entry))
        mt, label = G.mutate_tokens(toks, rng)
        out.append(case(entry, flags, G.render(mt, rng, 2), "mutant:" + label))
        mtext, label = G.mutate_text(text, rng)
        out.append(case(entry, flags, mtext, "mutant:" + label))
    for _ in range(250 if quick else 3000):
        s = G.gen_string(rng)
        out.append(case("value", rng.choice(G.FLAG_TRIPLES), s, "valid:string"))
        ms, label = G.mutate_text(s, rng)
        out.append(case("value", (False, False, False), ms, "mutant:string-" + label))
    for _ in range(40 if quick else 1000):
        out.append(case("value", (False, False, False), G.string_with_break(rng), "mutant:string-linebreak"))
    if not quick:
        for s in G.unicode_escape_shapes():
            out.append(case("value", (False, False, False), s, "enum:unicode-escape"))
        for s in G.number_shapes(4):
            out.append(case("value", (False, False, False), s, "enum:number"))
    # the property quantifies over accepted texts only
    kept = []
    for c in out:
        try:
            _parse(c["entry"], c["flags"], c["text"])
        except GraphQLSyntaxError:
            continue
        except Exception:   # reported by C01; not a tree
            continue
        kept.append(c)
    return kept


def _kw(flags):
    return {"no_location": flags[0], "allow_type_system": flags[1],
            "experimental_fragment_variables": flags[2]}


def _parse(entry, flags, src):
    f = {"doc": parse, "value": parse_value, "type": parse_type}[entry]
    return f(src, **_kw(flags))


def _ser(entry, node):
    return {"doc": ser.cdoc, "value": ser.cvalue, "type": ser.ctype}[entry](node)


def _nodes(node):
    """every AST node below (and including) node"""
    out, stack = [], [node]
    while stack:
        x = stack.pop()
        if isinstance(x, A.Node):
            out.append(x)
            for s in x.__slots__:
                if s not in ("source", "loc"):
                    stack.append(getattr(x, s))
        elif isinstance(x, (list, tuple)):
            stack.extend(x)
    return out


def _shift(d, by):
    """to_dict() tree with every loc moved by -by"""
    if isinstance(d, dict):
        return {k: ((v[0] - by, v[1] - by) if k == "loc" and v is not None else _shift(v, by))
                for k, v in d.items()}
    if isinstance(d, (list, tuple)):
        return [_shift(x, by) for x in d]
    return d


def _norm(d):
    if isinstance(d, dict):
        return {k: (tuple(v) if k == "loc" and v is not None else _norm(v)) for k, v in d.items()}
    if isinstance(d, (list, tuple)):
        return [_norm(x) for x in d]
    return d


def run_impl(c):
    text, flags = c["text"], c["flags"]
    try:
        tree = _parse(c["entry"], flags, text)
    except GraphQLSyntaxError as e:
        return {"rejected": type(e).__name__}
    problems = []
    nodes = _nodes(tree)
    # every node records the submitted text
    bad_src = sorted({type(x).__name__ for x in nodes if x.source != text})
    if bad_src:
        problems.append(["source-attribute", "node classes without the submitted text as source: %s" % bad_src])
    # spans: inside the text, and the spanned text parses back to an equal node
    counts = {}
    for x in nodes:
        counts[type(x).__name__] = counts.get(type(x).__name__, 0) + 1
        if flags[0]:
            if x.loc is not None:
                problems.append(["no-location", "%s has loc %r" % (type(x).__name__, x.loc)])
            continue
        if x.loc is None or not (0 <= x.loc[0] <= x.loc[1] <= len(text)):
            problems.append(["span-inside-text", "%s has loc %r" % (type(x).__name__, x.loc)])
            continue
        a, b = x.loc
        if isinstance(x, (A.Value, A.Variable)):
            f = parse_value
        elif isinstance(x, A.Type):
            f = parse_type
        elif isinstance(x, A.Definition):
            f = None
        else:
            continue
        try:
            if f is None:
                doc = parse(text[a:b], **_kw(flags))
                again = doc.definitions[0] if len(doc.definitions) == 1 else None
            else:
                again = f(text[a:b], **_kw(flags))
            ok = again is not None and _norm(again.to_dict()) == _norm(_shift(x.to_dict(), a))
        except Exception as e:  # noqa
            ok = False
        if not ok and len(problems) < 5:
            problems.append(["reparse-span", "%s spanning %r does not parse back to an equal node"
                             % (type(x).__name__, text[a:b][:80])])
    o = {"tree": _ser(c["entry"], tree), "node_counts": counts}
    # UTF-8 bytes give the same tree
    try:
        b = text.encode("utf8")
    except UnicodeEncodeError:
        b = None
    if b is not None:
        try:
            tb = _parse(c["entry"], flags, b)
            if _ser(c["entry"], tb) != o["tree"]:
                problems.append(["utf8-bytes", "tree differs for the UTF-8 encoded text"])
            if any(x.source != text for x in _nodes(tb)):
                problems.append(["source-attribute", "bytes input: source is not the decoded text"])
        except Exception as e:  # noqa
            problems.append(["utf8-bytes", "bytes input raised %s" % type(e).__name__])
    if problems:
        o["problems"] = problems
    return o


def to_coq(c, obs):
    src = ser.cstr(c["text"]) if c["text"] else "[]"
    if "rejected" in obs:
        o = "ObsRejected"
    else:
        o = "(%s %s)" % ({"doc": "ObsDoc", "value": "ObsValue", "type": "ObsType"}[c["entry"]], obs["tree"])
    return "((%s, %s, %s), %s)" % (c01.ENTRIES[c["entry"]], c01.cflags(c["flags"]), src, o)


def show_expr(c, obs):
    src = ser.cstr(c["text"]) if c["text"] else "[]"
    return "model_C02 %s %s %s" % (c01.ENTRIES[c["entry"]], c01.cflags(c["flags"]), src)


def nontrivial(c, obs):
    if "tree" not in obs:
        return False
    n = sum(obs["node_counts"].values())
    return n >= 4 or "StringValue" in obs["node_counts"]


def canonical(c):
    return (c["entry"], tuple(c["flags"]), c["text"])


def classify(c, obs):
    return "tree-mirrors-source (node kinds, order, decoded literals or spans differ from the model)", None


def direct_checks(c, obs):
    return [("%s: %s" % (k, msg), None) for k, msg in obs.get("problems", [])]


shrink = c01.shrink


def extra_evidence(cases, obss):
    kinds, origins, entries = {}, {}, {}
    for c, o in zip(cases, obss):
        origins[c["origin"].split("+")[0]] = origins.get(c["origin"].split("+")[0], 0) + 1
        entries[c["entry"]] = entries.get(c["entry"], 0) + 1
        for k, v in o.get("node_counts", {}).items():
            kinds[k] = kinds.get(k, 0) + v
    blocks = sum(1 for c in cases if '"""' in c["text"])
    return {"distribution": {"node_kinds": kinds, "origins": origins, "entries": entries,
                             "texts_with_block_strings": blocks,
                             "texts_with_escapes": sum(1 for c in cases if "\\" in c["text"]),
                             "no_location_cases": sum(1 for c in cases if c["flags"][0]),
                             "non_ascii_texts": sum(1 for c in cases if any(ord(ch) > 127 for ch in c["text"]))}}
