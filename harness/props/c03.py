# -*- coding: utf-8 -*-
"""C03 -- printing a parsed document and parsing it again is the identity."""
import collections
import copy

from py_gql.exc import GraphQLSyntaxError
from py_gql.lang import ast as A
from py_gql.lang import parse, parse_value
from py_gql.lang.printer import ASTPrinter
from py_gql.lang import printer as _printer_mod

from .. import gen_docs_full as G
from .. import gen_exec, ser

PROP = "C03"
THEOREMS = ["C03_string_quote", "C03_escape3_lex", "C03_block_print", "C03_block_value_canonical",
            "C03_reindent_compose", "C03_print_total", "C03_deterministic",
            "C03_print_ignores_locations", "C03_type_roundtrip", "C03_value_roundtrip",
            "C03_exec_roundtrip", "C03_exec_idempotent", "C03_roundtrip_exec_closed",
            "C03_idempotent_exec_closed", "C03_roundtrip_value_closed", "C03_roundtrip_type_closed",
            "C03_sdl_roundtrip", "C03_roundtrip_document_closed", "C03_idempotent_document_closed",
            "C03_roundtrip_document_total", "C03_forget_fixed", "C03_roundtrip_int_indent", "C03_roundtrip_iff", "C03_idempotent_total", "C03_reparse_stable",
            "C03_block_specs_agree", "C03_descriptions_refuted",
            "C03_roundtrip_full_refuted"]
AXIOMS_OK = []
RUN_MODULE = "Run.C03run Lang.PrinterModel"
AGREE = "agree_C03"
CASE_TYPE = "case_C03"
SHARD = 60
LEVEL_NOTE = ("Theorems are about the Gallina model Lang/PrinterModel.v of lang/printer.py (every "
              "print_* method, _join/_wrap/_indent/_block, _block_string, json-style quoting) and about "
              "the specification's string semantics (Spec/PrinterSpec.v: StringValue escapes, "
              "BlockStringValue). The model is tied to /repo by comparing its text with print_ast's "
              "character for character on every run; the parser side of the round trip is checked with "
              "the implementation's own parser (re-parse equals the original modulo locations, printing "
              "is repeatable, printing the re-parsed tree gives the same text). The composed theorem "
              "parse(print d) = strip d over the parser model is stated (C03_roundtrip_full), not proved.")
RULE = ("documents from harness/gen_docs_full.py (executable + type-system, every node class, string "
        "pool: empty, non-BMP, quotes, backslashes, leading blanks, control characters, block strings "
        "with every indentation / blank-line pattern, trailing backslash, triple quotes inside) and "
        "gen_exec.py; indents 0,1,2,4,8,'\\t' (all six for corpus and thorough, two per document in "
        "quick); include_descriptions on (and off for the text comparison); value nodes from the string "
        "pools printed on their own. non-trivial = the document has a string, a description, a "
        "directive, a nested selection or a type-system definition; distinct = distinct (text, indent, flag)")

INDENTS = [0, 1, 2, 4, 8, "\t"]


def ind_str(i):
    return i if isinstance(i, str) else " " * i


# ------------------------------------------------------------------ helpers
def strip_locs(n):
    if isinstance(n, A.Node):
        for a in n.__slots__:
            if a == "loc":
                n.loc = None
            elif a == "source":
                n.source = None
            else:
                strip_locs(getattr(n, a))
    elif isinstance(n, list):
        for x in n:
            strip_locs(x)
    return n


def drop_member_descriptions(n):
    if isinstance(n, (A.FieldDefinition, A.InputValueDefinition, A.EnumValueDefinition)):
        n.description = None
    if isinstance(n, A.Node):
        for a in n.__slots__:
            if a not in ("loc", "source"):
                drop_member_descriptions(getattr(n, a))
    elif isinstance(n, list):
        for x in n:
            drop_member_descriptions(x)
    return n


def has_member_description(n):
    found = []

    def go(x):
        if isinstance(x, (A.FieldDefinition, A.InputValueDefinition, A.EnumValueDefinition)):
            if x.description is not None:
                found.append(1)
        if isinstance(x, A.Node):
            for a in x.__slots__:
                if a not in ("loc", "source"):
                    go(getattr(x, a))
        elif isinstance(x, list):
            for y in x:
                go(y)
    go(n)
    return bool(found)


def same_tree(a, b):
    """equality modulo locations, through Node.__eq__ and through the Coq serialisation"""
    a, b = strip_locs(copy.deepcopy(a)), strip_locs(copy.deepcopy(b))
    if isinstance(a, A.Document):
        return a == b and ser.cdoc(a) == ser.cdoc(b)
    return a == b and ser.cvalue(a) == ser.cvalue(b)


# ------------------------------------------------------------------ cases
def doc_case(text, indent, incl=True):
    return {"kind": "doc", "text": text, "indent": indent, "incl": incl}


BODYLESS = [
    "type Droid", "type Droid implements I", "type Droid @d", "interface I", "interface I @d", "input In", "input In @d",
    "enum E", "enum E @d", "union U", "union U = A | B", "union U @d", "scalar S", "scalar S @d",
    "directive @d on FIELD", "directive @d(a: Int) on FIELD | QUERY",
    "extend schema @d", "extend type Droid @d", "extend type Droid implements I", "extend interface I @d",
    "extend input In @d", "extend enum E @d", "extend union U @d", "extend union U = A", "extend scalar S @d",
]
# (spelling in leading position, spelling after another definition) of one anonymous query
DUP_QUERIES = [
    ("{ hero { name } }", "query { hero { name } }"),
    ("query { a }", "query { a }"),
    ("{ a(x: 1) @d ... on T { b } }", "query { a(x: 1) @d ... on T { b } }"),
]


HIST_INDENTS = [3, 5, 7, "\t\t"]
HIST_DOCS = [
    '"""a type""" type A implements I @d { a(x: Int = 1): Int } "a scalar" scalar S { a }',
    '"""\n  two\n    lines\n""" interface I { f: [S!]! } "e" enum E { V } """u""" union U = A | B '
    '"i" input In { a: Int = 1 } "dd" directive @d(a: Int) on FIELD query Q { f }',
    'query Q($v: Int = 1) { a(x: $v) @d ... on T { b } }',
]


def hcall(api, text, indent, incl):
    return {"api": api, "text": text, "indent": indent, "incl": incl}


def corpus():
    out = []
    witnesses = [
        '{ a(x: """""") }',                                 # C03-01 empty block string (IndexError)
        '"""""" type A { a: Int }',
        '"" scalar S',
        '{ a(x: "\U0001F600", y: "a\U00010000b") }',       # C03-02 non-BMP characters
        '{ a(x: """ a\\\n""") }',                           # C03-03 single-line block string ending in a backslash
        '""" x\\\n""" type A { a: Int }',
        '"d" type A { a: Int }',                            # C03-04 quoted descriptions
        '"  a\\n  b" scalar S "\\nlead" scalar T "ctl\\u0007" scalar U',
        'type A { "d" a: Int }',                            # member descriptions (known finding)
        'type A { a("d" x: Int): Int } enum E { "d" V } input I { "d" a: Int } directive @x("d" a: Int) on FIELD',
        'type A { a(x: String = """\n  a\n   b\n""", y: Int): Int }',   # multi-line argument definitions
        'fragment F($a: Int = 1 @d) on T @a { a }',
        'query ($a: [Int!]! = [1] @d) @e { a }',
        'subscription { a } mutation M { b }',
        'extend interface I @d query { a } type A { b: Int } { c } enum E query { d } extend schema @d { e }',  # C03-05
        'type A query { a }', 'input I @d { a }', 'union U = A { a } scalar S { b }',
    ]
    for i in INDENTS:
        for t in witnesses + G.KITCHEN:
            out.append(doc_case(t, i))
    for body in G.BLOCK_BODIES:
        for i in (0, 2, "\t"):
            out.append({"kind": "block", "body": body, "indent": i})
            out.append(doc_case('{ f { g(a: """%s""") } } """%s""" type T { h(x: String = """%s"""): Int }'
                                % (body, body, body), i))
    for s in G.PLAIN_STRINGS:
        out.append({"kind": "quoted", "value": s, "indent": 2})
        out.append({"kind": "rawblock", "value": s, "indent": 2})
    # number literals (seeded C03-g): the printer emits the lexed text; -0 is a valid IntValue that is not the
    # text of any Python int; every value position, next to 0; integer literals beyond CPython's 4300-digit
    # int <-> str limit (one or two cases: text is a list of code points on the model side)
    for lit in G.INT_LITERALS + G.FLOAT_LITERALS:
        out.append(doc_case(
            'query Q($v: Int = %(n)s, $w: [Int] = [%(n)s, 0]) @d(a: %(n)s) { f(a: %(n)s, b: [0, %(n)s, [%(n)s]], '
            'c: {k: %(n)s, j: {i: %(n)s}}) @d(x: %(n)s) } type T @d(a: %(n)s) { f(x: Int = %(n)s): Int } '
            'input I { a: Int = %(n)s @d(b: [%(n)s]) } directive @d(a: Int = %(n)s) on FIELD' % {"n": lit}, 2))
        out.append({"kind": "doc", "text": "{ f(a: %s) }" % lit, "indent": "\t", "incl": True})
    for i in INDENTS:
        out.append(doc_case("{ f(a: -0, b: [-0, 0, -0.0]) }", i))
    for digits in (4301, 5000):
        out.append(doc_case("{ f(a: %s, b: -%s) }" % ("7" * digits, "1" + "0" * digits), 2))
    # histories (seeded C03-f): printing is a pure function of (indent, include_descriptions, doc), so a
    # sequence of print_ast / ASTPrinter calls in one process must give the model's text call by call.
    # Each history uses one indent with BOTH flag values on documents that carry definition-level
    # descriptions: whichever call of the process came first, a printer that remembers a flag per indent
    # gets the other one wrong.  Unusual indents (3, 5, 7, two tabs) are used by histories only.
    for ind in HIST_INDENTS + [0, 2, 4, "\t"]:
        for first in (False, True):
            d1, d2 = HIST_DOCS[0], HIST_DOCS[1]
            out.append({"kind": "history", "calls": [
                hcall("print_ast", d1, ind, first), hcall("print_ast", d1, ind, not first),
                hcall("print_ast", d2, ind, not first), hcall("ASTPrinter", d1, ind, first),
                hcall("print_ast", d2, ind, first), hcall("ASTPrinter", d2, ind, not first)]})
    out.append({"kind": "history", "calls": [hcall("print_ast_default", d, 2, True) for d in HIST_DOCS]
                + [hcall("print_ast", HIST_DOCS[0], 2, False), hcall("print_ast_default", HIST_DOCS[0], 2, True)]})
    # duplicate-definition family (seeded C03-e): the same anonymous query / the same definition at
    # several positions, after body-less type-system definitions and extensions of every kind
    for b in BODYLESS:
        for q in DUP_QUERIES:
            s0, s1 = q
            for shape in ("%(s0)s %(b)s %(s1)s", "%(s0)s %(b)s %(s1)s %(b)s %(s1)s", "%(b)s %(s1)s %(b)s %(s1)s",
                          "%(s0)s %(s1)s %(b)s %(s1)s", "%(b)s %(b)s %(s1)s"):
                out.append(doc_case(shape % {"s0": s0, "s1": s1, "b": b}, 2))
    for d in ("fragment F on T { a }", "query Q { a }", "mutation { m }", "subscription S { s }", "type A { a: Int }"):
        for b in BODYLESS[:4]:
            out.append(doc_case("%s %s %s { z } %s" % (d, b, d, b), 0))
    # compositional pool (seeded C03-d): every pair of character classes in one string, as a quoted
    # value / default / directive argument, as a quoted description, and (where legal) in a block string
    for a, b, s in G.pairwise_strings():
        q = G._quote(s)
        out.append(doc_case('{ f(x: %s) @d(y: [%s]) } %s scalar S query ($v: String = %s) { g }'
                            % (q, q, q, q), 2))
        out.append({"kind": "quoted", "value": s, "indent": 2})
    for a, b, s in G.pairwise_strings(G.BLOCK_CLASSES):
        body = G.block_body_of(s)
        out.append(doc_case('{ f(x: """%s""") } """%s""" type T { h(x: String = """%s"""): Int }'
                            % (body, body, body), 2))
    return out


def generate(rng, tier):
    cases = []
    n = 260 if tier == "quick" else 2500
    for _ in range(n):
        r = rng.random()
        if r < 0.1:
            text = gen_exec.gen_document(rng)[0]
        else:
            text = G.gen_document(rng, strings=rng.choice(["none", "some", "some"]))
        inds = INDENTS if tier == "thorough" else rng.sample(INDENTS, 2)
        for i in inds:
            cases.append(doc_case(text, i))
        if rng.random() < 0.3:
            cases.append(doc_case(text, rng.choice(INDENTS), incl=False))
    for _ in range(30 if tier == "quick" else 400):
        # random histories: 3-6 calls over 1-2 documents with descriptions, flags and APIs varied
        docs = [rng.choice(HIST_DOCS + G.KITCHEN[:6]), G.gen_document(rng, strings="some")]
        inds = rng.sample(HIST_INDENTS + INDENTS, 2)
        calls = [hcall(rng.choice(["print_ast", "print_ast", "ASTPrinter"]), rng.choice(docs), rng.choice(inds),
                       rng.random() < 0.5) for _ in range(rng.randint(3, 6))]
        i0 = rng.choice(inds)
        calls += [hcall("print_ast", docs[0], i0, False), hcall("print_ast", docs[0], i0, True)]
        rng.shuffle(calls)
        cases.append({"kind": "history", "calls": calls})
    for _ in range(80 if tier == "quick" else 1500):
        s1 = G.random_string(rng)
        q = G._quote(s1)
        body = G.block_body_of(G.random_string(rng, G.BLOCK_CLASSES))
        cases.append(doc_case('%s type T @d(a: %s) { f(x: String = %s, y: String = """%s"""): Int } { g(z: """%s""") }'
                              % (q, q, q, body, body), rng.choice(INDENTS)))
    for _ in range(60 if tier == "quick" else 600):
        # random strings over a small alphabet that hits every branch of the quoting code
        alpha = ['"', "\\", "\n", " ", "\t", "a", "\U0001F600", "\x01", "\r", "b", '"', "\\"]
        s = "".join(rng.choice(alpha) for _ in range(rng.randint(0, 8)))
        cases.append({"kind": "quoted", "value": s, "indent": rng.choice(INDENTS)})
        cases.append({"kind": "rawblock", "value": s.replace("\r", ""), "indent": rng.choice(INDENTS)})
        body = "".join(rng.choice(['"', "\\", "\n", " ", " ", "\t", "a", "b", "\n"]) for _ in range(rng.randint(0, 12)))
        if not body.endswith('"') and not body.endswith("\\") :
            cases.append({"kind": "block", "body": body, "indent": rng.choice(INDENTS)})
    return cases


# ------------------------------------------------------------------ implementation driver
def _value_node(case):
    k = case["kind"]
    if k == "block":
        return parse_value('"""%s"""' % case["body"])
    if k == "quoted":
        return A.StringValue(value=case["value"], block=False)
    return A.StringValue(value=case["value"], block=True)


def _run_call(c):
    doc = parse(c["text"], **G.PARSE_KW)
    if c["api"] == "print_ast":
        return _printer_mod.print_ast(doc, indent=c["indent"], include_descriptions=c["incl"])
    if c["api"] == "print_ast_default":
        return _printer_mod.print_ast(doc)
    return ASTPrinter(indent=c["indent"], include_descriptions=c["incl"])(doc)


def run_impl(case):
    k = case["kind"]
    if k == "history":
        texts = []
        for c in case["calls"]:
            try:
                texts.append(_run_call(c))
            except GraphQLSyntaxError:
                return {"rejected": True}
            except Exception as e:  # noqa
                texts.append(None)
        return {"texts": texts}
    if k == "doc":
        try:
            doc = parse(case["text"], **G.PARSE_KW)
        except GraphQLSyntaxError:
            return {"rejected": True}
        pr = ASTPrinter(indent=case["indent"], include_descriptions=case["incl"])
        try:
            text = pr(doc)
        except Exception as e:  # noqa
            return {"raised": type(e).__name__}
        obs = {"text": text, "again": pr(doc) == text}
        # the same source parsed with no_location=True (structurally equal nodes then compare equal):
        # same text as the located tree (= the model's, C03_print_ignores_locations), and it re-parses
        try:
            doc0 = parse(case["text"], no_location=True, **G.PARSE_KW)
            text0 = pr(doc0)
            if text0 == text:
                obs["noloc"] = "same"
            else:
                obs["noloc"] = "different"
                obs["noloc_text"] = text0
                try:
                    parse(text0, **G.PARSE_KW)
                except GraphQLSyntaxError:
                    obs["noloc"] = "different-and-rejected"
        except Exception as e:  # noqa
            obs["noloc"] = "raised:" + type(e).__name__
        if not case["incl"]:
            return obs
        try:
            doc2 = parse(text, **G.PARSE_KW)
        except GraphQLSyntaxError as e:
            obs["reparse"] = "rejected"
            return obs
        if same_tree(doc, doc2):
            obs["reparse"] = "equal"
        elif has_member_description(doc) and same_tree(drop_member_descriptions(copy.deepcopy(doc)), doc2):
            obs["reparse"] = "member-descriptions-lost"
        else:
            obs["reparse"] = "different"
        obs["reprint"] = pr(doc2) == text
        return obs
    node = _value_node(case)
    pr = ASTPrinter(indent=case["indent"])
    try:
        text = pr(node)
    except Exception as e:  # noqa
        return {"raised": type(e).__name__}
    obs = {"text": text, "again": pr(node) == text}
    if k == "rawblock":
        return obs   # arbitrary content marked block: only the text is compared (not parser-produced)
    try:
        back = parse_value(text)
    except GraphQLSyntaxError:
        obs["reparse"] = "rejected"
        return obs
    obs["reparse"] = "equal" if same_tree(node, back) else "different"
    obs["reprint"] = pr(back) == text
    return obs


def _cind(i):
    return ser.cstr(ind_str(i)) if ind_str(i) else "[]"


def _cin(case):
    if case["kind"] == "history":
        return "(CHist [%s])" % "; ".join(
            "(%s, %s, %s)" % (ser.cdoc(parse(c["text"], **G.PARSE_KW)), _cind(c["indent"]), ser.cbool(c["incl"]))
            for c in case["calls"])
    if case["kind"] == "doc":
        doc = parse(case["text"], **G.PARSE_KW)
        return "(CDoc %s %s %s)" % (ser.cdoc(doc), ser.cstr(ind_str(case["indent"])) if ind_str(case["indent"]) else "[]",
                                    ser.cbool(case["incl"]))
    node = _value_node(case)
    return "(CVal %s %s)" % (ser.cvalue(node), ser.cstr(ind_str(case["indent"])) if ind_str(case["indent"]) else "[]")


def to_coq(case, obs):
    if obs.get("rejected"):
        # not a parser-accepted document: nothing to compare; an always-agreeing dummy
        return "(CVal (VNull NL) [], OText (s \"null\"))"
    if case["kind"] == "history":
        return "(%s, OTexts [%s])" % (_cin(case), "; ".join(
            "None" if t is None else "Some %s" % (ser.cstr(t) if t else "[]") for t in obs["texts"]))
    if "raised" in obs:
        return "(%s, ORaised)" % _cin(case)
    return "(%s, OText %s)" % (_cin(case), ser.cstr(obs["text"]) if obs["text"] else "[]")


def show_expr(case, obs):
    if case["kind"] == "history":
        return "model_hist %s" % _cin(case)[len("(CHist "):-1]
    return "model_C03 %s" % _cin(case)


def nontrivial(case, obs):
    if obs.get("rejected"):
        return False
    if case["kind"] != "doc":
        return True
    t = case["text"]
    return any(x in t for x in ('"', "@", "type ", "input ", "enum ", "schema", "...", "{ ", "$"))


def canonical(case):
    import json
    return json.dumps(case, sort_keys=True)


def classify(case, obs):
    return "printed-text-equals-model", None


def direct_checks(case, obs):
    out = []
    if obs.get("rejected"):
        return out
    if "raised" in obs:
        return [("printing-never-raises: %s" % obs["raised"], None)]
    if case["kind"] == "history":
        if any(t is None for t in obs["texts"]):
            out.append(("printing-never-raises", None))
        # model-free: two calls of the history with the same (document, indent, flag) print the same text
        seen = {}
        for c, t in zip(case["calls"], obs["texts"]):
            key = (c["text"], repr(c["indent"] if c["api"] != "print_ast_default" else 2),
                   c["incl"] if c["api"] != "print_ast_default" else True)
            if key in seen and seen[key] != t:
                out.append(("printing-is-a-function-of-its-arguments", None))
                break
            seen.setdefault(key, t)
        return out
    if not obs.get("again", True):
        out.append(("printing-is-deterministic", None))
    nl = obs.get("noloc", "same")
    if nl != "same":
        out.append(("location-free-parse-prints-the-same-text: %s" % nl, None))
    rp = obs.get("reparse")
    if rp == "rejected":
        out.append(("printed-text-is-accepted-by-the-parser", None))
    elif rp == "different":
        out.append(("reparsed-tree-equals-original-modulo-locations", None))
    elif rp == "member-descriptions-lost":
        out.append(("reparsed-tree-equals-original-modulo-locations", "member-descriptions"))
    if rp in ("equal", "member-descriptions-lost") and obs.get("reprint") is False:
        out.append(("printing-the-reparsed-tree-gives-the-same-text", None))
    return out


def shrink(case, is_bad):
    if case["kind"] == "history":
        cs = case["calls"]
        for i in range(len(cs)):
            for j in range(i + 1, len(cs)):
                cand = {"kind": "history", "calls": [cs[i], cs[j]]}
                try:
                    if is_bad(cand):
                        return cand
                except Exception:  # noqa
                    continue
        return case
    if case["kind"] != "doc":
        return case
    try:
        doc = parse(case["text"], **G.PARSE_KW)
    except Exception:  # noqa
        return case
    for d in doc.definitions:
        if d.loc is None:
            continue
        cand = dict(case, text=case["text"][d.loc[0]:d.loc[1]])
        try:
            parse(cand["text"], **G.PARSE_KW)
            if is_bad(cand):
                return cand
        except Exception:  # noqa
            continue
    return case


def extra_evidence(cases, obss):
    kinds = collections.Counter(c["kind"] for c in cases)
    rp = collections.Counter(o.get("reparse", "n/a") for o in obss)
    inds = collections.Counter(repr(c.get("indent")) for c in cases)
    classes = collections.Counter()
    for c in cases[:400]:
        if c["kind"] == "doc":
            try:
                for n in _walk(parse(c["text"], **G.PARSE_KW)):
                    classes[type(n).__name__] += 1
            except Exception:  # noqa
                pass
    return {"distribution": {"case_kinds": dict(kinds), "reparse_outcomes": dict(rp),
                             "indents": dict(inds), "rejected_by_parser": sum(1 for o in obss if o.get("rejected")),
                             "node_classes_seen_first_400": len(classes),
                             "block_strings": sum(1 for c in cases if '"""' in c.get("text", "")),
                             "descriptions_off": sum(1 for c in cases if c.get("incl") is False),
                             "history_calls": sum(len(c["calls"]) for c in cases if c["kind"] == "history")}}


def _walk(node, out=None):
    out = [] if out is None else out
    if isinstance(node, A.Node):
        out.append(node)
        for a in node.__slots__:
            if a not in ("source", "loc"):
                _walk(getattr(node, a), out)
    elif isinstance(node, list):
        for x in node:
            _walk(x, out)
    return out
