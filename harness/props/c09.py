# -*- coding: utf-8 -*-
"""C09 -- top-level mutation fields run strictly one after another in document order."""
import copy
import json

from .. import gen_sched, sched_prog as sp
from . import c08

PROP = "C09"
THEOREMS = ["C09_serial", "C09_serial_pairwise", "C09_continue_after_error", "C09_key_order",
            "C09_query_may_overlap"]
AXIOMS_OK = []
RUN_MODULE = "Exec.RuntimeMachine Exec.RuntimeFutures Spec.SchedSpec Run.C08run Run.C09run"
AGREE = "agree_C09"
CASE_TYPE = "case_C09"
SHARD = 24
LEVEL_NOTE = ("Theorems are about Exec/RuntimeMachine.v, where execute_fields_serially is the continuation chain "
              "(args.pop(0) / cb / _next) the code builds; the trace events are the Invoke (resolver call handed "
              "to the runtime / called) and Finish (its body has run) entries recorded by the test resolvers and "
              "the schedule controller. Tied to /repo by running mutations under every completion order of the "
              "nested deferred calls. For the thread pool `Invoke` is the moment of submission (the earliest the "
              "pool could start the body).")
RULE = ("mutations with 1-4 top-level fields (deferred or immediate) with nested deferred sub-fields / lists, a "
        "ResolverError moved over every top-level position, RuntimeErrors; all 4 configurations, all completion "
        "orders (exhaustive within the tier's bound); three schema layouts (distinct roots; one ObjectType as query "
        "and mutation root; mutation root also the nested object type); resolver attachment per field: explicit function / "
        "coroutine, or default resolver over a dict value, an attribute, a method returning a plain or a deferred value, "
        "with and without a middleware; root (and some nested) selections written "
        "with inline fragments / fragment spreads that select earlier response keys again (expected order = first "
        "occurrence, computed from the document independently of collect_fields); plus queries of the same shapes (overlap must be possible); "
        "non-trivial = a deferred configuration of a mutation with >= 2 top-level fields; distinct = distinct "
        "(program, configuration)")

F = c08.F


def _corpus_programs():
    I = lambda z: ["int", z]  # noqa
    ps = []
    ps.append({"op": "mutation", "fields": [
        F(0, "C", ["obj", [F(1, "C", I(1)), F(2, "C", I(2))]]),
        F(3, "C", ["obj", [F(4, "C", I(4)), F(5, "P", ["err"], sh="i")]]), F(6, "C", I(6))]})
    ps.append({"op": "mutation", "fields": [F(0, "C", ["err"], sh="o"), F(1, "S", I(1)), F(2, "C", ["err"], nn=True, sh="in"),
                                            F(3, "P", I(3), lv=1)]})
    ps.append({"op": "mutation", "fields": [F(0, "S", ["obj", [F(1, "C", I(1), lv=1)]]), F(2, "S", ["obj", [F(3, "C", I(3))]])]})
    ps.append({"op": "mutation", "fields": [F(0, "C", ["list", False, "obj", [["obj", [F(1, "C", I(1))]], ["obj", [F(1, "C", I(2))]]]]),
                                            F(2, "C", I(2))]})
    ps.append({"op": "mutation", "fields": [F(0, "C", ["obj", [F(1, "C", ["exn", 4], sh="i"), F(2, "C", I(2))]]), F(3, "C", I(3))]})
    # schema layouts: one ObjectType as query and mutation root; mutation root also nested type
    ps.append(dict(ps[0], layout="shared"))
    ps.append(dict(ps[1], layout="shared"))
    ps.append(dict(ps[0], layout="mutnested"))
    # a top-level field selected again inside a later fragment spread / inline fragment keeps its
    # (first-occurrence) position
    ps.append(dict(ps[0], render=[["f", 0], ["spread", "Rest", [["f", 3], ["f", 0]]], ["f", 6]]))
    ps.append(dict(ps[1], render=[["f", 0], ["f", 1], ["inline", True, [["f", 2], ["f", 0], ["f", 3], ["f", 1]]]],
                   layout="shared"))
    ps.append(dict(ps[2], render=[["inline", False, [["f", 0]]], ["spread", "A", [["f", 2], ["f", 0]]]]))
    # resolver attachment: a top-level field without explicit resolver whose root-object *method*
    # returns a deferred value, with a custom deferred sub-field; attributes / dict values
    ps.append({"op": "mutation", "fields": [F(0, "D", ["obj", [F(1, "C", I(1)), F(2, "A", I(2))]]), F(3, "C", I(3)),
                                            F(4, "D", I(4), lv=1)]})
    ps.append({"op": "mutation", "fields": [F(0, "V", ["obj", [F(1, "V", I(1)), F(2, "C", I(2))]]), F(3, "V", ["err"], sh="i"),
                                            F(4, "P", I(4))], "mw": True})
    ps.append({"op": "mutation", "fields": [F(0, "D", ["obj", [F(1, "D", ["obj", [F(2, "C", I(2))]])]]), F(3, "S", I(3))],
               "layout": "shared"})
    # the failing resolver raises an application ResolverError subclass with a domain constructor /
    # a shared module-level instance; the later top-level fields still run
    ps.append({"op": "mutation", "fields": [F(0, "C", ["err", 3], sh="i"), F(1, "C", I(1)), F(2, "S", ["err", 5], sh="i"),
                                            F(3, "P", ["err", 5], sh="o"), F(4, "S", ["err", 4], nn=True, sh="in"), F(5, "C", I(5))]})
    ps.append({"op": "mutation", "fields": [F(0, "S", ["obj", [F(1, "C", ["err", 2], sh="i"), F(2, "D", ["err", 3], sh="i")]]),
                                            F(3, "C", I(3))]})
    # a list item that cannot be completed (the union's resolve_type raises) after items with
    # deferred / failing sub-fields: the field fails only once the started items are done, the later
    # top-level field runs afterwards (witness of the defect repaired by /repo 60b475c)
    for pos in (0, 1, 2):
        items = [["obj", [F(1, "C", I(1)), F(2, "C", ["err", 3], sh="i")]], ["obj", [F(1, "C", I(5), lv=1), F(2, "C", I(6))]]]
        items.insert(pos, ["bad"])
        ps.append({"op": "mutation", "fields": [F(0, "C", ["list", pos == 1, "abs", items], nn=(pos == 2)), F(3, "C", I(3))]})
    ps.append({"op": "mutation", "fields": [F(0, "S", ["obj", [F(1, "D", ["list", True, "abs", [["obj", [F(2, "C", I(2))]], ["bad"]]])]]),
                                            F(3, "S", I(3)), F(4, "C", ["list", False, "abs", [["bad"]]])]})
    # a list resolved by a generator / lazy iterator that raises a ResolverError after k = 0, 1, 2 items,
    # the yielded items having deferred sub-fields (witness of the defect repaired by /repo 75abc69)
    for k in (0, 1, 2):
        items = [["obj", [F(1, "C", I(1)), F(2, "C", ["err", 3], sh="i")]], ["obj", [F(1, "C", I(5), lv=1), F(2, "C", I(6))]]]
        items.insert(k, ["raise", k % 2])
        ps.append({"op": "mutation", "fields": [F(0, "C" if k else "S", ["list", k == 1, "obj", items], nn=(k == 2)), F(3, "C", I(3))]})
    # meta fields selected at the mutation root of a wide operation, with introspection disabled
    # (they are left out; the eight other fields keep their document order) and enabled
    wide = [F(k, "C" if k in (2, 5) else ("S", "P", "A", "S")[k % 4], I(k + 1)) for k in range(8)]
    ps.append({"op": "mutation", "fields": wide, "meta": [[3, "__typename"]], "nointro": True})
    ps.append({"op": "mutation", "fields": wide, "meta": [[0, "__typename"]], "nointro": True, "layout": "shared"})
    ps.append({"op": "mutation", "fields": wide, "meta": [[8, "__typename"]], "nointro": False})
    return ps


def _large_programs():
    """ "1..n top-level fields" for large n (witnesses of the defect repaired by /repo 0b6c9fe: the
    generic executor nested one call per synchronously resolved top-level field): 500 aliases of one
    synchronous field; 400 fields alternating synchronous / deferred"""
    I = lambda z: ["int", z]  # noqa
    return [{"op": "mutation", "fields": [F(k, "S", I(k % 7)) for k in range(500)]},
            {"op": "mutation", "fields": [F(k, "S" if k % 2 == 0 else ("C" if k % 4 == 1 else "P"), I(k % 5)) for k in range(400)]}]


LAYOUT_CYCLE = ["distinct", "shared", "mutnested", "shared"]


def corpus():
    out = []
    for i, p in enumerate(_corpus_programs()):
        out.extend(c08._cases_for(p, c08.CORPUS_ORDERS[0], c08.CORPUS_ORDERS[1], i))
    for i, p in enumerate(_large_programs()):   # no eager exploration here: 2^200 subsets
        out.extend(c08._cases_for(p, 4, 2, 100 + i, configs=("bexec", "brt", "aio", "aiot", "pool", "prom")))
    return out


def _with_error_at(prog, i):
    """the i-th top-level field fails with a ResolverError (its type is kept)"""
    p = copy.deepcopy(prog)
    f = p["fields"][i]
    f["sh"] = sp.shape_of(f)
    f["b"] = ["err", (i * 2 + 3) % sp.N_ERR_VARIANTS]
    return p


def generate(rng, tier):
    global SHARD
    quick = tier == "quick"
    SHARD = 8
    limit, samples = (120, 12) if quick else (5040, 200)
    cases = [c for c in c08.nested_cases(rng, quick) if c["nested"]["op"] == "mutation"]
    for i, p in enumerate(c08.eager_programs(quick, op="mutation")):
        if i % (3 if quick else 2) == 0:
            p["layout"] = LAYOUT_CYCLE[i % 4]
            cases.extend(c08._cases_for(p, limit, samples, rng.randrange(1 << 30), configs=("poole", "poolh")))
    n_mut, n_q = (30, 6) if quick else (110, 20)
    for j in range(n_mut + n_q):
        op = "mutation" if j < n_mut else "query"
        ntop = 1 + j % 4
        hi = (8 if quick else 10) if op == "mutation" else (5 if quick else 6)
        p = gen_sched.gen_program(rng, op, 1 if ntop == 1 else min(hi, ntop + 1), hi,
                                  p_exn=0.04 if j % 5 == 0 else 0.0, p_err=0.1,
                                  modes=("S", "P", "C", "C", "C", "D", "D", "A", "V"), top=(ntop, ntop), depth=2)
        p["layout"] = LAYOUT_CYCLE[(j // 4) % 4]
        if ntop >= 2 and j % 2 == 1:
            p = gen_sched.add_render(rng, p)
        if j % 3 == 2:
            gen_sched.add_meta(rng, p)
        progs = [p]
        if op == "mutation" and (j % 2 == 0 or not quick):
            # failures at every position
            for i in (range(ntop) if not quick else [rng.randrange(ntop)]):
                q = _with_error_at(p, i)
                if gen_sched.n_tasks(q, "pool") >= 1:
                    progs.append(q)
        for q in progs:
            cases.extend(c08._cases_for(q, limit, samples, rng.randrange(1 << 30)))
            if not quick and rng.random() < 0.3:
                cases.append({"prog": q, "config": "threads", "limit": 0, "samples": 25, "seed": rng.randrange(1 << 30)})
    cases.extend(meta_cases(rng, quick, "mutation"))
    return cases


def meta_cases(rng, quick, op=None):
    """wide operations (6-10 top-level fields, names of varied hashes) with `__typename` /
    `__schema` selected at the root, with and without disable_introspection. Expected: with the
    option on the meta fields are absent, with it off they carry their well-known values at their
    document position; the other fields run and are reported in document order either way."""
    out = []
    for j in range(8 if quick else 40):
        o = op or ("mutation" if j % 2 == 0 else "query")
        ntop = 6 + j % 5
        p = gen_sched.gen_program(rng, o, 1, 3, p_err=0.1, modes=("S", "S", "P", "P", "A", "V", "C", "D"),
                                  top=(ntop, ntop), depth=1)
        p["layout"] = LAYOUT_CYCLE[j % 4]
        gen_sched.add_meta(rng, p, nointro=(j % 4 != 3))
        out.extend(c08._cases_for(p, 24, 4, rng.randrange(1 << 30),
                                  configs=("bexec", "brt", "aio", "pool", "prom")))
    return out


run_impl = c08.run_impl


def to_coq(case, obs):
    return c08.to_coq(case, obs)


def show_expr(case, obs):
    return "model_C09 %s" % c08.to_coq(case, dict(obs, runs=obs["runs"][:3]))


def nontrivial(case, obs):
    if "nested" in case:
        return True
    return (case["config"] in ("aio", "aiot", "pool", "poole", "poolh", "prom", "threads") and case["prog"]["op"] == "mutation"
            and len(case["prog"]["fields"]) >= 2)


canonical = c08.canonical


def _doc_fields(prog):
    """top-level fields in the document's first-occurrence order of response keys"""
    return sp.ordered_program(prog)["fields"]


def _serial_violation(prog, events):
    order = {f["k"]: i for i, f in enumerate(_doc_fields(prog))}
    cur = 0
    for _kind, (path, _lvl) in events:
        i = order.get(path[0])
        if i is None or i < cur:
            return True
        cur = i
    return False


def classify(case, obs):
    if "nested" in case:
        return "nested list (model-free)", None
    prog = case["prog"]
    for r in obs["runs"]:
        if prog["op"] == "mutation" and _serial_violation(prog, r.get("events", [])):
            return "later top-level field invoked before the earlier one (and its sub-selection) finished", None
    for r in obs["runs"]:
        if "data" in r and r["data"] is not None:
            keys = [k for k, _v in r["data"]["o"]]
            if keys != [f["k"] for f in _doc_fields(prog)]:
                return "response lists the fields in document order", None
            inv = {tuple(e[1][0]) for e in r["events"] if e[0] == "invoke"}
            if any((f["k"],) not in inv for f in _doc_fields(prog)):
                return "a failed top-level field does not prevent the later ones from running", None
    return c08.classify(case, obs)


def direct_checks(case, obs):
    if "nested" in case:
        return c08.nested_checks(case, obs, _serial_violation)
    out = c08.direct_checks(case, obs)
    prog = case["prog"]
    if prog["op"] == "mutation":
        for r in obs["runs"]:
            if _serial_violation(prog, r.get("events", [])):
                out.append(("later top-level field invoked before the earlier one (and its sub-selection) finished", None))
                break
    return out


shrink = c08.shrink


def extra_evidence(cases, obss):
    ev = c08.extra_evidence(cases, obss)
    pairs = [(c, o) for c, o in zip(cases, obss) if "nested" not in c]
    cases, obss = [c for c, _o in pairs], [o for _c, o in pairs]
    d = ev["distribution"]
    d["mutations_by_top_level_fields"] = {}
    for c in cases:
        if c["prog"]["op"] == "mutation":
            n = str(len(c["prog"]["fields"]))
            d["mutations_by_top_level_fields"][n] = d["mutations_by_top_level_fields"].get(n, 0) + 1
    d["queries_with_overlapping_top_level_subtrees"] = sum(
        1 for c, o in zip(cases, obss) if c["prog"]["op"] == "query"
        and any(_serial_violation(c["prog"], r.get("events", [])) for r in o["runs"]))
    return ev
