# -*- coding: utf-8 -*-
"""C04 -- execution yields the specified result for every valid operation."""
import copy
import gc
import json
import random

from py_gql import graphql_blocking, process_graphql_query
from py_gql.exc import CoercionError, ExecutionError, GraphQLError, ResolverError
from py_gql.execution import Executor
from py_gql.execution.get_operation import get_operation
from py_gql.lang import ast as _ast
from py_gql.lang import parse
from py_gql.utilities import coerce_variable_values
from py_gql.validation import validate_ast

from .. import gen_schema_exec as G
from .. import ser

PROP = "C04"
THEOREMS = [
    "C04_key_order", "C04_keys_first_occurrence", "C04_null_error_bijection",
    "C04_failure_is_local_null", "C04_error_locality", "C04_history_invariant", "C04_history_tables",
    "C04_history",
    "C04_collect_partial", "C04_collect_fuel_adequate", "C04_exec_eq_spec_partial",
    "C04_collect_full_acyclic", "C04_exec_eq_spec_full_acyclic", "C04_exec_terminates",
    "C04_collect_failure_is_local",
    "C04_spec_is_functional", "C04_exec_is_the_spec_result",
    "C04_collect_full_reachable", "C04_reachable_cycle_no_result",
    "C04_exec_terminates_with_C07_coercion", "C04_exec_eq_spec_full_with_C07_coercion",
    "C04_null_error_bijection_with_C07_coercion", "C04_argument_failure_with_C07_coercion",
    "C04_exec_complete", "C04_exec_characterised", "C04_serial_is_parallel",
]
AXIOMS_OK = []
RUN_MODULE = "Run.C04run Exec.ExecModel"
AGREE = "agree_C04"
CASE_TYPE = "case_C04"
SHARD = 25
LEVEL_NOTE = (
    "Theorems are about the Gallina model Exec/ExecModel.v (+ Exec/Collect.v, Schema/SchemaModel.v, "
    "Exec/ExecCache.v) of BlockingExecutor / Executor on the blocking runtime; the model is tied to /repo "
    "by evaluating it in Coq on the generated (schema, operation, variables, world) cases the implementation "
    "ran on. Argument and variable coercion (C07) enter as parameters; the correspondence uses the library's "
    "own coerce_variable_values and a reading of coerce_argument_values for scalar/enum arguments.")
RULE = (
    "generated schemas (<= 8 types: objects, interfaces, unions, enums with internal values, custom scalars, "
    "wrappers to depth 3; built in code or from SDL) x valid operations (validate_ast passes; fragments, inline "
    "fragments, aliases, same-key merges, @skip/@include, variables, arguments) x recorded worlds (values, nulls, "
    "lists with null items, ResolverError with extensions, unexpected exceptions) ; three observables per case: "
    "BlockingExecutor, generic Executor on BlockingRuntime, BlockingExecutor after k earlier requests on the same "
    "Schema object; non-trivial = result with a nested object and (an error or a fragment/directive/merge feature); "
    "distinct = distinct (schema, document, variables, world)")

_STATS = {"invalid_discarded": 0, "generated": 0}

# a runaway implementation (or model evaluation) must fail inside this check, not take the machine down
try:
    import resource
    _soft, _hard = resource.getrlimit(resource.RLIMIT_AS)
    _want = 10 << 30
    if _hard == resource.RLIM_INFINITY or _hard > _want:
        resource.setrlimit(resource.RLIMIT_AS, (_want, _hard))
except Exception:  # noqa
    pass


# ---------------------------------------------------------------- running
def _classify_error(e):
    if getattr(e, "_c04_user", False):
        return "resolver"
    if isinstance(e, CoercionError):
        return "coercion"
    if type(e) is ResolverError:
        return "nonnull"
    return "other:" + type(e).__name__


def _depth(v):
    d, stack = 0, [(v, 1)]
    while stack:
        x, k = stack.pop()
        if k > 64:
            return k
        d = max(d, k)
        if isinstance(x, dict):
            stack.extend((y, k + 1) for y in x.values())
        elif isinstance(x, (list, tuple)):
            stack.extend((y, k + 1) for y in x)
    return d


def _size(v, cap):
    n, stack = 0, [v]
    while stack and n < cap:
        x = stack.pop()
        n += 1
        if isinstance(x, dict):
            stack.extend(x.values())
        elif isinstance(x, (list, tuple)):
            stack.extend(x)
    return n


def _line_col(source, position):
    """reference for GraphQLLocatedError.to_dict()'s locations, mirroring _string_utils.index_to_loc as
    documented by its doctests: only "\n" starts a new line (a "\r" before it is an ordinary column);
    U+2028 / U+2029 / U+0085 / \v / \f are ordinary characters"""
    before = source[:position]
    return [before.count("\n") + 1, position - (before.rfind("\n") + 1) + 1]


def _core(e):
    return {k: v for k, v in e.items() if k not in ("linecol", "linecol_ref")}


def _observe(fn):
    try:
        res = fn()
    except G.Boom:
        return {"exc": "Boom"}
    except Exception as e:  # noqa
        return {"exc": type(e).__name__, "msg": str(e)[:160]}
    if res.data is not None and not isinstance(res.data, dict):
        # GraphQLResult.data left unset: the pipeline stopped before execution (validation errors on a
        # document that validated when it was generated)
        return {"exc": "NoData", "msg": "; ".join(str(e) for e in res.errors)[:200]}
    if _size(res.data, 60000) >= 60000:
        # far larger than any generated case (generation keeps responses under 20000 nodes): not serialised
        return {"exc": "ResponseTooLarge", "msg": "response has more than 60000 nodes"}
    if _depth(res.data) > 64:
        # deeper than any generated operation can select (and than the model's 64 levels): not serialised
        return {"exc": "ResponseTooDeep", "msg": "response nesting exceeds 64 levels"}
    if res.data is None and res.errors and all(isinstance(e, (ExecutionError, CoercionError)) for e in res.errors):
        # the request was aborted before execution: operation selection, or invalid @skip/@include
        # arguments on the root selection set
        return {"rejected": type(res.errors[0]).__name__}
    errors = []
    for e in res.errors:
        kind = _classify_error(e)
        errors.append({
            "path": list(e.path) if getattr(e, "path", None) is not None else None,
            # an error of a directive's arguments points at the directive; Exec/Collect.v does not track
            # which directive failed, the model leaves the location list of these errors empty
            "locs": [] if (kind == "coercion" and e.nodes and isinstance(e.nodes[0], _ast.Directive))
            else [list(n.loc) if n.loc else None for n in getattr(e, "nodes", [])],
            "kind": kind,
            "msg": e.message if kind == "resolver" else None,
            "ext": (dict(e.extensions) if e.extensions else e.extensions) if kind == "resolver" else None,
            # the locations a client sees (line, column) and what they must be for these nodes
            "linecol": [[loc["line"], loc["column"]] for loc in e.to_dict().get("locations", [])],
            "linecol_ref": [_line_col(n.source, n.loc[0]) for n in getattr(e, "nodes", [])
                            if n.loc and n.source],
        })
    return {"data": res.data, "errors": errors}


def _no_validation(schema, document, variables=None):
    return []


def _request(schema, dispatch, desc, req, doc, executor, rng=None, allow_crash=False, validate=False):
    if rng is not None:
        world = G.World(desc, rng=rng, allow_crash=allow_crash)
    else:
        world = G.World.from_entries(desc, req["world"])
    dispatch.world = world
    kw = dict(variables=copy.deepcopy(req["variables"]), operation_name=req["opname"],
              root=copy.deepcopy(req["root"]))
    if not validate:
        # the document was validated with the specified rules when it was generated; the entry point
        # still runs with its full pipeline, with the (slow) rule visitors replaced by a no-op
        kw["validators"] = [_no_validation]
    if executor == "blocking":
        obs = _observe(lambda: graphql_blocking(schema, doc, **kw))
    else:
        obs = _observe(lambda: process_graphql_query(schema, doc, executor_cls=Executor, **kw))
    return obs, world


def run_impl(case):
    if case.get("kind") == "stream":
        return run_stream(case)
    if case.get("kind") == "rtraise":
        return run_rtraise(case)
    desc = case["schema"]
    main = case["request"]
    obss = []
    coerced = None
    for variant in ("blocking", "generic", "history"):
        dispatch = G.Dispatch()
        schema = G.build_schema(desc, dispatch)
        docs = {}

        def doc_of(text):
            # one Document object per distinct text: earlier requests share AST nodes with later ones
            if text not in docs:
                docs[text] = parse(text)
            return docs[text]

        if variant == "history":
            for h in case["history"]:
                _request(schema, dispatch, desc, h, doc_of(h["text"]), "blocking")
        doc = doc_of(main["text"])
        if coerced is None:
            op = get_operation(doc, main["opname"])
            coerced = coerce_variable_values(schema, op, copy.deepcopy(main["variables"]))
        obs, _ = _request(schema, dispatch, desc, main, doc,
                          "generic" if variant == "generic" else "blocking",
                          validate=(variant == "blocking"))
        obss.append(obs)
    return {"obs": obss, "coerced": coerced}


# ---------------------------------------------------------------- to Coq
_EXC_KIND = {"Boom": 2, "RuntimeError": 3, "UnknownType": 4, "TypeError": 5}


def _cerror(e):
    if e["kind"] == "resolver":
        k = "(EResolver %s %s)" % (ser.cstr(e["msg"]), ser.cpv(e["ext"]))
    elif e["kind"] == "coercion":
        k = "ECoercion"
    elif e["kind"] == "nonnull":
        k = "ENonNull"
    else:
        raise ValueError(e["kind"])
    return "(Err %s %s %s)" % (G.cpath(e["path"] or []), ser.clist(e["locs"], ser.cloc), k)


def _cobs(o):
    if "exc" in o:
        return "(ObsCrash %d)" % _EXC_KIND.get(o["exc"], 0)
    if "rejected" in o:
        return "ObsRejected"
    return "(ObsResult %s %s)" % (ser.cpv(o["data"]), ser.clist(o["errors"], _cerror))


def _cinput(desc, r, coerced):
    doc = parse(r["text"])
    return "(C04In %s %s %s %s %s %s %s)" % (
        G.schema_to_coq(desc), ser.cdoc(doc), ser.copt(r["opname"], ser.cstr),
        ser.cvars(coerced), ser.cpv(r["root"]), G.table_to_coq(r["world"]),
        G.tyres_to_coq(desc))


def to_coq(case, obs):
    if case.get("kind") == "stream":
        return ser.clist(list(zip(case["distinct"], obs["stream"])), lambda ro: "(%s, %s)" % (
            _cinput(case["schema"], ro[0], ro[1]["coerced"]), ser.clist(ro[1]["obs"], _cobs)))
    return "[(%s, %s)]" % (_cinput(case["schema"], case["request"], obs["coerced"]),
                           ser.clist(obs["obs"], _cobs))


def show_expr(case, obs):
    if case.get("kind") == "stream":
        return "map (fun c => model_C04 (fst c)) %s" % to_coq(case, obs)
    return "model_C04 %s" % _cinput(case["schema"], case["request"], obs["coerced"])


# ---------------------------------------------------------------- request streams on one Schema
# Caches that outlive a request (Schema._literal_types_cache, _possible_types) are exercised by one
# long-lived Schema object serving a few hundred *text* requests (parsed per request, documents dropped,
# gc.collect() now and then) that are pairwise same-shaped -- same source offsets -- and differ only in
# type names of equal length (type conditions, fragment types, variable types).
_F = lambda name, t, args=(), resolver=False: {  # noqa: E731
    "name": name, "pyname": name, "type": t, "args": list(args), "resolver": resolver}
_PET_FIELDS = [_F("name", "String"), _F("num", "Int"), _F("tag", "ID")]
STREAM_SCHEMA = {"types": [
    {"kind": "enum", "name": "Hue", "values": [["RED", 1], ["TAN", "t"]]},
    {"kind": "interface", "name": "Pet", "fields": _PET_FIELDS[:2], "resolve_key": None},
    {"kind": "object", "name": "Cat", "fields": _PET_FIELDS, "interfaces": ["Pet"]},
    {"kind": "object", "name": "Dog", "fields": _PET_FIELDS, "interfaces": ["Pet"]},
    {"kind": "object", "name": "Cow", "fields": _PET_FIELDS, "interfaces": ["Pet"]},
    {"kind": "union", "name": "Any", "types": ["Cat", "Dog", "Cow"], "resolve_key": None},
    {"kind": "object", "name": "Query", "interfaces": [], "fields": [
        _F("pets", ["list", "Pet"]), _F("anys", ["list", "Any"]),
        _F("cnt", "Int", [{"name": "a", "pyname": "a", "type": "Int", "default": None}], True),
        _F("hue", "Hue", [{"name": "a", "pyname": "a", "type": "Hue", "default": None}], True)]},
], "query": "Query", "mutation": None, "via": "code"}
_FAMILY = ["Cat", "Dog", "Cow"]
_ABSTRACT = ["Pet", "Any"]
_STREAM_TEMPLATES = [
    "{ pets { __typename ... on %(A)s { tag } name } anys { ... on %(B)s { num } ... on %(C)s { t: __typename } } }",
    "{ anys { ...F ...G } pets { ...G } } fragment F on %(A)s { tag name } fragment G on %(B)s { num t: __typename }",
    "{ pets { ... on %(P)s { n: __typename } ... on %(A)s { ... on %(Q)s { t: __typename } tag } } anys { ... on %(Q)s { ... on %(C)s { num } } } }",
    "query Q($v: %(X)s) { r: %(Y)s(a: $v) anys { ... on %(A)s { tag } } }",
]


_STREAM_CHECK_SCHEMA = []


def gen_stream_case(rng, n_requests):
    if not _STREAM_CHECK_SCHEMA:
        _STREAM_CHECK_SCHEMA.append(G.build_schema(STREAM_SCHEMA, G.Dispatch()))
    pets = lambda: [  # noqa: E731
        None if rng.random() < 0.1 else
        {"__typename__": rng.choice(_FAMILY), "name": rng.choice(["rex", "tom", ""]),
         "num": rng.randint(0, 9), "tag": rng.choice(["t1", 7])} for _ in range(rng.randint(2, 4))]
    root = {"pets": pets(), "anys": pets()}
    distinct = []
    for tpl in rng.sample(_STREAM_TEMPLATES, rng.randint(2, len(_STREAM_TEMPLATES))):
        seen = set()
        for _ in range(rng.randint(2, 4)):
            xy = rng.choice([("Int", "cnt", 5), ("Hue", "hue", "TAN")])
            sub = {"A": rng.choice(_FAMILY), "B": rng.choice(_FAMILY), "C": rng.choice(_FAMILY),
                   "P": rng.choice(_ABSTRACT), "Q": rng.choice(_ABSTRACT), "X": xy[0], "Y": xy[1]}
            text = tpl % sub
            if text in seen:
                continue
            seen.add(text)
            uses_var = "$v" in text
            if not validate_ast(_STREAM_CHECK_SCHEMA[0], parse(text)):
                _STATS["invalid_discarded"] += 1
                continue
            distinct.append({"text": text, "variables": {"v": xy[2]} if uses_var else {},
                             "opname": None, "root": root,
                             "world": [[["r"], ["echo", "a"]]] if uses_var else [],
                             "features": ["stream"]})
    order = [rng.randrange(len(distinct)) for _ in range(n_requests)]
    return {"kind": "stream", "schema": STREAM_SCHEMA, "distinct": distinct, "order": order,
            "gc_every": rng.choice([0, 13, 29])}


def run_stream(case):
    desc = case["schema"]
    fresh, coerced = [], []
    for r in case["distinct"]:
        dispatch = G.Dispatch()
        schema = G.build_schema(desc, dispatch)
        doc = parse(r["text"])
        coerced.append(coerce_variable_values(schema, get_operation(doc, r["opname"]),
                                              copy.deepcopy(r["variables"])))
        obs, _ = _request(schema, dispatch, desc, r, r["text"], "blocking", validate=True)
        fresh.append(obs)
    # the long-lived Schema object
    dispatch = G.Dispatch()
    schema = G.build_schema(desc, dispatch)
    seen = [[o] for o in fresh]
    first_bad, deviations = None, 0
    for j, idx in enumerate(case["order"]):
        r = case["distinct"][idx]
        # text in, document parsed inside the entry point and dropped afterwards
        obs, _ = _request(schema, dispatch, desc, r, r["text"], "blocking", validate=True)
        if obs != fresh[idx]:
            deviations += 1
            if first_bad is None:
                first_bad = j
            if obs not in seen[idx] and len(seen[idx]) < 4:
                seen[idx].append(obs)
        if case.get("gc_every") and j % case["gc_every"] == 0:
            gc.collect()
    return {"stream": [{"coerced": c, "obs": s_} for c, s_ in zip(coerced, seen)],
            "first_bad": first_bad, "deviations": deviations}


# ---------------------------------------------------------------- generation
_ODD = ["\u2028", "\u2029", "\u0085"]


def decorate(rng, text):
    """multi-line layout and comments carrying characters that str.splitlines() treats as line breaks but
    GraphQL (and index_to_loc) does not; string literals are left alone (they get such characters from the
    operation generator)"""
    if rng.random() < 0.45:
        return text
    parts = text.split('"')
    for i in range(0, len(parts), 2):                      # outside string literals
        seg = parts[i]
        out = []
        for ch in seg:
            if ch == " " and rng.random() < 0.12:
                out.append(rng.choice(["\n", "\n  ", "\r\n", "\n\n"]))
            elif ch == "{" and rng.random() < 0.10:
                out.append("{ #c%sc%s\n" % (rng.choice(_ODD), rng.choice(_ODD + ["", " x"])))
            else:
                out.append(ch)
        parts[i] = "".join(out)
    text = '"'.join(parts)
    if rng.random() < 0.5:
        text = "# head%sline%s\n" % (rng.choice(_ODD), rng.choice(_ODD)) + text
    return text


def _gen_request(rng, desc, allow_crash, max_sel=40, tries=12):
    """a valid request with its recorded world, or None"""
    for _ in range(tries):
        text, raw, opname, feats = G.gen_operation(rng, desc, max_sel=max_sel)
        text = decorate(rng, text)
        dispatch = G.Dispatch()
        schema = G.build_schema(desc, dispatch)
        try:
            doc = parse(text)
            ok = bool(validate_ast(schema, doc))
        except GraphQLError:
            ok = False
        except Exception:  # noqa  validation itself crashed (C05's subject, e.g. _same_arguments on variables)
            ok = False
            _STATS["validation_crashed"] = _STATS.get("validation_crashed", 0) + 1
        _STATS["generated"] += 1
        if not ok:
            _STATS["invalid_discarded"] += 1
            continue
        wrng = random.Random(rng.getrandbits(48))
        tmp = G.World(desc, rng=wrng, allow_crash=allow_crash)
        req = {"text": text, "variables": raw, "opname": opname, "root": tmp.root_value(),
               "features": feats}
        world = G.World(desc, rng=wrng, allow_crash=allow_crash, p_error=rng.choice([0.0, 0.08, 0.15, 0.3]))
        dispatch.world = world
        o = _observe(lambda: graphql_blocking(schema, doc, variables=copy.deepcopy(raw), operation_name=opname,
                                              root=copy.deepcopy(req["root"]), validators=[_no_validation]))
        if (o.get("exc") in ("ResponseTooLarge", "ResponseTooDeep") or _size(o.get("data"), 20000) >= 20000
                or len(world.table) > 3000):
            _STATS["too_large_discarded"] = _STATS.get("too_large_discarded", 0) + 1
            continue
        req["world"] = world.entries()
        return req
    return None


def gen_case(rng):
    for _ in range(20):
        desc = G.gen_schema(rng)
        try:
            G.build_schema(desc, G.Dispatch()).validate()
        except GraphQLError:
            _STATS["invalid_discarded"] += 1
            continue
        allow_crash = rng.random() < 0.12
        main = _gen_request(rng, desc, allow_crash)
        if main is None:
            continue
        history = []
        for _h in range(rng.choice([0, 1, 2, 3, 5])):
            if rng.random() < 0.35:
                # same document text (same Document object at run time), other variables / world
                h = dict(main)
                h["variables"] = {k: _other_value(rng, v) for k, v in main["variables"].items()
                                  if rng.random() < 0.9}
                h = _rerecord(rng, desc, h)
            else:
                h = _gen_request(rng, desc, rng.random() < 0.2, max_sel=25)
            if h is not None:
                history.append(h)
        return {"schema": desc, "request": main, "history": history}
    raise RuntimeError("generator could not produce a valid case")


def _other_value(rng, v):
    if isinstance(v, bool):
        return not v if rng.random() < 0.7 else v
    return v


def _rerecord(rng, desc, req):
    dispatch = G.Dispatch()
    schema = G.build_schema(desc, dispatch)
    world = G.World(desc, rng=random.Random(rng.getrandbits(48)), allow_crash=False, p_error=0.15)
    dispatch.world = world
    req = dict(req)
    doc = parse(req["text"])
    _observe(lambda: graphql_blocking(schema, doc, variables=copy.deepcopy(req["variables"]),
                                      operation_name=req["opname"], root=copy.deepcopy(req["root"]),
                                      validators=[_no_validation]))
    if len(world.table) > 3000:
        return None
    req["world"] = world.entries()
    return req


# ---------------------------------------------------------------- argument-dependent resolvers
# "Every deterministic resolver behaviour" includes resolvers whose result depends on the arguments they
# receive. One field node is executed once per runtime object type of an abstract-typed list; every
# implementation declares the field with its own argument defaults and extra defaulted arguments, so the
# coerced arguments differ per runtime type. The resolvers echo their kwargs.
def gen_args_case(rng):
    via = rng.choice(["code", "code", "sdl"])          # python names only exist on the code-built route

    def arg(name, t, default):
        return {"name": name, "pyname": name if (via == "sdl" or rng.random() < 0.7) else "py_" + name, "type": t,
                "default": None if default is None else {"value": default}}
    scale_py = "scale" if (via == "sdl" or rng.random() < 0.7) else "py_scale"
    impls = ["Circle", "Square", "Prism"][:rng.randint(2, 3)]
    fields = {}
    for i, t in enumerate(impls):
        args = [{"name": "scale", "pyname": scale_py, "type": "Int",
                 "default": rng.choice([None, {"value": rng.randint(1, 9) * 10 + i}])}]
        for extra in rng.sample(["tag", "unit", "flag"], rng.randint(0, 2)):
            if extra == "flag":
                args.append(arg(extra, "Boolean", rng.choice([True, False])))
            else:
                args.append(arg(extra, "String", "%s-%s" % (t.lower(), extra)))
        rng.shuffle(args)
        fields[t] = {"name": "label", "pyname": "label", "type": "Any", "args": args, "resolver": True}
    iface_label = {"name": "label", "pyname": "label", "type": "Any", "resolver": False,
                   "args": [{"name": "scale", "pyname": scale_py, "type": "Int",
                             "default": rng.choice([None, {"value": 1}])}]}
    kind = {"name": "kind", "pyname": "kind", "type": "String", "args": [], "resolver": False}
    desc = {"types": [{"kind": "scalar", "name": "Any", "ser": "identity"},
                      {"kind": "interface", "name": "Shape", "fields": [iface_label, kind], "resolve_key": None}]
            + [{"kind": "object", "name": t, "fields": [fields[t], kind], "interfaces": ["Shape"]} for t in impls]
            + [{"kind": "union", "name": "Fig", "types": list(impls), "resolve_key": None},
               {"kind": "object", "name": "Query", "interfaces": [], "fields": [
                   {"name": "shapes", "pyname": "shapes", "type": ["list", "Shape"], "args": [], "resolver": False},
                   {"name": "figs", "pyname": "figs", "type": ["list", "Fig"], "args": [], "resolver": False}]}],
            "query": "Query", "mutation": None, "via": via}
    mode = rng.choice(["omitted", "literal", "variable", "variable-unset", "null"])
    variables, vd = {}, ""
    if mode == "omitted":
        a = ""
    elif mode == "literal":
        a = "(scale: %d)" % rng.randint(-3, 7)
    elif mode == "null":
        a = "(scale: null)"
    else:
        a = "(scale: $v)"
        vd = "($v: Int)" if rng.random() < 0.6 else "($v: Int = 5)"
        if mode == "variable":
            variables = {"v": rng.choice([0, 4, None])}
    text = "query Q%s { shapes { kind label%s } figs { ... on Shape { l2: label%s kind } } }" % (vd, a, a)
    items = lambda: [{"__typename__": rng.choice(impls), "kind": "k%d" % i} for i in range(rng.randint(2, 4))]  # noqa: E731
    root = {"shapes": items(), "figs": items()}
    world = [[["shapes", i, "label"], ["echoall"]] for i in range(len(root["shapes"]))] + \
            [[["figs", i, "l2"], ["echoall"]] for i in range(len(root["figs"]))]
    return {"schema": desc, "history": [], "request": {
        "text": text, "variables": variables, "opname": None, "root": root, "world": world,
        "features": ["echo-args", "echo-args-" + mode]}}


# ---------------------------------------------------------------- resolve_type raising ResolverError
# A user resolve_type that raises the library's error fails the enclosing FIELD (null + one error at the
# field's path and location) after the items completed before it (their errors stay); rows / items after it
# are not started (/repo 60b475c). Exec/ExecModel.v has no "resolve_type raises" outcome (its tyname_res is
# shared with other properties' proofs), so these cases are judged by a metamorphic relation to the run
# WITHOUT the raising items, which IS compared with the model: sibling root fields identical; for a field
# with a raising item: data null, errors = (the control run's errors of that field at positions before
# the raising item) + [the raised error at the field's path with the field's location].
_RT_DESC = {"types": [
    {"kind": "object", "name": "A", "interfaces": [], "fields": [
        {"name": "x", "pyname": "x", "type": ["nn", "Int"], "args": [], "resolver": False},
        {"name": "n", "pyname": "n", "type": "Int", "args": [], "resolver": False}]},
    {"kind": "object", "name": "B", "interfaces": [], "fields": [
        {"name": "y", "pyname": "y", "type": "Int", "args": [], "resolver": False}]},
    {"kind": "union", "name": "U", "types": ["A", "B"], "resolve_key": "t"},
    {"kind": "object", "name": "Query", "interfaces": [], "fields": [
        {"name": "us", "pyname": "us", "type": ["list", "U"], "args": [], "resolver": False},
        {"name": "un", "pyname": "un", "type": ["nn", ["list", ["nn", "U"]]], "args": [], "resolver": False},
        {"name": "uu", "pyname": "uu", "type": ["list", ["list", "U"]], "args": [], "resolver": False},
        {"name": "u", "pyname": "u", "type": "U", "args": [], "resolver": False},
        {"name": "k", "pyname": "k", "type": "Int", "args": [], "resolver": False}]}],
    "query": "Query", "mutation": None, "via": "code"}
_RT_QUERY = ("{ us { ... on A { x n } ... on B { y } } k un { tn: __typename ... on A { x } } "
             "uu { ... on A { x } ... on B { y } } u { __typename ... on A { x } } }")


def gen_rt_case(rng):
    def item():
        if rng.random() < 0.6:
            return {"t": "A", "x": rng.choice([1, 2, None, 7]), "n": rng.choice([None, 3])}
        return {"t": "B", "y": rng.choice([None, 5])}
    items = lambda lo: [item() for _ in range(rng.randint(lo, 4))]  # noqa: E731
    root = {"us": items(1), "un": items(1), "uu": [items(1) for _ in range(rng.randint(1, 3))], "u": item(),
            "k": rng.randint(0, 9)}
    booms = {}
    for f in ("us", "un", "uu", "u"):
        if rng.random() < 0.6:
            if f == "u":
                booms[f] = []
            elif f == "uu":
                i = rng.choice([0, len(root[f]) // 2, len(root[f]) - 1])
                j = rng.choice([0, len(root[f][i]) // 2, len(root[f][i]) - 1])
                booms[f] = [i, j]
            else:
                booms[f] = [rng.choice([0, len(root[f]) // 2, len(root[f]) - 1])]      # first / middle / last
    return {"kind": "rtraise", "schema": _RT_DESC, "history": [], "booms": booms,
            "request": {"text": _RT_QUERY, "variables": {}, "opname": None, "root": root, "world": [],
                        "features": ["resolve-type-raises"]}}


def _with_booms(case):
    root = copy.deepcopy(case["request"]["root"])
    for n, (f, pos) in enumerate(sorted(case["booms"].items())):
        tgt = root[f]
        for i in pos:
            tgt = tgt[i]
        tgt["__boom__"] = n + 1
    return dict(case["request"], root=root)


def run_rtraise(case):
    control = run_impl({"schema": case["schema"], "request": case["request"], "history": []})
    failing = _with_booms(case)
    out = []
    for executor in ("blocking", "generic"):
        dispatch = G.Dispatch()
        schema = G.build_schema(case["schema"], dispatch)
        o, _ = _request(schema, dispatch, case["schema"], failing, parse(failing["text"]), executor)
        out.append(o)
    control["raising"] = out
    return control


def _rt_violations(case, obs):
    """the metamorphic relation between the run with raising resolve_type calls and the control run"""
    ctl = obs["obs"][0]
    bad = []
    if "data" not in ctl:
        return bad
    if obs["raising"][0] != obs["raising"][1]:
        bad.append("blocking and generic executor differ when resolve_type raises")
    got = obs["raising"][0]
    if "data" not in got:
        return bad + ["a ResolverError raised by resolve_type escaped the entry point: %s" % got.get("exc")]
    doc = parse(case["request"]["text"])
    floc = {(s_.alias or s_.name).value: list(s_.loc) for s_ in doc.definitions[0].selection_set.selections}
    for n, (f, pos) in enumerate(sorted(case["booms"].items())):
        before = [_core(e) for e in ctl["errors"]
                  if e["path"][0] == f and tuple(e["path"][1:1 + len(pos)]) < tuple(pos)]
        want = before + [{"path": [f], "locs": [floc[f]], "kind": "resolver",
                          "msg": "cannot resolve type %d" % (n + 1), "ext": {"why": n + 1}}]
        have = [_core(e) for e in got["errors"] if e["path"][0] == f]
        if got["data"].get(f, 0) is not None or have != want:
            bad.append("field %s with a raising resolve_type at %s: data %r, errors %r (expected null and %r)"
                       % (f, pos, got["data"].get(f, "<missing>"), have, want))
    for f in ctl["data"]:
        if f not in case["booms"]:
            if got["data"].get(f, "<missing>") != ctl["data"][f] or \
                    [e for e in got["errors"] if e["path"][0] == f] != [e for e in ctl["errors"] if e["path"][0] == f]:
                bad.append("sibling field %s disturbed" % f)
    if list(got["data"]) != list(ctl["data"]):
        bad.append("key order changed")
    return bad


# ---------------------------------------------------------------- meta fields below the root
# `__schema` / `__type` are only defined on the query root type; documents selecting them elsewhere do not
# validate, so on a correct tree every attempt below is discarded. If validation lets one through, the
# executor meets a field it has no definition for: the case is kept and shows what happens (the model has no
# result for it; an UnboundLocalError out of the entry point is a direct violation).
def gen_meta_attempt(rng):
    desc = G.gen_schema(rng)
    idx = G.type_index(desc)
    comp = [f for f in idx[desc["query"]]["fields"]
            if G.named_of(f["type"]) in idx and idx[G.named_of(f["type"])]["kind"] in ("object", "interface", "union")
            and not any(not isinstance(a["type"], str) and a["default"] is None for a in f["args"])]
    if not comp:
        return None
    f = rng.choice(comp)
    meta = rng.choice(['__schema { queryType { name } }', '__type(name: "Query") { name }',
                       '__schema { types { name } }'])
    text = "{ %s { __typename %s } }" % (f["name"], meta)
    dispatch = G.Dispatch()
    schema = G.build_schema(desc, dispatch)
    try:
        if not validate_ast(schema, parse(text)):
            _STATS["meta_below_root_rejected_by_validation"] = _STATS.get("meta_below_root_rejected_by_validation", 0) + 1
            return None
    except Exception:  # noqa
        return None
    wrng = random.Random(rng.getrandbits(48))
    world = G.World(desc, rng=wrng, allow_crash=False, p_error=0.0)
    req = {"text": text, "variables": {}, "opname": None, "root": world.root_value(), "features": ["meta-below-root"]}
    dispatch.world = world
    _observe(lambda: graphql_blocking(schema, parse(text), root=copy.deepcopy(req["root"]), validators=[_no_validation]))
    req["world"] = world.entries()
    return {"schema": desc, "request": req, "history": []}


def generate(rng, tier):
    n = 260 if tier == "quick" else 3000
    cases = [gen_case(rng) for _ in range(n)]
    # streams of same-shaped text requests on one long-lived Schema (300 requests quick, 3000 thorough)
    for _ in range(2 if tier == "quick" else 10):
        cases.append(gen_stream_case(rng, 150 if tier == "quick" else 300))
    # argument-dependent resolvers on mixed runtime types (40 quick, 400 thorough)
    for _ in range(30 if tier == "quick" else 400):
        cases.append(gen_args_case(rng))
    # user resolve_type raising ResolverError at first / middle / last items (20 quick, 300 thorough)
    for _ in range(20 if tier == "quick" else 300):
        cases.append(gen_rt_case(rng))
    for _ in range(12 if tier == "quick" else 100):
        c = gen_meta_attempt(rng)
        if c is not None:
            cases.append(c)
    return cases


def _load_corpus():
    import os
    d = os.path.join(os.path.dirname(os.path.dirname(os.path.dirname(os.path.abspath(__file__)))),
                     "corpus", "C04")
    out = []
    if os.path.isdir(d):
        for f in sorted(os.listdir(d)):
            if f.endswith(".json"):
                out.append(json.load(open(os.path.join(d, f)))["case"])
    return out


def corpus():
    return _load_corpus()


# ---------------------------------------------------------------- evidence helpers
def _has_nested(v):
    return isinstance(v, dict) and any(isinstance(x, (dict, list)) for x in v.values())


def nontrivial(case, obs):
    if case.get("kind") == "stream":
        return True
    o = obs["obs"][0]
    if "data" not in o or not _has_nested(o["data"]):
        return False
    feats = set(case["request"].get("features", []))
    return bool(o["errors"]) or bool(feats - {"typename", "arg-literal"})


def canonical(case):
    if case.get("kind") == "stream":
        return json.dumps([[r["text"] for r in case["distinct"]], case["order"], case["distinct"][0]["root"]],
                          sort_keys=True, default=str)
    r = case["request"]
    return json.dumps([case["schema"], r["text"], r["variables"], r["world"], r["root"]], sort_keys=True, default=str)


def classify(case, obs):
    if case.get("kind") == "stream":
        if obs.get("first_bad") is not None:
            return "result-independent-of-earlier-requests", None
        return "result-equals-specified-result", None
    o = obs["obs"]
    if o[0] != o[1]:
        return "blocking-and-generic-executor-agree", None
    if o[0] != o[2]:
        return "result-independent-of-earlier-requests", None
    return "result-equals-specified-result", None


def _location_violations(observables):
    out = []
    for o in observables:
        for e in (o.get("errors") or []):
            if e.get("linecol") != e.get("linecol_ref"):
                out.append(("error-location (line, column) of the field: reported %r, the node is at %r (path %r)"
                            % (e.get("linecol"), e.get("linecol_ref"), e.get("path")), None))
                return out
        if o.get("exc") in ("UnboundLocalError", "NameError"):
            out.append(("executor crashed on a document that passed validation: %s" % o.get("msg"), None))
            return out
    return out


def direct_checks(case, obs):
    out = []
    if case.get("kind") == "stream":
        out = _location_violations([x for st in obs["stream"] for x in st["obs"]])
    else:
        out = _location_violations(list(obs["obs"]) + list(obs.get("raising", [])))
    if case.get("kind") == "rtraise":
        out += [("failing-resolve_type-is-local-to-its-field: " + b, None) for b in _rt_violations(case, obs)]
    if case.get("kind") == "stream":
        if obs.get("first_bad") is not None:
            out.append(("result-independent-of-earlier-requests: request #%d of the stream answers differently "
                        "than on a fresh Schema (%d of %d requests differ)"
                        % (obs["first_bad"], obs["deviations"], len(case["order"])), None))
        return out
    o = obs["obs"]
    for x in o:
        if "errors" in x:
            for e in x["errors"]:
                if e["kind"].startswith("other") or e["path"] is None:
                    out.append(("field-error-of-unexpected-class-or-without-path", None))
    if "data" in o[0] and o[0] != o[2]:
        out.append(("result-independent-of-earlier-requests", None))
    return out


def shrink(case, is_bad):
    """single requests: drop the history; streams: keep the prefix up to the first deviating request"""
    cur = case
    if case.get("kind") == "stream":
        try:
            fb = run_stream(case).get("first_bad")
        except Exception:  # noqa
            fb = None
        if fb is not None:
            cand = dict(case, order=case["order"][:fb + 1])
            if run_stream(cand).get("first_bad") is not None:
                cur = cand
        return cur
    if cur["history"]:
        cand = dict(cur, history=[])
        if is_bad(cand):
            cur = cand
    return cur


def extra_evidence(cases, obss):
    feats = {}
    kinds = {}
    crashes = 0
    with_err = 0
    hist = 0
    via = {}
    streams = {"streams": 0, "requests": 0, "distinct_requests": 0, "deviating_requests": 0}
    for c, o in zip(cases, obss):
        if c.get("kind") == "stream":
            streams["streams"] += 1
            streams["requests"] += len(c["order"])
            streams["distinct_requests"] += len(c["distinct"])
            streams["deviating_requests"] += o.get("deviations", 0)
            continue
        for f in c["request"].get("features", []):
            feats[f] = feats.get(f, 0) + 1
        via[c["schema"]["via"]] = via.get(c["schema"]["via"], 0) + 1
        hist += bool(c["history"])
        o0 = o["obs"][0]
        if "exc" in o0:
            crashes += 1
        for e in o0.get("errors", []):
            kinds[e["kind"]] = kinds.get(e["kind"], 0) + 1
        with_err += bool(o0.get("errors"))
    return {"distribution": {
        "operation_features": feats, "error_kinds": kinds, "cases_with_errors": with_err,
        "cases_crashing": crashes, "cases_with_history": hist, "schema_built_via": via,
        "same_schema_text_streams": streams,
        "meta_below_root_rejected_by_validation": _STATS.get("meta_below_root_rejected_by_validation", 0),
        "operations_generated": _STATS["generated"], "invalid_discarded": _STATS["invalid_discarded"]}}
