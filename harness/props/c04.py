# -*- coding: utf-8 -*-
"""C04 -- execution yields the specified result for every valid operation."""
import copy
import json
import random

from py_gql import graphql_blocking, process_graphql_query
from py_gql.exc import CoercionError, ExecutionError, GraphQLError, ResolverError
from py_gql.execution import Executor
from py_gql.execution.get_operation import get_operation
from py_gql.lang import parse
from py_gql.utilities import coerce_variable_values
from py_gql.validation import validate_ast

from .. import gen_schema_exec as G
from .. import ser

PROP = "C04"
THEOREMS = [
    "C04_key_order", "C04_keys_first_occurrence", "C04_null_error_bijection",
    "C04_failure_is_local_null", "C04_error_locality", "C04_history_invariant", "C04_history_tables",
    "C04_history",
    "C04_collect_partial", "C04_collect_fuel_adequate", "C04_exec_eq_spec_partial",
]
AXIOMS_OK = []
RUN_MODULE = "Run.C04run Exec.ExecModel"
AGREE = "agree_C04"
CASE_TYPE = "case_C04"
SHARD = 25
LEVEL_NOTE = (
    "Theorems are about the Gallina model Exec/ExecModel.v (+ Exec/Collect.v, Schema/SchemaModel.v, "
    "Exec/ExecCache.v) of BlockingExecutor / Executor on the blocking runtime; the model is tied to /repo "
    "by evaluating it in Coq on the generated (schema, operation, variables, world) cases the implementation "
    "ran on. Argument and variable coercion (C07) enter as parameters; the correspondence uses the library's "
    "own coerce_variable_values and a reading of coerce_argument_values for scalar/enum arguments.")
RULE = (
    "generated schemas (<= 8 types: objects, interfaces, unions, enums with internal values, custom scalars, "
    "wrappers to depth 3; built in code or from SDL) x valid operations (validate_ast passes; fragments, inline "
    "fragments, aliases, same-key merges, @skip/@include, variables, arguments) x recorded worlds (values, nulls, "
    "lists with null items, ResolverError with extensions, unexpected exceptions) ; three observables per case: "
    "BlockingExecutor, generic Executor on BlockingRuntime, BlockingExecutor after k earlier requests on the same "
    "Schema object; non-trivial = result with a nested object and (an error or a fragment/directive/merge feature); "
    "distinct = distinct (schema, document, variables, world)")

_STATS = {"invalid_discarded": 0, "generated": 0}

# a runaway implementation (or model evaluation) must fail inside this check, not take the machine down
try:
    import resource
    _soft, _hard = resource.getrlimit(resource.RLIMIT_AS)
    _want = 10 << 30
    if _hard == resource.RLIM_INFINITY or _hard > _want:
        resource.setrlimit(resource.RLIMIT_AS, (_want, _hard))
except Exception:  # noqa
    pass


# ---------------------------------------------------------------- running
def _classify_error(e):
    if getattr(e, "_c04_user", False):
        return "resolver"
    if isinstance(e, CoercionError):
        return "coercion"
    if type(e) is ResolverError:
        return "nonnull"
    return "other:" + type(e).__name__


def _depth(v):
    d, stack = 0, [(v, 1)]
    while stack:
        x, k = stack.pop()
        if k > 64:
            return k
        d = max(d, k)
        if isinstance(x, dict):
            stack.extend((y, k + 1) for y in x.values())
        elif isinstance(x, (list, tuple)):
            stack.extend((y, k + 1) for y in x)
    return d


def _size(v, cap):
    n, stack = 0, [v]
    while stack and n < cap:
        x = stack.pop()
        n += 1
        if isinstance(x, dict):
            stack.extend(x.values())
        elif isinstance(x, (list, tuple)):
            stack.extend(x)
    return n


def _observe(fn):
    try:
        res = fn()
    except G.Boom:
        return {"exc": "Boom"}
    except Exception as e:  # noqa
        return {"exc": type(e).__name__, "msg": str(e)[:160]}
    if _size(res.data, 60000) >= 60000:
        # far larger than any generated case (generation keeps responses under 20000 nodes): not serialised
        return {"exc": "ResponseTooLarge", "msg": "response has more than 60000 nodes"}
    if _depth(res.data) > 64:
        # deeper than any generated operation can select (and than the model's 64 levels): not serialised
        return {"exc": "ResponseTooDeep", "msg": "response nesting exceeds 64 levels"}
    if res.data is None and res.errors and all(isinstance(e, ExecutionError) for e in res.errors):
        return {"rejected": type(res.errors[0]).__name__}
    errors = []
    for e in res.errors:
        kind = _classify_error(e)
        errors.append({
            "path": list(e.path) if getattr(e, "path", None) is not None else None,
            "locs": [list(n.loc) if n.loc else None for n in getattr(e, "nodes", [])],
            "kind": kind,
            "msg": e.message if kind == "resolver" else None,
            "ext": (dict(e.extensions) if e.extensions else e.extensions) if kind == "resolver" else None,
        })
    return {"data": res.data, "errors": errors}


def _no_validation(schema, document, variables=None):
    return []


def _request(schema, dispatch, desc, req, doc, executor, rng=None, allow_crash=False, validate=False):
    if rng is not None:
        world = G.World(desc, rng=rng, allow_crash=allow_crash)
    else:
        world = G.World.from_entries(desc, req["world"])
    dispatch.world = world
    kw = dict(variables=copy.deepcopy(req["variables"]), operation_name=req["opname"],
              root=copy.deepcopy(req["root"]))
    if not validate:
        # the document was validated with the specified rules when it was generated; the entry point
        # still runs with its full pipeline, with the (slow) rule visitors replaced by a no-op
        kw["validators"] = [_no_validation]
    if executor == "blocking":
        obs = _observe(lambda: graphql_blocking(schema, doc, **kw))
    else:
        obs = _observe(lambda: process_graphql_query(schema, doc, executor_cls=Executor, **kw))
    return obs, world


def run_impl(case):
    desc = case["schema"]
    main = case["request"]
    obss = []
    coerced = None
    for variant in ("blocking", "generic", "history"):
        dispatch = G.Dispatch()
        schema = G.build_schema(desc, dispatch)
        docs = {}

        def doc_of(text):
            # one Document object per distinct text: earlier requests share AST nodes with later ones
            if text not in docs:
                docs[text] = parse(text)
            return docs[text]

        if variant == "history":
            for h in case["history"]:
                _request(schema, dispatch, desc, h, doc_of(h["text"]), "blocking")
        doc = doc_of(main["text"])
        if coerced is None:
            op = get_operation(doc, main["opname"])
            coerced = coerce_variable_values(schema, op, copy.deepcopy(main["variables"]))
        obs, _ = _request(schema, dispatch, desc, main, doc,
                          "generic" if variant == "generic" else "blocking",
                          validate=(variant == "blocking"))
        obss.append(obs)
    return {"obs": obss, "coerced": coerced}


# ---------------------------------------------------------------- to Coq
_EXC_KIND = {"Boom": 2, "RuntimeError": 3, "UnknownType": 4, "TypeError": 5}


def _cerror(e):
    if e["kind"] == "resolver":
        k = "(EResolver %s %s)" % (ser.cstr(e["msg"]), ser.cpv(e["ext"]))
    elif e["kind"] == "coercion":
        k = "ECoercion"
    elif e["kind"] == "nonnull":
        k = "ENonNull"
    else:
        raise ValueError(e["kind"])
    return "(Err %s %s %s)" % (G.cpath(e["path"] or []), ser.clist(e["locs"], ser.cloc), k)


def _cobs(o):
    if "exc" in o:
        return "(ObsCrash %d)" % _EXC_KIND.get(o["exc"], 0)
    if "rejected" in o:
        return "ObsRejected"
    return "(ObsResult %s %s)" % (ser.cpv(o["data"]), ser.clist(o["errors"], _cerror))


def _cinput(case, coerced):
    r = case["request"]
    doc = parse(r["text"])
    return "(C04In %s %s %s %s %s %s %s)" % (
        G.schema_to_coq(case["schema"]), ser.cdoc(doc), ser.copt(r["opname"], ser.cstr),
        ser.cvars(coerced), ser.cpv(r["root"]), G.table_to_coq(r["world"]),
        G.tyres_to_coq(case["schema"]))


def to_coq(case, obs):
    return "(%s, %s)" % (_cinput(case, obs["coerced"]), ser.clist(obs["obs"], _cobs))


def show_expr(case, obs):
    return "model_C04 %s" % _cinput(case, obs["coerced"])


# ---------------------------------------------------------------- generation
def _gen_request(rng, desc, allow_crash, max_sel=40, tries=12):
    """a valid request with its recorded world, or None"""
    for _ in range(tries):
        text, raw, opname, feats = G.gen_operation(rng, desc, max_sel=max_sel)
        dispatch = G.Dispatch()
        schema = G.build_schema(desc, dispatch)
        try:
            doc = parse(text)
            ok = bool(validate_ast(schema, doc))
        except GraphQLError:
            ok = False
        except Exception:  # noqa  validation itself crashed (C05's subject, e.g. _same_arguments on variables)
            ok = False
            _STATS["validation_crashed"] = _STATS.get("validation_crashed", 0) + 1
        _STATS["generated"] += 1
        if not ok:
            _STATS["invalid_discarded"] += 1
            continue
        wrng = random.Random(rng.getrandbits(48))
        tmp = G.World(desc, rng=wrng, allow_crash=allow_crash)
        req = {"text": text, "variables": raw, "opname": opname, "root": tmp.root_value(),
               "features": feats}
        world = G.World(desc, rng=wrng, allow_crash=allow_crash, p_error=rng.choice([0.0, 0.08, 0.15, 0.3]))
        dispatch.world = world
        o = _observe(lambda: graphql_blocking(schema, doc, variables=copy.deepcopy(raw), operation_name=opname,
                                              root=copy.deepcopy(req["root"]), validators=[_no_validation]))
        if (o.get("exc") in ("ResponseTooLarge", "ResponseTooDeep") or _size(o.get("data"), 20000) >= 20000
                or len(world.table) > 3000):
            _STATS["too_large_discarded"] = _STATS.get("too_large_discarded", 0) + 1
            continue
        req["world"] = world.entries()
        return req
    return None


def gen_case(rng):
    for _ in range(20):
        desc = G.gen_schema(rng)
        try:
            G.build_schema(desc, G.Dispatch()).validate()
        except GraphQLError:
            _STATS["invalid_discarded"] += 1
            continue
        allow_crash = rng.random() < 0.12
        main = _gen_request(rng, desc, allow_crash)
        if main is None:
            continue
        history = []
        for _h in range(rng.choice([0, 1, 2, 3, 5])):
            if rng.random() < 0.35:
                # same document text (same Document object at run time), other variables / world
                h = dict(main)
                h["variables"] = {k: _other_value(rng, v) for k, v in main["variables"].items()
                                  if rng.random() < 0.9}
                h = _rerecord(rng, desc, h)
            else:
                h = _gen_request(rng, desc, rng.random() < 0.2, max_sel=25)
            if h is not None:
                history.append(h)
        return {"schema": desc, "request": main, "history": history}
    raise RuntimeError("generator could not produce a valid case")


def _other_value(rng, v):
    if isinstance(v, bool):
        return not v if rng.random() < 0.7 else v
    return v


def _rerecord(rng, desc, req):
    dispatch = G.Dispatch()
    schema = G.build_schema(desc, dispatch)
    world = G.World(desc, rng=random.Random(rng.getrandbits(48)), allow_crash=False, p_error=0.15)
    dispatch.world = world
    req = dict(req)
    doc = parse(req["text"])
    _observe(lambda: graphql_blocking(schema, doc, variables=copy.deepcopy(req["variables"]),
                                      operation_name=req["opname"], root=copy.deepcopy(req["root"]),
                                      validators=[_no_validation]))
    if len(world.table) > 3000:
        return None
    req["world"] = world.entries()
    return req


def generate(rng, tier):
    n = 300 if tier == "quick" else 3000
    return [gen_case(rng) for _ in range(n)]


def _load_corpus():
    import os
    d = os.path.join(os.path.dirname(os.path.dirname(os.path.dirname(os.path.abspath(__file__)))),
                     "corpus", "C04")
    out = []
    if os.path.isdir(d):
        for f in sorted(os.listdir(d)):
            if f.endswith(".json"):
                out.append(json.load(open(os.path.join(d, f)))["case"])
    return out


def corpus():
    return _load_corpus()


# ---------------------------------------------------------------- evidence helpers
def _has_nested(v):
    return isinstance(v, dict) and any(isinstance(x, (dict, list)) for x in v.values())


def nontrivial(case, obs):
    o = obs["obs"][0]
    if "data" not in o or not _has_nested(o["data"]):
        return False
    feats = set(case["request"].get("features", []))
    return bool(o["errors"]) or bool(feats - {"typename", "arg-literal"})


def canonical(case):
    r = case["request"]
    return json.dumps([case["schema"], r["text"], r["variables"], r["world"], r["root"]], sort_keys=True, default=str)


def classify(case, obs):
    o = obs["obs"]
    if o[0] != o[1]:
        return "blocking-and-generic-executor-agree", None
    if o[0] != o[2]:
        return "result-independent-of-earlier-requests", None
    return "result-equals-specified-result", None


def direct_checks(case, obs):
    out = []
    o = obs["obs"]
    for x in o:
        if "errors" in x:
            for e in x["errors"]:
                if e["kind"].startswith("other") or e["path"] is None:
                    out.append(("field-error-of-unexpected-class-or-without-path", None))
    if "data" in o[0] and o[0] != o[2]:
        out.append(("result-independent-of-earlier-requests", None))
    return out


def shrink(case, is_bad):
    """drop history entries, then world entries, while the disagreement persists"""
    cur = case
    if cur["history"]:
        cand = dict(cur, history=[])
        if is_bad(cand):
            cur = cand
    return cur


def extra_evidence(cases, obss):
    feats = {}
    kinds = {}
    crashes = 0
    with_err = 0
    hist = 0
    via = {}
    for c, o in zip(cases, obss):
        for f in c["request"].get("features", []):
            feats[f] = feats.get(f, 0) + 1
        via[c["schema"]["via"]] = via.get(c["schema"]["via"], 0) + 1
        hist += bool(c["history"])
        o0 = o["obs"][0]
        if "exc" in o0:
            crashes += 1
        for e in o0.get("errors", []):
            kinds[e["kind"]] = kinds.get(e["kind"], 0) + 1
        with_err += bool(o0.get("errors"))
    return {"distribution": {
        "operation_features": feats, "error_kinds": kinds, "cases_with_errors": with_err,
        "cases_crashing": crashes, "cases_with_history": hist, "schema_built_via": via,
        "operations_generated": _STATS["generated"], "invalid_discarded": _STATS["invalid_discarded"]}}
